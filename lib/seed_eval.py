#!/usr/bin/env python3
"""Confirm a seeded breakage and run checks against it.

  seed_eval.py <candidate dir with patch.diff, demo.rs, notes.md> <property id> [more property ids to run ...]
      [--demo-args "<extra cargo args, e.g. --features scalar-math or +nightly>"] [--tier quick]

Steps (all in a scratch worktree of /repo under /tmp, removed afterwards):
  1. the patch applies to the pristine tree and the workspace test suite still passes with it
  2. the demonstration fails with the patch and passes without it
  3. each named check is run against the patched tree (GLAM_SRC=<worktree>), its verdict is recorded
Prints a JSON summary (also written to <candidate dir>/eval.json).
"""
import json, os, re, shutil, subprocess, sys, time

VERIF = os.path.dirname(os.path.dirname(os.path.abspath(__file__)))


def sh(cmd, cwd=None, env=None, timeout=3600):
    r = subprocess.run(cmd, cwd=cwd, env=env, shell=isinstance(cmd, str), stdout=subprocess.PIPE, stderr=subprocess.STDOUT, text=True, timeout=timeout)
    return r.returncode, r.stdout


def main():
    a = sys.argv[1:]
    demo_args = ""
    demo_env = {}
    base = "HEAD"
    tier = "quick"
    pos = []
    i = 0
    while i < len(a):
        if a[i] == "--demo-args":
            demo_args = a[i + 1]; i += 1
        elif a[i] == "--demo-env":
            k, v = a[i + 1].split("=", 1); demo_env[k] = v; i += 1
        elif a[i] == "--base":
            base = a[i + 1]; i += 1
        elif a[i] == "--tier":
            tier = a[i + 1]; i += 1
        else:
            pos.append(a[i])
        i += 1
    cand, pids = os.path.abspath(pos[0]), pos[1:]
    tag = re.sub(r"[^A-Za-z0-9]", "-", cand)[-40:]
    wt = "/tmp/sv-%s" % tag
    work = "/tmp/svw-%s" % tag
    e = dict(os.environ); e["CARGO_NET_OFFLINE"] = "true"
    sh("git -C /repo worktree remove --force %s" % wt)
    shutil.rmtree(wt, ignore_errors=True)
    rc, out = sh("git -C /repo worktree add --detach %s %s" % (wt, base))
    res = {"candidate": cand, "properties": pids, "repo_head": sh("git -C /repo rev-parse --short %s" % base)[1].strip()}
    try:
        rc, out = sh("git apply %s/patch.diff" % cand, cwd=wt)
        res["patch_applies"] = rc == 0
        if rc != 0:
            res["error"] = out[-1500:]
            return res
        res["files_changed"] = sh("git diff --stat -- src | tail -1", cwd=wt)[1].strip()
        # 1. suite with the change
        rc, out = sh("cargo test --offline --workspace --no-fail-fast 2>&1 | grep -E '^test result|FAILED|error(\\[|:)' | sort | uniq -c | sort -rn | head -12", cwd=wt, env=e)
        res["suite_with_change"] = "pass" if ("FAILED" not in out and "error" not in out and "test result: ok" in out) else "FAIL"
        res["suite_output"] = out[-800:]
        # 2. demo with / without
        shutil.copy(os.path.join(cand, "demo.rs"), os.path.join(wt, "tests", "seed_demo.rs"))
        tool = ""
        dargs = demo_args
        if "+nightly" in dargs:
            tool = "+nightly"
            dargs = dargs.replace("+nightly", "").strip()
        cmd = "cargo %s test --offline --test seed_demo %s 2>&1 | tail -25" % (tool, dargs)
        ed = dict(e); ed.update(demo_env)
        rc, out = sh(cmd, cwd=wt, env=ed)
        res["demo_with_change"] = "fails" if ("FAILED" in out or "panicked" in out or "error: test failed" in out) else ("passes" if "test result: ok" in out else "unclear")
        res["demo_output_with"] = out[-1200:]
        sh("git checkout -- src", cwd=wt)
        rc, out = sh(cmd, cwd=wt, env=ed)
        res["demo_without_change"] = "passes" if ("test result: ok" in out and "FAILED" not in out) else "fails"
        if res["demo_without_change"] != "passes":
            res["demo_output_without"] = out[-1200:]
        os.remove(os.path.join(wt, "tests", "seed_demo.rs"))
        sh("git apply %s/patch.diff" % cand, cwd=wt)
        shutil.rmtree(os.path.join(wt, "target"), ignore_errors=True)
        # 3. the checks
        res["checks"] = {}
        for pid in pids:
            e2 = dict(e); e2["GLAM_SRC"] = wt; e2["VERIF_WORK"] = work
            t0 = time.time()
            rc, out = sh([os.path.join(VERIF, "check"), pid, "--tier", tier], env=e2, timeout=7200)
            viol = re.findall(r"VIOLATION property=(\S+) replay=(\S+)", out)
            det = []
            for _, rp in viol[:4]:
                try:
                    d = json.load(open(rp))
                    det.append({"sub": d.get("sub"), "build": d.get("build"), "op": d.get("op"), "msg": d.get("msg", "")[:300]})
                except Exception:
                    det.append({"replay": rp})
            res["checks"][pid] = {"exit": rc, "violations": len(viol), "detected": rc == 1 and len(viol) > 0, "wall_s": round(time.time() - t0), "first": det,
                                  "tail": out[-300:] if rc not in (0, 1) else ""}
        return res
    finally:
        sh("git -C /repo worktree remove --force %s" % wt)
        shutil.rmtree(wt, ignore_errors=True)
        shutil.rmtree(work, ignore_errors=True)
        sh("git -C /repo worktree prune")
        with open(os.path.join(cand, "eval.json"), "w") as f:
            json.dump(res, f, indent=1)
        print(json.dumps(res, indent=1))


if __name__ == "__main__":
    main()
