#!/usr/bin/env python3
"""Regenerates /verif/MANIFEST.json from lib/props_d/*.py and properties.jsonl."""
import json, os, sys
VERIF = os.path.dirname(os.path.dirname(os.path.abspath(__file__)))
sys.path.insert(0, os.path.join(VERIF, "lib"))
from props import PROPS

NA_REASONS = {}
try:
    NA_REASONS = json.load(open(os.path.join(VERIF, "lib", "not_applicable.json")))
except FileNotFoundError:
    pass

ids = [json.loads(l)["id"] for l in open(os.path.join(VERIF, "properties.jsonl"))]
ACCEPTED = set(open(os.path.join(VERIF, "lib", "accepted.txt")).read().split())
checks = []
for pid in ids:
    if pid not in PROPS or PROPS[pid].get("disabled") or pid not in ACCEPTED:
        continue
    P = PROPS[pid]
    checks.append({
        "property_id": pid,
        "quick_cmd": "./check %s --tier quick" % pid,
        "thorough_cmd": "./check %s --tier thorough" % pid,
        "evidence_file": "/verif/evidence/%s.json" % pid,
        "replay_cmd_template": "./check %s --replay {path}" % pid,
        "engine": "glam-pbt",
        "level_claimed": {"category": "exploration", "text": P["level_text"], "design_ref": P.get("design_ref", "DESIGN.md section 5")},
        "level_note": P["level_note"],
        "technique": P["technique"],
    })
na = [{"property_id": pid, "reason": NA_REASONS.get(pid, "check not built yet (framework under construction; DESIGN.md section 9 gives the build order)")}
      for pid in ids if pid not in [c["property_id"] for c in checks]]
m = {
    "version": 1,
    "setup_cmd": "./check --setup",
    "hooks": {
        "guard": "glam_rs_verif",
        "enable": "no source hooks are needed: the checks compile /repo's working tree directly through generated variant manifests (engine/variants/*/Cargo.toml, lib path = /repo/src/lib.rs) with the feature sets scalar-math, libm, glam-assert, core-simd, serde/bytemuck/mint/rkyv",
        "baseline_off_cmd": "cd /repo && cargo test --workspace --no-fail-fast --offline",
        "source_commits": [],
        "add_only": True,
    },
    "engines": [{
        "name": "glam-pbt",
        "path": "/verif/engine",
        "serves_properties": [c["property_id"] for c in checks],
        "kind_free_text": "Rust property-based testing harness (proptest TestRunner driven from binaries, exhaustive sweeps of finite spaces, libFuzzer targets) that links several differently-configured builds of the live /repo sources into one process; python driver /verif/check builds, runs, merges evidence, replays saved inputs and applies known_findings.txt",
    }],
    "checks": checks,
    "notes": "check exit codes: 0 held, 1 violation (VIOLATION line printed), 2 inconclusive (build failure / watchdog). known_findings.txt lists repaired defects (fixed:) and recorded findings (known:).",
    "not_applicable": na,
}
json.dump(m, open(os.path.join(VERIF, "MANIFEST.json"), "w"), indent=1)
print("MANIFEST.json: %d checks, %d not_applicable" % (len(checks), len(na)))
