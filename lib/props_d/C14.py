from props_common import B

PROP = {
    "crate": "c14",
    "gens": ["gen_conv.py"],
    "rule": "Each case is one conversion (an as_* method, a From or TryFrom impl, or a re-packaging method/impl extracted from the working tree by gen_conv.py) "
            "applied to one tuple of source lanes in one backend. Source lanes: every value of 8/16-bit lane types and a boundary list of the wider types "
            "(+-(2^k+d) for every k, type MIN/MAX, float neighbours and halves of every integer range limit, the special-value lattice, f32-grid midpoints for f64) "
            "in every lane position with different values in the other lanes; an f32 bit-pattern sweep through every f32->* cast (strided in quick, all 2^32 in thorough, "
            "every pattern in every lane); proptest lattice cases; for TryFrom constructed cases with exactly one lane outside the target range in each position; all 2^N masks. "
            "A case is non-trivial when: cast - some lane is NaN/inf, saturates, drops a fraction, wraps, rounds or sits at a range limit of the source or target type; "
            "From - some lane is negative, non-finite, subnormal, -0 or at a range limit; TryFrom - exactly one lane fails, or a lane sits at the target's MIN/MAX; "
            "re-packaging - all lanes are pairwise different bit patterns (so any permutation shows); mask - the mask is neither all-true nor all-false. "
            "Distinct = distinct hash of (backend, conversion, lane bits) for generated cases; enumerated cases are counted by index.",
    "builds": {
        "quick": [B("stable"), B("fma", 0.25), B("nightly", 0.25, False)],
        "thorough": [B("stable"), B("fma", 0.5), B("nightly", 0.5, False)],
    },
    "timeout": {"quick": 900, "thorough": 5400},
    "technique": "property-based testing over a conversion table generated from the source tree: enumerated boundary/exhaustive lane values, an f32 bit-pattern sweep and proptest lattice cases, "
                 "each compared lane by lane with Rust's primitive conversion (`as`, exact i128 range test, bit identity) in the SSE2, scalar-math and nightly core-simd builds",
    "level_text": "Generated-input search: gen_conv.py lists every as_* cast, From/TryFrom impl and re-packaging conversion (arrays, tuples, (vector, scalar) pairs, extend/truncate/from_vec4, "
                  "Vec3<->Vec3A, Quat<->Vec4, masks, native SIMD registers) present in the working tree (about 970; anything it cannot classify is listed in the evidence, not dropped). Each is run on "
                  "every 8/16-bit source value, on boundary lists of the wider types in every lane position, on proptest lattice cases, and (f32 sources) on a sweep of f32 bit patterns; results are compared "
                  "lane by lane with `lane as T`, with a lossless round trip for From, with an exact i128 range test for TryFrom (Ok with the same values iff all lanes fit, constructed one-failing-lane cases "
                  "in every position), bit identity for re-packaging and 1/0 for masks. Failures shrink to a minimal lane tuple saved as a replay file. Exploration, not proof: exhaustive only where the evidence says so.",
    "level_note": "Trusted: rustc's `as` conversions between primitives, proptest, the harness, the generator's signature parser (its skipped list is in the evidence). NEON/wasm32 backends cannot be built here.",
    "design_ref": "DESIGN.md section 5 C14",
    "assumptions": [
        "Rust's primitive `as` conversions are the reference for casts; integer range tests are done exactly in i128",
        "source vectors are built with the types' `new`/`from_xyzw` constructors and results are read through their public fields",
        "usize is 64 bits wide (x86_64 only)",
        "NEON and wasm32 sources are not compiled or executed (no target available offline)",
    ],
}
