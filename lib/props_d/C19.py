from props_common import B

PROP = {
    "crate": "c19",
    "rule": "A case is the N element words of one value of one public glam type (float lanes as bit patterns incl. NaN payloads / signalling NaNs / -0, boundary-biased integers, bools; "
            "for Vec3A, Mat3A, Affine2, Affine3A additionally the content of the padding bytes / hidden lanes) pushed through one carrier in one build: serde via an exact in-memory "
            "token-stream Serializer/Deserializer (TupleStruct(name, N), the N scalars as bits, End; deserialisation of the stream; every shorter length 0..N-1 rejected; the "
            "deserialize_tuple_struct length hint equals N), serde via serde_json text (to_string equals '[' + the carrier's own text of each scalar + ']'; from_str equals the carrier's "
            "own parse of each scalar; every other length 0..N+2, '{}' and a nested sequence rejected), bytemuck (image = elements in order in native endianness, zeroed, bytes->value->bytes, "
            "cast_slice; AnyBitPattern-only types: bytes->value keeps the visible elements for arbitrary padding), rkyv (to_bytes image has the elements at their offsets; access, "
            "access_unchecked, deserialize, from_bytes and access of a harness-built image return the value), mint (every Point/Vector/Quaternion/ColumnMatrix/RowMatrix form: entry (r,c) "
            "preserved, there-and-back and from-a-harness-built-mint-value bit-identical), or through the serde carriers in two builds at once (cross/: token streams, JSON text and "
            "deserialised values identical). A case is non-trivial when its element words are pairwise distinct (any reordering or duplication is visible) or contain a NaN, -0 or an "
            "extreme value; bool vectors: not all elements equal (all 2^N values enumerated); distinct = distinct hash of (type, build, carrier, words). The trait table (Pod, AnyBitPattern, "
            "Zeroable, NoUninit, Serialize, Deserialize, rkyv::Archive, mint::IntoMint per type and build) is probed at compile time; Pod/NoUninit on a type whose size_of differs from "
            "N*size_of(scalar) is a violation.",
    "builds": {
        "quick": [B("stable"), B("nightly", 0.25, False)],
        "thorough": [B("stable"), B("nightly", 0.5, False)],
    },
    "technique": "property-based testing: proptest lattice generators over element bit patterns of all 54 value types (+ EulerRot) through an exact token-stream serde carrier written in the "
                 "harness, serde_json, bytemuck, rkyv and mint, against element-order / byte-image oracles built from the input words; feature-enabled SSE2, scalar-math and nightly "
                 "core-simd builds of the working tree linked into one process for the cross-build comparison; compile-time trait probes for the Pod rule",
    "level_text": "Generated-input search: for every public value type (39 vector types incl. the five mask types, 8 matrix types, 2 quaternions, 4 affine types; EulerRot by enumeration) the value "
                  "is built from generated element words and pushed through every carrier its feature impls provide. serde is driven through an exact in-memory token carrier (scalars keep their "
                  "bits, so NaN payloads and -0 are decided) and through serde_json text; the expected stream / text / byte image / mint entries are computed from the input words, not from glam. "
                  "Rejection is checked for every length 0..N-1 in the token carrier and 0..N+2 (except N) in JSON. The feature-enabled SSE2 and scalar-math builds run in the same process and must "
                  "agree on token streams, JSON text and deserialised values for the same words (nightly: core-simd against both). A feature-enabled SSE2 build with glam-assert "
                  "repeats every carrier at half the volume: no feature impl may acquire a precondition on the values it carries. Exploration over element values; exhaustive over types, carriers, "
                  "mint forms, lengths, bool values and EulerRot variants.",
    "level_note": "Trusted: the array movers from_array/to_array/from_cols_array/to_cols_array (each case verifies they reproduce the input bits; C17 checks them), rustc moving f32/f64 bit "
                  "patterns unchanged on x86_64, serde / serde_json / bytemuck / rkyv / mint themselves, the harness. BVec3A/BVec4A have no serde impl in the scalar-math build (recorded in the "
                  "probe table; compared only where both builds have one). bytemuck and rkyv impls do not exist for USizeVec* and the mask types, mint impls not for affine and mask types: "
                  "those carriers are checked for the types that have them. approx and rand impls are compiled in the feature builds but are not part of the statement. "
                  "NEON/wasm32 builds cannot be produced here.",
    "design_ref": "DESIGN.md section 5 C19",
    "assumptions": [
        "to_array / from_array / to_cols_array / from_cols_array move element bits faithfully (verified per case, checked independently by C17)",
        "serde_json's text for one scalar and its parse of one scalar are the reference for the text / parse of a sequence of scalars (the carrier cannot be blamed on glam)",
        "the byte layouts are: elements back to back (all types except Vec3A/Mat3A/Affine3A), or columns of three f32 padded to 16 bytes (Vec3A, Mat3A, Affine3A); size_of is verified against that rule",
        "NEON and wasm32 sources are not compiled or executed (no target available offline)",
    ],
}
