from props_common import B

PROP = {
    "crate": "c13",
    "rule": "Each case is one operand tuple (a, b, clamp bound c, opposite-signedness operand m, scalar s; or a vector, a scalar shift count cast to each of the "
            "eight count types and per-lane IVec/UVec counts; or an iterator of 0..8 vectors) evaluated by every operation and operator form of one of the 27 integer "
            "vector types in one build profile (release = wrapping, chk = overflow-checks + debug-assertions). Pair sweeps enumerate operand pairs: all 65 536 pairs "
            "of the 8-bit types in each lane position with 1 elsewhere and in all lanes at once (every lane meets every pair), strided (quick: every 4099th; thorough: all 2^32 in the release build, every 16th in the chk build) "
            "pairs of the 16-bit types, all pairs of the boundary values of every type in every lane position. A case is non-trivial when some operand lane is a "
            "boundary value (0, 1, -1, MIN, MAX, MIN+1, MAX-1), or add/sub/mul overflows, saturates, returns None or divides by zero in some lane, or a shift count "
            "is 0, negative or >= width-1; distinct = distinct hash of (type, operand words), enumerations count their own indices.",
    "builds": {
        "quick": [B("stable"), B("chk"), B("ovf", 0.25, False), B("fma", 0.25, False)],
        "thorough": [B("stable"), B("chk", 0.5), B("ovf", 0.25, False), B("fma", 0.25, False)],
    },
    "timeout": {"quick": 1800, "thorough": 7200},
    "technique": "property-based testing: exhaustive / strided operand-pair sweeps and boundary-biased proptest generation against the Rust integer primitive per lane "
                 "(panics compared through catch_unwind), in the release and the overflow-checking profile",
    "level_text": "Generated-input search: every arithmetic, bit, shift (8 scalar count types + IVec/UVec counts), min/max/clamp, abs/signum, checked_/wrapping_/saturating_ "
                  "(incl. *_unsigned / *_signed), euclid, distance, horizontal and Sum/Product operation of the 27 integer vector types, in every operator form, is compared lane "
                  "by lane with the Rust primitive; an operation must panic exactly when some lane's primitive panics in the same profile (release and overflow-checks). "
                  "All 8-bit operand pairs are enumerated in every lane position; 16-bit pairs strided (quick) or completely (thorough, release profile; every 16th pair in the overflow-checking profile, where the operators that panic on overflow are left out of this sweep); wider types by boundary-value pairs "
                  "and boundary-biased random values. Failures shrink to a minimal operand tuple saved as a replay file. Exploration, not proof: exhaustive only where the "
                  "evidence says so. Besides the release and the overflow-checking profile, a profile with overflow checks but without debug assertions, a +fma,+avx2 build and (for the lane-wise sub-checks) the glam-assert variant are run.",
    "level_note": "Trusted: rustc's integer primitives and their panic behaviour under the two profiles, proptest, the harness. For reductions (element_sum/product, dot, "
                  "length_squared, distance_squared, manhattan_distance) whose intermediate overflow depends on the association order the panic is not judged "
                  "(class order-ambiguous), only the value when no panic occurred.",
    "design_ref": "DESIGN.md section 5 C13",
    "assumptions": [
        "Rust's integer primitives (operators, checked_/wrapping_/saturating_ methods, shifts) in the same cargo profile are the reference, including when they panic",
        "clamp is exercised with min <= max per lane only (documented precondition; with glam-assert off the primitive would panic where glam does not)",
        "usize is 64 bits wide on this target; 32-bit usize is not exercised",
    ],
}
