from props_common import B

PROP = {
    "crate": "c20",
    "gens": ["gen_api.py"],
    "rule": "Programs: chains of up to 12 operations of a typed-pool state machine (producers of unit vectors, unit quaternions, rotation and affine matrices; precondition-carrying consumers fed from the pools, i.e. with glam's own outputs) are run in a build with glam-assert (and debug-glam-assert in the checked profile) and in the plain build of the same tree; no assertion may fire, every pooled value must pass is_normalized / the affine last-row check, and all returned values must be bit-identical. Documented violations (constructed with >= 6 % margin) must panic with assertions and must not without. The whole API table is also compared between the two builds on arbitrary finite inputs whenever the asserting build returns. Non-trivial chain = at least 3 consumer steps fed by produced values; distinct by chain words.",
    "builds": {
        "quick": [B("stable"), B("fma", 0.25), B("chk", 0.25), B("nightly", 0.25, False)],
        "thorough": [B("stable"), B("fma", 0.5), B("chk", 0.5), B("nightly", 0.5, False)],
    },
    "volume": {"quick": 3},
    "technique": "stateful (model-based) property-based testing: typed-pool operation sequences compared between glam-assert and plain builds of the same tree linked into one process; enumerated precondition violations; API-table differential",
    "level_text": "Generated operation sequences over glam's precondition-carrying API, executed with assertions on and off in the same process (SSE2, scalar-math, nightly core-simd; debug-glam-assert in the checked profile). Exploration, not proof.",
    "level_note": "Trusted: rustc, proptest, the harness's classification of which operations produce unit/affine values (taken from the statement). NEON/wasm32 not reachable.",
    "design_ref": "DESIGN.md section 5 C20",
    "assumptions": ["seeds are finite and non-degenerate (vector lengths in [0.2, 7], scales in [0.25, 4] with every sign pattern)"],
}
