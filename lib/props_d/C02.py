from props_common import B

PROP = {
    "crate": "c02",
    "rule": "Three case kinds per float vector type and backend. arith: a pair (a, b) of well-scaled vectors (components 0 or magnitude in [2^-40, 2^40] / [2^-300, 2^300]; "
            "dense with narrow or wide exponent spread, sparse, single-axis, small integers; b independent, same-scale random direction, or constructed as "
            "alpha*a + delta*|alpha||a|*orth(a) with delta = 10^-d down to 1e-7.5 (f32) / 1e-15 (f64), delta = 0, or exactly orthogonal), a unit vector and a parameter s, "
            "evaluated by dot, dot_into_vec, cross, perp_dot, length, length_squared, length_recip, distance(_squared), element_sum/product, lerp, midpoint, "
            "project_onto/reject_from (+_normalized), reflect, angle_between, angle_to; non-trivial when both operands have at least two non-zero lanes or the cancellation "
            "ratio sum|terms|/|result| of dot/cross/perp_dot exceeds 4. normalize: one vector from the special-value lattice, the well-scaled generator, a scaled family "
            "around the representability boundaries of the squared length, zeros and injected inf/NaN lanes, plus a fallback vector; non-trivial when the exact squared "
            "length is outside [2*MIN_POSITIVE, MAX/2] (zero, overflow, non-finite) or the vector has at least two non-zero lanes; cases in the slack bands between are "
            "tallied as boundary and not counted. refract: unit incident/normal pairs with eta in [0.2, 5], generic and constructed at k = 1 - eta^2(1 - (n.i)^2) = 0 +- 10^-j; "
            "non-trivial when k is outside the rounding slack of the branch (otherwise boundary). Cases whose intermediate products leave the normal range "
            "(|a|^2|b|^2 for the angles, partial products of element_product, b_i*(a.b)/(b.b) for project_onto, squared differences for distance) are tallied as "
            "range-skip for that function only. distinct = distinct hash of (type, backend, operand bits).",
    "builds": {
        "quick": [B("stable"), B("fma", 0.25), B("nightly", 0.25, False)],
        "thorough": [B("stable"), B("fma", 0.5), B("nightly", 0.5, False)],
    },
    "volume": {"quick": 4},
    "technique": "property-based testing: constructed geometric generators (near-parallel / anti-parallel / orthogonal / cancellation pairs, representability-boundary "
                 "vectors, total-internal-reflection boundary) against an f64 (f32 types) / double-double (f64 types) evaluation of the mathematical expression with "
                 "derived forward-error bounds, in the SSE2, scalar-math, libm, nightly core-simd and (+fma,+avx2) builds",
    "level_text": "Generated-input search: every geometric method of the seven float vector types is compared with the exact real value computed by the harness in f64 "
                  "(f32 types; products of two f32 are exact) or double-double (f64 types). The tolerance of every comparison is derived, not tuned: twice the first-order "
                  "gamma_n bound ops*u*sum|terms| of the longest evaluation path (valid for any association order, so one oracle serves scalar, SSE2 and core-simd), "
                  "arccos conditioning 1/max(sin theta, sqrt u) plus the fixed 6e-7 of the polynomial arccos for the angles, an interval oracle at the refract "
                  "discontinuity, and the valid / fallback / slack bands of the squared length for the normalize family (checked forms never return a non-finite "
                  "vector). The largest error/tolerance ratio of every comparison is recorded (headroom). Failures shrink to a minimal operand tuple saved as a replay "
                  "file. The same sub-checks also run against the SSE2 build with glam-assert compiled in: the generated inputs satisfy the documented preconditions, so a panic there is a failure. Exploration, not proof.",
    "level_note": "Trusted: rustc f64 arithmetic, f64 sqrt/atan2/log2 of std, the double-double routines of vcore, proptest, the harness. Vec3A is built through "
                  "Vec3A::from_vec4 with a hidden lane different from every visible lane. NEON/wasm32 backends cannot be built here.",
    "design_ref": "DESIGN.md section 5 C02",
    "assumptions": [
        "the f64 / double-double evaluation of the formulas is exact enough to serve as the real value (error <= 2^-52 resp. 2^-100 relative to sum|terms|)",
        "acos_approx's own error is bounded by 6e-7 (measured once exhaustively: 4.4e-7, DESIGN.md section 4)",
        "angle_between/angle_to are judged only when |a|^2 |b|^2 is a normal finite number of the lane type (glam forms that product; see range-skip classes)",
        "NEON and wasm32 sources are not compiled or executed (no target available offline)",
    ],
}
