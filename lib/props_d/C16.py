from props_common import B

PROP = {
    "crate": "c16",
    "gens": ["gen_swz.py"],
    "rule": "A case is one input (the N source lanes of one vector type as bit patterns; for the setters also three argument lanes; for Vec3A also the content of the "
            "hidden 4th lane, injected through Vec3A::from_vec4) on which EVERY swizzle getter (28 / 117 / 336 names, enumerated combinatorially by lib/gen_swz.py) or "
            "EVERY with_ setter (6 / 36 names) of that type is called in one backend and compared bit-for-bit with what the method name spells. "
            "A case is non-trivial when all its lanes (source lanes, argument lanes and, for Vec3A, the hidden lane) are pairwise distinct in bits, so that every wrong "
            "permutation is visible; distinct = distinct hash of (type, backend, lane bits). Classes record NaN payloads, signalling NaNs, signed zeros, MIN/MAX and the hidden-lane class.",
    "builds": {
        # the +fma,+avx2 build also enables SSE3 / SSSE3 / SSE4.x / AVX: a cfg(target_feature) fast path is only compiled there
        "quick": [B("stable"), B("fma", 0.25), B("nightly", 0.25, False), B("rlayout", 0.25, False)],
        "thorough": [B("stable"), B("fma", 0.5), B("native", 0.25), B("nightly", 0.5, False), B("rlayout", 0.25, False)],
    },
    "volume": {"quick": 2},
    "technique": "property-based testing: the complete table of swizzle method names is generated combinatorially (a missing method or type is a compile error), every method is "
                 "called on generated lane bit patterns and compared with the lane selection its name spells, in the SSE2, scalar-math and nightly core-simd builds",
    "level_text": "Generated-input search over a complete method table: all 481 getter names and all 42 with_ setter names of the three swizzle traits are enumerated by the "
                  "harness and called on each of the 34 implementing types (5876 methods per backend) with result types fixed by ascription; each is evaluated on fixed and "
                  "generated inputs (pairwise-distinct lanes, equal lanes, NaNs with distinct quiet/signalling payloads, signed zeros, integer extremes, and for Vec3A every "
                  "hidden-lane class) and compared bit-for-bit with the lanes the name spells; setters additionally satisfy read-back and write-back identities. "
                  "SSE2, scalar-math and nightly core-simd builds. Exhaustive over names and types, exploration over lane values. Every getter is also called through its swizzle trait (an inherent method of the same name shadows it in method syntax), and a nightly -Zrandomize-layout build shuffles every struct layout the language does not fix.",
    "level_note": "Trusted: to_array/from_array/from_vec4/new of the vector types for moving lanes in and out (C17 checks those), rustc moving f32/f64 bit patterns unchanged on x86_64, the harness. "
                  "NEON/wasm32 swizzle files cannot be built here.",
    "design_ref": "DESIGN.md section 5 C16",
    "assumptions": [
        "to_array / from_array / new / Vec3A::from_vec4 move lane bits faithfully (checked independently by C17)",
        "NEON and wasm32 swizzle implementations are not compiled or executed (no target available offline)",
    ],
}
