from props_common import B

PROP = {
    "crate": "c05",
    "rule": "A case is (a) a pair of unit quaternions q, p and two probe vectors, on which every quaternion<->matrix conversion, the matrix->quaternion->matrix round trip of "
            "every form, M(q*p) vs M(q)M(p) and M(q^-1) vs M(q)^-1 are evaluated (f32 and f64 families); (b) a pair of affine maps (rotation x scale of every sign pattern x shear, "
            "translation) and two probes, on which every single conversion edge out of every representation is applied and composition / inversion are compared across "
            "Affine -> Mat4 (3D) and Affine2 -> Mat3/Mat3A (2D); (c) a conversion chain: a start representation, an affine map and up to four edge selectors walking the graph of public "
            "conversions (9 nodes / 37 edges in 3D, 7 nodes / 23 edges in 2D; edges into a quaternion only from pure rotations). A rotation case is non-trivial when its angle exceeds "
            "1e-3 about an axis that is not a coordinate axis, or it lies within 1e-3 of a branch threshold of from_rotation_axes or of a half turn; an affine case when its rotation "
            "part is such a rotation (2D: angle not a multiple of pi/2); a chain when it has at least 2 edges. distinct = distinct hash of (kind, scalar type, backend, input bits).",
    "builds": {
        "quick": [B("stable"), B("fma", 0.25), B("nightly", 0.25, False)],
        "thorough": [B("stable"), B("fma", 0.5), B("nightly", 0.5, False)],
    },
    "volume": {"quick": 5},
    "technique": "property-based testing: proptest generators of unit quaternions (uniform S^3, near-identity, near-half-turn, single-axis, placed on every branch threshold), affine maps and "
                 "random walks in the conversion graph; oracle = the action of the start object evaluated in f64 / double-double, bit-exactness for re-packaging edges, "
                 "tolerances accumulated per lossy edge; SSE2, scalar-math and nightly core-simd builds",
    "level_text": "Generated-input search: for generated unit quaternions (all four branches of the matrix-to-quaternion conversion and their thresholds are hit and tallied) every "
                  "from_quat form must equal the exact rotation matrix within 16u and act like it on probe vectors and points; Quat::from_mat3/from_mat3a/from_mat4/from_affine3 of those "
                  "matrices must return a unit quaternion equal to +-q (|q.q'| >= 1-16u and component-wise within 32u) and convert back to the same matrix; conversion must commute with "
                  "q*p, with inverse and map identities to identities exactly. For generated affine maps every public conversion edge (37 in 3D, 23 in 2D: from_mat3/from_mat3a/from_mat4, "
                  "From<Affine*>, Affine*::from_mat*, Mat2::from_mat3(a), Mat3(A)::from_mat2, as_d*/as_* ...) is applied to every representation: re-packaging edges must reproduce the entries "
                  "exactly (including the (0,0,0,1) border and dropped translation), f64->f32 casts within one rounding, and the converted object must map a probe direction and point "
                  "like the original; Mat4::from(a*b) and Mat4::from(a)*Mat4::from(b), Mat4::from(a.inverse()) and Mat4::from(a).inverse() are compared with the exact product / inverse "
                  "(16u*kappa). Random conversion chains of length <= 4 are checked against the action of their start with the tolerance accumulated over the lossy edges taken. "
                  "Failures shrink to a minimal input saved as a replay file. The same sub-checks also run against the SSE2 build with glam-assert compiled in: the generated inputs satisfy the documented preconditions, so a panic there is a failure. Exploration, not proof.",
    "level_note": "Trusted: f64 and the double-double arithmetic of vcore as reference, to_cols_array/to_array/from_cols_array/from_array for moving entries (C17), proptest, the harness. "
                  "NEON/wasm32 backends cannot be built here.",
    "design_ref": "DESIGN.md section 5 C05",
    "assumptions": [
        "to_cols_array / to_array / from_cols_array / from_array move entries faithfully (C17 checks those)",
        "NEON and wasm32 sources are not compiled or executed (no target available offline)",
    ],
}
