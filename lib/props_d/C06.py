from props_common import B

PROP = {
    "crate": "c06",
    "rule": "Each case is one entry pattern (or operand tuple) for one of Mat2, Mat3, Mat3A, Mat4, DMat2, DMat3, DMat4, Affine2, Affine3A, DAffine2, DAffine3 in one backend, compared with a plain "
            "column-major model a[c*R + r]. access: arbitrary entry bit patterns (special-value lattice incl. NaN payloads and -0, or pairwise distinct values with injected specials) through "
            "from/to_cols_array(_2d), from_cols_slice/write_cols_to_slice, AsRef/AsMut, from_cols, the x_axis..w_axis fields (read and write), col/col_mut/row for every index, from_diagonal, transpose, "
            "every (i, j) of every minor constructor, and the matrixN/translation split of the affine types, all bit for bit. product-int / product-real: M*v = sum v[c]*col(c), "
            "transform_point = linear*p + translation, transform_vector = the same map with zero translation, A*B entries, (A*B)*v = A*(B*v); exact on integers in [-16,16], within k*u*sum|terms| on reals. "
            "A case is non-trivial when all entries of A are pairwise distinct (any permutation is visible) or a NaN / -0 entry is present; distinct = distinct hash of (type, backend, words).",
    "builds": {
        "quick": [B("stable"), B("chk", 0.25, False), B("fma", 0.25), B("nightly", 0.25, False)],
        "thorough": [B("stable"), B("chk", 0.25, False), B("fma", 0.5), B("nightly", 0.5, False)],
    },
    "volume": {"quick": 6},
    "technique": "property-based testing: proptest generators of entry bit patterns / integer / real operands against an array-of-bits model of column-major storage and an exact i128 / f64 / double-double "
                 "evaluation of the column-vector products, in the SSE2, scalar-math, nightly core-simd (and +fma) builds of the working tree",
    "level_text": "Generated-input search: for the seven matrix and four affine types every accessor path (arrays, 2-D arrays, slices, AsRef/AsMut, from_cols, axis fields, col, col_mut, row, from_diagonal, transpose, "
                  "all 9 / 16 (i, j) of Mat2::from_mat3(a)_minor, Mat3(A)::from_mat4_minor and the f64 forms, the affine 'linear columns then translation' split) is compared bit for bit with a [[bits; R]; C] model on "
                  "arbitrary bit patterns including NaN payloads and -0; the action on column vectors (M*v, transform_point/vector in Vec3 and Vec3A forms, A*B, (A*B)*v = A*(B*v)) is compared with the model "
                  "exactly on small integers and within the forward error bound on reals. All index pairs are visited in every case. The same sub-checks also run against the SSE2 build with glam-assert compiled in: the generated inputs satisfy the documented preconditions, so a panic there is a failure. Exploration, not proof.",
    "level_note": "Trusted: rustc's f32/f64/i128 arithmetic, the double-double arithmetic of the harness, proptest. NEON/wasm32 backends cannot be built here.",
    "design_ref": "DESIGN.md section 5 C06",
    "assumptions": [
        "bit-for-bit comparison of moves assumes that loads/stores/shuffles do not quieten signalling NaNs (true for SSE2 and scalar x86_64 code)",
        "NEON and wasm32 sources are not compiled or executed (no target available offline)",
    ],
    "timeout": {"quick": 1800, "thorough": 7200},
}
