from props_common import B

PROP = {
    "crate": "c01",
    "rule": "Each case is one operand tuple (all lanes drawn independently from the special-value lattice of DESIGN.md 3.1, "
            "related pairs for binary ops) evaluated by every element-wise operation and operator form of one float vector type in one backend; "
            "exhaustive/strided sweeps enumerate f32 bit patterns for the unary lane ops. A case is non-trivial when some operand lane is zero, subnormal, "
            "inf, NaN, an exact .5 tie or >= 2^23 (2^52), or operands are related (equal/negated/1ulp apart/huge or tie quotient); distinct = distinct hash of (type, backend, operand bits).",
    "builds": {
        "quick": [B("stable"), B("fma", 0.25), B("nightly", 0.25, False)],
        "thorough": [B("stable"), B("fma", 0.5), B("native", 0.25), B("nightly", 0.5, False)],
    },
    "volume": {"quick": 3},
    "technique": "property-based testing: proptest lattice generators + exhaustive/strided f32 bit-pattern sweeps against the Rust primitive per lane, in five builds of the working tree",
    "level_text": "Generated-input search: every element-wise operation and operator form of the seven float vector types is compared lane by lane with the Rust primitive on special-value-lattice operands (every special in every lane position), plus a sweep of f32 bit patterns (strided in quick, all 2^32 in thorough) through the unary lane ops, in the SSE2, scalar-math, libm, +fma/+avx2 and nightly core-simd builds. Failures shrink to a minimal operand tuple that is saved as a replay file. This is exploration, not proof: exhaustive only where stated in the evidence. The lane-wise sub-checks also run against the glam-assert variants of the SSE2, scalar-math and core-simd builds (clamp bounds sorted per lane): a panic there is a failure.",
    "level_note": "Trusted: rustc's f32/f64 primitives (libm's expf/powf in the libm build), proptest, the harness. NEON/wasm32 backends cannot be built here.",
    "design_ref": "DESIGN.md section 5 C01",
    "assumptions": [
        "Rust's f32/f64 primitives (and libm's functions in the libm build, for exp/powf only) are the reference",
        "NEON and wasm32 sources are not compiled or executed (no target available offline)",
    ],
}
