from props_common import B

PROP = {
    "crate": "c17",
    # a safe constructor / accessor that kills the process (e.g. an aligned load from an unaligned slice) did not deliver the lanes
    "crash_is_violation": True,
    "rule": "A case is one history: a sequence of 0..32 steps applied to one value of one type in one backend, each step either (a) constructing the value through one of its "
            "constructor paths (new / from_xyzw, splat, from_array, from_slice with a longer slice, From<array>, From<tuple>, the free constructor function, whole-array AsMut "
            "assignment, Vec3A::from_vec4 with a chosen hidden lane, Quat::from_vec4, a named constant, Default), (b) writing one lane through field assignment, IndexMut, "
            "AsMut<[T;N]> or with_x..with_w, or (c) reading all lanes through one read path and rebuilding the value from them through a lane-preserving constructor. "
            "Lane values come from the special-value lattice (NaN payloads, signed zeros, subnormals, integer extremes). After EVERY step every read path the type has (fields, "
            "Index, to_array, write_to_slice, Into<array>, Into<tuple>, AsRef<[T;N]>, Quat->Vec4; Debug, Display and Display with precision parsed back) is compared with a "
            "[bits; N] model, bit-for-bit (text: IEEE value, NaN by class). A history is non-trivial when it contains lane writes through >= 2 different write paths "
            "(Quat/DQuat, which only have field assignment: >= 2 different lanes written and >= 2 different mutation paths); distinct = distinct hash of (type, backend, history words). "
            "The consts sub-checks enumerate every named constant (ZERO, ONE, NEG_ONE, MIN, MAX, NAN, INFINITY, NEG_INFINITY, X..W, NEG_X..NEG_W, AXES[i], Quat IDENTITY/NAN) "
            "against its documented lanes through every read path.",
    "builds": {
        "quick": [B("stable"), B("fma", 0.25), B("nightly", 0.25, False), B("rlayout", 0.25, False), B("asan-sse2", 0.1, False)],
        "thorough": [B("stable"), B("fma", 0.5), B("nightly", 0.5, False), B("rlayout", 0.25, False), B("asan-sse2", 0.1, False)],
    },
    "fuzz": {"target": "c17_history", "runs": {"thorough": 500000}},
    "technique": "model-based property testing: proptest-generated histories of constructor / lane-write / read-and-rebuild steps interpreted against an array-of-bits model, all read paths "
                 "compared after every step, for 34 vector types and both quaternion types in the SSE2, scalar-math and nightly core-simd builds; named constants enumerated",
    "level_text": "Generated-history search: for each of the 34 numeric vector types, Quat and DQuat, random histories (length 0..32) of constructions, single-lane writes and "
                  "read-then-rebuild steps through every access path the type has are run against a [bits; N] model; after every step all read paths (fields/Deref overlay, Index, "
                  "to_array, write_to_slice, Into<array>, Into<tuple>, AsRef, Debug, Display) must agree with the model bit-for-bit (text parsed back, NaN by class). All named "
                  "constants are checked exhaustively against their documented values. SSE2, scalar-math and nightly core-simd builds. Failures shrink to a minimal history saved as a replay file. "
                  "Exploration, not proof (the constants sub-checks are exhaustive). from_slice / write_to_slice also go through exactly sized heap slices in an AddressSanitizer build of the SSE2 + scalar binary, and a nightly -Zrandomize-layout build shuffles every struct layout the language does not fix.",
    "level_note": "Trusted: rustc's float formatting/parsing (shortest round-trip) for the text paths, proptest, the harness. The hidden lane of Vec3A is not part of the model "
                  "(C08 covers it). The libFuzzer byte-decoded history target of the DESIGN block is not built. NEON/wasm32 layouts cannot be built here.",
    "design_ref": "DESIGN.md section 5 C17",
    "assumptions": [
        "Rust's {:?}/{} formatting of f32/f64 round-trips through str::parse (shortest representation)",
        "NEON and wasm32 sources are not compiled or executed (no target available offline)",
    ],
}
