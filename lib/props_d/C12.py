from props_common import B

PROP = {
    "crate": "c12",
    "rule": "Seven case kinds per backend, all operands finite and non-degenerate. lerp-move-clamp (all 7 float vector types): a pair of moderate vectors (b independent, or at a constructed "
            "distance from a incl. the 1e-4 early return +- 10^-j and tiny distances), s (0, 1, 1/2 forced, inside, a few outside), a step d relative to the remaining distance "
            "(0, part, just before, exactly, just beyond, far beyond) and length bounds relative to |a|; lerp is evaluated at 0, 1 and s. rotate_towards (Vec2, Vec3, Vec3A, DVec2, DVec3) "
            "and slerp (Vec3, Vec3A, DVec3): two directions, independent or at a constructed angle (10^-d from parallel or from opposite with d up to 8 / 16, exactly parallel / opposite, "
            "at the documented 1 - 3e-7 threshold +- 10^-j, uniform), equal or independent lengths in [2^-10, 2^10], steps as above incl. negative. quat-interp (Quat, DQuat): unit "
            "quaternion pairs built the same way in 4D (thresholds 1 - EPSILON and the 1e-4 early return of rotate_towards), either sign of the second (long way round), s, a second s "
            "and max_angle. rotation-arc: unit 3D and 2D pairs (threshold 1 - 2 EPSILON). ortho: unit vectors over the whole sphere incl. z = -1, z = +-0 and 10^-d from the poles, plus "
            "an arbitrary non-zero vector. floatext: f32 / f64 scalars. A case is non-trivial when the operands are not both axis-aligned and s / the step is strictly inside its range, "
            "or the case lies within 1e-3 (relative) of a documented threshold; cases within rounding slack of a threshold (either branch's documented answer accepted) and cases whose "
            "angular clause is vacuous (bound above 1 rad) are tallied as boundary and not counted. distinct = distinct hash of (type, backend, operand bits).",
    "builds": {
        "quick": [B("stable"), B("fma", 0.25), B("nightly", 0.25, False)],
        "thorough": [B("stable"), B("fma", 0.5), B("nightly", 0.5, False)],
    },
    "volume": {"quick": 3},
    "technique": "property-based testing: constructed pairs of directions / unit quaternions at prescribed angles (nearly equal, nearly opposite, exactly opposite, at every documented "
                 "threshold) and steps relative to the remaining distance / angle, judged against f64 (f32 types) / double-double (f64 types) geometric references with "
                 "conditioning-derived tolerances, in the SSE2 (own polynomial sine in Quat::slerp), scalar-math, libm, nightly core-simd and (+fma,+avx2) builds",
    "level_text": "Generated-input search. Vector lerp: s = 0 and s = 1 return the operands exactly, the affine value in between. FloatExt lerp/inverse_lerp/remap: exact where the formula "
                  "is exact (lerp(.,0), inverse_lerp endpoints, remap(in_start)), a few u elsewhere. Quat::slerp / vector slerp: the result is compared as a vector with the reference "
                  "point at angle s*theta on the shorter arc with the interpolated length; Quat::lerp with the normalised chord, monotone in s (quaternion results are compared as rotations, "
                  "q ~ -q). move_towards: the target bit for bit within reach, else the point at distance d. rotate_towards: length preserved, rotation by min(max_angle, theta) in the plane "
                  "of the operands (towards the opposite for negative angles, at most pi away). from_rotation_arc(_colinear/_2d): unit quaternion, q*a = b (or +-b with the minimal angle). "
                  "clamp_length*: input bit-identical inside the bounds, otherwise same direction on the bound. any_ortho*: orthogonal / orthonormal to 16 u. Angle-derived tolerances: the "
                  "interval of the angle glam may have computed (6e-7 polynomial arccos + 16u/max(sin, sqrt u); atan2 for obtuse vector slerp) is pushed through the reference, plus "
                  "16 u (1 + (|1-s|+|s|)/sin theta) rounding; rotation arcs 34 u/sin theta; where a bound exceeds 1 rad only the well-conditioned clauses are judged. Within rounding slack "
                  "of a documented threshold either branch's documented answer is accepted. Headroom of every comparison is recorded. The same sub-checks also run against the SSE2 build with glam-assert compiled in: the generated inputs satisfy the documented preconditions, so a panic there is a failure. Exploration, not proof.",
    "level_note": "Trusted: rustc f64 arithmetic and std sin/cos/atan2/sqrt in f64, the double-double routines of vcore, proptest, the harness. Quaternion results are moved out with to_array and "
                  "rotated by the harness's own quaternion formula. NEON/wasm32 backends cannot be built here.",
    "design_ref": "DESIGN.md section 5 C12",
    "assumptions": [
        "the f64 / double-double evaluation of the reference geometry is exact enough (trigonometric factors are taken from f64 std functions, error <= 2 u64 relative)",
        "acos_approx's own error is bounded by 6e-7 and the SSE2 polynomial sine inside Quat::slerp by 1e-6/max(sin theta, sqrt u) on the result (DESIGN.md section 4)",
        "Quat::lerp is judged as normalised linear interpolation (endpoints, shorter arc, chord equality, monotone angle), not for constant angular speed (DESIGN clause note)",
        "move_towards with a negative step and quaternion rotate_towards beyond -theta are not documented and not judged beyond 'moves away, never further than the angle itself'",
        "NEON and wasm32 sources are not compiled or executed (no target available offline)",
    ],
}
