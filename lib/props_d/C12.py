from props_common import B

PROP = {
    "crate": "c12",
    "rule": "placeholder",
    "builds": {
        "quick": [B("stable"), B("nightly", 0.25, False)],
        "thorough": [B("stable"), B("fma", 0.5), B("nightly", 0.5, False)],
    },
    "technique": "placeholder",
    "level_text": "placeholder",
    "level_note": "placeholder",
    "design_ref": "DESIGN.md section 5 C12",
    "assumptions": [],
}
