from props_common import B

PROP = {
    "crate": "c03",
    "rule": "Each case is one operand tuple (A, B, v, s) for one of Mat2, Mat3, Mat3A, Mat4, DMat2, DMat3, DMat4 in one backend, pushed through every operator/method form of "
            "matrix*matrix, matrix*vector, determinant, inverse, transpose, negation, +, -, scalar * and /. Integer-lattice cases (exhaustive 2x2 in [-8,8], 3x3 in [-2,2]; random dense, "
            "rank-deficient, signed-permutation matrices with entries up to the exactness limit n!*e^n < 2^24 / 2^53) must give the exact integer result; real cases (U*diag(sigma)*V^T with "
            "prescribed condition number, products of TRS factors, dense log-uniform entries) must be within k*u*sum|monomials| of the reference. A case is non-trivial when A has >= 75 % non-zero "
            "entries, or is rank-deficient (exact integer determinant 0), or has Frobenius condition number >= 100 (bit-pattern cases: some entry is zero/subnormal/inf/NaN/tie/huge); "
            "distinct = distinct hash of (type, backend, operand words), enumerations count their own indices.",
    "builds": {
        "quick": [B("stable"), B("fma", 0.25), B("nightly", 0.25, False)],
        "thorough": [B("stable"), B("fma", 0.5), B("nightly", 0.5, False)],
    },
    "volume": {"quick": 4},
    "technique": "property-based testing: exhaustive small-integer matrix sweeps and proptest generators (integer lattice, prescribed-condition-number, TRS, dense) against an exact i128 / f64 / double-double "
                 "reference cofactor expansion written in the harness, in the SSE2, scalar-math, nightly core-simd (and +fma) builds of the working tree",
    "level_text": "Generated-input search: all 83 521 2x2 integer matrices with entries in [-8,8] and the 3x3 matrices with entries in [-2,2] (1/16 strided in quick, all 1 953 125 in thorough), plus random "
                  "dense / rank-deficient / permutation integer matrices, are required to give the exact integer determinant, product, matrix*vector, sum, difference, scalar multiple, transpose, negation, and "
                  "inverse*det equal to the integer adjugate to 4u; random real matrices (condition number up to 1e4 / 1e10, TRS products, dense) are compared with an f64 / double-double Laplace expansion under "
                  "the forward error bound k*u*sum|monomials| (inverse: entrywise first-order bound and the M*inv-I, inv*M-I residuals that follow from it). Every operator and method form "
                  "(Mul, MulAssign, mul_mat*, mul_vec*, Mat3*Vec3A, Mat3A*Vec3, f32*Mat, Div<f32>, add_mat*, ..., Sum/Product) is exercised. Exploration, not proof; exhaustive only where the evidence says so.",
    "level_note": "Trusted: rustc's f32/f64/i128 arithmetic, the double-double arithmetic of the harness, proptest. NEON/wasm32 backends cannot be built here. `f32 / Mat` (which glam defines as Mat / f32) is not covered: "
                  "the statement gives no meaning to it.",
    "design_ref": "DESIGN.md section 5 C03",
    "assumptions": [
        "the reference is a Laplace (cofactor) expansion in i128 (integer lattice), f64 (f32 types) or double-double (f64 types)",
        "the residual clause ||M*inv - I|| <= k*u*kappa is decided with the computed first-order bound |M|*(entrywise inverse bound), which is the condition number of the cofactor formula; "
        "matrices whose determinant bound k*u*S_det exceeds |det|/8 are counted (class inverse:skipped) and their inverse is not judged",
        "NEON and wasm32 sources are not compiled or executed (no target available offline)",
    ],
    "timeout": {"quick": 1800, "thorough": 7200},
}
