from props_common import B

PROP = {
    "crate": "c18",
    "gens": ["gen_api.py"],
    "rule": "Engine 1: every public function, operator and trait impl of the float vector, quaternion, matrix, affine and mask types (API table generated from the working tree) is called under catch_unwind with every argument drawn from the degenerate-value lattice; non-trivial = some consumed argument word is zero/subnormal/tiny/huge/inf/NaN, distinct by (call id, argument bits). Engine 2: slice functions over all lengths 0..N+4 and index functions over 0..N+2 and usize::MAX, enumerated completely. Engine 3: the same under AddressSanitizer with exact-size heap buffers.",
    "builds": {
        "quick": [B("stable"), B("fma", 0.25), B("chk", 0.5), B("nightly", 0.25, False), B("asan", 0.1, False), B("asan0", 0.01, False)],
        "thorough": [B("stable"), B("fma", 0.5), B("chk", 0.5), B("nightly", 0.5, False), B("asan", 0.2, False), B("asan0", 0.03, False)],
    },
    "fuzz": {"target": "c18_calls", "runs": {"thorough": 3000000}},
    "crash_is_violation": True,
    "volume": {"quick": 2},
    "technique": "property-based testing over a generated API table (catch_unwind totality on lattice arguments), exhaustive length/index sweeps with canaries, the same under AddressSanitizer, plus a libFuzzer target in the thorough tier",
    "level_text": "Generated-input search over every public callable of the float types with degenerate arguments in every position (no panic allowed), complete enumeration of slice lengths and indices (documented panics exactly, canaries untouched), and the same sweeps in an ASan-instrumented nightly build with exact-size heap buffers. Further variants: libm, debug-glam-assert without debug assertions, an unoptimised AddressSanitizer build (stack temporaries and pointer casts really executed). Exploration, not proof.",
    "level_note": "Trusted: rustc, proptest, AddressSanitizer, the API-table generator (functions it cannot call are listed in the evidence under api_skipped). NEON/wasm32 not reachable.",
    "design_ref": "DESIGN.md section 5 C18",
    "assumptions": ["indices are valid and slices long enough in engine 1; engine 2 covers the invalid ones exactly"],
}
