from props_common import B

PROP = {
    "crate": "c09",
    "rule": "placeholder",
    "builds": {
        "quick": [B("stable"), B("nightly", 0.25, False)],
        "thorough": [B("stable"), B("nightly", 0.5, False)],
    },
    "technique": "placeholder",
    "level_text": "placeholder",
    "level_note": "placeholder",
    "design_ref": "DESIGN.md section 5 C09",
    "assumptions": [],
}
