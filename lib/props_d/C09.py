from props_common import B

PROP = {
    "crate": "c09",
    "rule": "Four kinds of case, each evaluated on every type of one float width (f32: Quat, Mat2, Mat3, Mat3A, Mat4, Affine2, Affine3A, Vec2; f64: DQuat, DMat2..4, DAffine2/3, DVec2) in one backend. "
            "(1) rot-ctor: one (unit axis, angle, 2D vector) -> from_axis_angle, from_scaled_axis, from_rotation_x/y/z, from_angle, Vec2::from_angle+rotate; non-trivial when the axis is not a coordinate axis "
            "and the angle is not a multiple of pi/2. (2) from-euler: one (EulerRot variant, angle triple); non-trivial when all three angles are non-zero. "
            "(3) euler-roundtrip: one (EulerRot variant, rotation) where the rotation is a uniform unit quaternion, the reference Euler product of a triple rounded into the type, or glam's own from_euler of the triple "
            "(middle angle at the singular value +- 0, 10^-k or log-uniform offsets); non-trivial when the source is a uniform quaternion or all three angles are non-zero. "
            "(4) axis-angle-extract: one unit quaternion (uniform on S^3, near identity with |v| = 10^e, near a half turn, single-axis); non-trivial unless single-axis. "
            "distinct = distinct hash of (float width, backend, operand bits). Classes record the axis kind, angle class, Euler order, order family x distance decade from the singularity, source kind and gimbal branch.",
    "builds": {
        "quick": [B("stable"), B("fma", 0.25), B("nightly", 0.25, False)],
        "thorough": [B("stable"), B("fma", 0.5), B("nightly", 0.25, False)],
    },
    "volume": {"quick": 3},
    "technique": "property-based testing: proptest generators (uniform and axis-aligned axes, dense/huge/tiny angles, all 24 Euler orders with middle angles constructed at and around the singularity, "
                 "uniform and near-singular quaternions) against a reference written in the harness in double-double arithmetic (Rodrigues formula, elementary rotations and their products parsed from the variant NAME, "
                 "quaternion algebra), in the SSE2, scalar-math, libm and nightly core-simd builds",
    "level_text": "Generated-input search against an independent reference: every rotation constructor of the quaternion, 2x2, 3x3, 4x4 and affine types (f32 and f64) is compared entrywise with the Rodrigues formula / "
                  "the literal single-axis rotation evaluated in ~106-bit arithmetic from the stored axis and angle (tolerance k*u*sum|terms|), checked to be a proper rotation and to agree across types; from_euler of all 24 "
                  "EulerRot variants is compared with the product of the three elementary rotations in the order the variant name spells (intrinsic left to right, Ex reversed) for Quat/Mat3/Mat3A/Mat4 and f64 forms; "
                  "to_euler is checked by rebuilding the rotation from the returned angles with the reference (and with glam's own from_euler) within k*u*(1+1/d), d = distance of the middle angle from the singularity, "
                  "including the gimbal branch (k*u + 4d below the documented 16*EPSILON threshold); to_axis_angle / to_scaled_axis are checked by rebuilding +-q, axis unit, angle in [0, 2pi], fallback (X, 0) accepted only "
                  "while theta^2 <= 8u. SSE2, scalar-math, libm and nightly core-simd builds. The same sub-checks also run against the SSE2 build with glam-assert compiled in: the generated inputs satisfy the documented preconditions, so a panic there is a failure. Exploration, not proof.",
    "level_note": "Trusted: the double-double reference in engine/c09/src/refm.rs (self-tested at start-up against std sin/cos, addition theorems, Rodrigues = elementary = quaternion routes), "
                  "to_cols_array/to_array for reading results, rustc, proptest. NEON/wasm32 backends cannot be built here.",
    "design_ref": "DESIGN.md section 5 C09",
    "assumptions": [
        "the reference (double-double Taylor sin/cos with two-part pi/2 reduction, |error| < 1e-26 for |x| <= 1e6) is correct; it is cross-checked against std and against itself at start-up",
        "sin/cos/atan2 of the platform libm (or the libm crate in the libm build) are accurate to 1 ulp; the tolerances count them as 2u",
        "axes are unit to ~1.5u (normalised in the precision of the type); glam_assert is off in these variants",
        "NEON and wasm32 sources are not compiled or executed (no target available offline)",
    ],
}
