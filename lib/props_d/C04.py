from props_common import B

PROP = {
    "crate": "c04",
    "rule": "Each case is one operand tuple for Quat or DQuat in one backend. hamilton-int: two integer quaternions (|component| <= 64) and a small integer scalar, every result "
            "(q*p in all forms, +, -, *s, neg, conjugate, dot, length_squared) must be the exact integer; hamilton-real: random unit / scaled / independent-component quaternions, "
            "product and dot within 6*u*sum|terms|, length/normalize within 5-7 u relative; lanes: arbitrary bit patterns through conjugate and the 4-vector lane operations against the IEEE "
            "primitive; rotation: unit q, p (uniform on S^3, angle near 0 / pi, w near 0, single-axis) and a well-scaled v, q*v in every form against the vector part of q v q* within "
            "9*u*sum|monomials| and the five laws with tolerances accumulated from that bound. Non-trivial: at least 3 non-zero components in both factors (products), "
            "q not within 1e-3 of a coordinate-axis rotation and v != 0 (rotation), a special value present (lanes); distinct = distinct hash of (type, backend, operand words).",
    "builds": {
        "quick": [B("stable"), B("fma", 0.25), B("nightly", 0.25, False)],
        "thorough": [B("stable"), B("fma", 0.5), B("nightly", 0.5, False)],
    },
    "volume": {"quick": 10},
    "technique": "property-based testing: proptest generators (integer quaternions, constructed unit quaternions, special-value lattice) against an exact i64 Hamilton product and an f64 / double-double "
                 "reference of the Hamilton and sandwich products written in the harness, in the SSE2, scalar-math, nightly core-simd (and +fma) builds of the working tree",
    "level_text": "Generated-input search: the Hamilton product of Quat and DQuat (operator, mul_quat, MulAssign, Product) is required to be the exact integer 4-tuple in (x,y,z,w) storage order on integer "
                  "quaternions and within 6u*sum|terms| on reals; conjugate must negate x,y,z and leave the bits of w alone; +, -, *s, /s, neg are compared per lane with the IEEE primitive on the special-value "
                  "lattice; dot/length/length_recip/normalize within a few u. For unit quaternions q*v (Vec3 and Vec3A operator and method forms) is compared with the vector part of q v q* computed in "
                  "f64 / double-double from the stored components, and |q*v|=|v|, (q*p)*v=q*(p*v), q.inverse()*(q*v)=v, (-q)*v=q*v, Vec3A form = Vec3 form are checked with tolerances "
                  "accumulated from the same bound. The same sub-checks also run against the SSE2 build with glam-assert compiled in: the generated inputs satisfy the documented preconditions, so a panic there is a failure. Exploration, not proof.",
    "level_note": "Trusted: rustc's f32/f64/i64 arithmetic, the double-double arithmetic of the harness, proptest. NEON/wasm32 backends cannot be built here.",
    "design_ref": "DESIGN.md section 5 C04",
    "assumptions": [
        "the reference is the 16-term Hamilton product in i64 (integers), f64 (Quat) or double-double (DQuat)",
        "rotation tolerance is the componentwise forward bound 9*u*sum|monomials| of v(w^2-b.b)+2b(v.b)+2w(b x v); the ratio against DESIGN's 12*u*|v| is recorded as headroom only",
        "NEON and wasm32 sources are not compiled or executed (no target available offline)",
    ],
    "timeout": {"quick": 1800, "thorough": 7200},
}
