from props_common import B

PROP = {
    "crate": "c08",
    "gens": ["gen_api.py"],
    "rule": "Metamorphic: every public callable that takes a Vec3A / Mat3A / Affine3A / BVec3A (API table generated from the working tree, incl. all Vec3A swizzles, operators, trait impls and functions of other types taking them) is evaluated three times on bit-identical visible lanes - built with Vec3A::new and with two different hidden-lane contents injected through Vec3A::from_vec4 / mask comparisons - and all observations must be bit-identical; programs of up to 4 such calls feed each step glam's own outputs (raw registers kept). Non-trivial = the two hidden contents are in different classes and one is inf/NaN/all-ones/subnormal; distinct by (call id, hidden + argument bits).",
    "builds": {
        "quick": [B("stable"), B("fma", 0.25), B("nightly", 0.25, False)],
        "thorough": [B("stable"), B("fma", 0.5), B("nightly", 0.5, False)],
    },
    "fuzz": {"target": "c08_program", "runs": {"thorough": 150000}},
    "volume": {"quick": 4},
    "technique": "metamorphic property-based testing over a generated API table: hidden-lane injection, single calls and stateful programs with pooled raw results, SSE2 and core-simd builds",
    "level_text": "Generated-input search with a metamorphic oracle (two injections of the padding lane must be indistinguishable through every public callable and through short programs of them), in the SSE2 and nightly core-simd builds. The same checks run against the SSE2 and core-simd builds with glam-assert: whether an assertion fires must not depend on the padding lane either. Exploration, not proof.",
    "level_note": "Trusted: rustc, proptest, the API-table generator (skipped callables listed in the evidence). The raw-register conversions are excluded as the statement says. NEON/wasm32 not reachable; the lane does not exist under scalar-math.",
    "design_ref": "DESIGN.md section 5 C08",
    "assumptions": ["observations of Vec3A/Mat3A/Affine3A results read the three visible lanes through to_array/to_cols_array, which are themselves callables in the table"],
}
