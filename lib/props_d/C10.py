from props_common import B

PROP = {
    "crate": "c10",
    "rule": "A case is one (scale, rotation, translation) triple - scale magnitudes log-uniform in [1e-3, 1e3] with one of the 8 (3D) / 4 (2D) sign patterns, rotation a unit quaternion (uniform on S^3, near a half turn, "
            "or within 10^e of a boundary of the matrix-to-quaternion branches) or an angle, translation over the finite range including +-0 - evaluated on every transform type of one float width "
            "(f32: Mat4, Affine3A, Affine2, Mat2, Mat3, Mat3A; f64: DMat4, DAffine3, DAffine2, DMat2, DMat3) in one backend, either through all combined and elementary constructors (compose-3d, compose-2d) "
            "or through to_scale_rotation_translation / to_scale_angle_translation of the reference T*R*S rounded into the type and of glam's own composition (decompose-3d, decompose-2d). "
            "Non-trivial: at least one negative scale or a rotation whose matrix-to-quaternion conversion does not take the 'w largest' branch (2D: at least one negative scale; compose-2d also needs a non-zero angle). "
            "distinct = distinct hash of (float width, backend, words). Classes cross-tabulate sign pattern x branch and the source of the decomposed matrix.",
    "builds": {
        "quick": [B("stable"), B("fma", 0.25), B("nightly", 0.25, False)],
        "thorough": [B("stable"), B("fma", 0.5), B("nightly", 0.25, False)],
    },
    "volume": {"quick": 6},
    "technique": "property-based testing: proptest generators (all scale sign patterns, rotations aimed at every matrix-to-quaternion branch and its boundaries) against a double-double reference T*R*S written in the harness, "
                 "plus the documented product of glam's own elementary constructors as a relational oracle, in the SSE2, scalar-math, libm and nightly core-simd builds",
    "level_text": "Generated-input search: every combined constructor (from_scale_rotation_translation, from_rotation_translation, from_mat3_translation, from_scale_angle_translation, from_scale_angle, "
                  "from_angle_translation, from_mat2_translation) and elementary constructor (from_translation, from_scale, from_quat, from_angle, from_mat3, from_mat2) of Mat4/DMat4, Affine3A/DAffine3, Affine2/DAffine2, "
                  "Mat2/DMat2 and the 2D forms of Mat3/Mat3A/DMat3 is compared entrywise with the reference translation*rotation*scale evaluated in ~106-bit arithmetic (k*u*sum|terms|, translation and pass-through "
                  "blocks bit-equal), with glam's own product of the elementary constructors, and across types. to_scale_rotation_translation (Mat4, DMat4, Affine3A, DAffine3) and to_scale_angle_translation "
                  "(Affine2, DAffine2) are checked on reference-built and self-built transforms: translation bit-equal to the last column, unit rotation, scale magnitudes equal to the column norms and to the composed "
                  "scales, the sign rule (negative determinant <=> only the x scale negative), and recomposition of the returned triple (by the reference and by glam's constructor) reproduces the matrix within "
                  "32u per column norm; all 8/4 sign patterns x all four matrix-to-quaternion branches are tallied. The same sub-checks also run against the SSE2 build with glam-assert compiled in: the generated inputs satisfy the documented preconditions, so a panic there is a failure. Exploration, not proof.",
    "level_note": "Trusted: the double-double reference in engine/c10/src/refm.rs (self-tested at start-up), to_cols_array/from_cols_array/to_array for moving lanes, rustc, proptest. Mat3 has no "
                  "to_scale_angle_translation in this version of glam, so the 2D decomposition covers Affine2/DAffine2 only. NEON/wasm32 backends cannot be built here.",
    "design_ref": "DESIGN.md section 5 C10",
    "assumptions": [
        "the double-double reference (quaternion-to-matrix polynomial, sin/cos) is correct; cross-checked at start-up",
        "inputs are non-degenerate and shear-free: scale magnitudes in [1e-3, 1e3], unit rotation (to rounding), as the statement requires",
        "sin/cos/atan2 of the platform libm (or the libm crate in the libm build) are accurate to 1 ulp",
        "NEON and wasm32 sources are not compiled or executed (no target available offline)",
    ],
}
