from props_common import B

PROP = {
    "crate": "c15",
    "rule": "Mask sub-checks (mask-obs, mask-index, mask-binop) enumerate every value of BVec2/BVec3/BVec4/BVec3A/BVec4A built by every construction route "
            "(new, splat+set, from_array, From/Into [bool; N], the bvecN() function, FALSE/TRUE/default + set, results of !, &, |, ^, and results of float/integer "
            "vector comparisons and is_nan_mask/is_finite_mask, so that SIMD lanes arrive as all-ones registers and BVec3A's hidden fourth lane is both 0 and all-ones), "
            "all pairs of such values for the binary operators, and 20 index arguments (0..8, values that alias a valid index modulo 2^8/2^16/2^32/2^63, usize::MAX) for test and set; "
            "a mask case is non-trivial when a mask involved is neither all-true nor all-false (counted by enumeration). "
            "Vector sub-checks (cmp-select: proptest; cmp-lattice: every pair of lattice points, all 256x256 pairs for 8-bit lanes) take one operand pair of one of the "
            "34 numeric vector types (Vec3A with both hidden lanes drawn too) through the six comparisons, a == a / a != a, and select under all 2^N masks built four ways; "
            "a vector case is non-trivial when some comparison mask is mixed (neither all-true nor all-false) or an operand lane is NaN, +-0 or +-inf; "
            "distinct = distinct hash of (type, backend, operand bits).",
    "builds": {
        "quick": [B("stable"), B("fma", 0.25), B("nightly", 0.5, False)],
        "thorough": [B("stable"), B("fma", 0.5), B("nightly", 0.5, False)],
    },
    "volume": {"quick": 2},
    "technique": "property-based testing: exhaustive truth tables of the five mask types over every construction route (array-of-bools model, route independence, A-type versus plain type), "
                 "plus proptest lattice pairs and exhaustive lattice-pair sweeps through cmp*/select of all 34 numeric vector types against the Rust primitive per lane, "
                 "in the SSE2, scalar-math and nightly core-simd builds",
    "level_text": "Generated-input search. Complete by enumeration: all 2^N values of each of the five mask types x 19-23 construction routes, every pair of them for & | ^ (value and assign forms) "
                  "== != and Hash, ! / set / test on every lane, 20 index arguments per value for test and set (valid ones must work, invalid ones must panic); every observation "
                  "(bitmask, any, all, test, Into<[bool; N]>, Into<[u32; N]>, Debug, {:#?}, Display, padded Display, ==, DefaultHasher) is compared with an array-of-bools model, with the same lanes built by new "
                  "(function of the lanes only) and, for BVec3A/BVec4A, with BVec3/BVec4 after substituting the type name. Explored: cmpeq/ne/lt/le/gt/ge and select of all 7 float and 27 integer vector "
                  "types on special-value-lattice operand pairs (NaN payloads, +-0, +-inf, subnormals, integer extremes, lanes differing only in the top bit) against the Rust primitive per lane, select "
                  "bit-for-bit under all 2^N masks; every pair of lattice points (every pair of 8-bit values) is additionally enumerated. SSE2, scalar-math and nightly core-simd builds. "
                  "Exploration, not proof, wherever the evidence does not say exhaustive.",
    "level_note": "Trusted: rustc's primitive comparisons, from_array/to_array/Vec3A::from_vec4 for moving lanes in and out (C17/C16 check those), std's DefaultHasher, the harness. "
                  "Hash values are only required to agree between equal masks of one type (the statement does not fix them across types). With scalar-math Vec4 compares into BVec4, so BVec4A is reached "
                  "only through its constructors and operators there. NEON/wasm32 mask files cannot be built here.",
    "design_ref": "DESIGN.md section 5 C15",
    "assumptions": [
        "Rust's primitive ==, !=, <, <=, >, >= on f32/f64/integers are the reference for the comparison lanes",
        "from_array / to_array / Vec3A::from_vec4 move lane bits faithfully (checked independently by C16/C17)",
        "the u32 form of a true lane is 0xffffffff and of a false lane 0 (what BVec2/3/4 produce and Debug prints); a uniform change of that encoding in every mask type would be reported although the statement does not fix it",
        "NEON and wasm32 mask implementations are not compiled or executed (no target available offline)",
    ],
}
