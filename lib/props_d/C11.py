from props_common import B

PROP = {
    "crate": "c11",
    "rule": "A case is one camera (eye, unit view direction, unit up hint at an angle of 1e-3 .. pi-1e-3 from it, a target distance) on which every look_to_*/look_at_* "
            "constructor of Mat4, Affine3A, Mat3, Mat3A, Quat (f32 case) or DMat4, DAffine3, DMat3, DQuat (f64 case) is called; or one frustum (fov, aspect, near, far) on "
            "which all seven perspective_* constructors are called and probed at the 8 corners, 6 plane centres, 2 interior and 2 exterior points; or one orthographic box "
            "on which the three orthographic_* constructors are probed the same way; or one general 4x4 matrix and point for project_point3 / transform_point3 / "
            "transform_vector3 (Mat4, DMat4, Affine3A, DAffine3, Vec3 and Vec3A forms). A camera is non-trivial when the eye lies on no coordinate axis and the view "
            "direction is not axis-aligned; a frustum / box when the aspect is not 1 (extent not square) and a random probe is off the view axis in x and y; a matrix case "
            "when at least 10 entries and all point lanes are non-zero. distinct = distinct hash of (kind, scalar type, backend, input bits).",
    "builds": {
        "quick": [B("stable"), B("fma", 0.25), B("nightly", 0.25, False)],
        "thorough": [B("stable"), B("fma", 0.5), B("nightly", 0.5, False)],
    },
    "volume": {"quick": 4},
    "technique": "property-based testing: proptest generators of cameras, frusta, boxes and matrices; oracles are the documented contracts stated independently in f64 "
                 "(double-double for the f64 types) with tolerances k*u*sum|terms| computed from the reference's own terms; SSE2, scalar-math, nightly core-simd builds (libm in thorough)",
    "level_text": "Generated-input search: for every generated camera each look_to/look_at form must be rigid (M^T M = I, det +1 within 16u/sin(dir,up)), send the eye to the origin, "
                  "the view direction to -Z (rh) / +Z (lh) and the up hint into the +Y half of the YZ plane; look_at is judged against the exactly normalised difference; the quaternion "
                  "forms must be unit and agree with the matrix forms. For every generated frustum / box each perspective_*/orthographic_* matrix must emit clip w = -z / +z (1 for "
                  "orthographic) exactly and map 18 probe points to ndc_x = x/(aspect tan(fov/2) d), ndc_y = y/(tan(fov/2) d) and the unique depth A + B/d through the documented "
                  "end points ([0,1], [-1,1] for _gl, near->1 / infinity->0 for reverse, far at infinity for infinite), within 16u * sum|terms|. project_point3 / transform_point3 / "
                  "transform_vector3 and their Vec3A forms are compared with the f64 product M(p,1) / M(p,0) (divided by w for project). Failures shrink to a minimal input saved as a "
                  "replay file. The same sub-checks also run against the SSE2 build with glam-assert compiled in: the generated inputs satisfy the documented preconditions, so a panic there is a failure. Exploration, not proof.",
    "level_note": "Trusted: f64 arithmetic and std sin_cos as the reference for f32 types, the double-double arithmetic of vcore (with a Taylor sin/cos) for f64 types, proptest, the harness. "
                  "NEON/wasm32 backends cannot be built here.",
    "design_ref": "DESIGN.md section 5 C11",
    "assumptions": [
        "to_cols_array / to_array move matrix and quaternion entries out faithfully (C17 checks those)",
        "NEON and wasm32 sources are not compiled or executed (no target available offline)",
    ],
}
