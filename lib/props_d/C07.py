from props_common import B

PROP = {
    "crate": "c07",
    "gens": ["gen_api.py"],
    "cross_builds": True,
    "rule": "(a) In-process differential: every public callable of the eight SIMD-backed types and their masks (API table generated from the working tree) is run in the SSE2 (nightly: core-simd) and the scalar-math build of the working tree on bit-identical finite inputs, as single operations and as lock-step programs of up to 8 operations resynchronised on the scalar outputs; float results must agree within K=16 times the conditioning of the operation measured on the scalar build itself (norm-wise eps perturbations, 10 then 266 sign patterns), discrete results and formatted strings exactly unless the scalar outcome flips in that neighbourhood. Non-trivial = the operation amplifies a perturbation beyond one rounding, has a discrete outcome, or the two backends differ in some bit; distinct by (pair, call id, argument bits). (b) Cross-process: a deterministic stream of unsynchronised chains is evaluated in the default, +fma,+avx2 (thorough: target-cpu=native) builds; every step hash must be identical.",
    "builds": {
        "quick": [B("stable"), B("fma", 1.0), B("nightly", 0.25, False)],
        "thorough": [B("stable"), B("fma", 1.0), B("native", 1.0), B("nightly", 0.5, False)],
    },
    "volume": {"quick": 1.5},
    "technique": "differential property-based testing: SSE2 / core-simd vs scalar-math builds of the same tree linked into one process, perturbation-measured tolerance; cross-process bit-exact differential between target-feature builds",
    "level_text": "Generated-input differential search between backends of the working tree (single calls over the whole API table and resynchronised programs), with an analytic-in-spirit tolerance measured by perturbing the scalar reference, plus a bit-exact comparison of identical case streams between target-feature builds. Exploration, not proof; the tolerance is a measured first-order bound guarded by recorded headroom.",
    "level_note": "Trusted: rustc, proptest, the API-table generator, the scalar-math build as reference. NEON/wasm32 not reachable; fast-math never enabled.",
    "design_ref": "DESIGN.md section 5 C07",
    "assumptions": ["inputs are finite and of moderate magnitude in (a); special values per lane are C01's domain"],
}
