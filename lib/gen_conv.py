#!/usr/bin/env python3
"""C14 table generator: extracts every conversion between vector types from the glam working tree.

  python3 gen_conv.py <outdir>        (env GLAM_SRC = repository root, default /repo)

Scans $GLAM_SRC/src/{f32,f64,i8,u8,i16,u16,i32,u32,i64,u64,usize}/**/*.rs (for f32 the backend
directories sse2/, scalar/ and coresimd/; neon/ and wasm32/ cannot be built here) for

  * `pub fn as_*` methods,
  * `impl From<A> for B`, `impl TryFrom<A> for B` (vectors, arrays, tuples, (vector, scalar) pairs,
    masks, quaternions, native SIMD registers),
  * the re-packaging methods extend / truncate / from_vec4 / xyz / from_array / to_array /
    to_*vec* / from_*vec*,

and writes <outdir>/c14_table.rs: one `ent!`/`ent_try!` call site per conversion, the `Entry` tables
(common + per backend) and `SKIPPED: &[&str]` listing everything that matched the scan but could
not be classified (never silently dropped). The file is rewritten only when its content changes.
"""
import os, re, sys

SCALARS = {"f32": 32, "f64": 64, "i8": 8, "u8": 8, "i16": 16, "u16": 16, "i32": 32, "u32": 32, "i64": 64, "u64": 64, "usize": 64}
INTS = [s for s in SCALARS if s[0] != "f"]
PREFIX = {"": "f32", "D": "f64", "I8": "i8", "U8": "u8", "I16": "i16", "U16": "u16", "I": "i32", "U": "u32",
          "I64": "i64", "U64": "u64", "USize": "usize"}
DIRS = ["f32", "f64", "i8", "u8", "i16", "u16", "i32", "u32", "i64", "u64", "usize"]
BACKENDS = ["sse2", "scalar", "coresimd"]
UNBUILDABLE = ["neon", "wasm32"]
LANE = "xyzw"
METHODS = {"extend", "truncate", "from_vec4", "xyz", "from_array", "to_array"}
METHOD_RE = re.compile(r"^(as_\w+|(to|from)_\w*vec\w*)$")


class Skip(Exception):
    pass


def vec_info(name):
    """vector / quaternion / mask / native type name -> (lane scalar, lanes, ctor kind)"""
    m = re.fullmatch(r"(I8|U8|I16|U16|I64|U64|USize|I|U|D|)Vec([234])(A?)", name)
    if m:
        if m.group(3) and not (m.group(1) == "" and m.group(2) == "3"):
            return None
        return (PREFIX[m.group(1)], int(m.group(2)), "vec")
    if name == "Quat":
        return ("f32", 4, "quat")
    if name == "DQuat":
        return ("f64", 4, "quat")
    m = re.fullmatch(r"BVec([234])(A?)", name)
    if m:
        if m.group(2) and m.group(1) == "2":
            return None
        return ("bool", int(m.group(1)), "vec")
    if name == "__m128":
        return ("f32", 4, "m128")
    if name == "f32x4":
        return ("f32", 4, "f32x4")
    return None


# ---------------------------------------------------------------- type expressions
def split_top(s):
    out, depth, cur = [], 0, ""
    for ch in s:
        if ch in "([<":
            depth += 1
        elif ch in ")]>":
            depth -= 1
        if ch == "," and depth == 0:
            out.append(cur.strip())
            cur = ""
        else:
            cur += ch
    if cur.strip():
        out.append(cur.strip())
    return out


def parse_type(s, owner):
    """-> ('scalar', t) | ('array', t, n) | ('tuple', [types]) | ('named', name)"""
    s = s.strip()
    s = re.sub(r"^&\s*(mut\s+)?", "", s)
    s = re.sub(r"^(crate|super|self)::", "", s)
    if s == "Self" and owner:
        s = owner
    if s in SCALARS or s == "bool":
        return ("scalar", s)
    m = re.fullmatch(r"\[\s*(\w+)\s*;\s*(\d+)\s*\]", s)
    if m:
        if m.group(1) not in SCALARS and m.group(1) != "bool":
            raise Skip("array of non-scalar `%s`" % m.group(1))
        return ("array", m.group(1), int(m.group(2)))
    if s.startswith("(") and s.endswith(")"):
        return ("tuple", [parse_type(p, owner) for p in split_top(s[1:-1])])
    if re.fullmatch(r"\w+", s):
        if vec_info(s) is None:
            raise Skip("type `%s` is not a vector, quaternion, mask, array, tuple or scalar" % s)
        return ("named", s)
    raise Skip("cannot parse type `%s`" % s)


def rust_type(t):
    if t[0] == "scalar":
        return t[1]
    if t[0] == "array":
        return "[%s; %d]" % (t[1], t[2])
    if t[0] == "tuple":
        return "(" + ", ".join(rust_type(x) for x in t[1]) + ("," if len(t[1]) == 1 else "") + ")"
    n = t[1]
    if n == "__m128":
        return "core::arch::x86_64::__m128"
    if n == "f32x4":
        return "core::simd::f32x4"
    return n


def lanes_of(t):
    if t[0] == "scalar":
        return [t[1]]
    if t[0] == "array":
        return [t[1]] * t[2]
    if t[0] == "tuple":
        out = []
        for x in t[1]:
            out += lanes_of(x)
        return out
    sc, n, _ = vec_info(t[1])
    return [sc] * n


def build_expr(t, ctr):
    """expression constructing a value of type t from consecutive lanes l[i]"""
    def nxt():
        ctr[0] += 1
        return "l[%d]" % (ctr[0] - 1)
    if t[0] == "scalar":
        return nxt()
    if t[0] == "array":
        return "[" + ", ".join(nxt() for _ in range(t[2])) + "]"
    if t[0] == "tuple":
        return "(" + ", ".join(build_expr(x, ctr) for x in t[1]) + ("," if len(t[1]) == 1 else "") + ")"
    sc, n, kind = vec_info(t[1])
    args = ", ".join(nxt() for _ in range(n))
    if kind == "vec":
        if t[1] == "Vec3A":
            # the padding lane of a Vec3A source carries junk that differs from z (a conversion that reads the whole
            # register must not let it through)
            return "vec3a_junk(%s)" % args
        return "%s::new(%s)" % (t[1], args)
    if kind == "quat":
        return "%s::from_xyzw(%s)" % (t[1], args)
    if kind == "m128":
        return "super::m128_from([%s])" % args
    if kind == "f32x4":
        return "core::simd::f32x4::from_array([%s])" % args
    raise Skip("no constructor for %s" % t[1])


def is_mask(t):
    return t[0] == "named" and t[1].startswith("BVec")


def read_exprs(t, var):
    """expressions reading the lanes of `var: t` in order"""
    if t[0] == "scalar":
        return [var]
    if t[0] == "array":
        return ["%s[%d]" % (var, i) for i in range(t[2])]
    if t[0] == "tuple":
        out = []
        for i, x in enumerate(t[1]):
            out += read_exprs(x, "%s.%d" % (var, i))
        return out
    sc, n, kind = vec_info(t[1])
    if is_mask(t):
        raise Skip("mask as conversion target")
    if kind in ("vec", "quat"):
        return ["%s.%s" % (var, LANE[i]) for i in range(n)]
    if kind == "m128":
        return ["super::m128_to(%s)[%d]" % (var, i) for i in range(n)]
    if kind == "f32x4":
        return ["%s.to_array()[%d]" % (var, i) for i in range(n)]
    raise Skip("no reader for %s" % t[1])


def uniform(lanes, what):
    if not lanes:
        raise Skip("%s has no lanes" % what)
    if any(x != lanes[0] for x in lanes):
        raise Skip("%s mixes lane types %s" % (what, sorted(set(lanes))))
    return lanes[0]


# ---------------------------------------------------------------- entries
class Entry:
    def __init__(self, name, kind, st, ns, dt, nd, srcty, build, conv, read, try_=False):
        self.name, self.kind, self.st, self.ns, self.dt, self.nd = name, kind, st, ns, dt, nd
        self.srcty, self.build, self.conv, self.read, self.try_ = srcty, build, conv, read, try_
        self.backends = set()

    def key(self):
        return (self.name, self.kind, self.st, self.ns, self.dt, self.nd, self.build, self.conv, self.read)


def classify(form, src_t, dst_t, name, conv):
    """form: 'as' | 'from' | 'tryfrom' | 'method'"""
    sl, dl = lanes_of(src_t), lanes_of(dst_t)
    st, dt = uniform(sl, "source"), uniform(dl, "target")
    ns, nd = len(sl), len(dl)
    if dt == "bool":
        raise Skip("target lanes are bool (mask conversions belong to C15)")
    native = any(t[0] == "named" and vec_info(t[1])[2] in ("m128", "f32x4") for t in (src_t, dst_t))
    if st == "bool":
        if form != "from" or ns != nd:
            raise Skip("mask source outside a lane-for-lane From impl")
        kind = "mask"
    elif form == "tryfrom":
        if st not in INTS or dt not in INTS:
            raise Skip("TryFrom with non-integer lanes")
        if ns != nd:
            raise Skip("lane count changes in TryFrom")
        kind = "tryfrom"
    elif form == "as":
        if ns != nd:
            raise Skip("lane count changes in as_* cast")
        kind = "cast"
    elif st == dt:
        if nd > ns and not native:
            raise Skip("target has more lanes than the source")
        kind = "repack"
    elif form == "from":
        if ns != nd:
            raise Skip("lane count changes in a widening From")
        kind = "from"
    else:
        raise Skip("method changes the lane type but is not an as_* cast")
    build = "|l| " + build_expr(src_t, [0])
    if form == "tryfrom":
        read = "|d| d.map(|d| [%s])" % ", ".join(read_exprs(dst_t, "d"))
    else:
        read = "|d| [%s]" % ", ".join(read_exprs(dst_t, "d"))
    srcty = rust_type(src_t).replace("core::arch::x86_64::", "").replace("core::simd::", "")
    return Entry(name, kind, st, ns, dt, nd, srcty, build, "|s| " + conv, read, form == "tryfrom")


def scan_file(path, rel, backend, entries, skipped):
    text = open(path).read()
    lines = text.split("\n")
    owner = None
    i = 0

    def add(e, cfg_backends):
        bs = set(cfg_backends)
        if backend != "all":
            bs &= {backend}
        k = e.name
        if k in entries:
            if entries[k].key() != e.key():
                skipped.append("%s (%s): conflicting signatures for the same conversion in different files" % (e.name, rel))
                return
            entries[k].backends |= bs
        else:
            e.backends = bs
            entries[k] = e

    def cfg_of(idx):
        """backends allowed by the #[cfg] attributes directly above line idx; None = unrecognised"""
        allowed = set(BACKENDS)
        j = idx - 1
        while j >= 0 and (lines[j].strip().startswith("#[") or lines[j].strip().startswith("///")):
            a = lines[j].strip()
            if a.startswith("#[cfg("):
                if a == '#[cfg(not(feature = "scalar-math"))]':
                    allowed.discard("scalar")
                elif a == '#[cfg(not(target_arch = "spirv"))]':
                    pass
                else:
                    return None, a
            j -= 1
        return allowed, None

    while i < len(lines):
        ln = lines[i]
        if ln.startswith("impl"):
            hdr = ln
            j = i
            while "{" not in hdr and j + 1 < len(lines):
                j += 1
                hdr += " " + lines[j].strip()
            hdr = hdr.split("{")[0].strip()
            m = re.fullmatch(r"impl\s+(\w+)", hdr)
            if m:
                owner = m.group(1)
            else:
                owner = None
                m = re.fullmatch(r"impl(?:<[^>]*>)?\s+(Try)?From<(.*)>\s+for\s+(.+)", hdr)
                if m:
                    label = "impl %sFrom<%s> for %s" % (m.group(1) or "", m.group(2), m.group(3))
                    allowed, bad = cfg_of(i)
                    try:
                        if allowed is None:
                            raise Skip("unrecognised attribute %s" % bad)
                        src_t = parse_type(m.group(2), None)
                        dst_t = parse_type(m.group(3), None)
                        form = "tryfrom" if m.group(1) else "from"
                        dty = rust_type(dst_t)
                        if form == "tryfrom":
                            conv = "<%s as TryFrom<%s>>::try_from(s).ok()" % (dty, rust_type(src_t))
                        else:
                            conv = "<%s as From<%s>>::from(s)" % (dty, rust_type(src_t))
                        add(classify(form, src_t, dst_t, label[5:], conv), allowed)
                    except Skip as e:
                        skipped.append("%s (%s): %s" % (label, rel, e))
            i = j + 1
            continue
        if ln.startswith("}"):
            owner = None
        m = re.match(r"\s+(pub(?:\((?:crate|super)\))?)\s+(?:const\s+)?(?:unsafe\s+)?fn\s+(\w+)\s*\(", ln)
        if m and owner and (m.group(2) in METHODS or METHOD_RE.match(m.group(2))):
            sig = ln
            j = i
            while "{" not in sig and j + 1 < len(lines):
                j += 1
                sig += " " + lines[j].strip()
            sig = sig.split("{")[0]
            mm = re.search(r"fn\s+(\w+)\s*\((.*)\)\s*->\s*(.+?)\s*(?:where.*)?$", sig.strip())
            label = "%s::%s" % (owner, m.group(2))
            try:
                if vec_info(owner) is None:
                    raise Skip("owner is not a vector or quaternion type")
                if m.group(1) != "pub":
                    raise Skip("not public (%s)" % m.group(1))
                if not mm:
                    raise Skip("cannot parse signature `%s`" % sig.strip())
                allowed, bad = cfg_of(i)
                if allowed is None:
                    raise Skip("unrecognised attribute %s" % bad)
                fname, params, ret = mm.group(1), split_top(mm.group(2)), mm.group(3)
                owner_t = ("named", owner)
                has_self = bool(params) and re.fullmatch(r"&?\s*(mut\s+)?self", params[0])
                rest = params[1:] if has_self else params
                arg_ts = []
                for p in rest:
                    if ":" not in p:
                        raise Skip("cannot parse parameter `%s`" % p)
                    arg_ts.append(parse_type(p.split(":", 1)[1], owner))
                dst_t = parse_type(ret, owner)
                if has_self:
                    if arg_ts:
                        src_t = ("tuple", [owner_t] + arg_ts)
                        conv = "s.0.%s(%s)" % (fname, ", ".join("s.%d" % (k + 1) for k in range(len(arg_ts))))
                    else:
                        src_t = owner_t
                        conv = "s.%s()" % fname
                else:
                    if len(arg_ts) == 1:
                        src_t = arg_ts[0]
                        conv = "%s::%s(s)" % (owner, fname)
                    elif arg_ts:
                        src_t = ("tuple", arg_ts)
                        conv = "%s::%s(%s)" % (owner, fname, ", ".join("s.%d" % k for k in range(len(arg_ts))))
                    else:
                        raise Skip("no input")
                form = "as" if fname.startswith("as_") else "method"
                add(classify(form, src_t, dst_t, label, conv), allowed)
            except Skip as e:
                skipped.append("%s (%s): %s" % (label, rel, e))
            i = j + 1
            continue
        i += 1


def main():
    outdir = sys.argv[1]
    root = os.path.abspath(os.environ.get("GLAM_SRC", "/repo"))
    entries, skipped, scanned = {}, [], []
    for d in DIRS:
        base = os.path.join(root, "src", d)
        for dp, dn, fn in sorted(os.walk(base)):
            dn.sort()
            for f in sorted(fn):
                if not f.endswith(".rs"):
                    continue
                p = os.path.join(dp, f)
                rel = os.path.relpath(p, root)
                sub = os.path.relpath(dp, base).split(os.sep)[0]
                if sub in UNBUILDABLE:
                    continue
                backend = sub if sub in BACKENDS else "all"
                scanned.append(rel)
                scan_file(p, rel, backend, entries, skipped)
    names = sorted(entries)
    common = [n for n in names if entries[n].backends == set(BACKENDS)]
    per = {b: [n for n in names if entries[n].backends != set(BACKENDS) and b in entries[n].backends] for b in BACKENDS}
    ident = {n: "e%04d" % k for k, n in enumerate(names)}

    def q(s):
        return '"' + s.replace("\\", "\\\\").replace('"', '\\"') + '"'

    def site(n):
        e = entries[n]
        mac = "ent_try!" if e.try_ else "ent!"
        return "%s(%s, %s, k_%s, %s, %d, %s, %d, %s, %s, %s);" % (mac, ident[n], q(e.name), e.kind, e.st, e.ns, e.dt, e.nd, e.build, e.conv, e.read)

    def row(n):
        e = entries[n]
        return "    Entry { name: %s, kind: %s, src: %s, dst: %s, ns: %d, nd: %d, srcty: %s, f: %s }," % (
            q(e.name), q(e.kind), q(e.st), q(e.dt), e.ns, e.nd, q(e.srcty), ident[n])

    o = []
    o.append("// GENERATED by /verif/lib/gen_conv.py from the glam working tree -- do not edit.")
    o.append("// %d conversions (%d common to all backends), %d skipped, %d files scanned." % (len(names), len(common), len(skipped), len(scanned)))
    used = set()
    for n in names:
        e = entries[n]
        used |= set(re.findall(r"\b((?:I8|U8|I16|U16|I64|U64|USize|I|U|D|B)?Vec[234]A?|D?Quat)\b", e.build + e.conv + e.read))
    o.append("#[allow(unused_imports)]")
    o.append("use glam::{%s};" % ", ".join(sorted(used)))
    for n in common:
        o.append(site(n))
    o.append("pub const ENTRIES_COMMON: &[Entry] = &[")
    o += [row(n) for n in common]
    o.append("];")
    for b in BACKENDS:
        o.append("backend_items! { %s {" % b)
        o += ["    " + site(n) for n in per[b]]
        o.append("} }")
        o.append("pub const ENTRIES_%s: &[Entry] = backend_arr!(%s [" % (b.upper(), b))
        o += [row(n) for n in per[b]]
        o.append("]);")
    o.append("pub const SKIPPED: &[&str] = &[")
    o += ["    %s," % q(s) for s in sorted(set(skipped))]
    o.append("];")
    o.append("pub const SCANNED_FILES: usize = %d;" % len(scanned))
    text = "\n".join(o) + "\n"
    os.makedirs(outdir, exist_ok=True)
    path = os.path.join(outdir, "c14_table.rs")
    try:
        if open(path).read() == text:
            return 0
    except FileNotFoundError:
        pass
    with open(path, "w") as f:
        f.write(text)
    return 0


if __name__ == "__main__":
    sys.exit(main())
