"""Loads the per-property configuration files lib/props_d/CNN.py (one dict PROP each)."""
import importlib.util, os, sys

sys.path.insert(0, os.path.dirname(os.path.abspath(__file__)))
from props_common import VARIANTS, B, FEAT  # noqa: F401,E402

PROPS = {}
_d = os.path.join(os.path.dirname(os.path.abspath(__file__)), "props_d")
for _f in sorted(os.listdir(_d)):
    if _f.endswith(".py"):
        _spec = importlib.util.spec_from_file_location("props_d_" + _f[:-3], os.path.join(_d, _f))
        _m = importlib.util.module_from_spec(_spec)
        _spec.loader.exec_module(_m)
        PROPS[_f[:-3]] = _m.PROP
