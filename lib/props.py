"""Static configuration of the checks: variants of the live tree, builds per tier, rules."""

FEAT = ["serde", "bytemuck", "mint", "rkyv", "bytecheck", "approx", "rand"]

VARIANTS = {
    "simd": [],
    "scalar": ["scalar-math"],
    "libm": ["libm"],
    "assert": ["glam-assert"],
    "scalar_assert": ["scalar-math", "glam-assert"],
    "dbgassert": ["debug-glam-assert"],
    "feat": FEAT,
    "scalar_feat": FEAT + ["scalar-math"],
    "core": ["core-simd"],
    "core_assert": ["core-simd", "glam-assert"],
    "core_feat": FEAT + ["core-simd"],
}


def B(build, scale=1.0, primary=None):
    d = {"build": build, "scale": scale}
    if primary is not None:
        d["primary"] = primary
    return d


PROPS = {
    "C01": {
        "crate": "c01",
        "rule": "Each case is one operand tuple (all lanes drawn independently from the special-value lattice of DESIGN.md 3.1, "
                "related pairs for binary ops) evaluated by every element-wise operation and operator form of one float vector type in one backend; "
                "exhaustive/strided sweeps enumerate f32 bit patterns for the unary lane ops. A case is non-trivial when some operand lane is zero, subnormal, "
                "inf, NaN, an exact .5 tie or >= 2^23 (2^52), or operands are related (equal/negated/1ulp apart/huge or tie quotient); distinct = distinct hash of (type, backend, operand bits).",
        "builds": {
            "quick": [B("stable"), B("fma", 0.25), B("nightly", 0.25, False)],
            "thorough": [B("stable"), B("fma", 0.5), B("native", 0.25), B("nightly", 0.5, False)],
        },
        "assumptions": [
            "Rust's f32/f64 primitives (and libm's functions in the libm build, for exp/powf only) are the reference",
            "NEON and wasm32 sources are not compiled or executed (no target available offline)",
        ],
    },
}
