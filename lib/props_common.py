"""Static configuration of the checks: variants of the live tree, builds per tier, rules."""

FEAT = ["serde", "bytemuck", "mint", "rkyv", "bytecheck", "approx", "rand"]

VARIANTS = {
    "simd": [],
    "scalar": ["scalar-math"],
    "libm": ["libm"],
    "assert": ["glam-assert"],
    "scalar_assert": ["scalar-math", "glam-assert"],
    "dbgassert": ["debug-glam-assert"],
    "feat": FEAT,
    "scalar_feat": FEAT + ["scalar-math"],
    "feat_assert": FEAT + ["glam-assert"],
    "core": ["core-simd"],
    "core_assert": ["core-simd", "glam-assert"],
    "core_feat": FEAT + ["core-simd"],
}


def B(build, scale=1.0, primary=None):
    d = {"build": build, "scale": scale}
    if primary is not None:
        d["primary"] = primary
    return d


