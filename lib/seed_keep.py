#!/usr/bin/env python3
"""Move confirmed seeded breakages from seeded-cand/ into seeded/<property>/<n>/ with a meta.json,
and print the table for DESIGN.md section 8.1.

  seed_keep.py            keep every candidate whose eval.json confirms it (suite passes with the change,
                          demo fails with it and passes without it) and print the table
"""
import json, os, re, shutil, sys

VERIF = os.path.dirname(os.path.dirname(os.path.abspath(__file__)))
CAND = os.path.join(VERIF, "seeded-cand")
KEEP = os.path.join(VERIF, "seeded")


def first_para(notes, key_words=("needs", "manifest", "shows", "requires")):
    txt = open(notes).read() if os.path.exists(notes) else ""
    return txt


def main():
    rows = []
    for name in sorted(os.listdir(CAND)):
        d = os.path.join(CAND, name)
        ev = os.path.join(d, "eval.json")
        if not os.path.exists(ev):
            continue
        e = json.load(open(ev))
        confirmed = e.get("patch_applies") and e.get("suite_with_change") == "pass" and e.get("demo_with_change") == "fails" and e.get("demo_without_change") == "passes"
        pid, n = name.split("-")
        if os.path.exists(os.path.join(d, "DISCARD")):
            rows.append((pid, n, "DISCARDED: " + open(os.path.join(d, "DISCARD")).read().strip(), "", "", "", {}))
            continue
        if not confirmed:
            rows.append((pid, n, "NOT CONFIRMED", e.get("suite_with_change"), e.get("demo_with_change"), e.get("demo_without_change"), {}))
            continue
        dst = os.path.join(KEEP, pid, n)
        os.makedirs(dst, exist_ok=True)
        for f in ("patch.diff", "demo.rs", "notes.md"):
            shutil.copy(os.path.join(d, f), os.path.join(dst, f))
        notes = open(os.path.join(d, "notes.md")).read()
        meta_path = os.path.join(dst, "meta.json")
        old = json.load(open(meta_path)) if os.path.exists(meta_path) else {}
        hist = old.get("history", [])
        run = {"repo_head": e.get("repo_head"), "checks": {k: {"detected": v["detected"], "exit": v["exit"], "violations": v["violations"], "first": v.get("first", [])[:2]} for k, v in e.get("checks", {}).items()}}
        if not hist or hist[-1] != run:
            hist.append(run)
        meta = {
            "property": pid,
            "written_by": "independent sub-agent that saw only the property text and a scratch worktree",
            "files_changed": e.get("files_changed"),
            "what_it_breaks_and_needs": notes[:1800],
            "confirmed_by": "lib/seed_eval.py in a scratch worktree of /repo: patch applies; `cargo test --offline --workspace` passes with the change; the demonstration fails with the change and passes without it",
            "demo_command": next((l.strip("/ ").strip() for l in open(os.path.join(d, "demo.rs")) if "cargo" in l), "cargo test --offline --test seed_demo"),
            "detected_by": {k: v["detected"] for k, v in e.get("checks", {}).items()},
            "history": hist,
        }
        json.dump(meta, open(meta_path, "w"), indent=1)
        rows.append((pid, n, "confirmed", e.get("files_changed"), "", "", e.get("checks", {})))
    for r in rows:
        pid, n, st, a, b, c, checks = r
        det = ", ".join("%s:%s" % (k, "caught(%s)" % (v["first"][0].get("sub") if v.get("first") else "?") if v["detected"] else "MISSED") for k, v in checks.items()) if checks else "%s %s %s" % (a, b, c)
        print("%s/%s | %s | %s" % (pid, n, st, det))


if __name__ == "__main__":
    main()
