#!/usr/bin/env python3
"""API-table generator (DESIGN.md 2.2).

Parses the signatures of every public inherent function and every operator / trait impl of the
float vector, quaternion, matrix, affine and mask types of the working tree ($GLAM_SRC/src), for
each backend directory (sse2, scalar, coresimd), and writes <outdir>/api_table_<backend>.rs:

    pub static API: &[ApiEntry]          one entry per callable (id shared across backends)
    pub fn call(id, &mut Src, &mut Obs) -> bool   draws typed arguments, calls, flattens the result

Functions it cannot call are listed in API_SKIPPED with the reason (never silently dropped).
Usage: gen_api.py <outdir>       (env GLAM_SRC, default /repo)
"""
import os, re, sys, json

SRC = os.path.join(os.environ.get("GLAM_SRC", "/repo"), "src")
OUT = sys.argv[1] if len(sys.argv) > 1 else "."

# type -> (file relative to src, with {b} = backend dir, scalar type, number of scalar elements)
TYPES = {
    "Vec2": ("f32/vec2.rs", "f32", 2), "Vec3": ("f32/vec3.rs", "f32", 3), "Vec3A": ("f32/{b}/vec3a.rs", "f32", 3),
    "Vec4": ("f32/{b}/vec4.rs", "f32", 4), "Quat": ("f32/{b}/quat.rs", "f32", 4), "Mat2": ("f32/{b}/mat2.rs", "f32", 4),
    "Mat3": ("f32/mat3.rs", "f32", 9), "Mat3A": ("f32/{b}/mat3a.rs", "f32", 9), "Mat4": ("f32/{b}/mat4.rs", "f32", 16),
    "Affine2": ("f32/affine2.rs", "f32", 6), "Affine3A": ("f32/affine3a.rs", "f32", 12),
    "DVec2": ("f64/dvec2.rs", "f64", 2), "DVec3": ("f64/dvec3.rs", "f64", 3), "DVec4": ("f64/dvec4.rs", "f64", 4),
    "DQuat": ("f64/dquat.rs", "f64", 4), "DMat2": ("f64/dmat2.rs", "f64", 4), "DMat3": ("f64/dmat3.rs", "f64", 9),
    "DMat4": ("f64/dmat4.rs", "f64", 16), "DAffine2": ("f64/daffine2.rs", "f64", 6), "DAffine3": ("f64/daffine3.rs", "f64", 12),
    "BVec2": ("bool/bvec2.rs", "bool", 2), "BVec3": ("bool/bvec3.rs", "bool", 3), "BVec4": ("bool/bvec4.rs", "bool", 4),
    "BVec3A": ("bool/{b}/bvec3a.rs", "bool", 3), "BVec4A": ("bool/{b}/bvec4a.rs", "bool", 4),
}
DIM = {"Vec2": 2, "Vec3": 3, "Vec3A": 3, "Vec4": 4, "DVec2": 2, "DVec3": 3, "DVec4": 4, "Mat2": 2, "Mat3": 3, "Mat3A": 3, "Mat4": 4,
       "DMat2": 2, "DMat3": 3, "DMat4": 4, "BVec2": 2, "BVec3": 3, "BVec4": 4, "BVec3A": 3, "BVec4A": 4, "Quat": 4, "DQuat": 4}
BACKENDS = ["sse2", "scalar", "coresimd"]
KNOWN_ARG = set(TYPES) | {"f32", "f64", "bool", "u32", "EulerRot"}
RAW = ("__m128", "f32x4", "float32x4_t", "v128", "mask32x4", "uint32x4_t", "__m128i")


def strip_comments(s):
    s = re.sub(r"//[^\n]*", "", s)
    return s


def norm_type(t, self_t):
    t = t.strip()
    t = re.sub(r"\bSelf\b", self_t, t)
    t = t.replace("crate::", "")
    t = re.sub(r"\s+", " ", t)
    return t


def split_args(a):
    out, depth, cur = [], 0, ""
    for ch in a:
        if ch in "([<":
            depth += 1
        if ch in ")]>":
            depth -= 1
        if ch == "," and depth == 0:
            out.append(cur)
            cur = ""
        else:
            cur += ch
    if cur.strip():
        out.append(cur)
    return [x.strip() for x in out]


def float_width(types):
    w = set()
    for t in types:
        for name in re.findall(r"[A-Za-z_0-9]+", t):
            if name in TYPES:
                sc = TYPES[name][1]
                if sc in ("f32", "f64"):
                    w.add(32 if sc == "f32" else 64)
            elif name == "f32":
                w.add(32)
            elif name == "f64":
                w.add(64)
    return w


def idx_bound(ty, fn, argname):
    if fn in ("col", "col_mut", "row") and ty in DIM:
        return DIM[ty]
    if fn in ("test", "set") and ty in DIM:
        return DIM[ty]
    if "mat3_minor" in fn or "mat3a_minor" in fn:
        return 3
    if "mat4_minor" in fn:
        return 4
    return None


def arg_get(t, ty, fn, argname, skip):
    """returns (binding statements, call expression) for one argument of type t"""
    v = "a_" + argname
    if t in ("usize",):
        b = idx_bound(ty, fn, argname)
        if b is None:
            skip.append("usize argument `%s` without a known valid range" % argname)
            return "", ""
        return "let %s: usize = s.idx(%d);" % (v, b), v
    if t == "F":
        # the closure records every argument it is handed: a caller's closure is part of the public surface
        # (it must be called once per visible lane, with the visible lanes, in order)
        return "let seen_f = std::cell::RefCell::new(Vec::new());", "|v| { seen_f.borrow_mut().push(v); v + v }"
    m = re.fullmatch(r"&\s*\[(f32|f64)\]", t)
    if m:
        n = TYPES[ty][2]
        return "let %s: Vec<%s> = s.slice_%s(%d);" % (v, m.group(1), m.group(1), n), "&%s[..]" % v
    m = re.fullmatch(r"&\s*mut \[(f32|f64)\]", t)
    if m:
        n = TYPES[ty][2]
        return "let mut %s: Vec<%s> = s.mslice_%s(%d);" % (v, m.group(1), m.group(1), n), "&mut %s[..]" % v
    ref = ""
    tt = t
    if tt.startswith("&mut "):
        skip.append("&mut argument of type %s" % t)
        return "", ""
    if tt.startswith("&"):
        ref = "&"
        tt = tt[1:].strip()
    if any(r in tt for r in RAW):
        skip.append("raw SIMD register type %s (explicit raw-register conversion)" % tt)
        return "", ""
    return "let %s: %s = <%s as Arg>::get(s);" % (v, tt, tt), ref + v


def cfg_excluded(s, pos, backend):
    """True if the item starting at `pos` is preceded by a cfg attribute that excludes this backend."""
    pre = s[max(0, pos - 400):pos]
    lines = pre.rstrip().split("\n")
    attrs = []
    for l in reversed(lines):
        l = l.strip()
        if l.startswith("#[") or l == "":
            attrs.append(l)
        else:
            break
    a = " ".join(attrs)
    is_scalar = backend == "scalar"
    if 'cfg(not(feature = "scalar-math"))' in a and is_scalar:
        return True
    if 'cfg(feature = "scalar-math")' in a and 'not(feature = "scalar-math")' not in a and not is_scalar:
        return True
    if 'cfg(target_arch = "spirv")' in a or "cfg(test)" in a:
        return True
    return False


def parse_file(ty, path, backend="sse2"):
    """yields entries: dict(key, ty, name, sig, body(rust), width, kind)"""
    if not os.path.exists(path):
        return [], []
    s = strip_comments(open(path).read())
    if backend == "scalar":
        for a, b in re.findall(r"use crate::(\w+) as (\w+);", s):
            s = re.sub(r"\b%s\b" % b, a, s)
    entries, skipped = [], []
    # ---- inherent impl blocks and free functions
    fn_re = re.compile(r"pub (const )?(unsafe )?fn (\w+)\s*(<[^>]*>)?\s*\(([^)]*)\)\s*(?:->\s*([^{;]+?))?\s*(?:where[^{]*)?\{")
    # find which fns are inside `impl T {`: locate impl block spans by brace matching
    spans = []
    for m in re.finditer(r"(?m)^impl\s+(\w+)\s*\{", s):
        i = m.end()
        depth = 1
        while depth and i < len(s):
            if s[i] == "{":
                depth += 1
            elif s[i] == "}":
                depth -= 1
            i += 1
        spans.append((m.start(), i, m.group(1)))
    trait_spans = []
    for m in re.finditer(r"(?m)^impl(<[^>]*>)?\s+([^{]+?)\s+for\s+([^{]+?)\s*\{", s):
        i = m.end()
        depth = 1
        while depth and i < len(s):
            if s[i] == "{":
                depth += 1
            elif s[i] == "}":
                depth -= 1
            i += 1
        trait_spans.append((m.start(), i))
    for m in fn_re.finditer(s):
        pos = m.start()
        if any(a <= pos < b for a, b in trait_spans):
            continue
        owner = None
        for a, b, t in spans:
            if a <= pos < b:
                owner = t
        # skip nested fns (inside other fn bodies): crude: only accept 0 or 4 spaces indentation
        line_start = s.rfind("\n", 0, pos) + 1
        indent = pos - line_start
        if (owner and indent != 4) or (not owner and indent != 0):
            continue
        if cfg_excluded(s, line_start, backend):
            continue
        const, unsafe, name, gen, args, ret = m.groups()
        self_t = owner or ty
        sig = "%sfn %s%s(%s)%s" % ("const " if const else "", name, gen or "", re.sub(r"\s+", " ", args.strip()), (" -> " + ret.strip()) if ret else "")
        key = "%s::%s" % (owner, name) if owner else "fn %s" % name
        sk = []
        if unsafe:
            sk.append("unsafe fn")
        binds, call_args, types = [], [], []
        recv = None
        for a in split_args(args):
            if a in ("self", "mut self"):
                recv = "val"
                continue
            if a == "&self":
                recv = "ref"
                continue
            if a == "&mut self":
                recv = "mut"
                continue
            an, at = a.split(":", 1)
            an = an.strip().replace("mut ", "")
            at = norm_type(at, self_t)
            types.append(at)
            b, e = arg_get(at, self_t, name, an, sk)
            binds.append(b)
            call_args.append(e)
        if recv:
            types.append(self_t)
        w = float_width(types)
        if len(w) > 1:
            # mixed widths (e.g. as_ casts take only self; from_* across widths): draw each with its own width
            pass
        width = 64 if (TYPES.get(self_t, ("", "f32"))[1] == "f64" or (w == {64})) else 32
        if sk:
            skipped.append({"key": key, "sig": sig, "reason": "; ".join(sk)})
            continue
        body = []
        if recv:
            body.append("let %sa_self: %s = <%s as Arg>::get(s);" % ("mut " if recv == "mut" else "", self_t, self_t))
        body += [b for b in binds if b]
        recv_e = {"val": "a_self", "ref": "&a_self", "mut": "&mut a_self", None: None}[recv]
        allargs = ([recv_e] if recv_e else []) + call_args
        path_ = ("%s::%s" % (self_t, name)) if owner else name
        retn = (ret or "").strip()
        if retn == "" or retn == "()":
            body.append("%s(%s);" % (path_, ", ".join(allargs)))
        else:
            body.append("{ let r = %s(%s); o.put(&r); }" % (path_, ", ".join(allargs)))
        if any(b.startswith("let seen_f") for b in binds):
            body.append("o.put(&*seen_f.borrow());")
        # observe mutated things
        if recv == "mut":
            body.append("o.put(&a_self);")
        for a in split_args(args):
            if ":" in a and "&mut [" in a:
                an = a.split(":", 1)[0].strip()
                body.append("o.put(&a_%s);" % an)
        entries.append({"key": key, "ty": self_t if owner else ty, "name": name, "sig": sig, "body": " ".join(body), "width": width, "kind": 0})
    # ---- trait impls
    for m in re.finditer(r"(?m)^impl(<[^>]*>)?\s+([^{]+?)\s+for\s+([^{]+?)\s*\{", s):
        gen, trait, forty = m.group(1), m.group(2).strip(), m.group(3).strip()
        if cfg_excluded(s, m.start(), backend):
            continue
        trait = trait.replace("core::ops::", "").replace("core::iter::", "").replace("core::fmt::", "fmt::").replace("core::hash::", "")
        header = "impl%s %s for %s" % (gen or "", trait, forty)
        key = header
        sk = []
        tm = re.fullmatch(r"(\w+(?:::\w+)?)(?:<(.*)>)?", trait)
        if not tm:
            skipped.append({"key": key, "sig": header, "reason": "unparsed trait header"})
            continue
        tname, targ = tm.group(1), tm.group(2)
        lhs_ref = forty.startswith("&")
        L = norm_type(forty.lstrip("&").strip(), ty)
        if targ is not None:
            targ = targ.replace("&'a ", "&")
        R = norm_type(targ, L) if targ else L
        if any(r in header for r in RAW):
            skipped.append({"key": key, "sig": header, "reason": "raw SIMD register conversion (excluded by the statement)"})
            continue
        BIN = {"Add": "+", "Sub": "-", "Mul": "*", "Div": "/", "Rem": "%", "BitAnd": "&", "BitOr": "|", "BitXor": "^"}
        ASG = {"AddAssign": "+=", "SubAssign": "-=", "MulAssign": "*=", "DivAssign": "/=", "RemAssign": "%=", "BitAndAssign": "&=", "BitOrAssign": "|=", "BitXorAssign": "^="}
        body = None
        types = [L]
        if tname in BIN or tname in ASG:
            r_ref = R.startswith("&")
            Rt = R.lstrip("&").strip()
            types.append(Rt)
            if tname in BIN:
                body = "let a: {L} = <{L} as Arg>::get(s); let b: {R} = <{R} as Arg>::get(s); {{ let r = {la}a {op} {rb}b; o.put(&r); }}".format(
                    L=L, R=Rt, la="&" if lhs_ref else "", rb="&" if r_ref else "", op=BIN[tname])
            else:
                body = "let mut a: {L} = <{L} as Arg>::get(s); let b: {R} = <{R} as Arg>::get(s); a {op} {rb}b; o.put(&a);".format(
                    L=L, R=Rt, rb="&" if r_ref else "", op=ASG[tname])
        elif tname in ("Neg", "Not"):
            body = "let a: {L} = <{L} as Arg>::get(s); {{ let r = {op}{la}a; o.put(&r); }}".format(L=L, la="&" if lhs_ref else "", op="-" if tname == "Neg" else "!")
        elif tname == "From":
            A = R
            types.append(A)
            body = "let a: {A} = <{A} as Arg>::get(s); {{ let r: {L} = <{L} as From<{A}>>::from(a); o.put(&r); }}".format(A=A, L=L)
        elif tname == "AsRef":
            body = "let a: {L} = <{L} as Arg>::get(s); {{ let r: &{R} = a.as_ref(); o.put(r); }}".format(L=L, R=R)
        elif tname == "AsMut":
            body = "let mut a: {L} = <{L} as Arg>::get(s); {{ let r: &mut {R} = a.as_mut(); let n = r.len(); let i = s.idx(n); r[i] = Arg::get(s); }} o.put(&a);".format(L=L, R=R)
        elif tname in ("Sum", "Product"):
            byref = R.startswith("&")
            meth = "sum" if tname == "Sum" else "product"
            body = ("let k = s.idx(5); let items: Vec<{L}> = (0..k).map(|_| <{L} as Arg>::get(s)).collect(); "
                    "{{ let r: {L} = items.iter(){cp}.{meth}(); o.put(&r); }}").format(L=L, cp="" if byref else ".copied()", meth=meth)
        elif tname == "fmt::Display":
            body = "let a: {L} = <{L} as Arg>::get(s); o.put_str(format!(\"{{}}\", a)); o.put_str(format!(\"{{:.3}}\", a)); o.put_str(format!(\"{{:8.1}}\", a));".format(L=L)
        elif tname == "fmt::Debug":
            body = "let a: {L} = <{L} as Arg>::get(s); o.put_str(format!(\"{{:?}}\", a)); o.put_str(format!(\"{{:.2?}}\", a)); o.put_str(format!(\"{{:#?}}\", a));".format(L=L)
        elif tname == "PartialEq":
            body = "let a: {L} = <{L} as Arg>::get(s); let b: {L} = <{L} as Arg>::get(s); o.put(&(a == b)); o.put(&(a != b)); o.put(&(a == a)); o.put(&(b != b));".format(L=L)
        elif tname == "Default":
            body = "{{ let r: {L} = Default::default(); o.put(&r); }}".format(L=L)
        elif tname == "Index":
            n = DIM.get(L)
            body = "let a: {L} = <{L} as Arg>::get(s); let i = s.idx({n}); {{ let r = a[i]; o.put(&r); }}".format(L=L, n=n) if n else None
        elif tname == "IndexMut":
            n = DIM.get(L)
            body = "let mut a: {L} = <{L} as Arg>::get(s); let i = s.idx({n}); a[i] = Arg::get(s); o.put(&a);".format(L=L, n=n) if n else None
        elif tname == "Deref":
            body = "let a: {L} = <{L} as Arg>::get(s); DerefObs::deref_obs(&a, o);".format(L=L)
        elif tname == "DerefMut":
            body = "let mut a: {L} = <{L} as Arg>::get(s); let i = s.idx(16); DerefObs::deref_set(&mut a, i, s); o.put(&a);".format(L=L)
        elif tname == "Hash":
            body = "let a: {L} = <{L} as Arg>::get(s); o.put(&hash_of(&a));".format(L=L)
        elif tname in ("Eq", "Copy", "Clone"):
            continue
        if body is None:
            skipped.append({"key": key, "sig": header, "reason": "trait %s not handled by the table" % tname})
            continue
        w = float_width(types)
        width = 64 if w == {64} else 32
        entries.append({"key": key, "ty": L, "name": tname, "sig": header, "body": body, "width": width, "kind": 1})
    return entries, skipped


def parse_swizzles(ty, path):
    """trait-impl swizzle methods of a SIMD-backed type: `fn xyz(self) -> T` / `fn with_xy(self, rhs: T) -> Self`"""
    if not os.path.exists(path):
        return []
    s = strip_comments(open(path).read())
    m = re.search(r"impl (Vec[234]Swizzles) for (\w+)", s)
    if not m:
        return []
    trait = m.group(1)
    out = []
    for fm in re.finditer(r"(?m)^    fn (\w+)\(self(?:, rhs: ([\w:]+))?\) -> ([\w:]+)\s*\{", s):
        name, rhs, ret = fm.groups()
        ret = norm_type(ret, ty)
        sig = "%s::%s(self%s) -> %s" % (trait, name, (", rhs: " + rhs) if rhs else "", ret)
        if rhs:
            rhs = norm_type(rhs, ty)
            body = "let a_self: {T} = <{T} as Arg>::get(s); let a_rhs: {R} = <{R} as Arg>::get(s); {{ let r: {O} = <{T} as {TR}>::{n}(a_self, a_rhs); o.put(&r); }}".format(T=ty, R=rhs, O=ret, TR=trait, n=name)
        else:
            body = "let a_self: {T} = <{T} as Arg>::get(s); {{ let r: {O} = <{T} as {TR}>::{n}(a_self); o.put(&r); }}".format(T=ty, O=ret, TR=trait, n=name)
        out.append({"key": "swizzle %s" % name, "ty": ty, "name": "swizzle::" + name, "sig": sig, "body": body, "width": 32, "kind": 1})
    return out


SWIZZLE_FILES = {"Vec3A": "swizzles/{b}/vec3a_impl.rs", "Vec4": "swizzles/{b}/vec4_impl.rs"}


def main():
    per_backend = {}
    union = {}
    allskipped = {}
    for b in BACKENDS:
        ents = []
        for ty, (f, sc, n) in TYPES.items():
            path = os.path.join(SRC, f.format(b=b))
            e, sk = parse_file(ty, path, b)
            # de-duplicate identical keys within a file (cfg'd alternatives): keep the first
            seen = set()
            for x in e:
                if x["key"] in seen:
                    continue
                seen.add(x["key"])
                x["key"] = "%s | %s" % (ty, x["key"])
                ents.append(x)
            for x in sk:
                allskipped.setdefault("%s | %s" % (ty, x["key"]), x)
            if ty in SWIZZLE_FILES:
                for x in parse_swizzles(ty, os.path.join(SRC, SWIZZLE_FILES[ty].format(b=b))):
                    x["key"] = "%s | %s" % (ty, x["key"])
                    ents.append(x)
        per_backend[b] = ents
        for x in ents:
            union.setdefault(x["key"], x)
    keys = sorted(union)
    ids = {k: i for i, k in enumerate(keys)}
    os.makedirs(OUT, exist_ok=True)
    for b in BACKENDS:
        lines = ["// @generated by lib/gen_api.py from the working tree; do not edit.", "#[allow(unused_variables, unused_mut, clippy::all)]",
                 "pub static API: &[ApiEntry] = &["]
        have = {x["key"]: x for x in per_backend[b]}
        for k in keys:
            x = union[k]
            lines.append("    ApiEntry { id: %d, ty: %s, name: %s, sig: %s, width: %d, kind: %d, present: %s }," % (
                ids[k], json.dumps(x["ty"]), json.dumps(x["name"]), json.dumps(x["sig"]), x["width"], x["kind"], "true" if k in have else "false"))
        lines.append("];")
        lines.append("#[allow(unused_variables, unused_mut, unused_braces, clippy::all)]")
        lines.append("pub fn call(id: u32, s: &mut Src, o: &mut Obs) -> bool {")
        lines.append("    match id {")
        for k in keys:
            if k in have:
                lines.append("        %d => { %s }" % (ids[k], have[k]["body"]))
        lines.append("        _ => return false,")
        lines.append("    }")
        lines.append("    true")
        lines.append("}")
        lines.append("pub static API_SKIPPED: &[(&str, &str)] = &[")
        for k in sorted(allskipped):
            lines.append("    (%s, %s)," % (json.dumps(k + " :: " + allskipped[k]["sig"]), json.dumps(allskipped[k]["reason"])))
        lines.append("];")
        text = "\n".join(lines) + "\n"
        p = os.path.join(OUT, "api_table_%s.rs" % b)
        try:
            if open(p).read() == text:
                continue
        except FileNotFoundError:
            pass
        open(p, "w").write(text)
    print("gen_api: %d entries (%s), %d skipped" % (len(keys), ", ".join("%s=%d" % (b, len(per_backend[b])) for b in BACKENDS), len(allskipped)), file=sys.stderr)


if __name__ == "__main__":
    main()
