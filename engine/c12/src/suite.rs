// Included once per glam variant (`glam` is aliased by the including module).
#[allow(unused_imports)]
use super::Fl;
use crate::gens;
use crate::oracle::*;
#[allow(unused_imports)]
use glam::{DQuat, DVec2, DVec3, DVec4, FloatExt, Quat, Vec2, Vec3, Vec3A, Vec4};
use vcore::*;

/// How a case's lanes become a vector. Vec3A gets a hidden fourth lane that differs from every visible lane.
pub trait Mk<T, const N: usize> {
    fn mk(a: [T; N]) -> Self;
}
macro_rules! mk_plain {
    ($V:ident, $T:ident, $N:expr) => {
        impl Mk<$T, $N> for $V {
            #[inline]
            fn mk(a: [$T; $N]) -> Self {
                $V::from_array(a)
            }
        }
    };
}
mk_plain!(Vec2, f32, 2);
mk_plain!(Vec3, f32, 3);
mk_plain!(Vec4, f32, 4);
mk_plain!(DVec2, f64, 2);
mk_plain!(DVec3, f64, 3);
mk_plain!(DVec4, f64, 4);
mk_plain!(Quat, f32, 4);
mk_plain!(DQuat, f64, 4);
impl Mk<f32, 3> for Vec3A {
    #[inline]
    fn mk(a: [f32; 3]) -> Self {
        let h = 1.0 + 2.0 * (a[0].abs() + a[1].abs() + a[2].abs());
        let h = if h.is_finite() { h } else { 3.0 };
        Vec3A::from_vec4(Vec4::new(a[0], a[1], a[2], h))
    }
}

macro_rules! base {
    ($V:ident, $T:ident, $N:expr) => {
        pub const N: usize = $N;
        pub type V = $V;
        pub type T = $T;
        pub const INFO: TypeInfo = TypeInfo { ty: stringify!($V), n: N, bits: <T as Fl>::BITS };
        #[inline]
        #[allow(dead_code)]
        fn v(w: &[u64]) -> V {
            let mut a = [0.0 as T; N];
            for i in 0..N {
                a[i] = T::fb(w[i]);
            }
            <V as Mk<T, N>>::mk(a)
        }
        #[inline]
        #[allow(dead_code)]
        fn arr4(x: V) -> [f64; 4] {
            let a = x.to_array();
            let mut o = [0.0; 4];
            for i in 0..N {
                o[i] = a[i].to64();
            }
            o
        }
        #[inline]
        #[allow(dead_code)]
        fn bits4(x: V) -> [u64; 4] {
            let a = x.to_array();
            let mut o = [0u64; 4];
            for i in 0..N {
                o[i] = a[i].tb();
            }
            o
        }
    };
}

/// lerp endpoints / move_towards / clamp_length on every float vector type
macro_rules! lmc_type {
    ($m:ident, $V:ident, $T:ident, $N:expr) => {
        pub mod $m {
            use super::*;
            base!($V, $T, $N);
            /// words: a[N] b[N] s d min max
            pub fn lmc(w: &[u64], t: &mut Tally) -> Result<(), Fail> {
                let (a, b) = (v(&w[0..N]), v(&w[N..2 * N]));
                let (s, d, mn, mx) = (T::fb(w[2 * N]), T::fb(w[2 * N + 1]), T::fb(w[2 * N + 2]), T::fb(w[2 * N + 3]));
                let mut o = LmcOut::default();
                o.lerp0 = arr4(a.lerp(b, 0.0));
                o.lerp1 = arr4(a.lerp(b, 1.0));
                o.lerp_s = arr4(a.lerp(b, s));
                o.midpoint = arr4(a.midpoint(b));
                let r = a.move_towards(b, d);
                o.mv = arr4(r);
                o.mv_bits = bits4(r);
                let own = a.distance(b);
                o.own_dist = own as f64;
                o.mv_own_dist_bits = bits4(a.move_towards(b, own));
                o.mv_zero_bits = bits4(a.move_towards(b, 0.0));
                let r = a.clamp_length(mn, mx);
                o.clamp = arr4(r);
                o.clamp_bits = bits4(r);
                let r = a.clamp_length_min(mn);
                o.clamp_min = arr4(r);
                o.clamp_min_bits = bits4(r);
                let r = a.clamp_length_max(mx);
                o.clamp_max = arr4(r);
                o.clamp_max_bits = bits4(r);
                judge_lmc(&INFO, VARIANT, w, &o, t)
            }
            pub fn subs<'a>(out: &mut Vec<SubCheck<'a>>) {
                out.push(SubCheck::new(
                    format!("lerp-move-clamp/{}/{}", INFO.ty, VARIANT),
                    1,
                    |env: &mut Env| {
                        let c = env.cases(50_000, 20);
                        env.prop("lmc", c, gens::lmc(N, INFO.bits), &lmc);
                    },
                    lmc,
                ));
            }
        }
    };
}

/// rotate_towards on the 2- and 3-lane types
macro_rules! rot_type {
    ($m:ident, $V:ident, $T:ident, $N:expr) => {
        pub mod $m {
            use super::*;
            base!($V, $T, $N);
            /// words: a[N] b[N] max_angle
            pub fn rotate(w: &[u64], t: &mut Tally) -> Result<(), Fail> {
                let (a, b) = (v(&w[0..N]), v(&w[N..2 * N]));
                let got = arr4(a.rotate_towards(b, T::fb(w[2 * N])));
                judge_rotate(&INFO, VARIANT, w, &got, t)
            }
            pub fn subs<'a>(out: &mut Vec<SubCheck<'a>>) {
                out.push(SubCheck::new(
                    format!("rotate_towards/{}/{}", INFO.ty, VARIANT),
                    1,
                    |env: &mut Env| {
                        let c = env.cases(50_000, 20);
                        env.prop("rotate", c, gens::rotate(N, INFO.bits), &rotate);
                    },
                    rotate,
                ));
            }
        }
    };
}

/// slerp and the orthogonal-vector helpers on the 3-lane types
macro_rules! v3_type {
    ($m:ident, $V:ident, $T:ident) => {
        pub mod $m {
            use super::*;
            base!($V, $T, 3);
            /// words: a[3] b[3] s
            pub fn slerp(w: &[u64], t: &mut Tally) -> Result<(), Fail> {
                let (a, b) = (v(&w[0..3]), v(&w[3..6]));
                let got = arr4(a.slerp(b, T::fb(w[6])));
                judge_vslerp(&INFO, VARIANT, w, &got, t)
            }
            /// words: unit x[3], y[3]
            pub fn ortho(w: &[u64], t: &mut Tally) -> Result<(), Fail> {
                let (x, y) = (v(&w[0..3]), v(&w[3..6]));
                let mut o = OrthoOut::default();
                o.any_orthogonal = arr4(y.any_orthogonal_vector());
                o.any_orthonormal = arr4(x.any_orthonormal_vector());
                let (p0, p1) = x.any_orthonormal_pair();
                o.pair0 = arr4(p0);
                o.pair1 = arr4(p1);
                judge_ortho(&INFO, VARIANT, w, &o, t)
            }
            pub fn subs<'a>(out: &mut Vec<SubCheck<'a>>) {
                out.push(SubCheck::new(
                    format!("slerp/{}/{}", INFO.ty, VARIANT),
                    1,
                    |env: &mut Env| {
                        let c = env.cases(60_000, 20);
                        env.prop("slerp", c, gens::vslerp(INFO.bits), &slerp);
                    },
                    slerp,
                ));
                out.push(SubCheck::new(
                    format!("ortho/{}/{}", INFO.ty, VARIANT),
                    1,
                    |env: &mut Env| {
                        let c = env.cases(40_000, 20);
                        env.prop("ortho", c, gens::ortho(INFO.bits), &ortho);
                    },
                    ortho,
                ));
            }
        }
    };
}

/// quaternion interpolation and rotation arcs
macro_rules! quat_type {
    ($m:ident, $Q:ident, $V3:ident, $V2:ident, $T:ident, $simd_sin:expr) => {
        pub mod $m {
            use super::*;
            base!($Q, $T, 4);
            /// words: q0[4] q1[4] s s2 max_angle
            pub fn interp(w: &[u64], t: &mut Tally) -> Result<(), Fail> {
                let (q0, q1) = (v(&w[0..4]), v(&w[4..8]));
                let (s, s2, ma) = (T::fb(w[8]), T::fb(w[9]), T::fb(w[10]));
                let mut o = QuatOut::default();
                o.slerp = arr4(q0.slerp(q1, s));
                o.lerp = arr4(q0.lerp(q1, s));
                o.lerp2 = arr4(q0.lerp(q1, s2));
                let r = q0.rotate_towards(q1, ma);
                o.rot = arr4(r);
                o.rot_bits = bits4(r);
                judge_quat(&INFO, VARIANT, $simd_sin, w, &o, t)
            }
            /// words: a[3] b[3] a2[2] b2[2]
            pub fn arcs(w: &[u64], t: &mut Tally) -> Result<(), Fail> {
                let a = $V3::new(T::fb(w[0]), T::fb(w[1]), T::fb(w[2]));
                let b = $V3::new(T::fb(w[3]), T::fb(w[4]), T::fb(w[5]));
                let a2 = $V2::new(T::fb(w[6]), T::fb(w[7]));
                let b2 = $V2::new(T::fb(w[8]), T::fb(w[9]));
                let mut o = ArcOut::default();
                o.arc = arr4($Q::from_rotation_arc(a, b));
                o.colinear = arr4($Q::from_rotation_arc_colinear(a, b));
                o.arc2d = arr4($Q::from_rotation_arc_2d(a2, b2));
                judge_arc(&INFO, VARIANT, w, &o, t)
            }
            pub fn subs<'a>(out: &mut Vec<SubCheck<'a>>) {
                out.push(SubCheck::new(
                    format!("quat-interp/{}/{}", INFO.ty, VARIANT),
                    2,
                    |env: &mut Env| {
                        let c = env.cases(80_000, 20);
                        env.prop("interp", c, gens::quat(INFO.bits), &interp);
                    },
                    interp,
                ));
                out.push(SubCheck::new(
                    format!("rotation-arc/{}/{}", INFO.ty, VARIANT),
                    1,
                    |env: &mut Env| {
                        let c = env.cases(50_000, 20);
                        env.prop("arc", c, gens::arc(INFO.bits), &arcs);
                    },
                    arcs,
                ));
            }
        }
    };
}

macro_rules! float_type {
    ($m:ident, $T:ident, $name:expr) => {
        pub mod $m {
            use super::*;
            pub type T = $T;
            pub const INFO: TypeInfo = TypeInfo { ty: $name, n: 1, bits: <T as Fl>::BITS };
            /// words: a b t v out_start out_end
            pub fn fx(w: &[u64], t: &mut Tally) -> Result<(), Fail> {
                let (a, b, tt, v, os, oe) = (T::fb(w[0]), T::fb(w[1]), T::fb(w[2]), T::fb(w[3]), T::fb(w[4]), T::fb(w[5]));
                let mut o = FloatOut::default();
                o.lerp0 = <T as FloatExt>::lerp(a, b, 0.0).to64();
                o.lerp1 = <T as FloatExt>::lerp(a, b, 1.0).to64();
                o.lerp_t = <T as FloatExt>::lerp(a, b, tt).to64();
                o.inv_a = <T as FloatExt>::inverse_lerp(a, b, a).to64();
                o.inv_b = <T as FloatExt>::inverse_lerp(a, b, b).to64();
                o.inv_v = <T as FloatExt>::inverse_lerp(a, b, v).to64();
                o.remap_start = <T as FloatExt>::remap(a, a, b, os, oe).to64();
                o.remap_end = <T as FloatExt>::remap(b, a, b, os, oe).to64();
                o.remap_v = <T as FloatExt>::remap(v, a, b, os, oe).to64();
                judge_float(&INFO, VARIANT, w, &o, t)
            }
            pub fn subs<'a>(out: &mut Vec<SubCheck<'a>>) {
                out.push(SubCheck::new(
                    format!("floatext/{}/{}", INFO.ty, VARIANT),
                    1,
                    |env: &mut Env| {
                        let c = env.cases(40_000, 20);
                        env.prop("floatext", c, gens::floatext(INFO.bits), &fx);
                    },
                    fx,
                ));
            }
        }
    };
}

lmc_type!(lmc_vec2, Vec2, f32, 2);
lmc_type!(lmc_vec3, Vec3, f32, 3);
lmc_type!(lmc_vec3a, Vec3A, f32, 3);
lmc_type!(lmc_vec4, Vec4, f32, 4);
lmc_type!(lmc_dvec2, DVec2, f64, 2);
lmc_type!(lmc_dvec3, DVec3, f64, 3);
lmc_type!(lmc_dvec4, DVec4, f64, 4);
rot_type!(rot_vec2, Vec2, f32, 2);
rot_type!(rot_vec3, Vec3, f32, 3);
rot_type!(rot_vec3a, Vec3A, f32, 3);
rot_type!(rot_dvec2, DVec2, f64, 2);
rot_type!(rot_dvec3, DVec3, f64, 3);
v3_type!(v3_vec3, Vec3, f32);
v3_type!(v3_vec3a, Vec3A, f32);
v3_type!(v3_dvec3, DVec3, f64);
quat_type!(q_quat, Quat, Vec3, Vec2, f32, SIMD_SIN);
quat_type!(q_dquat, DQuat, DVec3, DVec2, f64, false);
float_type!(fx_f32, f32, "f32");
float_type!(fx_f64, f64, "f64");

pub fn subs<'a>(_args: &Args) -> Vec<SubCheck<'a>> {
    let mut out = vec![];
    lmc_vec2::subs(&mut out);
    lmc_vec3::subs(&mut out);
    lmc_vec3a::subs(&mut out);
    lmc_vec4::subs(&mut out);
    lmc_dvec2::subs(&mut out);
    lmc_dvec3::subs(&mut out);
    lmc_dvec4::subs(&mut out);
    rot_vec2::subs(&mut out);
    rot_vec3::subs(&mut out);
    rot_vec3a::subs(&mut out);
    rot_dvec2::subs(&mut out);
    rot_dvec3::subs(&mut out);
    v3_vec3::subs(&mut out);
    v3_vec3a::subs(&mut out);
    v3_dvec3::subs(&mut out);
    q_quat::subs(&mut out);
    q_dquat::subs(&mut out);
    fx_f32::subs(&mut out);
    fx_f64::subs(&mut out);
    out
}
