//! Reference arithmetic and constructed generators shared by the geometry checks (no glam here).
//! f32 types are judged against f64 evaluation of the mathematical expression (products of two
//! f32 are exact in f64), f64 types against double-double.
#![allow(dead_code)]
use proptest::collection::vec as pvec;
use proptest::prelude::*;
use vcore::num::DD;

/// The arithmetic the reference is evaluated in.
pub trait Real: Copy + std::fmt::Debug {
    fn of(x: f64) -> Self;
    fn add(self, o: Self) -> Self;
    fn sub(self, o: Self) -> Self;
    fn mul(self, o: Self) -> Self;
    fn div(self, o: Self) -> Self;
    fn sqrt(self) -> Self;
    fn abs(self) -> Self;
    fn neg(self) -> Self;
    fn f(self) -> f64;
}
impl Real for f64 {
    #[inline] fn of(x: f64) -> f64 { x }
    #[inline] fn add(self, o: f64) -> f64 { self + o }
    #[inline] fn sub(self, o: f64) -> f64 { self - o }
    #[inline] fn mul(self, o: f64) -> f64 { self * o }
    #[inline] fn div(self, o: f64) -> f64 { self / o }
    #[inline] fn sqrt(self) -> f64 { f64::sqrt(self) }
    #[inline] fn abs(self) -> f64 { f64::abs(self) }
    #[inline] fn neg(self) -> f64 { -self }
    #[inline] fn f(self) -> f64 { self }
}
impl Real for DD {
    #[inline] fn of(x: f64) -> DD { DD::new(x) }
    #[inline] fn add(self, o: DD) -> DD { DD::add(self, o) }
    #[inline] fn sub(self, o: DD) -> DD { DD::sub(self, o) }
    #[inline] fn mul(self, o: DD) -> DD { DD::mul(self, o) }
    #[inline] fn div(self, o: DD) -> DD { DD::div(self, o) }
    #[inline] fn sqrt(self) -> DD { DD::sqrt(self) }
    #[inline] fn abs(self) -> DD { DD::abs(self) }
    #[inline] fn neg(self) -> DD { DD::neg(self) }
    #[inline] fn f(self) -> f64 { DD::f(self) }
}

/// Float format constants by lane width.
#[derive(Clone, Copy, Debug)]
pub struct Fmt {
    pub bits: u32,
    /// unit roundoff
    pub u: f64,
    /// smallest subnormal
    pub tiny: f64,
    /// smallest normal
    pub minn: f64,
    pub max: f64,
    /// log2 of MAX (as the exponent bound used by the band classification)
    pub emax_all: i32,
    /// component magnitudes of "well-scaled" vectors are 0 or in [2^-emax, 2^emax]
    pub emax: i32,
}
pub const F32: Fmt = Fmt { bits: 32, u: vcore::num::U32, tiny: 1.401298464324817e-45, minn: f32::MIN_POSITIVE as f64, max: f32::MAX as f64, emax_all: 128, emax: 40 };
pub const F64: Fmt = Fmt { bits: 64, u: vcore::num::U64, tiny: 5e-324, minn: f64::MIN_POSITIVE, max: f64::MAX, emax_all: 1024, emax: 300 };
pub fn fmt(bits: u32) -> Fmt {
    if bits == 32 { F32 } else { F64 }
}

/// x * 2^e without intermediate overflow (exact while the result is normal).
pub fn ldexp(x: f64, e: i32) -> f64 {
    let mut x = x;
    let mut e = e;
    while e > 1000 {
        x *= f64::from_bits(((1000 + 1023) as u64) << 52);
        e -= 1000;
    }
    while e < -1000 {
        x *= f64::from_bits(((-1000 + 1023) as u64) << 52);
        e += 1000;
    }
    x * f64::from_bits(((e + 1023) as u64) << 52)
}
/// floor(log2 |x|) of a finite non-zero f64
pub fn ilogb(x: f64) -> i32 {
    let b = x.to_bits();
    let e = ((b >> 52) & 0x7ff) as i32;
    if e == 0 {
        // subnormal
        let m = b & ((1u64 << 52) - 1);
        -1074 + (63 - m.leading_zeros() as i32)
    } else {
        e - 1023
    }
}

/// value -> lane word (rounded to the lane format)
#[inline]
pub fn to_word(bits: u32, x: f64) -> u64 {
    if bits == 32 { (x as f32).to_bits() as u64 } else { x.to_bits() }
}
/// lane word -> exact value as f64
#[inline]
pub fn from_word(bits: u32, w: u64) -> f64 {
    if bits == 32 { f32::from_bits(w as u32) as f64 } else { f64::from_bits(w) }
}
pub fn words(bits: u32, v: &[f64]) -> Vec<u64> {
    v.iter().map(|x| to_word(bits, *x)).collect()
}
pub fn decode(bits: u32, w: &[u64]) -> [f64; 4] {
    let mut a = [0.0; 4];
    for (i, x) in w.iter().enumerate().take(4) {
        a[i] = from_word(bits, *x);
    }
    a
}
pub fn lift<R: Real>(a: &[f64; 4]) -> [R; 4] {
    [R::of(a[0]), R::of(a[1]), R::of(a[2]), R::of(a[3])]
}

// ------------------------------------------------------------------ reference formulas

/// exact sum of products and the sum of the magnitudes of the terms
pub fn dot_ref<R: Real>(a: &[R], b: &[R]) -> (R, f64) {
    let mut r = R::of(0.0);
    let mut s = 0.0;
    for i in 0..a.len() {
        let p = a[i].mul(b[i]);
        r = r.add(p);
        s += p.abs().f();
    }
    (r, s)
}
/// (a.y b.z - a.z b.y, ...) with the magnitude sums per component
pub fn cross_ref<R: Real>(a: &[R], b: &[R]) -> ([R; 3], [f64; 3]) {
    let mut c = [R::of(0.0); 3];
    let mut s = [0.0; 3];
    for i in 0..3 {
        let (j, k) = ((i + 1) % 3, (i + 2) % 3);
        let p = a[j].mul(b[k]);
        let q = a[k].mul(b[j]);
        c[i] = p.sub(q);
        s[i] = p.abs().f() + q.abs().f();
    }
    (c, s)
}
pub fn norm_ref<R: Real>(a: &[R]) -> R {
    dot_ref(a, a).0.sqrt()
}
/// exact rescaling of a vector so that its largest component is in [1, 2)
pub fn rescale<R: Real>(a: &[R]) -> Vec<R> {
    let m = a.iter().fold(0.0f64, |m, x| m.max(x.f().abs()));
    if m == 0.0 || !m.is_finite() {
        return a.to_vec();
    }
    let e = -ilogb(m);
    // multiplication by a power of two is exact in f64 and in double-double (barring underflow of negligible lanes)
    let p1 = R::of(ldexp(1.0, e / 2));
    let p2 = R::of(ldexp(1.0, e - e / 2));
    a.iter().map(|x| x.mul(p1).mul(p2)).collect()
}
/// true angle between two vectors (2, 3 or 4 lanes) from atan2(|a x b|, a.b); 4 lanes use the Lagrange identity.
/// The angle does not depend on the lengths, so both operands are first rescaled exactly.
pub fn angle_ref<R: Real>(a: &[R], b: &[R]) -> f64 {
    let (a, b) = (rescale(a), rescale(b));
    let (a, b) = (&a[..], &b[..]);
    let d = dot_ref(a, b).0;
    let cn = match a.len() {
        2 => a[0].mul(b[1]).sub(a[1].mul(b[0])).abs(),
        3 => norm_ref(&cross_ref(a, b).0),
        _ => {
            // sum over i<j of (a_i b_j - a_j b_i)^2
            let mut s = R::of(0.0);
            for i in 0..a.len() {
                for j in i + 1..a.len() {
                    let w = a[i].mul(b[j]).sub(a[j].mul(b[i]));
                    s = s.add(w.mul(w));
                }
            }
            s.sqrt()
        }
    };
    f64::atan2(cn.f(), d.f())
}

// ------------------------------------------------------------------ generators (constructed, not rejected)

fn mant() -> impl Strategy<Value = f64> {
    (1.0f64..2.0, any::<bool>()).prop_map(|(m, s)| if s { -m } else { m })
}

/// A well-scaled vector: components 0 or magnitude in [2^-emax, 2^emax]; dense with a narrow or a wide
/// exponent spread, sparse, single-axis, small integers. `lo..hi` bounds the base exponent.
pub fn well_scaled_in(n: usize, lo: i32, hi: i32, emax: i32) -> BoxedStrategy<Vec<f64>> {
    let fit = move |e: i32| e.clamp(-emax, emax - 1);
    prop_oneof![
        4 => (pvec(mant(), n), lo..hi, pvec(-8i32..=0, n)).prop_map(move |(m, e, off)| (0..n).map(|i| ldexp(m[i], fit(e + off[i]))).collect::<Vec<f64>>()),
        2 => (pvec(mant(), n), pvec(lo..hi, n)).prop_map(move |(m, e)| (0..n).map(|i| ldexp(m[i], fit(e[i]))).collect::<Vec<f64>>()),
        2 => (pvec(mant(), n), lo..hi, pvec(-8i32..=0, n), 1u32..((1u32 << n) - 1)).prop_map(move |(m, e, off, mask)| {
            (0..n).map(|i| if mask >> i & 1 == 1 { ldexp(m[i], fit(e + off[i])) } else { 0.0 }).collect::<Vec<f64>>()
        }),
        1 => (mant(), lo..hi, 0..n).prop_map(move |(m, e, ax)| (0..n).map(|i| if i == ax { ldexp(m, fit(e)) } else { 0.0 }).collect::<Vec<f64>>()),
        1 => pvec(-8i32..=8, n).prop_map(|v| {
            let mut o: Vec<f64> = v.iter().map(|x| *x as f64).collect();
            if o.iter().all(|x| *x == 0.0) {
                o[0] = 1.0;
            }
            o
        }),
    ]
    .boxed()
}
pub fn well_scaled(n: usize, emax: i32) -> BoxedStrategy<Vec<f64>> {
    well_scaled_in(n, -emax, emax, emax)
}

pub fn vdot(a: &[f64], b: &[f64]) -> f64 {
    a.iter().zip(b).map(|(x, y)| x * y).sum()
}
pub fn vnorm(a: &[f64]) -> f64 {
    // scaled to stay finite for 2^±300 components
    let m = a.iter().fold(0.0f64, |m, x| m.max(x.abs()));
    if m == 0.0 {
        return 0.0;
    }
    let e = -ilogb(m);
    let s: f64 = a.iter().map(|x| ldexp(*x, e)).map(|x| x * x).sum();
    ldexp(s.sqrt(), -e)
}
/// a unit vector orthogonal to `a`, steered by the random vector `r` (Gram-Schmidt; never fails)
pub fn orth(a: &[f64], r: &[f64]) -> Vec<f64> {
    let n = a.len();
    let na = vnorm(a);
    let ah: Vec<f64> = a.iter().map(|x| x / na).collect();
    let mut o: Vec<f64> = (0..n).map(|i| r[i] - vdot(r, &ah) * ah[i]).collect();
    if vnorm(&o) < 1e-3 {
        // r (nearly) parallel to a: use the axis a is least aligned with
        let j = (0..n).min_by(|i, j| ah[*i].abs().partial_cmp(&ah[*j].abs()).unwrap()).unwrap();
        o = (0..n).map(|i| (if i == j { 1.0 } else { 0.0 }) - ah[j] * ah[i]).collect();
    }
    // second pass for orthogonality to working precision
    let d = vdot(&o, &ah);
    for i in 0..n {
        o[i] -= d * ah[i];
    }
    let no = vnorm(&o);
    o.iter().map(|x| x / no).collect()
}
/// keep a constructed component inside the documented domain (0 or magnitude in [2^-emax, 2^emax])
pub fn fit_comp(x: f64, emax: i32) -> f64 {
    let lo = ldexp(1.0, -emax);
    let hi = ldexp(1.0, emax);
    if x.abs() < lo {
        0.0
    } else if x.abs() > hi {
        hi.copysign(x)
    } else {
        x
    }
}

/// how the second operand of a pair was built (tallied by the check from the vectors themselves)
/// Pairs: independent; same scale, random direction; b = alpha*a + delta*|alpha||a|*orth(a) with
/// delta = 10^-d (d in [0, dmax]) or 0; exactly orthogonal.
pub fn pair(n: usize, emax: i32, dmax: f64) -> BoxedStrategy<(Vec<f64>, Vec<f64>)> {
    let rel_lo = -emax + if emax > 100 { 60 } else { 32 };
    let rel_hi = emax - 10;
    let related = (
        well_scaled_in(n, rel_lo, rel_hi, emax),
        pvec(-1.0f64..1.0, n),
        mant(),
        -8i32..=8,
        prop_oneof![1 => Just(-1.0f64), 6 => 0.0f64..dmax, 1 => 0.0f64..2.0],
        0u8..8,
    )
        .prop_map(move |(a, r, am, ae, d, mode)| {
            let o = orth(&a, &r);
            let na = vnorm(&a);
            let alpha = match mode {
                0 => 0.0,                               // orthogonal
                1 => 1.0f64.copysign(am),               // +-1: equal / opposite length
                _ => ldexp(am, ae),
            };
            let delta = if d < 0.0 { 0.0 } else { 10f64.powf(-d) };
            let b: Vec<f64> = if alpha == 0.0 {
                (0..n).map(|i| fit_comp(ldexp(am, ae) * na * o[i], emax)).collect()
            } else {
                (0..n).map(|i| fit_comp(alpha * a[i] + delta * alpha.abs() * na * o[i], emax)).collect()
            };
            let b = if b.iter().all(|x| *x == 0.0) { a.clone() } else { b };
            (a, b)
        });
    let same_scale = (well_scaled_in(n, -emax + 8, emax - 8, emax), pvec(-1.0f64..1.0, n), -4i32..=4).prop_map(move |(a, r, k)| {
        let na = vnorm(&a);
        let nr = vnorm(&r);
        let b: Vec<f64> = if nr < 1e-6 { a.clone() } else { (0..n).map(|i| fit_comp(ldexp(r[i] / nr * na, k), emax)).collect() };
        let b = if b.iter().all(|x| *x == 0.0) { a.clone() } else { b };
        (a, b)
    });
    prop_oneof![
        3 => (well_scaled(n, emax), well_scaled(n, emax)),
        2 => same_scale,
        6 => related,
    ]
    .boxed()
}

/// unit vectors over the whole sphere, plus axes and near-axis directions (rounded later to the lane format)
pub fn unit(n: usize) -> BoxedStrategy<Vec<f64>> {
    prop_oneof![
        6 => pvec(-1.0f64..1.0, n).prop_map(|r| {
            let nr = vnorm(&r);
            if nr < 1e-6 { let mut e = vec![0.0; r.len()]; e[0] = 1.0; e } else { r.iter().map(|x| x / nr).collect() }
        }),
        1 => (0..n, any::<bool>()).prop_map(move |(ax, s)| (0..n).map(|i| if i == ax { if s { -1.0 } else { 1.0 } } else { 0.0 }).collect::<Vec<f64>>()),
        1 => (0..n, any::<bool>(), pvec(-1.0f64..1.0, n), 1.0f64..8.0).prop_map(move |(ax, s, r, d)| {
            let mut v: Vec<f64> = (0..n).map(|i| r[i] * 10f64.powf(-d)).collect();
            v[ax] = if s { -1.0 } else { 1.0 };
            let nv = vnorm(&v);
            v.iter().map(|x| x / nv).collect::<Vec<f64>>()
        }),
    ]
    .boxed()
}

/// interpolation parameter: 0, 1, 1/2 forced often, inside, a few outside, tiny
pub fn s_param() -> BoxedStrategy<f64> {
    prop_oneof![
        1 => Just(0.0f64),
        1 => Just(1.0f64),
        1 => Just(0.5f64),
        6 => 0.0f64..1.0,
        2 => -2.0f64..3.0,
        // far extrapolation (s * angle beyond 2 pi): the oracle's tolerance follows the conditioning
        1 => -8.0f64..9.0,
        1 => (1i32..30).prop_map(|k| ldexp(1.0, -k)),
        1 => (1i32..24).prop_map(|k| 1.0 - ldexp(1.0, -k)),
    ]
    .boxed()
}
