//! C12 — interpolation, steering and clamping helpers hit endpoints and never overshoot.
use vcore::*;

mod gens;
mod oracle;
mod refm;

pub trait Fl: Copy + std::fmt::Debug + 'static {
    const BITS: u32;
    fn fb(w: u64) -> Self;
    fn tb(self) -> u64;
    fn to64(self) -> f64;
}
impl Fl for f32 {
    const BITS: u32 = 32;
    #[inline] fn fb(w: u64) -> f32 { f32::from_bits(w as u32) }
    #[inline] fn tb(self) -> u64 { self.to_bits() as u64 }
    #[inline] fn to64(self) -> f64 { self as f64 }
}
impl Fl for f64 {
    const BITS: u32 = 64;
    #[inline] fn fb(w: u64) -> f64 { f64::from_bits(w) }
    #[inline] fn tb(self) -> u64 { self.to_bits() }
    #[inline] fn to64(self) -> f64 { self }
}

mod simd {
    pub const VARIANT: &str = "simd";
    /// Quat::slerp of this build uses the SSE2 polynomial sine
    pub const SIMD_SIN: bool = cfg!(all(target_arch = "x86_64", target_feature = "sse2"));
    use ::glam_simd as glam;
    include!("suite.rs");
}
mod scalar {
    pub const VARIANT: &str = "scalar";
    pub const SIMD_SIN: bool = false;
    use ::glam_scalar as glam;
    include!("suite.rs");
}
/// scalar-math with `glam-assert`: the second pass for the scalar copies (a quarter of the volume)
#[cfg(not(feature = "core"))]
mod scalar_asserting {
    pub const VARIANT: &str = "scalar+glam-assert";
    pub const SIMD_SIN: bool = false;
    use ::glam_scalar_assert as glam;
    include!("suite.rs");
}
mod libmv {
    pub const VARIANT: &str = "libm";
    pub const SIMD_SIN: bool = cfg!(all(target_arch = "x86_64", target_feature = "sse2"));
    use ::glam_libm as glam;
    include!("suite.rs");
}
/// the same checks with `glam-assert` compiled in: the generated inputs satisfy the documented preconditions,
/// so a panic there is a failure
#[cfg(not(feature = "core"))]
mod asserting {
    pub const VARIANT: &str = "simd+glam-assert";
    pub const SIMD_SIN: bool = cfg!(all(target_arch = "x86_64", target_feature = "sse2"));
    use ::glam_assert as glam;
    include!("suite.rs");
}
#[cfg(feature = "core")]
mod core_simd {
    pub const VARIANT: &str = "core";
    pub const SIMD_SIN: bool = false;
    use ::glam_core as glam;
    include!("suite.rs");
}
/// core-simd with `glam-assert`: the second pass for the portable-simd copies (a quarter of the volume)
#[cfg(feature = "core")]
mod core_asserting {
    pub const VARIANT: &str = "core+glam-assert";
    pub const SIMD_SIN: bool = false;
    use ::glam_core_assert as glam;
    include!("suite.rs");
}

fn main() {
    let args = Args::parse();
    let mut subs = vec![];
    #[cfg(not(feature = "core"))]
    {
        subs.extend(simd::subs(&args));
        subs.extend(scalar::subs(&args));
        subs.extend(asserting::subs(&args));
        subs.extend(scalar_asserting::subs(&args).into_iter().map(|s| s.with_div(4)));
        subs.extend(libmv::subs(&args));
    }
    #[cfg(feature = "core")]
    {
        subs.extend(core_simd::subs(&args));
        subs.extend(core_asserting::subs(&args).into_iter().map(|s| s.with_div(4)));
    }
    let code = main_with("C12", "see MANIFEST / evidence rule", &args, subs);
    std::process::exit(code);
}
