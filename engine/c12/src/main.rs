//! C12 — not implemented yet.
fn main() {
    eprintln!("c12: not implemented");
    std::process::exit(2);
}
