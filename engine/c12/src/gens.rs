//! Case generators of C12 (constructed, not rejected).
use crate::refm::*;
use proptest::collection::vec as pvec;
use proptest::prelude::*;
use std::f64::consts::PI;

fn dmax(bits: u32) -> f64 {
    if bits == 32 { 8.0 } else { 16.0 }
}
fn eps(bits: u32) -> f64 {
    if bits == 32 { f32::EPSILON as f64 } else { f64::EPSILON }
}

/// angle selector: generic (None), nearly parallel, nearly opposite, exactly parallel / opposite,
/// at a documented threshold 1 - |cos| = thr (1 +- 10^-j) on either end
fn angle_kind(dm: f64, thr: f64) -> BoxedStrategy<Option<f64>> {
    prop_oneof![
        4 => Just(None),
        3 => (0.0f64..dm).prop_map(|d| Some(10f64.powf(-d))),
        3 => (0.0f64..dm).prop_map(|d| Some(PI - 10f64.powf(-d))),
        1 => Just(Some(0.0)),
        1 => Just(Some(PI)),
        2 => (0.5f64..9.0, any::<bool>(), any::<bool>()).prop_map(move |(j, up, far)| {
            let x = thr * (1.0 + if up { 1.0 } else { -1.0 } * 10f64.powf(-j));
            let th = 2.0 * (x / 2.0).sqrt().asin();
            Some(if far { PI - th } else { th })
        }),
        1 => (0.0f64..PI).prop_map(Some),
    ]
    .boxed()
}

/// two unit directions (f64, rounded later): independent or at a constructed angle in a random plane
pub fn dir_pair(n: usize, dm: f64, thr: f64) -> BoxedStrategy<(Vec<f64>, Vec<f64>)> {
    (unit(n), unit(n), pvec(-1.0f64..1.0, n), angle_kind(dm, thr))
        .prop_map(|(a, ind, r, k)| match k {
            None => (a, ind),
            Some(th) => {
                let o = orth(&a, &r);
                let b: Vec<f64> = if th == 0.0 {
                    a.clone()
                } else if th == PI {
                    a.iter().map(|x| -x).collect()
                } else {
                    (0..a.len()).map(|i| th.cos() * a[i] + th.sin() * o[i]).collect()
                };
                (a, b)
            }
        })
        .boxed()
}

fn length() -> BoxedStrategy<f64> {
    prop_oneof![2 => Just(1.0f64), 3 => (1.0f64..2.0, -10i32..=10).prop_map(|(m, e)| ldexp(m, e)), 1 => (-4i32..=4).prop_map(|e| ldexp(1.0, e))].boxed()
}
/// (|a|, |b|): equal or independent
fn lengths() -> BoxedStrategy<(f64, f64)> {
    prop_oneof![2 => length().prop_map(|l| (l, l)), 3 => (length(), length())].boxed()
}
/// a step relative to the remaining amount `x` (0, part, just before, exactly, just beyond, far beyond), or absolute
fn step(allow_negative: bool) -> BoxedStrategy<(f64, bool)> {
    let rel = prop_oneof![
        1 => Just(0.0f64),
        3 => 0.0f64..1.0,
        1 => (1.0f64..7.0).prop_map(|j| 1.0 - 10f64.powf(-j)),
        1 => Just(1.0f64),
        1 => (1.0f64..7.0).prop_map(|j| 1.0 + 10f64.powf(-j)),
        1 => 1.0f64..3.0,
    ];
    if allow_negative {
        prop_oneof![
            6 => rel.prop_map(|f| (f, true)),
            2 => (-2.0f64..0.0).prop_map(|f| (f, true)),
            1 => (-7.0f64..7.0).prop_map(|x| (x, false)),
        ]
        .boxed()
    } else {
        prop_oneof![6 => rel.prop_map(|f| (f, true)), 1 => (0.0f64..7.0).prop_map(|x| (x, false))].boxed()
    }
}

/// quaternion case: q0[4] q1[4] s s2 max_angle
pub fn quat(bits: u32) -> BoxedStrategy<Vec<u64>> {
    let e = eps(bits);
    // thresholds of the 4D angle: slerp's DOT_THRESHOLD (1 - cos = eps) and rotate_towards' 1e-4 (1 - cos = 1.25e-9)
    let pair = prop_oneof![
        6 => dir_pair(4, dmax(bits), e),
        2 => dir_pair(4, dmax(bits), 1.25e-9),
    ];
    (pair, any::<bool>(), s_param(), s_param(), step(true))
        .prop_map(move |((q0, q1), neg, s, s2, (st, rel))| {
            let q1: Vec<f64> = if neg { q1.iter().map(|x| -x).collect() } else { q1 };
            // rotation angle between the two (for relative steps)
            let d: f64 = vdot(&q0, &q1).abs().min(1.0);
            let th = 2.0 * d.acos();
            let maxa = if rel { st * th } else { st };
            let mut w = words(bits, &q0);
            w.extend(words(bits, &q1));
            w.push(to_word(bits, s));
            w.push(to_word(bits, s2));
            w.push(to_word(bits, maxa));
            w
        })
        .boxed()
}

/// vector slerp case: a[3] b[3] s
pub fn vslerp(bits: u32) -> BoxedStrategy<Vec<u64>> {
    (dir_pair(3, dmax(bits), 3e-7), lengths(), s_param())
        .prop_map(move |((a, b), (la, lb), s)| {
            let mut w = words(bits, &a.iter().map(|x| x * la).collect::<Vec<f64>>());
            w.extend(words(bits, &b.iter().map(|x| x * lb).collect::<Vec<f64>>()));
            w.push(to_word(bits, s));
            w
        })
        .boxed()
}

/// rotate_towards case: a[N] b[N] max_angle
pub fn rotate(n: usize, bits: u32) -> BoxedStrategy<Vec<u64>> {
    prop_oneof![9 => rotate_main(n, bits), 1 => rotate_colinear(n, bits)].boxed()
}

/// exactly colinear operands: the target is the start times +-2^k (same direction or opposite), steps of either sign
fn rotate_colinear(n: usize, bits: u32) -> BoxedStrategy<Vec<u64>> {
    (unit(n), lengths(), -3i32..=3, any::<bool>(), prop_oneof![3 => -4.0f64..4.0, 1 => Just(0.0f64), 1 => (-3.0f64..1.0).prop_map(|e| -(10f64.powf(e)))])
        .prop_map(move |(a, (la, _), k, opposite, maxa)| {
            // round the start to the lane type first, then scale by a power of two: exactly colinear in that type
            let ar: Vec<f64> = a.iter().map(|x| from_word(bits, to_word(bits, x * la))).collect();
            let f = ldexp(1.0, k) * if opposite { -1.0 } else { 1.0 };
            let br: Vec<f64> = ar.iter().map(|x| x * f).collect();
            let mut w = words(bits, &ar);
            w.extend(words(bits, &br));
            w.push(to_word(bits, maxa));
            w
        })
        .boxed()
}

fn rotate_main(n: usize, bits: u32) -> BoxedStrategy<Vec<u64>> {
    (dir_pair(n, dmax(bits), 3e-7), lengths(), step(true))
        .prop_map(move |((a, b), (la, lb), (st, rel))| {
            let th = vdot(&a, &b).clamp(-1.0, 1.0).acos();
            let maxa = if rel { st * th } else { st };
            let mut w = words(bits, &a.iter().map(|x| x * la).collect::<Vec<f64>>());
            w.extend(words(bits, &b.iter().map(|x| x * lb).collect::<Vec<f64>>()));
            w.push(to_word(bits, maxa));
            w
        })
        .boxed()
}

/// lerp / move_towards / clamp_length case: a[N] b[N] s d min max
pub fn lmc(n: usize, bits: u32) -> BoxedStrategy<Vec<u64>> {
    prop_oneof![90 => lmc_main(n, bits), 6 => lmc_tiny(n, bits), 4 => lmc_huge(n, bits)].boxed()
}

/// the same case layout with operands near the top of the finite range, lanes of either sign (so that b - a and a + b
/// overflow in some lanes); s inside [0, 1] (extrapolating from there overflows legitimately)
fn lmc_huge(n: usize, bits: u32) -> BoxedStrategy<Vec<u64>> {
    let f = fmt(bits);
    let emax = f.emax_all as f64; // exponent of the first power of two beyond the finite range
    let lane = move || ((emax - 6.0)..(emax - 0.001), any::<bool>()).prop_map(|(e, neg)| 2f64.powf(e) * if neg { -1.0 } else { 1.0 });
    (proptest::collection::vec(lane(), n), proptest::collection::vec(lane(), n), prop_oneof![1 => Just(0.0f64), 1 => Just(1.0f64), 1 => Just(0.5f64), 3 => 0.0f64..1.0])
        .prop_map(move |(a, b, s)| {
            let mut w = words(bits, &a);
            w.extend(words(bits, &b));
            w.push(to_word(bits, s));
            w.push(to_word(bits, 1.0));
            w.push(to_word(bits, 0.0));
            w.push(to_word(bits, 1.0));
            w
        })
        .boxed()
}

/// the same case layout with a first operand whose computed length is exactly zero: the zero vector (either sign of
/// zero per lane), or non-zero components so small that their squares underflow. Lower bound 0, ordinary upper bound:
/// the length is inside the bounds, so every clamp_length form has to return the operand itself
fn lmc_tiny(n: usize, bits: u32) -> BoxedStrategy<Vec<u64>> {
    let f = fmt(bits);
    // 2^e with e far enough below emin/2 that squares (and sums of n squares) underflow to zero
    let lo_e = if bits == 32 { -140i32 } else { -1060 };
    let hi_e = if bits == 32 { -80i32 } else { -545 };
    let lane = prop_oneof![
        3 => Just(0.0f64),
        1 => Just(-0.0f64),
        4 => (lo_e..hi_e, 1.0f64..2.0, any::<bool>()).prop_map(|(e, m, s)| ldexp(m, e) * if s { -1.0 } else { 1.0 }),
    ];
    (proptest::collection::vec(lane, n), well_scaled_in(n, -3, 3, f.emax), s_param(), 0.0f64..2.0, 0.25f64..3.0)
        .prop_map(move |(a, b, s, d, mx)| {
            let mut w = words(bits, &a);
            w.extend(words(bits, &b));
            w.push(to_word(bits, s));
            w.push(to_word(bits, d));
            w.push(to_word(bits, 0.0));
            w.push(to_word(bits, mx));
            w
        })
        .boxed()
}

fn lmc_main(n: usize, bits: u32) -> BoxedStrategy<Vec<u64>> {
    let f = fmt(bits);
    let moderate = well_scaled_in(n, -10, 10, f.emax);
    let second = prop_oneof![
        // independent
        3 => well_scaled_in(n, -10, 10, f.emax).prop_map(|b| (b, -1.0f64)),
        // at a chosen distance from a (filled in below): log-uniform, around the 1e-4 early return, tiny
        3 => (-20.0f64..4.0).prop_map(|l| (vec![], 2f64.powf(l))),
        2 => (1.0f64..7.0, any::<bool>()).prop_map(|(j, up)| (vec![], 1e-4 * (1.0 + if up { 1.0 } else { -1.0 } * 10f64.powf(-j)))),
        1 => (-30.0f64..-13.0).prop_map(|l| (vec![], 2f64.powf(l))),
    ];
    let bound = || {
        prop_oneof![
            1 => Just(0.0f64),
            3 => 0.0f64..1.0,
            1 => (1.0f64..8.0).prop_map(|j| 1.0 - 10f64.powf(-j)),
            1 => Just(1.0f64),
            1 => (1.0f64..8.0).prop_map(|j| 1.0 + 10f64.powf(-j)),
            3 => 1.0f64..3.0,
        ]
    };
    (moderate, second, unit(n), s_param(), step(false), bound(), bound(), any::<bool>())
        .prop_map(move |(a, (b0, dist), dir, s, (st, rel), g1, g2, near_unit)| {
            // for the constructed distances keep |a| of order 1 so that the distance survives rounding
            let na = vnorm(&a);
            let a: Vec<f64> = if dist >= 0.0 && near_unit { a.iter().map(|x| x / na).collect() } else { a };
            let na = vnorm(&a);
            let b: Vec<f64> = if dist < 0.0 { b0 } else { (0..a.len()).map(|i| a[i] + dir[i] * dist).collect() };
            // the operands as the lane type sees them
            let ar: Vec<f64> = a.iter().map(|x| from_word(bits, to_word(bits, *x))).collect();
            let br: Vec<f64> = b.iter().map(|x| from_word(bits, to_word(bits, *x))).collect();
            let len = vnorm(&(0..ar.len()).map(|i| br[i] - ar[i]).collect::<Vec<f64>>());
            let d = if rel { st * len } else { ldexp(st, -3) };
            let la = vnorm(&ar);
            let (lo, hi) = if g1 <= g2 { (g1 * la, g2 * la) } else { (g2 * la, g1 * la) };
            // bounds rounded to the lane type must stay ordered
            let lo_t = from_word(bits, to_word(bits, lo));
            let hi_t = from_word(bits, to_word(bits, hi)).max(lo_t);
            let mut w = words(bits, &a);
            w.extend(words(bits, &b));
            w.push(to_word(bits, s));
            w.push(to_word(bits, d));
            w.push(to_word(bits, lo_t));
            w.push(to_word(bits, hi_t));
            w
        })
        .boxed()
}

/// rotation arc case: a[3] b[3] a2[2] b2[2], all unit
pub fn arc(bits: u32) -> BoxedStrategy<Vec<u64>> {
    let e = eps(bits);
    (dir_pair(3, dmax(bits), 2.0 * e), dir_pair(2, dmax(bits), 2.0 * e))
        .prop_map(move |((a, b), (a2, b2))| {
            let mut w = words(bits, &a);
            w.extend(words(bits, &b));
            w.extend(words(bits, &a2));
            w.extend(words(bits, &b2));
            w
        })
        .boxed()
}

/// orthonormal-basis case: unit x[3] (whole sphere incl. z = -1, z = +-0, near z = -1) and any non-zero y[3]
pub fn ortho(bits: u32) -> BoxedStrategy<Vec<u64>> {
    let f = fmt(bits);
    let x = prop_oneof![
        5 => unit(3),
        1 => Just(vec![0.0, 0.0, -1.0]),
        1 => Just(vec![0.0, 0.0, 1.0]),
        2 => (0.0f64..(2.0 * PI), any::<bool>()).prop_map(|(p, neg)| vec![p.cos(), p.sin(), if neg { -0.0 } else { 0.0 }]),
        3 => (0.0f64..(2.0 * PI), 0.0f64..dmax(bits), any::<bool>()).prop_map(|(p, d, up)| {
            let e = 10f64.powf(-d);
            let z = (1.0 - e * e).sqrt();
            vec![e * p.cos(), e * p.sin(), if up { z } else { -z }]
        }),
        1 => (0.0f64..(2.0 * PI), 0.0f64..dmax(bits), any::<bool>()).prop_map(|(p, d, neg)| {
            let z = 10f64.powf(-d) * if neg { -1.0 } else { 1.0 };
            let r = (1.0 - z * z).sqrt();
            vec![r * p.cos(), r * p.sin(), z]
        }),
    ];
    (x, well_scaled(3, f.emax))
        .prop_map(move |(x, y)| {
            let mut w = words(bits, &x);
            w.extend(words(bits, &y));
            w
        })
        .boxed()
}

/// FloatExt case: a b t v out_start out_end (finite, a != b)
pub fn floatext(bits: u32) -> BoxedStrategy<Vec<u64>> {
    let sc = || {
        prop_oneof![
            4 => (1.0f64..2.0, -20i32..=20, any::<bool>()).prop_map(|(m, e, s)| ldexp(if s { -m } else { m }, e)),
            1 => (-8i32..=8).prop_map(|k| k as f64),
            1 => Just(0.0f64),
        ]
    };
    (sc(), sc(), s_param(), prop_oneof![2 => sc().prop_map(Some), 3 => Just(None)], -1.0f64..2.0, sc(), sc())
        .prop_map(move |(a, b, t, v, tv, os, oe)| {
            let a_t = from_word(bits, to_word(bits, a));
            let mut b_t = from_word(bits, to_word(bits, b));
            if b_t == a_t {
                b_t = a_t + 1.0;
            }
            let v = v.unwrap_or(a_t + (b_t - a_t) * tv);
            vec![to_word(bits, a_t), to_word(bits, b_t), to_word(bits, t), to_word(bits, v), to_word(bits, os), to_word(bits, oe)]
        })
        .boxed()
}
