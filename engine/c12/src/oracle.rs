//! C12 oracles: interpolation, steering and clamping helpers judged against f64 / double-double
//! references. glam's results arrive as plain f64 arrays (moved there by suite.rs); nothing here
//! calls glam. Tolerances follow DESIGN.md sections 4 and 5 (C12): twice the first-order rounding
//! bound for affine formulas, conditioning 1/sin(theta) for quantities that depend on the plane of
//! two nearly (anti-)parallel directions, the arccos error 6e-7 (f32 polynomial) where an angle is
//! taken from a cosine, and either-branch acceptance within rounding slack of a documented threshold.
use crate::refm::*;
use serde_json::json;
use std::f64::consts::PI;
use vcore::num::DD;
use vcore::*;

pub struct TypeInfo {
    pub ty: &'static str,
    pub n: usize,
    pub bits: u32,
}

pub struct Cx<'a> {
    pub info: &'a TypeInfo,
    pub variant: &'a str,
    pub f: Fmt,
}
impl<'a> Cx<'a> {
    pub fn new(info: &'a TypeInfo, variant: &'a str) -> Self {
        Cx { info, variant, f: fmt(info.bits) }
    }
    fn fail(&self, op: &str, msg: String) -> Fail {
        Fail::new(format!("C12/{}/{}/{}", self.variant, self.info.ty, op), op, msg)
    }
    fn hash(&self, w: &[u64]) -> u64 {
        mix(hash_str(self.info.ty), mix(hash_str(self.variant), fnv(w)))
    }
    /// accuracy of an angle glam takes from a cosine (acos_approx for f32, acos for f64), conditioning floored at sqrt(u)
    fn dtheta_acos(&self, sin: f64) -> f64 {
        let u = self.f.u;
        (if self.f.bits == 32 { 6e-7 } else { 4.0 * u }) + 16.0 * u / sin.abs().max(u.sqrt())
    }
    /// the same without the floor (quantities that depend on the plane / axis of two nearly parallel directions)
    fn dtheta_plane(&self, sin: f64) -> f64 {
        let u = self.f.u;
        (if self.f.bits == 32 { 6e-7 } else { 4.0 * u }) + 16.0 * u / sin.abs()
    }
}

const K: f64 = 16.0;

fn k2(ops: f64) -> f64 {
    (2.0 * ops).max(ops + 2.0)
}

// ---------------------------------------------------------------- small linear algebra in R

fn rv<R: Real>(a: &[f64]) -> Vec<R> {
    a.iter().map(|x| R::of(*x)).collect()
}
fn fv<R: Real>(a: &[R]) -> Vec<f64> {
    a.iter().map(|x| x.f()).collect()
}
fn scale<R: Real>(a: &[R], s: R) -> Vec<R> {
    a.iter().map(|x| x.mul(s)).collect()
}
fn addv<R: Real>(a: &[R], b: &[R]) -> Vec<R> {
    a.iter().zip(b).map(|(x, y)| x.add(*y)).collect()
}
fn subv<R: Real>(a: &[R], b: &[R]) -> Vec<R> {
    a.iter().zip(b).map(|(x, y)| x.sub(*y)).collect()
}
fn unitv<R: Real>(a: &[R]) -> Vec<R> {
    let n = norm_ref(a);
    a.iter().map(|x| x.div(n)).collect()
}
/// distance between two quaternions as rotations: q and -q are the same rotation
fn qdist<R: Real>(got: &[f64], want: &[R]) -> f64 {
    let neg: Vec<R> = want.iter().map(|x| x.neg()).collect();
    dist(got, want).min(dist(got, &neg))
}
/// |got - want| as f64 (vector 2-norm)
fn dist<R: Real>(got: &[f64], want: &[R]) -> f64 {
    let d: Vec<R> = got.iter().zip(want).map(|(g, w)| R::of(*g).sub(*w)).collect();
    norm_ref(&d).f()
}
/// unit vector orthogonal to unit `ah` in the plane of (ah, b), pointing towards b; None when b is (anti)parallel to a
fn ortho_towards<R: Real>(ah: &[R], b: &[R]) -> Option<Vec<R>> {
    let d = dot_ref(ah, b).0;
    let p = subv(b, &scale(ah, d));
    let np = norm_ref(&p);
    if np.f() == 0.0 || !(np.f().is_finite()) {
        return None;
    }
    // second Gram-Schmidt pass
    let p: Vec<R> = p.iter().map(|x| x.div(np)).collect();
    let d2 = dot_ref(ah, &p).0;
    let p = subv(&p, &scale(ah, d2));
    Some(unitv(&p))
}
/// rotate v by the quaternion q = (x, y, z, w) (normalised first)
fn rotq<R: Real>(q: &[R], v: &[R]) -> Vec<R> {
    let qn = unitv(q);
    let (u, w) = (&qn[0..3], qn[3]);
    let uv = cross_ref(u, v).0;
    let uuv = cross_ref(u, &uv).0;
    let two = R::of(2.0);
    (0..3).map(|i| v[i].add(uv[i].mul(w).mul(two)).add(uuv[i].mul(two))).collect()
}
/// sin(s x)/sin(x) with the limit s at x -> 0
fn sinratio(s: f64, x: f64) -> f64 {
    if x.abs() < 1e-9 {
        s * (1.0 + (1.0 - s * s) * x * x / 6.0)
    } else {
        (s * x).sin() / x.sin()
    }
}
fn bits_eq(bits: &[u64], w: &[u64]) -> bool {
    bits.iter().zip(w).all(|(a, b)| a == b)
}

// ---------------------------------------------------------------- spherical interpolation core

/// t1 a + t2 b with t1 = sin((1-s) th)/sin th, t2 = sin(s th)/sin th
fn slerp_at<R: Real>(a: &[R], b: &[R], s: f64, th: f64) -> Vec<R> {
    let t1 = sinratio(1.0 - s, th);
    let t2 = sinratio(s, th);
    addv(&scale(a, R::of(t1)), &scale(b, R::of(t2)))
}
/// reference slerp of two directions (any lengths; the combination is linear in a and b) with the true angle `th`,
/// and the tolerance relative to max(|a|,|b|): twice the deviation over the interval th +- dth of the angle glam may have used,
/// plus K u (1 + |t1| + |t2|) for the rounding of the sines and of the combination.
fn slerp_ref<R: Real>(a: &[R], b: &[R], s: f64, th: f64, dth: f64, u: f64) -> (Vec<R>, f64) {
    let r = slerp_at(a, b, s, th);
    let lo = (th - dth).max(th * 0.5).max(1e-300);
    let hi = (th + dth).min(PI - (PI - th) * 0.5);
    let mut dev = 0.0f64;
    for x in [lo, hi] {
        let q = slerp_at(a, b, s, x);
        dev = dev.max(norm_ref(&subv(&q, &r)).f());
    }
    let t1 = sinratio(1.0 - s, th).abs();
    let t2 = sinratio(s, th).abs();
    let m = norm_ref(a).f().max(norm_ref(b).f());
    // the arguments (1-s)*theta and s*theta are rounded products: their sines move by u*|argument| in absolute terms,
    // i.e. by u*|argument|/sin(theta) on t1, t2 (the u/sin(theta) conditioning towards opposite directions); doubled twice over
    let args = if th > 0.0 { (((1.0 - s) * th).abs() + (s * th).abs()) / th.sin().abs() } else { 1.0 };
    // both forms bound the same rounding: K u (1 + |t1| + |t2|) + 4u args term by term, and K u / sin(theta) as the quantifier
    // states it (calibration: <= 5 u / sin(theta)); the smaller one is used
    let term = K * u * (1.0 + t1 + t2) + 4.0 * u * args;
    // (for s outside [0, 1] the arguments of the sines grow like |1-s| + |s|)
    let cond = K * u * (1.0 + ((1.0 - s).abs() + s.abs()) / th.sin().abs());
    (r, 2.0 * dev + term.min(cond) * m)
}

// ================================================================ quaternions

#[derive(Default, Debug)]
pub struct QuatOut {
    pub slerp: [f64; 4],
    pub lerp: [f64; 4],
    pub lerp2: [f64; 4],
    pub rot: [f64; 4],
    pub rot_bits: [u64; 4],
}

/// words: q0[4] q1[4] s s2 max_angle
pub fn judge_quat(info: &TypeInfo, variant: &str, simd_sin: bool, w: &[u64], o: &QuatOut, t: &mut Tally) -> Result<(), Fail> {
    let cx = Cx::new(info, variant);
    if info.bits == 32 {
        judge_quat_r::<f64>(&cx, simd_sin, w, o, t)
    } else {
        judge_quat_r::<DD>(&cx, simd_sin, w, o, t)
    }
}

fn judge_quat_r<R: Real>(cx: &Cx, simd_sin: bool, w: &[u64], o: &QuatOut, t: &mut Tally) -> Result<(), Fail> {
    let bits = cx.info.bits;
    let u = cx.f.u;
    let q0 = decode(bits, &w[0..4]);
    let q1 = decode(bits, &w[4..8]);
    let s = from_word(bits, w[8]);
    let s2 = from_word(bits, w[9]);
    let maxa = from_word(bits, w[10]);
    let ctx = || format!("q0={:?} q1={:?} s={:?} s2={:?} max_angle={:?}", q0, q1, s, s2, maxa);
    let (a, b): (Vec<R>, Vec<R>) = (rv(&q0), rv(&q1));
    let (d, sd) = dot_ref(&a, &b);
    let df = d.f();
    let flip_free = df.abs() <= 8.0 * u * sd;
    t.eval(4);
    // candidates for the end point on the shorter arc
    let ends: Vec<Vec<R>> = if flip_free {
        vec![b.clone(), scale(&b, R::of(-1.0))]
    } else if df < 0.0 {
        vec![scale(&b, R::of(-1.0))]
    } else {
        vec![b.clone()]
    };
    let th4 = angle_ref(&a, &ends[0]); // 4D angle, <= pi/2 (+ slack)
    let th_rot = 2.0 * th4;
    let sin4 = th4.sin();
    t.class(if flip_free {
        "quat:dot~0(flip-free)"
    } else if th4 == 0.0 {
        "quat:equal"
    } else if th4 < 1e-6 {
        "quat:angle<2e-6"
    } else if th4 < 1e-3 {
        "quat:angle<2e-3"
    } else if df < 0.0 {
        "quat:long-way(flip)"
    } else {
        "quat:short-way"
    });
    let one_minus_c = 2.0 * (th4 / 2.0).sin().powi(2);
    let eps = if bits == 32 { f32::EPSILON as f64 } else { f64::EPSILON };
    if (one_minus_c - eps).abs() < 1e-3 * eps + 8.0 * u {
        t.class("threshold:slerp DOT_THRESHOLD within slack");
    } else if one_minus_c < eps {
        t.class("threshold:slerp lerp-branch");
    }
    let simd_term = if simd_sin { 1e-6 / sin4.max(u.sqrt()) } else { 0.0 };
    let dth = cx.dtheta_acos(sin4);

    // ---- slerp: angle from the start s*theta along the shorter arc, unit length
    {
        let mut best = f64::INFINITY;
        let mut msg = String::new();
        let mut tol_best = 0.0;
        for e in &ends {
            let (r, tol) = slerp_ref(&a, e, s, th4, dth, u);
            let tol = tol + simd_term;
            let err = qdist(&o.slerp, &r);
            let ratio = err / tol;
            if ratio < best {
                best = ratio;
                tol_best = tol;
                msg = format!("got {:?} expected {:?} |err| {:e} > tol {:e} (4D angle {:e})", o.slerp, fv(&r), err, tol, th4);
            }
        }
        if !(best <= 1.0) {
            return Err(cx.fail("Quat::slerp", format!("{}; {}", msg, ctx())));
        }
        t.ratio("slerp", best);
        // unit length (the inputs are unit to a few u)
        let nr = norm_ref(&rv::<R>(&o.slerp)).f();
        let tolu = tol_best + K * u;
        if !((nr - 1.0).abs() <= tolu) {
            return Err(cx.fail("Quat::slerp", format!("result length {:e} is not 1 within {:e}; {}", nr, tolu, ctx())));
        }
        t.ratio("slerp:unit", (nr - 1.0).abs() / tolu);
    }

    // ---- lerp: the normalised chord towards the end point on the shorter arc
    let mut lerp_angle = [0.0f64; 2];
    for (idx, (sv, got)) in [(s, &o.lerp), (s2, &o.lerp2)].iter().enumerate() {
        let sv = *sv;
        let mut best = f64::INFINITY;
        let mut msg = String::new();
        for e in &ends {
            let c = addv(&scale(&a, R::of(1.0).sub(R::of(sv))), &scale(e, R::of(sv)));
            let nc = norm_ref(&c);
            let r: Vec<R> = c.iter().map(|x| x.div(nc)).collect();
            // chord: 3 ops per lane on |1-s||a_i| + |s||b_i|; normalisation: 5 ops relative
            let tol = u * (k2(3.0) * ((1.0 - sv).abs() + sv.abs()) / nc.f() + k2(5.0));
            let err = qdist(*got, &r);
            if err / tol < best {
                best = err / tol;
                msg = format!("s={:?}: got {:?} expected normalised chord {:?} |err| {:e} > tol {:e}", sv, got, fv(&r), err, tol);
            }
        }
        if !(best <= 1.0) {
            return Err(cx.fail("Quat::lerp", format!("{}; {}", msg, ctx())));
        }
        t.ratio("lerp", best);
        let la = angle_ref(&a, &rv::<R>(&got[..]));
        lerp_angle[idx] = la.min(PI - la); // as rotations: q and -q coincide
    }
    // monotone in s within [0, 1]
    if (0.0..=1.0).contains(&s) && (0.0..=1.0).contains(&s2) && !flip_free {
        let (lo, hi) = if s <= s2 { (lerp_angle[0], lerp_angle[1]) } else { (lerp_angle[1], lerp_angle[0]) };
        // both angles come from the reference atan2 of results that are each within a few u of the chord
        if lo > hi + 64.0 * u {
            return Err(cx.fail("Quat::lerp", format!("angle from the start not monotone in s: {:e} at the smaller s, {:e} at the larger; {}", lo, hi, ctx())));
        }
    }

    // ---- rotate_towards
    {
        let thr = 1e-4f64;
        // glam returns rhs when 2*acos(|dot|) <= 1e-4, i.e. 1 - |dot| <= 1.25e-9 (computed dot: +- 8u)
        let lim = 2.0 * (thr / 4.0).sin().powi(2);
        let certain_rhs = one_minus_c < lim - 8.0 * u;
        let certain_slerp = one_minus_c > lim + 8.0 * u;
        let is_rhs = bits_eq(&o.rot_bits, &w[4..8]);
        if !certain_rhs && !certain_slerp {
            t.class("threshold:rotate_towards 1e-4 within slack");
        }
        if certain_rhs {
            t.class("rotate_towards:within 1e-4");
            if !is_rhs {
                return Err(cx.fail("Quat::rotate_towards", format!("angle {:e} <= 1e-4 but the result {:?} is not rhs; {}", th_rot, o.rot, ctx())));
            }
        } else if !(is_rhs && !certain_slerp) {
            // expected signed rotation towards (or away from) the target
            let phi = maxa.clamp(-th_rot, th_rot);
            let sr = if th_rot > 0.0 { phi / th_rot } else { 0.0 };
            let mut best = f64::INFINITY;
            let mut msg = String::new();
            for e in &ends {
                let (r, tol) = slerp_ref(&a, e, sr, th4, dth, u);
                // the interpolation parameter is max_angle / (computed angle): relative error dth/theta, absolute on the angle <= dth
                let extra = if maxa.abs() >= th_rot + 2.0 * dth { 0.0 } else { dth * (maxa.abs() / (2.0 * (th4 - dth).max(1e-300))).min(1.0) };
                let tol = tol + simd_term + extra;
                let err = qdist(&o.rot, &r);
                if err / tol < best {
                    best = err / tol;
                    msg = format!("got {:?} expected {:?} (rotation by {:e} of {:e}) |err| {:e} > tol {:e}", o.rot, fv(&r), phi, th_rot, err, tol);
                }
            }
            if !(best <= 1.0) {
                return Err(cx.fail("Quat::rotate_towards", format!("{}; {}", msg, ctx())));
            }
            t.ratio("rotate_towards", best);
            t.class(if maxa.abs() >= th_rot { "rotate_towards:reaches-target" } else if maxa < 0.0 { "rotate_towards:negative" } else { "rotate_towards:partial" });
        }
    }

    let axis_aligned = |q: &[f64; 4]| q.iter().filter(|x| **x != 0.0).count() <= 1;
    let near_thr = one_minus_c < 4.0 * eps || th_rot < 1e-3;
    if (!(axis_aligned(&q0) && axis_aligned(&q1)) && s > 0.0 && s < 1.0 && !flip_free) || (near_thr && !flip_free) {
        t.nontrivial(cx.hash(w));
        if t.want_sample() {
            t.sample(json!({"type": cx.info.ty, "variant": cx.variant, "q0": format!("{:?}", q0), "q1": format!("{:?}", q1), "s": s, "max_angle": maxa, "angle": th_rot, "words": hexwords(w)}));
        }
    } else if flip_free {
        t.class("boundary");
    }
    Ok(())
}

// ================================================================ vector slerp (3 lanes)

/// words: a[3] b[3] s
pub fn judge_vslerp(info: &TypeInfo, variant: &str, w: &[u64], got: &[f64; 4], t: &mut Tally) -> Result<(), Fail> {
    let cx = Cx::new(info, variant);
    if info.bits == 32 {
        judge_vslerp_r::<f64>(&cx, w, got, t)
    } else {
        judge_vslerp_r::<DD>(&cx, w, got, t)
    }
}

fn judge_vslerp_r<R: Real>(cx: &Cx, w: &[u64], got: &[f64; 4], t: &mut Tally) -> Result<(), Fail> {
    let bits = cx.info.bits;
    let u = cx.f.u;
    let av = decode(bits, &w[0..3]);
    let bv = decode(bits, &w[3..6]);
    let s = from_word(bits, w[6]);
    let got = &got[..3];
    let ctx = || format!("a={:?} b={:?} s={:?} got={:?}", &av[..3], &bv[..3], s, got);
    t.eval(1);
    let (a, b): (Vec<R>, Vec<R>) = (rv(&av[..3]), rv(&bv[..3]));
    let (la, lb) = (norm_ref(&a), norm_ref(&b));
    let (ah, bh) = (unitv(&a), unitv(&b));
    let th = angle_ref(&a, &b);
    let c = dot_ref(&ah, &bh).0.f();
    let sin = th.sin();
    // interpolated length la + (lb - la) s
    let len = la.add(lb.sub(la).mul(R::of(s)));
    let lenf = len.f();
    // |a| + (|b| - |a|) s: the two lengths carry 2.5u each, the difference and product 2 roundings, the sum 1; doubled
    let (laf, lbf) = (la.f(), lb.f());
    let lerr = u * (4.0 * (lbf - laf).abs() * s.abs() + 2.0 * lenf.abs() + 5.0 * (laf * (1.0 - s).abs() + lbf * s.abs()));
    let lscale = lenf.abs();
    // documented fallback threshold |dot| >= 1 - 3e-7 (constant rounded to the lane type); the computed dot carries a few u
    let thr = if bits == 32 { (1.0f32 - 3e-7f32) as f64 } else { 1.0 - 3e-7 };
    let slack = 8.0 * u;
    let main_ok = c.abs() < thr + slack;
    let fb_ok = c.abs() > thr - slack;

    let main = |t: &mut Tally| -> Result<f64, String> {
        // acute: angle from acos_approx(dot); obtuse: from atan2(|a x b|, a.b) (a few u)
        let dth = if c < -16.0 * u { 8.0 * u } else { cx.dtheta_acos(sin) };
        let (dir, tol) = slerp_ref(&ah, &bh, s, th, dth, u);
        let r = scale(&dir, len);
        let err = dist(got, &r);
        // direction error scales with the length; the length itself carries k2(3)+... a few u
        let tol = tol * lscale + K * u * lscale + lerr;
        let _ = t;
        if err <= tol {
            Ok(err / tol)
        } else {
            Err(format!("main branch: expected {:?} (angle {:e}, s*angle {:e}, length {:e}) |err| {:e} > tol {:e}", fv(&r), th, s * th, lenf, err, tol))
        }
    };
    let fallback = |_t: &mut Tally| -> Result<f64, String> {
        if c >= 0.0 {
            // nearly parallel: plain lerp
            let mut worst = 0.0f64;
            for i in 0..3 {
                let p = a[i].mul(R::of(1.0).sub(R::of(s)));
                let q = b[i].mul(R::of(s));
                let want = p.add(q);
                let tol = k2(3.0) * u * (p.abs().f() + q.abs().f()) + 4.0 * cx.f.tiny;
                let err = R::of(got[i]).sub(want).abs().f();
                if !(err <= tol) {
                    return Err(format!("parallel fallback (lerp): lane {i} expected {:e} |err| {:e} > tol {:e}", want.f(), err, tol));
                }
                worst = worst.max(err / tol);
            }
            Ok(worst)
        } else {
            // nearly opposite: rotation by s*pi about some axis orthogonal to a, length interpolated
            let g: Vec<R> = rv(got);
            let ng = norm_ref(&g).f();
            // rotation by a quaternion built from a normalised axis and sin/cos: 14u first order (see rotate_towards), doubled
            let tol_l = 28.0 * u * lscale * (1.0 + PI * s.abs()) + lerr;
            let e1 = (ng - lenf.abs()).abs();
            if !(e1 <= tol_l) {
                return Err(format!("opposite fallback: length {:e} expected {:e} |err| {:e} > tol {:e}", ng, lenf.abs(), e1, tol_l));
            }
            let along = dot_ref(&g, &ah).0.f();
            let want = lenf * (s * PI).cos();
            let e2 = (along - want).abs();
            if !(e2 <= tol_l) {
                return Err(format!("opposite fallback: component along the start {:e} expected L cos(s pi) = {:e} |err| {:e} > tol {:e}", along, want, e2, tol_l));
            }
            Ok((e1 / tol_l).max(e2 / tol_l))
        }
    };

    let boundary = main_ok && fb_ok;
    let res = if boundary {
        t.class(if c < 0.0 { "threshold:slerp 1-3e-7 within slack (opposite)" } else { "threshold:slerp 1-3e-7 within slack (parallel)" });
        match (main(t), fallback(t)) {
            (Ok(r1), Ok(r2)) => Ok(("slerp:boundary(either)", r1.min(r2))),
            (Ok(r), Err(_)) | (Err(_), Ok(r)) => Ok(("slerp:boundary(either)", r)),
            (Err(m1), Err(m2)) => Err(format!("neither branch's answer: {} / {}", m1, m2)),
        }
    } else if main_ok {
        t.class(if PI - th < 0.05 {
            "slerp:main, within 0.05 of opposite"
        } else if th < 0.05 {
            "slerp:main, within 0.05 of parallel"
        } else if c < 0.0 {
            "slerp:main, obtuse"
        } else {
            "slerp:main, acute"
        });
        main(t).map(|r| (if PI - th < 0.05 { "slerp:main(within 0.05 of opposite)" } else if c < 0.0 { "slerp:main(obtuse)" } else { "slerp:main(acute)" }, r))
    } else {
        t.class(if c < 0.0 { "slerp:fallback opposite" } else { "slerp:fallback parallel" });
        fallback(t).map(|r| ("slerp:fallback", r))
    };
    match res {
        Ok((k, r)) => t.ratio(k, r),
        Err(m) => return Err(cx.fail("slerp", format!("{}; {}", m, ctx()))),
    }
    let axis_aligned = |v: &[f64]| v.iter().filter(|x| **x != 0.0).count() <= 1;
    if boundary {
        t.class("boundary");
    } else if (!(axis_aligned(&av[..3]) && axis_aligned(&bv[..3])) && s > 0.0 && s < 1.0) || (1.0 - c.abs() - 3e-7).abs() < 1e-3 {
        t.nontrivial(cx.hash(w));
        if t.want_sample() {
            t.sample(json!({"type": cx.info.ty, "variant": cx.variant, "a": format!("{:?}", &av[..3]), "b": format!("{:?}", &bv[..3]), "s": s, "angle": th, "words": hexwords(w)}));
        }
    }
    Ok(())
}

// ================================================================ rotate_towards (2 and 3 lanes)

/// words: a[N] b[N] max_angle
pub fn judge_rotate(info: &TypeInfo, variant: &str, w: &[u64], got: &[f64; 4], t: &mut Tally) -> Result<(), Fail> {
    let cx = Cx::new(info, variant);
    if info.bits == 32 {
        judge_rotate_r::<f64>(&cx, w, got, t)
    } else {
        judge_rotate_r::<DD>(&cx, w, got, t)
    }
}

fn judge_rotate_r<R: Real>(cx: &Cx, w: &[u64], got: &[f64; 4], t: &mut Tally) -> Result<(), Fail> {
    let n = cx.info.n;
    let bits = cx.info.bits;
    let u = cx.f.u;
    let av = decode(bits, &w[0..n]);
    let bv = decode(bits, &w[n..2 * n]);
    let maxa = from_word(bits, w[2 * n]);
    let got = &got[..n];
    let ctx = || format!("a={:?} b={:?} max_angle={:?} got={:?}", &av[..n], &bv[..n], maxa, got);
    t.eval(1);
    let (a, b): (Vec<R>, Vec<R>) = (rv(&av[..n]), rv(&bv[..n]));
    let la = norm_ref(&a).f();
    let ah = unitv(&a);
    let th = angle_ref(&a, &b);
    let sin = th.sin();
    // length is preserved whatever the plane
    let g: Vec<R> = rv(got);
    let ng = norm_ref(&g).f();
    // 2D: sin/cos and a 2x2 rotation (3 roundings, doubled, +margin). 3D: the axis is unit to ~3u and sin/cos to 1u each, so
    // |q|^2 = 1 +- 8u, and q*v itself adds ~6 roundings: 14u first order, doubled
    let kl = if n == 2 { 12.0 } else { 28.0 };
    let tol_l = kl * u * la;
    if !((ng - la).abs() <= tol_l) {
        return Err(cx.fail("rotate_towards", format!("length {:e} of the result differs from |self| = {:e} by more than {:e}; {}", ng, la, tol_l, ctx())));
    }
    t.ratio("rotate_towards:length", (ng - la).abs() / tol_l);
    // expected signed angle: towards rhs by max_angle, not past it; negative: towards the opposite, at most pi away from rhs
    let phi = maxa.max(th - PI).min(th);
    // accuracy of the angle glam clamps with
    let dth = if n == 2 { cx.dtheta_acos(sin) } else { cx.dtheta_plane(sin) };
    let clamp_zone = maxa >= th - dth || maxa <= th - PI + dth;
    let tol_plane = if n == 2 { 0.0 } else { K * u / sin };
    t.class(if maxa >= th { "rotate:reaches-target" } else if maxa < 0.0 { "rotate:negative" } else if maxa == 0.0 { "rotate:zero" } else { "rotate:partial" });
    // 2D: the orthogonal direction is perp(a); its sign is the sign of perp_dot (either one when that is within rounding of zero)
    let mut both_dirs = false;
    let ortho = if n == 2 {
        let x = a[0].mul(b[1]);
        let y = a[1].mul(b[0]);
        let p = x.sub(y);
        if p.abs().f() <= 4.0 * u * (x.abs().f() + y.abs().f()) {
            both_dirs = true;
        }
        let sg = if p.f() < 0.0 { -1.0 } else { 1.0 };
        Some(vec![ah[1].mul(R::of(-sg)), ah[0].mul(R::of(sg))])
    } else {
        ortho_towards(&ah, &b)
    };
    // exactly colinear operands (3D): the plane of rotation is free, but the amount is not: the result is |phi| away from
    // self (0 or pi is the exact angle; glam measures it with acos_approx, accurate to about sqrt(eps) there)
    if n == 3 {
        let cr = [a[1].mul(b[2]).sub(a[2].mul(b[1])), a[2].mul(b[0]).sub(a[0].mul(b[2])), a[0].mul(b[1]).sub(a[1].mul(b[0]))];
        if cr.iter().all(|x| x.f() == 0.0) && la > 0.0 && norm_ref(&b).f() > 0.0 {
            let th0 = if dot_ref(&a, &b).0.f() >= 0.0 { 0.0 } else { PI };
            let phi0 = maxa.max(th0 - PI).min(th0).abs();
            let ga = angle_ref(&a, &g);
            let tol_a = 2.0 * cx.dtheta_acos(0.0) + kl * u * (1.0 + phi0);
            t.class(if th0 == 0.0 { "rotate:exactly-colinear(same direction)" } else { "rotate:exactly-colinear(opposite)" });
            if !((ga - phi0).abs() <= tol_a) {
                return Err(cx.fail("rotate_towards", format!("operands are exactly colinear (angle {:e}): the result should be {:e} rad away from self (any plane) but is {:e} away, tol {:e}; {}", th0, phi0, ga, tol_a, ctx())));
            }
            t.ratio("rotate_towards:colinear", (ga - phi0).abs() / tol_a);
            if maxa != 0.0 {
                t.nontrivial(cx.hash(w));
            }
            return Ok(());
        }
    }
    let vacuous = !(tol_plane <= 1.0) || !(dth <= 1.0) || ortho.is_none();
    if vacuous {
        // the plane (3D) / the angle is not determined within 1 rad: only the well-conditioned clause (length) is judged
        t.class("rotate:angular-clause-vacuous");
        t.class("boundary");
        return Ok(());
    }
    let o = ortho.unwrap();
    // 2D: the direction of rotation is the sign of perp_dot; when that is within rounding of zero either direction is accepted
    let mut cands: Vec<f64> = vec![phi];
    if both_dirs {
        cands.push(-phi);
        t.class("rotate:2d-direction-free");
    }
    let tol = (tol_plane + if clamp_zone { dth } else { 0.0 } + kl * u * (1.0 + phi.abs())) * la;
    let mut best = f64::INFINITY;
    let mut msg = String::new();
    for p in cands {
        let r = addv(&scale(&ah, R::of(la * p.cos())), &scale(&o, R::of(la * p.sin())));
        let err = dist(got, &r);
        if err / tol < best {
            best = err / tol;
            msg = format!("expected {:?} (rotation by {:e} of the angle {:e}) |err| {:e} > tol {:e}", fv(&r), p, th, err, tol);
        }
    }
    if !(best <= 1.0) {
        return Err(cx.fail("rotate_towards", format!("{}; {}", msg, ctx())));
    }
    t.ratio("rotate_towards", best);
    let axis_aligned = |v: &[f64]| v.iter().filter(|x| **x != 0.0).count() <= 1;
    if !(axis_aligned(&av[..n]) && axis_aligned(&bv[..n])) && maxa != 0.0 && maxa.abs() < th {
        t.nontrivial(cx.hash(w));
        if t.want_sample() {
            t.sample(json!({"type": cx.info.ty, "variant": cx.variant, "a": format!("{:?}", &av[..n]), "b": format!("{:?}", &bv[..n]), "max_angle": maxa, "angle": th, "words": hexwords(w)}));
        }
    }
    Ok(())
}

fn fword(bits: u32, w: u64) -> f64 {
    if bits == 32 {
        f32::from_bits(w as u32) as f64
    } else {
        f64::from_bits(w)
    }
}

// ================================================================ lerp endpoints, move_towards, clamp_length (all vector types)

#[derive(Default, Debug)]
pub struct LmcOut {
    pub lerp0: [f64; 4],
    pub lerp1: [f64; 4],
    pub lerp_s: [f64; 4],
    pub midpoint: [f64; 4],
    pub mv: [f64; 4],
    pub mv_bits: [u64; 4],
    /// move_towards(b, self.distance(b)) with the distance the library itself computes: documented to equal `b`
    pub mv_own_dist_bits: [u64; 4],
    /// move_towards(b, 0.0): documented to equal `self`
    pub mv_zero_bits: [u64; 4],
    pub own_dist: f64,
    pub clamp: [f64; 4],
    pub clamp_bits: [u64; 4],
    pub clamp_min: [f64; 4],
    pub clamp_min_bits: [u64; 4],
    pub clamp_max: [f64; 4],
    pub clamp_max_bits: [u64; 4],
}

/// words: a[N] b[N] s d min max
pub fn judge_lmc(info: &TypeInfo, variant: &str, w: &[u64], o: &LmcOut, t: &mut Tally) -> Result<(), Fail> {
    let cx = Cx::new(info, variant);
    if info.bits == 32 {
        judge_lmc_r::<f64>(&cx, w, o, t)
    } else {
        judge_lmc_r::<DD>(&cx, w, o, t)
    }
}

fn judge_lmc_r<R: Real>(cx: &Cx, w: &[u64], o: &LmcOut, t: &mut Tally) -> Result<(), Fail> {
    let n = cx.info.n;
    let nf = n as f64;
    let bits = cx.info.bits;
    let (u, tiny) = (cx.f.u, cx.f.tiny);
    let av = decode(bits, &w[0..n]);
    let bv = decode(bits, &w[n..2 * n]);
    let s = from_word(bits, w[2 * n]);
    let d = from_word(bits, w[2 * n + 1]);
    let mn = from_word(bits, w[2 * n + 2]);
    let mx = from_word(bits, w[2 * n + 3]);
    let ctx = || format!("a={:?} b={:?} s={:?} d={:?} min={:?} max={:?}", &av[..n], &bv[..n], s, d, mn, mx);
    let (a, b): (Vec<R>, Vec<R>) = (rv(&av[..n]), rv(&bv[..n]));
    t.eval(7);
    let mut nontrivial = false;

    // operands near the top of the range (either sign): b - a, a + b and every length overflow, the convex combination
    // a (1 - s) + b s does not; only the lerp clauses are judged there
    let top = if bits == 32 { 2f64.powi(120) } else { 2f64.powi(1000) };
    let huge = av[..n].iter().chain(bv[..n].iter()).any(|x| x.abs() > top);
    // ---- lerp: s = 0 -> first operand, s = 1 -> second, exactly (as IEEE values); affine in between
    for i in 0..n {
        if !(o.lerp0[i] == av[i]) {
            return Err(cx.fail("lerp", format!("s=0, lane {i}: got {:e}, the first operand is {:e}; {}", o.lerp0[i], av[i], ctx())));
        }
        if !(o.lerp1[i] == bv[i]) {
            return Err(cx.fail("lerp", format!("s=1, lane {i}: got {:e}, the second operand is {:e}; {}", o.lerp1[i], bv[i], ctx())));
        }
        let p = a[i].mul(R::of(1.0).sub(R::of(s)));
        let q = b[i].mul(R::of(s));
        let want = p.add(q);
        let tol = k2(3.0) * u * (p.abs().f() + q.abs().f()) + 4.0 * tiny;
        let err = R::of(o.lerp_s[i]).sub(want).abs().f();
        if !(err <= tol) {
            return Err(cx.fail("lerp", format!("lane {i}: got {:e} expected {:e} |err| {:e} > tol {:e}; {}", o.lerp_s[i], want.f(), err, tol, ctx())));
        }
        t.ratio("lerp", err / tol);
        if huge {
            continue;
        }
        let wm = a[i].add(b[i]).mul(R::of(0.5));
        let tolm = k2(1.0) * u * 0.5 * (av[i].abs() + bv[i].abs()) + 4.0 * tiny;
        let errm = R::of(o.midpoint[i]).sub(wm).abs().f();
        if !(errm <= tolm) {
            return Err(cx.fail("midpoint", format!("lane {i}: got {:e} expected {:e} |err| {:e} > tol {:e}; {}", o.midpoint[i], wm.f(), errm, tolm, ctx())));
        }
        t.ratio("midpoint", errm / tolm);
    }
    if s > 0.0 && s < 1.0 {
        nontrivial = true;
    }
    if huge {
        t.class("lerp:operands near the top of the range (lerp only)");
        if (0.0..=1.0).contains(&s) {
            t.nontrivial(cx.hash(w));
        }
        return Ok(());
    }

    // ---- move_towards (d >= 0 generated): the target itself within reach (len <= d or len <= 1e-4), else the point at distance d
    {
        let diff = subv(&b, &a);
        let len = norm_ref(&diff).f();
        let (na, nb) = (norm_ref(&a).f(), norm_ref(&b).f());
        // computed length: differences rounded once, N/2+2 ops relative -> doubled
        let sl = k2(nf / 2.0 + 2.0) * u * len + 4.0 * tiny;
        let thr = if bits == 32 { 1e-4f32 as f64 } else { 1e-4 };
        let certain_reach = len < d - sl || len < thr - sl;
        let certain_far = len > d + sl && len > thr + sl;
        let is_b = bits_eq(&o.mv_bits[..n], &w[n..2 * n]);
        // the two documented end points, with the library's own distance: d == self.distance(rhs) gives rhs, d == 0 gives self
        if o.own_dist.is_finite() {
            if !bits_eq(&o.mv_own_dist_bits[..n], &w[n..2 * n]) {
                let same_value = (0..n).all(|i| fword(bits, o.mv_own_dist_bits[i]) == fword(bits, w[n + i]));
                if !same_value {
                    return Err(cx.fail("move_towards", format!("move_towards(rhs, self.distance(rhs) = {:e}) is documented to equal rhs but returned bits {:x?}; {}", o.own_dist, &o.mv_own_dist_bits[..n], ctx())));
                }
            }
            t.class("move_towards:d == own distance");
            if o.own_dist > thr {
                let same_value = (0..n).all(|i| fword(bits, o.mv_zero_bits[i]) == fword(bits, w[i]));
                if !same_value {
                    return Err(cx.fail("move_towards", format!("move_towards(rhs, 0.0) is documented to equal self but returned bits {:x?}; {}", &o.mv_zero_bits[..n], ctx())));
                }
            }
        }
        let far_check = |t: &mut Tally| -> Result<(), String> {
            let tol = K * u * (na + nb + d.abs()) + 4.0 * tiny;
            let dir: Vec<R> = diff.iter().map(|x| x.div(R::of(len))).collect();
            let want = addv(&a, &scale(&dir, R::of(d)));
            let err = dist(&o.mv[..n], &want);
            if !(err <= tol) {
                return Err(format!("got {:?} expected {:?} (distance {:e} of {:e}) |err| {:e} > tol {:e}", &o.mv[..n], fv(&want), d, len, err, tol));
            }
            t.ratio("move_towards", err / tol);
            Ok(())
        };
        if certain_reach {
            t.class(if len < thr - sl && !(len < d - sl) { "move_towards:within 1e-4" } else { "move_towards:within reach" });
            if !is_b {
                return Err(cx.fail("move_towards", format!("target within reach (distance {:e}) but the result {:?} is not the target; {}", len, &o.mv[..n], ctx())));
            }
        } else if certain_far {
            t.class("move_towards:beyond reach");
            if let Err(m) = far_check(t) {
                return Err(cx.fail("move_towards", format!("{}; {}", m, ctx())));
            }
            if d > 0.0 {
                nontrivial = true;
            }
        } else {
            t.class(if (len - thr).abs() <= sl { "threshold:move_towards 1e-4 within slack" } else { "threshold:move_towards len~d within slack" });
            if !is_b {
                if let Err(m) = far_check(t) {
                    return Err(cx.fail("move_towards", format!("neither the target nor the point at distance d: {}; {}", m, ctx())));
                }
            }
        }
        if (len - thr).abs() < 1e-3 * thr {
            nontrivial = true;
        }
    }

    // ---- clamp_length family on a
    {
        let (l2, _) = dot_ref(&a, &a);
        let l2f = l2.f();
        let len = l2.sqrt();
        let sl = k2(nf + 1.0) * u; // relative slack of comparing the computed |a|^2 with the computed bound^2
        let below = |bound: f64| l2f < bound * bound * (1.0 - sl);
        let above = |bound: f64| l2f > bound * bound * (1.0 + sl);
        let not_below = |bound: f64| l2f > bound * bound * (1.0 + sl);
        let not_above = |bound: f64| l2f < bound * bound * (1.0 - sl);
        // result must be bound * a/|a|
        let on_bound = |got: &[f64; 4], bound: f64| -> Result<f64, String> {
            let mut worst = 0.0f64;
            for i in 0..n {
                let want = a[i].div(len).mul(R::of(bound));
                // |a|: N/2+1 ops, division, multiplication
                let tol = k2(nf / 2.0 + 3.0) * u * want.abs().f() + 4.0 * tiny;
                let err = R::of(got[i]).sub(want).abs().f();
                if !(err <= tol) {
                    return Err(format!("lane {i}: got {:e} expected {:e} (same direction, length {:e}) |err| {:e} > tol {:e}", got[i], want.f(), bound, err, tol));
                }
                worst = worst.max(err / tol);
            }
            Ok(worst)
        };
        // (name, got, bits, lower bound, upper bound)
        let forms: [(&str, &[f64; 4], &[u64; 4], Option<f64>, Option<f64>); 3] = [
            ("clamp_length", &o.clamp, &o.clamp_bits, Some(mn), Some(mx)),
            ("clamp_length_min", &o.clamp_min, &o.clamp_min_bits, Some(mn), None),
            ("clamp_length_max", &o.clamp_max, &o.clamp_max_bits, None, Some(mx)),
        ];
        for (name, got, gbits, lo, hi) in forms {
            let same = bits_eq(&gbits[..n], &w[0..n]);
            // accepted outcomes
            let mut ok_same = true;
            let mut targets: Vec<f64> = vec![];
            if let Some(lo) = lo {
                if below(lo) {
                    ok_same = false;
                    targets.push(lo);
                } else if !not_below(lo) {
                    targets.push(lo);
                    t.class("threshold:clamp_length bound within slack");
                }
            }
            if let Some(hi) = hi {
                if above(hi) && targets.is_empty() {
                    ok_same = false;
                    targets.push(hi);
                } else if !not_above(hi) && !above(hi) {
                    targets.push(hi);
                    t.class("threshold:clamp_length bound within slack");
                }
            }
            if ok_same && same {
                t.class("clamp:inside(bit-identical)");
                continue;
            }
            if targets.is_empty() {
                return Err(cx.fail(name, format!("|a| = {:e} is inside the bounds but the result {:?} is not the input bit for bit; {}", len.f(), &got[..n], ctx())));
            }
            let mut res: Result<f64, String> = Err(String::new());
            for b in &targets {
                match (on_bound(got, *b), &res) {
                    (Ok(r), Ok(r0)) if r >= *r0 => {}
                    (Ok(r), _) => res = Ok(r),
                    (Err(m), Err(_)) => res = Err(m),
                    _ => {}
                }
            }
            match res {
                Ok(r) => {
                    t.ratio(name, r);
                    t.class("clamp:rescaled");
                    nontrivial = true;
                }
                Err(m) => return Err(cx.fail(name, format!("{}; |a| = {:e}; {}", m, len.f(), ctx()))),
            }
        }
    }
    let axis_aligned = |v: &[f64]| v.iter().filter(|x| **x != 0.0).count() <= 1;
    if nontrivial && !(axis_aligned(&av[..n]) && axis_aligned(&bv[..n])) {
        t.nontrivial(cx.hash(w));
        if t.want_sample() {
            t.sample(json!({"type": cx.info.ty, "variant": cx.variant, "a": format!("{:?}", &av[..n]), "b": format!("{:?}", &bv[..n]), "s": s, "d": d, "min": mn, "max": mx, "words": hexwords(w)}));
        }
    }
    Ok(())
}

// ================================================================ rotation arcs

#[derive(Default, Debug)]
pub struct ArcOut {
    pub arc: [f64; 4],
    pub colinear: [f64; 4],
    pub arc2d: [f64; 4],
}

/// words: a[3] b[3] a2[2] b2[2] (all unit)
pub fn judge_arc(info: &TypeInfo, variant: &str, w: &[u64], o: &ArcOut, t: &mut Tally) -> Result<(), Fail> {
    let cx = Cx::new(info, variant);
    if info.bits == 32 {
        judge_arc_r::<f64>(&cx, w, o, t)
    } else {
        judge_arc_r::<DD>(&cx, w, o, t)
    }
}

fn judge_arc_r<R: Real>(cx: &Cx, w: &[u64], o: &ArcOut, t: &mut Tally) -> Result<(), Fail> {
    let bits = cx.info.bits;
    let u = cx.f.u;
    let eps = if bits == 32 { f32::EPSILON as f64 } else { f64::EPSILON };
    let a3 = decode(bits, &w[0..3]);
    let b3 = decode(bits, &w[3..6]);
    let a2 = decode(bits, &w[6..8]);
    let b2 = decode(bits, &w[8..10]);
    t.eval(3);
    let mut nontrivial = false;
    let mut boundary = false;

    // one arc: q must be unit and take `from` to `to` (or to +-`to` with a rotation of at most 90 degrees when `colinear`)
    let mut one = |t: &mut Tally, name: &str, q: &[f64; 4], from: &[f64], to: &[f64], colinear: bool, planar: bool| -> Result<(), Fail> {
        let ctx = || format!("from={:?} to={:?} q={:?}", from, to, q);
        let qr: Vec<R> = rv(q);
        let nq = norm_ref(&qr).f();
        if !((nq - 1.0).abs() <= K * u) {
            return Err(cx.fail(name, format!("quaternion length {:e} is not 1 within {:e}; {}", nq, K * u, ctx())));
        }
        t.ratio(&format!("{name}:unit"), (nq - 1.0).abs() / (K * u));
        if planar && !(q[0] == 0.0 && q[1] == 0.0) {
            return Err(cx.fail(name, format!("rotation is not about z; {}", ctx())));
        }
        let (f3, mut t3): (Vec<R>, Vec<R>) = (rv(from), rv(to));
        let (d, sd) = dot_ref(&f3, &t3);
        let mut sign_free = false;
        if colinear {
            if d.f().abs() <= 8.0 * u * sd {
                sign_free = true;
            } else if d.f() < 0.0 {
                t3 = scale(&t3, R::of(-1.0));
            }
        }
        let th = angle_ref(&f3, &t3);
        let sin = th.sin();
        let c = th.cos();
        // singular branches: |dot| > 1 - 2 eps (+- rounding of the computed dot)
        let lim = 2.0 * eps;
        let omc = 2.0 * (th / 2.0).sin().powi(2); // 1 - cos
        let opc = 2.0 * ((PI - th) / 2.0).sin().powi(2); // 1 + cos
        // the computed dot differs from the true cosine by <= 3u (rounding of three products and two sums of a unit pair)
        // + 2u (the operands are unit only to ~1u each): first-order worst case 5u, used with a margin as 6u
        let sl = 6.0 * u;
        let sing_certain = omc < lim - sl || opc < lim - sl;
        let sing_possible = omc < lim + sl || opc < lim + sl;
        // inside the singular branches the result maps `from` to +-`from`: off by |from -+ to| <= sqrt(2 (2 eps + slack)); documented "about 0.001"
        // (geometric worst case sqrt(2 (2 eps + 6u)), attained at the edge of the zone; doubled)
        let tol_sing = 2.0 * (2.0 * (lim + sl)).sqrt();
        // first-order worst case of (cross, 1 + dot).normalize(): the computed dot carries 3u and the operands are unit only to
        // ~1u each, so w = 1 + dot is off by <= 5u and the rotation angle 2 atan2(|c|, w) by 10u/sin(theta); the cross product carries
        // 2u per lane (3.5u in norm), i.e. an axis error of 3.5u/sin(theta) that moves the image by twice that: 17u/sin(theta); doubled
        let tol_main = 34.0 * u / sin + K * u;
        // near parallel the main branch cannot be further off than the identity is (|c| <= theta + 2u against w ~ 2), so the
        // singular-branch bound holds on both sides of the threshold; near opposite the axis is ill-defined like u/sin(theta)
        let tol = if sing_certain || (sing_possible && omc < 1.0) { tol_sing + K * u } else if sing_possible { tol_sing.max(tol_main) } else { tol_main };
        t.class(if sing_certain {
            "arc:singular-branch"
        } else if sing_possible {
            "threshold:arc 1-2eps within slack"
        } else if th < 1e-3 || PI - th < 1e-3 {
            "arc:main within 1e-3 of (anti)parallel"
        } else {
            "arc:main"
        });
        if sing_possible && !sing_certain {
            boundary = true;
        }
        if !(tol <= 1.0) {
            t.class("arc:angular-clause-vacuous");
            return Ok(());
        }
        let img = rotq(&qr, &f3);
        let mut err = dist(&fv(&t3), &img);
        if sign_free {
            err = err.min(dist(&fv(&scale(&t3, R::of(-1.0))), &img));
        }
        if !(err <= tol) {
            return Err(cx.fail(name, format!("q*from = {:?} misses {}to by {:e} > tol {:e} (angle {:e}); {}", fv(&img), if colinear { "+-" } else { "" }, err, tol, th, ctx())));
        }
        t.ratio(name, err / tol);
        // minimal rotation: the rotation angle of q is the angle between from and the (chosen) target
        let qa = 2.0 * f64::atan2(norm_ref(&qr[0..3]).f(), q[3].abs());
        let want = if sign_free { th.min(PI - th) } else { th };
        let tol_a = 2.0 * tol;
        if !sing_possible || sing_certain {
            let ea = if sing_certain { 0.0 } else { (qa - want).abs() };
            if !(ea <= tol_a) {
                return Err(cx.fail(name, format!("rotation angle {:e} is not the minimal one {:e} (|err| {:e} > {:e}); {}", qa, want, ea, tol_a, ctx())));
            }
            t.ratio(&format!("{name}:minimal-angle"), ea / tol_a);
        }
        let _ = c;
        let axis_aligned = |v: &[f64]| v.iter().filter(|x| **x != 0.0).count() <= 1;
        if !(axis_aligned(from) && axis_aligned(to)) || omc < 1e-3 || opc < 1e-3 {
            nontrivial = true;
        }
        Ok(())
    };
    one(t, "from_rotation_arc", &o.arc, &a3[..3], &b3[..3], false, false)?;
    one(t, "from_rotation_arc_colinear", &o.colinear, &a3[..3], &b3[..3], true, false)?;
    let (a2z, b2z) = ([a2[0], a2[1], 0.0], [b2[0], b2[1], 0.0]);
    one(t, "from_rotation_arc_2d", &o.arc2d, &a2z, &b2z, false, true)?;
    if boundary {
        t.class("boundary");
    } else if nontrivial {
        t.nontrivial(cx.hash(w));
        if t.want_sample() {
            t.sample(json!({"type": cx.info.ty, "variant": cx.variant, "from": format!("{:?}", &a3[..3]), "to": format!("{:?}", &b3[..3]), "from2d": format!("{:?}", &a2[..2]), "to2d": format!("{:?}", &b2[..2]), "words": hexwords(w)}));
        }
    }
    Ok(())
}

// ================================================================ orthogonal / orthonormal helpers

#[derive(Default, Debug)]
pub struct OrthoOut {
    pub any_orthogonal: [f64; 4],
    pub any_orthonormal: [f64; 4],
    pub pair0: [f64; 4],
    pub pair1: [f64; 4],
}

/// words: x[3] (unit) y[3] (any finite non-zero)
pub fn judge_ortho(info: &TypeInfo, variant: &str, w: &[u64], o: &OrthoOut, t: &mut Tally) -> Result<(), Fail> {
    let cx = Cx::new(info, variant);
    if info.bits == 32 {
        judge_ortho_r::<f64>(&cx, w, o, t)
    } else {
        judge_ortho_r::<DD>(&cx, w, o, t)
    }
}

fn judge_ortho_r<R: Real>(cx: &Cx, w: &[u64], o: &OrthoOut, t: &mut Tally) -> Result<(), Fail> {
    let bits = cx.info.bits;
    let u = cx.f.u;
    let xv = decode(bits, &w[0..3]);
    let yv = decode(bits, &w[3..6]);
    let ctx = || format!("unit x={:?} (words {:?}) y={:?}", &xv[..3], hexwords(&w[0..3]), &yv[..3]);
    t.eval(3);
    let (x, y): (Vec<R>, Vec<R>) = (rv(&xv[..3]), rv(&yv[..3]));
    // any_orthogonal_vector: non-zero and orthogonal (relative to the sizes involved)
    {
        let g: Vec<R> = rv(&o.any_orthogonal[..3]);
        let ng = norm_ref(&g).f();
        if !(ng > 0.0 && ng.is_finite()) {
            return Err(cx.fail("any_orthogonal_vector", format!("zero or non-finite result {:?}; {}", &o.any_orthogonal[..3], ctx())));
        }
        let (d, sd) = dot_ref(&g, &y);
        let tol = k2(3.0) * u * sd + 4.0 * cx.f.tiny;
        if !(d.f().abs() <= tol) {
            return Err(cx.fail("any_orthogonal_vector", format!("{:?} . y = {:e} > tol {:e}; {}", &o.any_orthogonal[..3], d.f(), tol, ctx())));
        }
        t.ratio("any_orthogonal_vector", if tol > 0.0 { d.f().abs() / tol } else { 0.0 });
    }
    // orthonormal forms on the unit input
    let tol = K * u;
    let mut chk = |t: &mut Tally, name: &str, what: &str, val: f64| -> Result<(), Fail> {
        if !(val.abs() <= tol) {
            return Err(cx.fail(name, format!("{} = {:e} exceeds {:e}; {}", what, val, tol, ctx())));
        }
        t.ratio(name, val.abs() / tol);
        Ok(())
    };
    let v: Vec<R> = rv(&o.any_orthonormal[..3]);
    chk(t, "any_orthonormal_vector", "|v| - 1", norm_ref(&v).f() - 1.0)?;
    chk(t, "any_orthonormal_vector", "v . x", dot_ref(&v, &x).0.f())?;
    let (p0, p1): (Vec<R>, Vec<R>) = (rv(&o.pair0[..3]), rv(&o.pair1[..3]));
    chk(t, "any_orthonormal_pair", "|p0| - 1", norm_ref(&p0).f() - 1.0)?;
    chk(t, "any_orthonormal_pair", "|p1| - 1", norm_ref(&p1).f() - 1.0)?;
    chk(t, "any_orthonormal_pair", "p0 . x", dot_ref(&p0, &x).0.f())?;
    chk(t, "any_orthonormal_pair", "p1 . x", dot_ref(&p1, &x).0.f())?;
    chk(t, "any_orthonormal_pair", "p0 . p1", dot_ref(&p0, &p1).0.f())?;
    let z = xv[2];
    let zneg0 = w[2] == to_word(bits, -0.0);
    t.class(if z == -1.0 {
        "ortho:z=-1"
    } else if zneg0 {
        "ortho:z=-0"
    } else if z == 0.0 {
        "ortho:z=+0"
    } else if z < -0.999 {
        "ortho:z<-0.999"
    } else if z < 0.0 {
        "ortho:z<0"
    } else {
        "ortho:z>0"
    });
    t.nontrivial(cx.hash(w));
    if t.want_sample() {
        t.sample(json!({"type": cx.info.ty, "variant": cx.variant, "x": format!("{:?}", &xv[..3]), "y": format!("{:?}", &yv[..3]), "words": hexwords(w)}));
    }
    Ok(())
}

// ================================================================ FloatExt

#[derive(Default, Debug)]
pub struct FloatOut {
    pub lerp0: f64,
    pub lerp1: f64,
    pub lerp_t: f64,
    pub inv_a: f64,
    pub inv_b: f64,
    pub inv_v: f64,
    pub remap_start: f64,
    pub remap_end: f64,
    pub remap_v: f64,
}

/// words: a b t v os oe
pub fn judge_float(info: &TypeInfo, variant: &str, w: &[u64], o: &FloatOut, t: &mut Tally) -> Result<(), Fail> {
    let cx = Cx::new(info, variant);
    if info.bits == 32 {
        judge_float_r::<f64>(&cx, w, o, t)
    } else {
        judge_float_r::<DD>(&cx, w, o, t)
    }
}

fn judge_float_r<R: Real>(cx: &Cx, w: &[u64], o: &FloatOut, t: &mut Tally) -> Result<(), Fail> {
    let bits = cx.info.bits;
    let (u, tiny) = (cx.f.u, cx.f.tiny);
    let v6 = [from_word(bits, w[0]), from_word(bits, w[1]), from_word(bits, w[2]), from_word(bits, w[3]), from_word(bits, w[4]), from_word(bits, w[5])];
    let [a, b, tt, v, os, oe] = v6;
    let ctx = || format!("a={:?} b={:?} t={:?} v={:?} out_start={:?} out_end={:?}", a, b, tt, v, os, oe);
    t.eval(9);
    let exact = |name: &str, what: &str, got: f64, want: f64| -> Result<(), Fail> {
        if !(got == want) {
            return Err(cx.fail(name, format!("{}: got {:e} expected exactly {:e}; {}", what, got, want, ctx())));
        }
        Ok(())
    };
    let mut close = |t: &mut Tally, name: &str, what: &str, got: f64, want: R, tol: f64| -> Result<(), Fail> {
        let err = R::of(got).sub(want).abs().f();
        if !(err <= tol) {
            return Err(cx.fail(name, format!("{}: got {:e} expected {:e} |err| {:e} > tol {:e}; {}", what, got, want.f(), err, tol, ctx())));
        }
        t.ratio(name, if tol > 0.0 { err / tol } else { 0.0 });
        Ok(())
    };
    let (ar, br, tr, vr, osr, oer) = (R::of(a), R::of(b), R::of(tt), R::of(v), R::of(os), R::of(oe));
    let m = a.abs().max(b.abs());
    // lerp: a + (b - a) t
    exact("FloatExt::lerp", "t=0", o.lerp0, a)?;
    close(t, "FloatExt::lerp", "t=1", o.lerp1, br, k2(2.0) * u * m + 4.0 * tiny)?;
    let diff = br.sub(ar);
    let want = ar.add(diff.mul(tr));
    // (b-a) rounded, product rounded, sum rounded: u(2|b-a||t| + |result|), doubled
    close(t, "FloatExt::lerp", "t", o.lerp_t, want, 2.0 * u * (2.0 * diff.f().abs() * tt.abs() + want.f().abs()) + 4.0 * tiny)?;
    // inverse_lerp: (v - a)/(b - a)
    exact("FloatExt::inverse_lerp", "v=a", o.inv_a, 0.0)?;
    exact("FloatExt::inverse_lerp", "v=b", o.inv_b, 1.0)?;
    let tv = vr.sub(ar).div(diff);
    close(t, "FloatExt::inverse_lerp", "v", o.inv_v, tv, k2(3.0) * u * tv.f().abs() + 4.0 * tiny)?;
    // remap(v, a, b, os, oe)
    exact("FloatExt::remap", "in_start", o.remap_start, os)?;
    let mo = os.abs().max(oe.abs());
    close(t, "FloatExt::remap", "in_end", o.remap_end, oer, k2(2.0) * u * mo + 4.0 * tiny)?;
    let od = oer.sub(osr);
    let wantr = osr.add(od.mul(tv));
    // t carries 3u relative; then as lerp
    close(t, "FloatExt::remap", "v", o.remap_v, wantr, 2.0 * u * (5.0 * od.f().abs() * tv.f().abs() + wantr.f().abs()) + 4.0 * tiny)?;
    t.nontrivial(cx.hash(w));
    if t.want_sample() {
        t.sample(json!({"type": cx.info.ty, "variant": cx.variant, "a": a, "b": b, "t": tt, "v": v, "out_start": os, "out_end": oe, "words": hexwords(w)}));
    }
    Ok(())
}
