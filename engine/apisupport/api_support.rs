// Shared by the API-table checks (C07, C08, C18, C20). `include!`d inside a module in which
// `glam` names one variant of the working tree; the generated table for that variant's backend
// is included right after this file.
#[allow(unused_imports)]
use glam::*;

pub struct ApiEntry {
    pub id: u32,
    pub ty: &'static str,
    pub name: &'static str,
    pub sig: &'static str,
    /// float width of the arguments (32 / 64)
    pub width: u8,
    /// 0 inherent / free function, 1 trait impl
    pub kind: u8,
    /// false when this backend does not have the callable
    pub present: bool,
}

/// Argument source: a cursor over words. Floats are bit patterns (f32 in the low half).
pub struct Src<'a> {
    pub w: &'a [u64],
    pub pos: usize,
    /// hidden-lane contents for Vec3A / Mat3A / Affine3A / BVec3A construction (None: `Vec3A::new`)
    pub hidden: Option<&'a [u32]>,
    pub hpos: usize,
    /// values produced by earlier steps of a program (may carry arbitrary hidden-lane content)
    pub pool: Option<&'a Pool>,
    /// kind of use per consumed word: 0 other, 1 f32, 2 f64 (filled when `trace` is set)
    pub kinds: Vec<u8>,
    pub trace: bool,
    /// alternative injection route for the hidden lane (e.g. the raw-register `From` impl); default `from_vec4`
    pub mk3a: Option<fn(f32, f32, f32, u32) -> Vec3A>,
}

/// Typed results of earlier calls, kept with their raw registers so that later steps of a program
/// can be fed glam's own outputs (including whatever the operation left in a padding lane).
#[derive(Default, Clone)]
pub struct Pool {
    pub v3a: Vec<Vec3A>,
    pub m3a: Vec<Mat3A>,
    pub a3a: Vec<Affine3A>,
    pub b3a: Vec<BVec3A>,
}

pub const CANARY32: u32 = 0x7fc0_dead;
pub const CANARY64: u64 = 0x7ff8_dead_beef_0001;

impl<'a> Src<'a> {
    pub fn new(w: &'a [u64]) -> Self {
        Src { w, pos: 0, hidden: None, hpos: 0, pool: None, kinds: Vec::new(), trace: false, mk3a: None }
    }
    pub fn with_hidden(w: &'a [u64], h: &'a [u32]) -> Self {
        Src { w, pos: 0, hidden: Some(h), hpos: 0, pool: None, kinds: Vec::new(), trace: false, mk3a: None }
    }
    #[inline]
    pub fn next(&mut self) -> u64 {
        let v = self.w[self.pos % self.w.len()];
        self.pos += 1;
        if self.trace {
            self.kinds.push(0);
        }
        v
    }
    #[inline]
    fn mark(&mut self, k: u8) {
        if self.trace {
            if let Some(l) = self.kinds.last_mut() {
                *l = k;
            }
        }
    }
    #[inline]
    pub fn idx(&mut self, n: usize) -> usize {
        let v = self.next();
        ((v ^ (v >> 32)) as usize) % n.max(1)
    }
    #[inline]
    fn next_hidden(&mut self) -> Option<u32> {
        match self.hidden {
            None => None,
            Some(h) => {
                let v = h[self.hpos % h.len()];
                self.hpos += 1;
                Some(v)
            }
        }
    }
    pub fn slice_f32(&mut self, n: usize) -> Vec<f32> {
        let extra = self.idx(3);
        (0..n + extra).map(|_| <f32 as Arg>::get(self)).collect()
    }
    pub fn slice_f64(&mut self, n: usize) -> Vec<f64> {
        let extra = self.idx(3);
        (0..n + extra).map(|_| <f64 as Arg>::get(self)).collect()
    }
    pub fn mslice_f32(&mut self, n: usize) -> Vec<f32> {
        let extra = self.idx(3);
        vec![f32::from_bits(CANARY32); n + extra]
    }
    pub fn mslice_f64(&mut self, n: usize) -> Vec<f64> {
        let extra = self.idx(3);
        vec![f64::from_bits(CANARY64); n + extra]
    }
}

pub trait Arg: Sized {
    fn get(s: &mut Src) -> Self;
}
impl Arg for f32 {
    #[inline]
    fn get(s: &mut Src) -> f32 {
        let v = f32::from_bits(s.next() as u32);
        s.mark(1);
        v
    }
}
impl Arg for f64 {
    #[inline]
    fn get(s: &mut Src) -> f64 {
        let v = f64::from_bits(s.next());
        s.mark(2);
        v
    }
}
impl Arg for bool {
    #[inline]
    fn get(s: &mut Src) -> bool {
        let v = s.next();
        ((v ^ (v >> 7) ^ (v >> 23)) & 1) == 1
    }
}
impl Arg for u32 {
    #[inline]
    fn get(s: &mut Src) -> u32 {
        s.next() as u32
    }
}
macro_rules! arg_int {
    ($($t:ty),+) => { $(impl Arg for $t { #[inline] fn get(s: &mut Src) -> $t { s.next() as $t } })+ };
}
arg_int!(i8, u8, i16, u16, i32, i64, u64, usize);
impl<T: Arg, const N: usize> Arg for [T; N] {
    fn get(s: &mut Src) -> [T; N] {
        core::array::from_fn(|_| T::get(s))
    }
}
impl<A: Arg, B: Arg> Arg for (A, B) {
    fn get(s: &mut Src) -> Self {
        let a = A::get(s);
        let b = B::get(s);
        (a, b)
    }
}
impl<A: Arg, B: Arg, C: Arg> Arg for (A, B, C) {
    fn get(s: &mut Src) -> Self {
        let a = A::get(s);
        let b = B::get(s);
        let c = C::get(s);
        (a, b, c)
    }
}
impl<A: Arg, B: Arg, C: Arg, D: Arg> Arg for (A, B, C, D) {
    fn get(s: &mut Src) -> Self {
        let a = A::get(s);
        let b = B::get(s);
        let c = C::get(s);
        let d = D::get(s);
        (a, b, c, d)
    }
}

pub const EULERS: [EulerRot; 24] = [
    EulerRot::ZYX, EulerRot::ZXY, EulerRot::YXZ, EulerRot::YZX, EulerRot::XYZ, EulerRot::XZY, EulerRot::ZYZ, EulerRot::ZXZ,
    EulerRot::YXY, EulerRot::YZY, EulerRot::XYX, EulerRot::XZX, EulerRot::ZYXEx, EulerRot::ZXYEx, EulerRot::YXZEx, EulerRot::YZXEx,
    EulerRot::XYZEx, EulerRot::XZYEx, EulerRot::ZYZEx, EulerRot::ZXZEx, EulerRot::YXYEx, EulerRot::YZYEx, EulerRot::XYXEx, EulerRot::XZXEx,
];
impl Arg for EulerRot {
    fn get(s: &mut Src) -> EulerRot {
        EULERS[s.idx(24)]
    }
}

macro_rules! arg_vec {
    ($V:ident, $T:ident, $($c:ident),+) => {
        impl Arg for $V {
            #[inline]
            fn get(s: &mut Src) -> $V {
                $(let $c = <$T as Arg>::get(s);)+
                $V::new($($c),+)
            }
        }
    };
}
arg_vec!(Vec2, f32, x, y);
arg_vec!(Vec3, f32, x, y, z);
arg_vec!(Vec4, f32, x, y, z, w);
arg_vec!(DVec2, f64, x, y);
arg_vec!(DVec3, f64, x, y, z);
arg_vec!(DVec4, f64, x, y, z, w);
arg_vec!(I8Vec2, i8, x, y);
arg_vec!(I8Vec3, i8, x, y, z);
arg_vec!(I8Vec4, i8, x, y, z, w);
arg_vec!(U8Vec2, u8, x, y);
arg_vec!(U8Vec3, u8, x, y, z);
arg_vec!(U8Vec4, u8, x, y, z, w);
arg_vec!(I16Vec2, i16, x, y);
arg_vec!(I16Vec3, i16, x, y, z);
arg_vec!(I16Vec4, i16, x, y, z, w);
arg_vec!(U16Vec2, u16, x, y);
arg_vec!(U16Vec3, u16, x, y, z);
arg_vec!(U16Vec4, u16, x, y, z, w);
arg_vec!(IVec2, i32, x, y);
arg_vec!(IVec3, i32, x, y, z);
arg_vec!(IVec4, i32, x, y, z, w);
arg_vec!(UVec2, u32, x, y);
arg_vec!(UVec3, u32, x, y, z);
arg_vec!(UVec4, u32, x, y, z, w);
arg_vec!(I64Vec2, i64, x, y);
arg_vec!(I64Vec3, i64, x, y, z);
arg_vec!(I64Vec4, i64, x, y, z, w);
arg_vec!(U64Vec2, u64, x, y);
arg_vec!(U64Vec3, u64, x, y, z);
arg_vec!(U64Vec4, u64, x, y, z, w);
arg_vec!(USizeVec2, usize, x, y);
arg_vec!(USizeVec3, usize, x, y, z);
arg_vec!(USizeVec4, usize, x, y, z, w);
arg_vec!(BVec2, bool, x, y);
arg_vec!(BVec3, bool, x, y, z);
arg_vec!(BVec4, bool, x, y, z, w);
arg_vec!(BVec4A, bool, x, y, z, w);

impl Arg for Vec3A {
    #[inline]
    fn get(s: &mut Src) -> Vec3A {
        let x = f32::get(s);
        let y = f32::get(s);
        let z = f32::get(s);
        let h = s.next_hidden();
        if let Some(p) = s.pool {
            let sel = x.to_bits() ^ (y.to_bits() >> 3);
            if !p.v3a.is_empty() && sel % 3 != 0 {
                return p.v3a[(sel as usize / 3) % p.v3a.len()];
            }
        }
        match (h, s.mk3a) {
            (None, _) => Vec3A::new(x, y, z),
            (Some(h), Some(mk)) => mk(x, y, z, h),
            (Some(h), None) => Vec3A::from_vec4(Vec4::new(x, y, z, f32::from_bits(h))),
        }
    }
}
impl Arg for BVec3A {
    #[inline]
    fn get(s: &mut Src) -> BVec3A {
        let x = bool::get(s);
        let y = bool::get(s);
        let z = bool::get(s);
        let hh = s.next_hidden();
        if let Some(p) = s.pool {
            if !p.b3a.is_empty() && (x ^ y) {
                return p.b3a[(z as usize * 5 + s.pos) % p.b3a.len()];
            }
        }
        match hh {
            None => BVec3A::new(x, y, z),
            Some(h) => {
                // mask produced by a comparison: the hidden lane compares true or false independently
                let f = |b: bool| if b { 1.0f32 } else { 0.0 };
                let a = Vec3A::from_vec4(Vec4::new(f(x), f(y), f(z), f(h & 1 == 1)));
                let one = Vec3A::from_vec4(Vec4::new(1.0, 1.0, 1.0, 1.0));
                a.cmpeq(one)
            }
        }
    }
}
impl Arg for Quat {
    #[inline]
    fn get(s: &mut Src) -> Quat {
        let x = f32::get(s);
        let y = f32::get(s);
        let z = f32::get(s);
        let w = f32::get(s);
        Quat::from_xyzw(x, y, z, w)
    }
}
impl Arg for DQuat {
    #[inline]
    fn get(s: &mut Src) -> DQuat {
        let x = f64::get(s);
        let y = f64::get(s);
        let z = f64::get(s);
        let w = f64::get(s);
        DQuat::from_xyzw(x, y, z, w)
    }
}
impl Arg for Mat2 {
    fn get(s: &mut Src) -> Mat2 {
        let a = Vec2::get(s);
        let b = Vec2::get(s);
        Mat2::from_cols(a, b)
    }
}
impl Arg for Mat3 {
    fn get(s: &mut Src) -> Mat3 {
        let a = Vec3::get(s);
        let b = Vec3::get(s);
        let c = Vec3::get(s);
        Mat3::from_cols(a, b, c)
    }
}
impl Arg for Mat3A {
    fn get(s: &mut Src) -> Mat3A {
        let a = Vec3A::get(s);
        let b = Vec3A::get(s);
        let c = Vec3A::get(s);
        if let Some(p) = s.pool {
            let sel = a.x.to_bits() ^ c.z.to_bits();
            if !p.m3a.is_empty() && sel % 4 == 1 {
                return p.m3a[(sel as usize / 4) % p.m3a.len()];
            }
        }
        Mat3A::from_cols(a, b, c)
    }
}
impl Arg for Mat4 {
    fn get(s: &mut Src) -> Mat4 {
        let a = Vec4::get(s);
        let b = Vec4::get(s);
        let c = Vec4::get(s);
        let d = Vec4::get(s);
        Mat4::from_cols(a, b, c, d)
    }
}
impl Arg for Affine2 {
    fn get(s: &mut Src) -> Affine2 {
        let m = Mat2::get(s);
        let t = Vec2::get(s);
        Affine2 { matrix2: m, translation: t }
    }
}
impl Arg for Affine3A {
    fn get(s: &mut Src) -> Affine3A {
        let m = Mat3A::get(s);
        let t = Vec3A::get(s);
        if let Some(p) = s.pool {
            let sel = t.y.to_bits();
            if !p.a3a.is_empty() && sel % 4 == 2 {
                return p.a3a[(sel as usize / 4) % p.a3a.len()];
            }
        }
        Affine3A { matrix3: m, translation: t }
    }
}
impl Arg for DMat2 {
    fn get(s: &mut Src) -> DMat2 {
        let a = DVec2::get(s);
        let b = DVec2::get(s);
        DMat2::from_cols(a, b)
    }
}
impl Arg for DMat3 {
    fn get(s: &mut Src) -> DMat3 {
        let a = DVec3::get(s);
        let b = DVec3::get(s);
        let c = DVec3::get(s);
        DMat3::from_cols(a, b, c)
    }
}
impl Arg for DMat4 {
    fn get(s: &mut Src) -> DMat4 {
        let a = DVec4::get(s);
        let b = DVec4::get(s);
        let c = DVec4::get(s);
        let d = DVec4::get(s);
        DMat4::from_cols(a, b, c, d)
    }
}
impl Arg for DAffine2 {
    fn get(s: &mut Src) -> DAffine2 {
        let m = DMat2::get(s);
        let t = DVec2::get(s);
        DAffine2 { matrix2: m, translation: t }
    }
}
impl Arg for DAffine3 {
    fn get(s: &mut Src) -> DAffine3 {
        let m = DMat3::get(s);
        let t = DVec3::get(s);
        DAffine3 { matrix3: m, translation: t }
    }
}

// ------------------------------------------------------------------ observations

pub const K_F32: u8 = 0;
pub const K_F64: u8 = 1;
pub const K_INT: u8 = 2;
pub const K_STR: u8 = 3;
pub const K_TAG: u8 = 4;

/// Flattened result of one call: words with a kind each, grouped per result value
/// (the lanes of one vector / matrix / quaternion share a scale).
#[derive(Default, Clone)]
pub struct Obs {
    pub w: Vec<u64>,
    pub k: Vec<u8>,
    /// group id per word
    pub g: Vec<u32>,
    pub strs: Vec<String>,
    /// typed copies of observed Vec3A / Mat3A / Affine3A / BVec3A results (only when `keep` is set)
    pub pool: Pool,
    pub keep: bool,
    cur: u32,
    depth: u32,
}

impl Obs {
    pub fn new() -> Obs {
        Obs::default()
    }
    /// same observable content (words, kinds, strings)?
    pub fn same(&self, o: &Obs) -> bool {
        self.w == o.w && self.k == o.k && self.strs == o.strs
    }
    pub fn describe(&self) -> String {
        let mut s = String::new();
        let mut si = 0;
        for i in 0..self.w.len() {
            match self.k[i] {
                K_F32 => s += &format!("{:?}(0x{:x}) ", f32::from_bits(self.w[i] as u32), self.w[i]),
                K_F64 => s += &format!("{:?}(0x{:x}) ", f64::from_bits(self.w[i]), self.w[i]),
                K_STR => {
                    s += &format!("{:?} ", self.strs.get(si));
                    si += 1
                }
                K_TAG => s += &format!("tag{} ", self.w[i]),
                _ => s += &format!("{} ", self.w[i] as i64),
            }
        }
        s
    }
    pub fn clear(&mut self) {
        self.w.clear();
        self.k.clear();
        self.g.clear();
        self.strs.clear();
        self.pool = Pool::default();
        self.cur = 0;
        self.depth = 0;
    }
    #[inline]
    pub fn put<T: Observe + ?Sized>(&mut self, v: &T) {
        v.obs(self);
    }
    #[inline]
    fn word(&mut self, w: u64, k: u8) {
        if self.depth == 0 {
            self.cur += 1;
        }
        self.w.push(w);
        self.k.push(k);
        self.g.push(self.cur);
    }
    #[inline]
    fn begin(&mut self) {
        if self.depth == 0 {
            self.cur += 1;
        }
        self.depth += 1;
    }
    #[inline]
    fn end(&mut self) {
        self.depth -= 1;
    }
    pub fn put_str(&mut self, s: String) {
        self.word(vcore::hash_str(&s), K_STR);
        self.strs.push(s);
    }
}

pub trait Observe {
    fn obs(&self, o: &mut Obs);
}
impl Observe for f32 {
    #[inline]
    fn obs(&self, o: &mut Obs) {
        o.word(self.to_bits() as u64, K_F32)
    }
}
impl Observe for f64 {
    #[inline]
    fn obs(&self, o: &mut Obs) {
        o.word(self.to_bits(), K_F64)
    }
}
impl Observe for bool {
    #[inline]
    fn obs(&self, o: &mut Obs) {
        o.word(*self as u64, K_INT)
    }
}
impl Observe for () {
    fn obs(&self, _o: &mut Obs) {}
}
macro_rules! obs_int {
    ($($t:ty),+) => { $(impl Observe for $t { #[inline] fn obs(&self, o: &mut Obs) { o.word(*self as i64 as u64, K_INT) } })+ };
}
obs_int!(i8, u8, i16, u16, i32, u32, i64, u64, usize);
impl<T: Observe + ?Sized> Observe for &T {
    fn obs(&self, o: &mut Obs) {
        (**self).obs(o)
    }
}
impl<T: Observe + ?Sized> Observe for &mut T {
    fn obs(&self, o: &mut Obs) {
        (**self).obs(o)
    }
}
impl<T: Observe> Observe for Option<T> {
    fn obs(&self, o: &mut Obs) {
        match self {
            None => o.word(0, K_TAG),
            Some(v) => {
                o.word(1, K_TAG);
                v.obs(o)
            }
        }
    }
}
impl<T: Observe, const N: usize> Observe for [T; N] {
    fn obs(&self, o: &mut Obs) {
        o.begin();
        for x in self {
            x.obs(o)
        }
        o.end();
    }
}
impl<T: Observe> Observe for Vec<T> {
    fn obs(&self, o: &mut Obs) {
        o.begin();
        o.word(self.len() as u64, K_INT);
        for x in self {
            x.obs(o)
        }
        o.end();
    }
}
impl<A: Observe, B: Observe> Observe for (A, B) {
    fn obs(&self, o: &mut Obs) {
        self.0.obs(o);
        self.1.obs(o);
    }
}
impl<A: Observe, B: Observe, C: Observe> Observe for (A, B, C) {
    fn obs(&self, o: &mut Obs) {
        self.0.obs(o);
        self.1.obs(o);
        self.2.obs(o);
    }
}
impl<A: Observe, B: Observe, C: Observe, D: Observe> Observe for (A, B, C, D) {
    fn obs(&self, o: &mut Obs) {
        self.0.obs(o);
        self.1.obs(o);
        self.2.obs(o);
        self.3.obs(o);
    }
}
macro_rules! obs_arr {
    ($($V:ident),+) => { $(impl Observe for $V { #[inline] fn obs(&self, o: &mut Obs) { self.to_array().obs(o) } })+ };
}
obs_arr!(Vec2, Vec3, Vec4, DVec2, DVec3, DVec4, Quat, DQuat);
impl Observe for Vec3A {
    #[inline]
    fn obs(&self, o: &mut Obs) {
        if o.keep {
            o.pool.v3a.push(*self);
        }
        self.to_array().obs(o)
    }
}
obs_arr!(I8Vec2, I8Vec3, I8Vec4, U8Vec2, U8Vec3, U8Vec4, I16Vec2, I16Vec3, I16Vec4, U16Vec2, U16Vec3, U16Vec4);
obs_arr!(IVec2, IVec3, IVec4, UVec2, UVec3, UVec4, I64Vec2, I64Vec3, I64Vec4, U64Vec2, U64Vec3, U64Vec4);
obs_arr!(USizeVec2, USizeVec3, USizeVec4);
macro_rules! obs_cols {
    ($($V:ident),+) => { $(impl Observe for $V { #[inline] fn obs(&self, o: &mut Obs) { self.to_cols_array().obs(o) } })+ };
}
obs_cols!(Mat2, Mat3, Mat4, DMat2, DMat3, DMat4, Affine2, DAffine2, DAffine3);
impl Observe for Mat3A {
    #[inline]
    fn obs(&self, o: &mut Obs) {
        if o.keep {
            o.pool.m3a.push(*self);
        }
        self.to_cols_array().obs(o)
    }
}
impl Observe for Affine3A {
    #[inline]
    fn obs(&self, o: &mut Obs) {
        if o.keep {
            o.pool.a3a.push(*self);
        }
        self.to_cols_array().obs(o)
    }
}
macro_rules! obs_mask {
    ($($V:ident, $N:expr),+) => { $(impl Observe for $V { #[inline] fn obs(&self, o: &mut Obs) { let a: [bool; $N] = (*self).into(); a.obs(o) } })+ };
}
obs_mask!(BVec2, 2, BVec3, 3, BVec4, 4, BVec4A, 4);
impl Observe for BVec3A {
    #[inline]
    fn obs(&self, o: &mut Obs) {
        if o.keep {
            o.pool.b3a.push(*self);
        }
        let a: [bool; 3] = (*self).into();
        a.obs(o)
    }
}

pub fn hash_of<T: core::hash::Hash>(v: &T) -> u64 {
    use core::hash::Hasher;
    let mut h = std::collections::hash_map::DefaultHasher::new();
    v.hash(&mut h);
    h.finish()
}

/// Field access through Deref / DerefMut (or plain fields in the scalar layout).
pub trait DerefObs {
    fn deref_obs(&self, o: &mut Obs);
    fn deref_set(&mut self, i: usize, s: &mut Src);
}
macro_rules! deref_fields {
    ($V:ident, $($f:ident),+) => {
        impl DerefObs for $V {
            fn deref_obs(&self, o: &mut Obs) { $(o.put(&self.$f);)+ }
            fn deref_set(&mut self, i: usize, s: &mut Src) {
                let n = [$(stringify!($f)),+].len();
                let mut k = 0usize;
                $( if k == i % n { self.$f = Arg::get(s); } k += 1; )+
                let _ = k;
            }
        }
    };
}
deref_fields!(Vec3A, x, y, z);
deref_fields!(Vec4, x, y, z, w);
deref_fields!(Quat, x, y, z, w);
deref_fields!(Mat2, x_axis, y_axis);
deref_fields!(Mat3A, x_axis, y_axis, z_axis);
deref_fields!(Mat4, x_axis, y_axis, z_axis, w_axis);
deref_fields!(Affine2, x_axis, y_axis, z_axis);
deref_fields!(Affine3A, x_axis, y_axis, z_axis, w_axis);
deref_fields!(DAffine2, x_axis, y_axis, z_axis);
deref_fields!(DAffine3, x_axis, y_axis, z_axis, w_axis);
