//! C20 — glam outputs satisfy glam preconditions; assertions never change results.
#![allow(deprecated, unused_braces, dead_code)]
use proptest::prelude::*;
use serde_json::json;
use vcore::*;

#[derive(Clone, Debug, Default)]
pub struct CObs {
    pub w: Vec<u64>,
    pub k: Vec<u8>,
    pub strs: Vec<String>,
}
pub struct ApiInfo {
    pub id: u32,
    pub ty: &'static str,
    pub name: &'static str,
    pub sig: &'static str,
    pub width: u8,
    pub present: bool,
}
pub type RunFn = fn(u32, &[u64]) -> Result<CObs, String>;
pub type ChainOut = Result<(Vec<u64>, usize, usize, Option<String>, Vec<&'static str>), String>;
pub type ChainFn = fn(&[u64]) -> ChainOut;
pub type InvalidFn = fn(&[u64]) -> Vec<(&'static str, bool)>;

macro_rules! variant {
    ($m:ident, $krate:ident, $table:expr) => {
        pub mod $m {
            use ::$krate as glam;
            pub mod tab {
                use super::glam;
                include!(concat!(env!("CARGO_MANIFEST_DIR"), "/../apisupport/api_support.rs"));
                include!(concat!(env!("CARGO_MANIFEST_DIR"), $table));
                pub fn run(id: u32, w: &[u64]) -> Result<crate::CObs, String> {
                    let mut s = Src::new(w);
                    let mut o = Obs::new();
                    match vcore::catch(|| call(id, &mut s, &mut o)) {
                        Ok(true) => {
                            // sign/payload of an arithmetic NaN are unspecified in Rust: identify all NaNs
                            let w = (0..o.w.len())
                                .map(|i| {
                                    if o.k[i] == K_F32 && f32::from_bits(o.w[i] as u32).is_nan() {
                                        0x7fc0_0000
                                    } else if o.k[i] == K_F64 && f64::from_bits(o.w[i]).is_nan() {
                                        0x7ff8_0000_0000_0000
                                    } else {
                                        o.w[i]
                                    }
                                })
                                .collect();
                            Ok(crate::CObs { w, k: o.k, strs: o.strs })
                        }
                        Ok(false) => Err("absent".into()),
                        Err(m) => Err(format!("panic: {m}")),
                    }
                }
                pub fn api() -> Vec<crate::ApiInfo> {
                    API.iter().map(|e| crate::ApiInfo { id: e.id, ty: e.ty, name: e.name, sig: e.sig, width: e.width, present: e.present }).collect()
                }
            }
            pub mod ch {
                use super::glam;
                include!("chain.rs");
            }
        }
    };
}

#[cfg(not(feature = "core"))]
variant!(simd, glam_simd, "/../gen/api_table_sse2.rs");
#[cfg(not(feature = "core"))]
variant!(asserting, glam_assert, "/../gen/api_table_sse2.rs");
#[cfg(not(feature = "core"))]
variant!(scalar, glam_scalar, "/../gen/api_table_scalar.rs");
#[cfg(not(feature = "core"))]
variant!(scalar_asserting, glam_scalar_assert, "/../gen/api_table_scalar.rs");
#[cfg(not(feature = "core"))]
variant!(dbg, glam_dbgassert, "/../gen/api_table_sse2.rs");
#[cfg(feature = "core")]
variant!(core_plain, glam_core, "/../gen/api_table_coresimd.rs");
#[cfg(feature = "core")]
variant!(core_asserting, glam_core_assert, "/../gen/api_table_coresimd.rs");

pub const STEP_WORDS: usize = 12;
pub const MAX_STEPS: usize = 12;

fn chain_strategy() -> BoxedStrategy<Vec<u64>> {
    let step = (0u64..65536, proptest::collection::vec(any::<u64>(), STEP_WORDS - 1)).prop_map(|(s, a)| {
        let mut v = vec![s];
        v.extend(a);
        v
    });
    proptest::collection::vec(step, 0..=MAX_STEPS)
        .prop_map(|steps| {
            let mut h = vec![steps.len() as u64];
            for s in steps {
                h.extend(s);
            }
            h.resize(1 + MAX_STEPS * STEP_WORDS, 0);
            h
        })
        .boxed()
}

/// (i) no valid chain panics with assertions on, every pooled value passes its check;
/// (iii) the chain's values are bit-identical with assertions on and off.
fn chain_check(plain: ChainFn, asserting: ChainFn, asserts_active: bool, pair: &'static str) -> impl Fn(&[u64], &mut Tally) -> Result<(), Fail> + Sync {
    move |w: &[u64], t: &mut Tally| {
        t.eval(1);
        let p = plain(w);
        let a = asserting(w);
        let (pobs, produced, fed, inv, trace) = match p {
            Ok(x) => x,
            Err(m) => return Err(Fail::new(format!("C20/{pair}/chain-panic-plain"), "chain", format!("the build WITHOUT assertions panicked on a valid chain: {m}"))),
        };
        t.class(&format!("chain-len-{}", trace.len()));
        for op in &trace {
            t.class(&format!("op:{op}"));
        }
        if fed >= 3 {
            t.nontrivial(mix(hash_str(pair), fnv(w)));
            if t.want_sample() {
                t.sample(json!({"pair": pair, "chain": trace, "values_produced": produced, "consumer_steps_fed_by_glam_outputs": fed}));
            }
        }
        if let Some(m) = inv {
            return Err(Fail::new(format!("C20/{pair}/pool-invariant"), format!("{:?}", trace), format!("{m}; chain {:?}", trace)));
        }
        match a {
            Err(m) => {
                if asserts_active {
                    Err(Fail::new(format!("C20/{pair}/chain-panic"), format!("{:?}", trace), format!("assertion fired on a chain of valid operations fed with glam's own outputs: {m}; chain {:?}", trace)))
                } else {
                    Err(Fail::new(format!("C20/{pair}/chain-panic-inactive"), format!("{:?}", trace), format!("panicked although assertions are compiled out in this profile: {m}")))
                }
            }
            Ok((aobs, _, _, ainv, _)) => {
                if let Some(m) = ainv {
                    return Err(Fail::new(format!("C20/{pair}/pool-invariant"), format!("{:?}", trace), format!("{m}; chain {:?}", trace)));
                }
                if aobs != pobs {
                    let i = (0..aobs.len().min(pobs.len())).find(|&i| aobs[i] != pobs[i]).unwrap_or(0);
                    return Err(Fail::new(
                        format!("C20/{pair}/value-changed"),
                        format!("{:?}", trace),
                        format!("enabling assertions changed a returned value: value #{i} is 0x{:x} with assertions and 0x{:x} without; chain {:?}", aobs.get(i).copied().unwrap_or(0), pobs.get(i).copied().unwrap_or(0), trace),
                    ));
                }
                Ok(())
            }
        }
    }
}

/// (ii) each documented violation panics with assertions on and does not without
fn invalid_check(plain: InvalidFn, asserting: InvalidFn, asserts_active: bool, pair: &'static str) -> impl Fn(&[u64], &mut Tally) -> Result<(), Fail> + Sync {
    move |w: &[u64], t: &mut Tally| {
        let p = plain(w);
        let a = asserting(w);
        for ((name, pp), (_, ap)) in p.iter().zip(a.iter()) {
            t.eval(1);
            t.nontrivial(mix(hash_str(name), fnv(w)));
            if *pp {
                return Err(Fail::new(format!("C20/{pair}/invalid-panics-without-assert"), *name, format!("{name}: panicked in the build without assertions")));
            }
            if asserts_active && !*ap {
                return Err(Fail::new(format!("C20/{pair}/invalid-accepted"), *name, format!("{name}: a documented precondition violation did NOT panic with assertions enabled")));
            }
            if !asserts_active && *ap {
                return Err(Fail::new(format!("C20/{pair}/invalid-panics-inactive"), *name, format!("{name}: panicked although assertions are compiled out in this profile")));
            }
        }
        if t.want_sample() {
            t.sample(json!({"pair": pair, "violations_checked": p.iter().map(|x| x.0).collect::<Vec<_>>()}));
        }
        Ok(())
    }
}

fn moderate() -> BoxedStrategy<u64> {
    prop_oneof![
        45 => (121u32..=133, 0u32..(1 << 23), any::<bool>()).prop_map(|(e, m, s)| (((s as u32) << 31) | (e << 23) | m) as u64),
        20 => (-8i32..=8, 0u8..3).prop_map(|(k, h)| ((k as f32) + [0.0f32, 0.5, 0.25][h as usize]).to_bits() as u64),
        10 => prop_oneof![Just(0u64), Just(0x8000_0000u64)],
        15 => proptest::sample::select(vec![1.0f32, -1.0, 0.5, 2.0, 0.70710677, -0.70710677, 0.57735026, 3.1415927, 0.6, 0.8]).prop_map(|x| x.to_bits() as u64),
        10 => vcore::lattice::lat_f32(),
    ]
    .boxed()
}
fn moderate64() -> BoxedStrategy<u64> {
    prop_oneof![
        45 => (1017u64..=1029, 0u64..(1 << 52), any::<bool>()).prop_map(|(e, m, s)| ((s as u64) << 63) | (e << 52) | m),
        20 => (-8i32..=8, 0u8..3).prop_map(|(k, h)| ((k as f64) + [0.0f64, 0.5, 0.25][h as usize]).to_bits()),
        10 => prop_oneof![Just(0u64), Just(0x8000_0000_0000_0000u64)],
        15 => proptest::sample::select(vec![1.0f64, -1.0, 0.5, 2.0, 0.6, 0.8, core::f64::consts::FRAC_1_SQRT_2]).prop_map(|x| x.to_bits()),
        10 => vcore::lattice::lat_f64(),
    ]
    .boxed()
}

const NW: usize = 48;

/// (iii) over the whole API table: whenever the asserting build does not panic, every observation is bit-identical
fn table_check(plain: RunFn, asserting: RunFn, api: &'static [ApiInfo], ty: &'static str, pair: &'static str) -> impl Fn(&[u64], &mut Tally) -> Result<(), Fail> + Sync {
    move |w: &[u64], t: &mut Tally| {
        for e in api.iter().filter(|e| e.present && e.ty == ty) {
            t.eval(1);
            let a = asserting(e.id, w);
            let p = plain(e.id, w);
            let mk = |m: String| Fail::new(format!("C20/{pair}/{}/{}", e.ty, e.name), e.sig, format!("{m}; call #{} {} :: {}; words {:?}", e.id, e.ty, e.sig, hexwords(&w[..16])));
            match (a, p) {
                (Ok(a), Ok(p)) => {
                    t.nontrivial(mix(hash_str(pair), mix(e.id as u64, fnv(w))));
                    if a.w != p.w || a.k != p.k || a.strs != p.strs {
                        return Err(mk(format!("value differs with assertions enabled: {:?} vs {:?}", hexwords(&a.w), hexwords(&p.w))));
                    }
                    t.class("both-returned");
                }
                (Err(_), Ok(_)) => t.class("assertion-fired"),
                (Err(_), Err(_)) => t.class("both-panicked"),
                (Ok(_), Err(m)) => return Err(mk(format!("only the build without assertions panicked: {m}"))),
            }
        }
        Ok(())
    }
}

fn leak<T>(v: Vec<T>) -> &'static [T] {
    Box::leak(v.into_boxed_slice())
}

struct Pair {
    name: &'static str,
    plain_run: RunFn,
    assert_run: RunFn,
    api: &'static [ApiInfo],
    chains: Vec<(&'static str, ChainFn, ChainFn, InvalidFn, InvalidFn)>,
    active: bool,
}

fn main() {
    let args = Args::parse();
    let args: &'static Args = Box::leak(Box::new(args));
    let mut pairs: Vec<Pair> = vec![];
    #[cfg(not(feature = "core"))]
    {
        pairs.push(Pair {
            name: "simd+glam-assert",
            plain_run: simd::tab::run,
            assert_run: asserting::tab::run,
            api: leak(simd::tab::api()),
            chains: vec![
                ("f32", simd::ch::f32fam::run_chain, asserting::ch::f32fam::run_chain, simd::ch::f32fam::invalid_cases, asserting::ch::f32fam::invalid_cases),
                ("f64", simd::ch::f64fam::run_chain, asserting::ch::f64fam::run_chain, simd::ch::f64fam::invalid_cases, asserting::ch::f64fam::invalid_cases),
            ],
            active: true,
        });
        pairs.push(Pair {
            name: "scalar+glam-assert",
            plain_run: scalar::tab::run,
            assert_run: scalar_asserting::tab::run,
            api: leak(scalar::tab::api()),
            chains: vec![
                ("f32", scalar::ch::f32fam::run_chain, scalar_asserting::ch::f32fam::run_chain, scalar::ch::f32fam::invalid_cases, scalar_asserting::ch::f32fam::invalid_cases),
                ("f64", scalar::ch::f64fam::run_chain, scalar_asserting::ch::f64fam::run_chain, scalar::ch::f64fam::invalid_cases, scalar_asserting::ch::f64fam::invalid_cases),
            ],
            active: true,
        });
        // debug-glam-assert: asserting only when debug assertions are compiled in (the `chk` profile)
        pairs.push(Pair {
            name: "simd+debug-glam-assert",
            plain_run: simd::tab::run,
            assert_run: dbg::tab::run,
            api: leak(simd::tab::api()),
            chains: vec![("f32", simd::ch::f32fam::run_chain, dbg::ch::f32fam::run_chain, simd::ch::f32fam::invalid_cases, dbg::ch::f32fam::invalid_cases)],
            active: cfg!(debug_assertions),
        });
    }
    #[cfg(feature = "core")]
    pairs.push(Pair {
        name: "core+glam-assert",
        plain_run: core_plain::tab::run,
        assert_run: core_asserting::tab::run,
        api: leak(core_plain::tab::api()),
        chains: vec![("f32", core_plain::ch::f32fam::run_chain, core_asserting::ch::f32fam::run_chain, core_plain::ch::f32fam::invalid_cases, core_asserting::ch::f32fam::invalid_cases)],
        active: true,
    });
    let mut subs: Vec<SubCheck> = vec![];
    for p in pairs {
        let (name, active) = (p.name, p.active);
        for (fam, plain, asserting, ip, ia) in p.chains {
            subs.push(SubCheck::new(
                format!("chains/{fam}/{name}"),
                8,
                move |env: &mut Env| {
                    let n = env.cases(60_000, 30);
                    env.prop("chains", n, chain_strategy(), &chain_check(plain, asserting, active, name));
                },
                chain_check(plain, asserting, active, name),
            ));
            subs.push(SubCheck::new(
                format!("invalid/{fam}/{name}"),
                1,
                move |env: &mut Env| {
                    let n = env.cases(2_000, 10);
                    env.prop("invalid", n, proptest::collection::vec(any::<u64>(), 24), &invalid_check(ip, ia, active, name));
                },
                invalid_check(ip, ia, active, name),
            ));
        }
        if name != "simd+debug-glam-assert" || active {
            let mut types: Vec<&'static str> = p.api.iter().filter(|e| e.present).map(|e| e.ty).collect();
            types.sort();
            types.dedup();
            let (pr, ar, api) = (p.plain_run, p.assert_run, p.api);
            for ty in types {
                let w64 = api.iter().find(|e| e.ty == ty && e.present).map(|e| e.width == 64).unwrap_or(false);
                subs.push(SubCheck::new(
                    format!("table/{}/{name}", if ty.is_empty() { "free" } else { ty }),
                    1,
                    move |env: &mut Env| {
                        let n = env.cases(1500, 30);
                        let st = vcore::lattice::with_related_operands(proptest::collection::vec(if w64 { moderate64() } else { moderate() }, NW).boxed(), if w64 { 64 } else { 32 });
                        env.prop("table", n, st, &table_check(pr, ar, api, ty, name));
                    },
                    table_check(pr, ar, api, ty, name),
                ));
            }
        }
    }
    std::process::exit(main_with("C20", "", args, subs));
}
