//! C20 — not implemented yet.
fn main() {
    eprintln!("c20: not implemented");
    std::process::exit(2);
}
