// Typed-pool chain machine, instantiated per glam variant (`glam` aliased by the including module).
// `run_chain(words) -> Result<Vec<u64>, String>`: Err = a panic message (an assertion fired),
// Ok = the bit patterns of every value the chain produced, in order.
#[allow(unused_imports)]
use glam::*;

pub struct Cur<'a> {
    w: &'a [u64],
    pos: usize,
}
impl<'a> Cur<'a> {
    fn next(&mut self) -> u64 {
        let v = self.w[self.pos % self.w.len()];
        self.pos += 1;
        v
    }
    /// uniform-ish value in [lo, hi] with 24 bits
    fn r(&mut self, lo: f64, hi: f64) -> f64 {
        let v = self.next();
        let u = ((v ^ (v >> 29)) & 0xff_ffff) as f64 / 16777215.0;
        lo + (hi - lo) * u
    }
    fn idx(&mut self, n: usize) -> usize {
        let v = self.next();
        ((v ^ (v >> 32)) as usize) % n.max(1)
    }
}

pub const EULER_ALL: [EulerRot; 24] = [
    EulerRot::ZYX, EulerRot::ZXY, EulerRot::YXZ, EulerRot::YZX, EulerRot::XYZ, EulerRot::XZY, EulerRot::ZYZ, EulerRot::ZXZ,
    EulerRot::YXY, EulerRot::YZY, EulerRot::XYX, EulerRot::XZX, EulerRot::ZYXEx, EulerRot::ZXYEx, EulerRot::YXZEx, EulerRot::YZXEx,
    EulerRot::XYZEx, EulerRot::XZYEx, EulerRot::ZYZEx, EulerRot::ZXZEx, EulerRot::YXYEx, EulerRot::YZYEx, EulerRot::XYXEx, EulerRot::XZXEx,
];

pub const N_OPS: usize = 56;
pub const STEP_WORDS: usize = 12;
pub const MAX_STEPS: usize = 12;

macro_rules! family {
    ($m:ident, $F:ident, $V2:ident, $V3:ident, $V4:ident, $Q:ident, $M2:ident, $M3:ident, $M4:ident, $A2:ident, $A3:ident, $f32only:expr) => {
        pub mod $m {
            use super::*;
            type F = $F;

            #[derive(Default)]
            pub struct St {
                pub uv3: Vec<$V3>,
                pub uv2: Vec<$V2>,
                pub uq: Vec<$Q>,
                pub rm3: Vec<$M3>,
                pub m4: Vec<$M4>,
                pub a3: Vec<$A3>,
                pub a2: Vec<$A2>,
                /// rigid transforms (rotation + translation only): the look_at / rotation constructors and their products
                pub rig4: Vec<$M4>,
                pub rig_a3: Vec<$A3>,
                pub obs: Vec<u64>,
                pub produced: usize,
                pub consumer_steps_on_produced: usize,
                pub invalid_pool: Option<String>,
            }
            fn bits(x: F) -> u64 {
                x.to_bits() as u64
            }
            impl St {
                fn o3(&mut self, v: $V3) {
                    for x in v.to_array() {
                        self.obs.push(bits(x));
                    }
                }
                fn o2(&mut self, v: $V2) {
                    for x in v.to_array() {
                        self.obs.push(bits(x));
                    }
                }
                fn oq(&mut self, q: $Q) {
                    for x in q.to_array() {
                        self.obs.push(bits(x));
                    }
                }
                fn of(&mut self, x: F) {
                    self.obs.push(bits(x));
                }
                fn om3(&mut self, m: $M3) {
                    for x in m.to_cols_array() {
                        self.obs.push(bits(x));
                    }
                }
                fn om4(&mut self, m: $M4) {
                    for x in m.to_cols_array() {
                        self.obs.push(bits(x));
                    }
                }
                fn oa3(&mut self, m: $A3) {
                    for x in m.to_cols_array() {
                        self.obs.push(bits(x));
                    }
                }
                fn oa2(&mut self, m: $A2) {
                    for x in m.to_cols_array() {
                        self.obs.push(bits(x));
                    }
                }
                // producers: push to the pool, observe, and check the pool invariant
                pub fn p_uv3(&mut self, what: &str, v: $V3) {
                    self.o3(v);
                    if !v.is_normalized() && self.invalid_pool.is_none() {
                        self.invalid_pool = Some(format!("{what} produced {:?} which does not pass is_normalized (|v|^2 = {:?})", v, v.length_squared()));
                    }
                    self.uv3.push(v);
                    self.produced += 1;
                }
                fn p_uv2(&mut self, what: &str, v: $V2) {
                    self.o2(v);
                    if !v.is_normalized() && self.invalid_pool.is_none() {
                        self.invalid_pool = Some(format!("{what} produced {:?} which does not pass is_normalized", v));
                    }
                    self.uv2.push(v);
                    self.produced += 1;
                }
                pub fn p_uq(&mut self, what: &str, q: $Q) {
                    self.oq(q);
                    if !q.is_normalized() && self.invalid_pool.is_none() {
                        self.invalid_pool = Some(format!("{what} produced {:?} which does not pass is_normalized (|q|^2 = {:?})", q, q.length_squared()));
                    }
                    self.uq.push(q);
                    self.produced += 1;
                }
                /// a quaternion that has to be unit, observed but not pooled
                pub fn c_uq(&mut self, what: &str, q: $Q) {
                    self.oq(q);
                    if !q.is_normalized() && self.invalid_pool.is_none() {
                        self.invalid_pool = Some(format!("{what} produced {:?} which does not pass is_normalized (|q|^2 = {:?})", q, q.length_squared()));
                    }
                }
                pub fn p_rm3(&mut self, what: &str, m: $M3) {
                    self.om3(m);
                    if !(m.x_axis.is_normalized() && m.y_axis.is_normalized() && m.z_axis.is_normalized()) && self.invalid_pool.is_none() {
                        self.invalid_pool = Some(format!("{what} produced a rotation matrix whose axes are not normalized: {:?}", m));
                    }
                    self.rm3.push(m);
                    self.produced += 1;
                }
                /// rigid 4x4: affine last row AND normalised axes (the check of from_mat4 / to_euler)
                fn p_rig4(&mut self, what: &str, m: $M4) {
                    let ok = m.x_axis.truncate().is_normalized() && m.y_axis.truncate().is_normalized() && m.z_axis.truncate().is_normalized();
                    if !ok && self.invalid_pool.is_none() {
                        self.invalid_pool = Some(format!("{what} produced a matrix whose rotation axes are not normalized (|x|^2,|y|^2,|z|^2 = {:?}, {:?}, {:?})", m.x_axis.truncate().length_squared(), m.y_axis.truncate().length_squared(), m.z_axis.truncate().length_squared()));
                    }
                    self.rig4.push(m);
                    self.p_m4(what, m);
                }
                pub fn p_rig_a3(&mut self, what: &str, a: $A3) {
                    self.oa3(a);
                    let m = $M3::from(a.matrix3);
                    if !(m.x_axis.is_normalized() && m.y_axis.is_normalized() && m.z_axis.is_normalized()) && self.invalid_pool.is_none() {
                        self.invalid_pool = Some(format!("{what} produced an affine transform whose rotation axes are not normalized: {:?}", m));
                    }
                    self.rig_a3.push(a);
                    self.a3.push(a);
                    self.produced += 1;
                }
                fn p_m4(&mut self, what: &str, m: $M4) {
                    self.om4(m);
                    if !m.row(3).abs_diff_eq($V4::W, 1e-6) && self.invalid_pool.is_none() {
                        self.invalid_pool = Some(format!("{what} produced a matrix that fails the affine last-row check: row(3) = {:?}", m.row(3)));
                    }
                    self.m4.push(m);
                    self.produced += 1;
                }
            }

            fn seed_v3(c: &mut Cur) -> $V3 {
                // finite, non-degenerate: length in [0.2, ~7]
                let v = $V3::new(c.r(-4.0, 4.0) as F, c.r(-4.0, 4.0) as F, c.r(-4.0, 4.0) as F);
                if v.length_squared() < 0.04 {
                    v + $V3::new(1.0, 0.5, -0.25)
                } else {
                    v
                }
            }
            fn seed_v2(c: &mut Cur) -> $V2 {
                let v = $V2::new(c.r(-4.0, 4.0) as F, c.r(-4.0, 4.0) as F);
                if v.length_squared() < 0.04 {
                    v + $V2::new(1.0, 0.5)
                } else {
                    v
                }
            }
            fn seed_scale(c: &mut Cur) -> $V3 {
                // magnitudes in [0.25, 4], every sign pattern
                let mut s = [0.0 as F; 3];
                for i in 0..3 {
                    let m = (2.0f64).powf(c.r(-2.0, 2.0)) as F;
                    s[i] = if c.idx(2) == 0 { m } else { -m };
                }
                $V3::from_array(s)
            }
            fn angle(c: &mut Cur) -> F {
                match c.idx(8) {
                    0 => 0.0,
                    1 => core::f64::consts::PI as F,
                    2 => (core::f64::consts::FRAC_PI_2) as F,
                    3 => c.r(-1e-3, 1e-3) as F,
                    _ => c.r(-7.0, 7.0) as F,
                }
            }
            fn unit_s(c: &mut Cur) -> F {
                match c.idx(6) {
                    0 => 0.0,
                    1 => 1.0,
                    _ => c.r(0.0, 1.0) as F,
                }
            }
            fn pick<T: Copy>(c: &mut Cur, v: &[T]) -> Option<T> {
                if v.is_empty() {
                    None
                } else {
                    Some(v[c.idx(v.len())])
                }
            }
            /// a unit vector from the pool, or a freshly normalised seed
            fn uv3(c: &mut Cur, s: &mut St) -> ($V3, bool) {
                if c.idx(4) != 0 {
                    if let Some(v) = pick(c, &s.uv3) {
                        return (v, true);
                    }
                }
                (seed_v3(c).normalize(), false)
            }
            fn uq(c: &mut Cur, s: &mut St) -> ($Q, bool) {
                if c.idx(4) != 0 {
                    if let Some(v) = pick(c, &s.uq) {
                        return (v, true);
                    }
                }
                let a = seed_v3(c).normalize();
                ($Q::from_axis_angle(a, angle(c)), false)
            }
            fn m4(c: &mut Cur, s: &mut St) -> ($M4, bool) {
                if c.idx(4) != 0 {
                    if let Some(v) = pick(c, &s.m4) {
                        return (v, true);
                    }
                }
                let (q, _) = uq(c, s);
                ($M4::from_rotation_translation(q, seed_v3(c)), false)
            }

            /// clamp / clamp_length with bounds AT the documented limit (min == max in some lanes, min == 0,
            /// min == max lengths): valid inputs that must not trip an assertion, for every float vector type
            fn boundary_clamps(c: &mut Cur, s: &mut St) {
                macro_rules! one {
                    ($V:ident, $N:expr) => {{
                        let mut v = [0.0 as F; $N];
                        let mut lo = [0.0 as F; $N];
                        let mut hi = [0.0 as F; $N];
                        for i in 0..$N {
                            v[i] = c.r(-4.0, 4.0) as F;
                            lo[i] = c.r(-2.0, 2.0) as F;
                            hi[i] = match c.idx(3) { 0 => lo[i], 1 => lo[i] + (c.r(0.0, 2.0) as F), _ => if lo[i] == 0.0 { 0.0 } else { lo[i].abs() } };
                            if hi[i] < lo[i] { hi[i] = lo[i]; }
                        }
                        let (v, lo, hi) = ($V::from_array(v), $V::from_array(lo), $V::from_array(hi));
                        for x in v.clamp(lo, hi).to_array() { s.obs.push(bits(x)); }
                        for x in v.clamp(lo, lo).to_array() { s.obs.push(bits(x)); }
                        let l = c.r(0.0, 3.0) as F;
                        for x in v.clamp_length(l, l).to_array() { s.obs.push(bits(x)); }
                        for x in v.clamp_length(0.0, l).to_array() { s.obs.push(bits(x)); }
                        for x in v.clamp_length_max(0.0).to_array() { s.obs.push(bits(x)); }
                        for x in v.clamp_length_min(0.0).to_array() { s.obs.push(bits(x)); }
                        let n = v.normalize_or($V::ONE.normalize());
                        if !n.is_normalized() && s.invalid_pool.is_none() { s.invalid_pool = Some(format!("{}::normalize_or produced {:?} which is not normalized", stringify!($V), n)); }
                        for x in v.project_onto_normalized(n).to_array() { s.obs.push(bits(x)); }
                        for x in v.reject_from_normalized(n).to_array() { s.obs.push(bits(x)); }
                    }};
                }
                one!($V2, 2);
                one!($V3, 3);
                one!($V4, 4);
                if $f32only {
                    f32only_clamps(c, &mut s.obs);
                }
            }

            /// one step; returns whether it was a consumer step fed by a produced value
            pub fn step(op: usize, c: &mut Cur, s: &mut St) -> &'static str {
                match op {
                    // ---------------- producers of unit vectors
                    0 => { let v = seed_v3(c); s.p_uv3("Vec3::normalize", v.normalize()); "normalize" }
                    1 => { let v = seed_v3(c) * (2.0f64).powf(c.r(-30.0, 30.0)) as F; if let Some(n) = v.try_normalize() { s.p_uv3("Vec3::try_normalize", n); } "try_normalize" }
                    2 => { let v = seed_v3(c) * (2.0f64).powf(c.r(-20.0, 20.0)) as F; let n = v.normalize_or_zero(); if n != $V3::ZERO { s.p_uv3("Vec3::normalize_or_zero", n); } "normalize_or_zero" }
                    3 => { let (v, fed) = uv3(c, s); let n = v.any_orthonormal_vector(); s.p_uv3("any_orthonormal_vector", n); if fed { s.consumer_steps_on_produced += 1; } "any_orthonormal_vector" }
                    4 => { let (v, fed) = uv3(c, s); let (a, b) = v.any_orthonormal_pair(); s.p_uv3("any_orthonormal_pair.0", a); s.p_uv3("any_orthonormal_pair.1", b); if fed { s.consumer_steps_on_produced += 1; } "any_orthonormal_pair" }
                    5 => { let (q, f1) = uq(c, s); let (v, f2) = uv3(c, s); let r = q.mul_vec3(v); s.p_uv3("Quat::mul_vec3(unit)", r); if f1 || f2 { s.consumer_steps_on_produced += 1; } "mul_vec3" }
                    6 => { let (v, f1) = uv3(c, s); let (n, f2) = uv3(c, s); let r = v.reflect(n); s.p_uv3("reflect(unit, unit)", r); if f1 || f2 { s.consumer_steps_on_produced += 1; } "reflect" }
                    7 => { let v = seed_v2(c); s.p_uv2("Vec2::normalize", v.normalize()); let a = angle(c); s.p_uv2("Vec2::from_angle", $V2::from_angle(a)); "normalize2" }
                    // ---------------- producers of unit quaternions
                    8 => { let (a, fed) = uv3(c, s); let q = $Q::from_axis_angle(a, angle(c)); s.p_uq("Quat::from_axis_angle", q); if fed { s.consumer_steps_on_produced += 1; } "from_axis_angle" }
                    9 => { let o = EULER_ALL[c.idx(24)]; let q = $Q::from_euler(o, angle(c), angle(c), angle(c)); s.p_uq("Quat::from_euler", q); "from_euler" }
                    10 => { let q = match c.idx(3) { 0 => $Q::from_rotation_x(angle(c)), 1 => $Q::from_rotation_y(angle(c)), _ => $Q::from_rotation_z(angle(c)) }; s.p_uq("Quat::from_rotation_xyz", q); "from_rotation_axis" }
                    11 => { let (a, f1) = uq(c, s); let (b, f2) = uq(c, s); s.p_uq("Quat * Quat", a * b); if f1 || f2 { s.consumer_steps_on_produced += 1; } "mul_quat" }
                    12 => { let (a, fed) = uq(c, s); s.p_uq("Quat::inverse", a.inverse()); s.p_uq("Quat::conjugate", a.conjugate()); if fed { s.consumer_steps_on_produced += 1; } "inverse" }
                    13 => { let (a, f1) = uq(c, s); let (b, f2) = uq(c, s); s.p_uq("Quat::lerp", a.lerp(b, unit_s(c))); if f1 || f2 { s.consumer_steps_on_produced += 1; } "lerp" }
                    14 => { let (a, f1) = uq(c, s); let (b, f2) = uq(c, s); s.p_uq("Quat::slerp", a.slerp(b, unit_s(c))); if f1 || f2 { s.consumer_steps_on_produced += 1; } "slerp" }
                    15 => { let (a, f1) = uq(c, s); let (b, f2) = uq(c, s); s.p_uq("Quat::rotate_towards", a.rotate_towards(b, c.r(-4.0, 4.0) as F)); if f1 || f2 { s.consumer_steps_on_produced += 1; } "rotate_towards" }
                    16 => { let (a, f1) = uv3(c, s); let (b, f2) = uv3(c, s); s.p_uq("Quat::from_rotation_arc", $Q::from_rotation_arc(a, b)); s.p_uq("Quat::from_rotation_arc_colinear", $Q::from_rotation_arc_colinear(a, b)); if f1 || f2 { s.consumer_steps_on_produced += 1; } "from_rotation_arc" }
                    17 => { let (a, f1) = uv3(c, s); let q = $Q::from_rotation_arc(a, -a); s.p_uq("Quat::from_rotation_arc(a, -a)", q); let q = $Q::from_rotation_arc(a, a); s.p_uq("Quat::from_rotation_arc(a, a)", q); if f1 { s.consumer_steps_on_produced += 1; } "from_rotation_arc_degenerate" }
                    18 => { if let (Some(a), Some(b)) = (pick(c, &s.uv2), pick(c, &s.uv2)) { let q = $Q::from_rotation_arc_2d(a, b); s.p_uq("Quat::from_rotation_arc_2d", q); s.consumer_steps_on_produced += 1; } "from_rotation_arc_2d" }
                    19 => { if let Some(m) = pick(c, &s.rm3) { s.p_uq("Quat::from_mat3", $Q::from_mat3(&m)); s.consumer_steps_on_produced += 1; } "from_mat3" }
                    20 => { let (q, fed) = uq(c, s); let m = $M4::from_rotation_translation(q, seed_v3(c)); s.p_uq("Quat::from_mat4", $Q::from_mat4(&m)); if fed { s.consumer_steps_on_produced += 1; } "from_mat4" }
                    21 => { let (a, fed) = uq(c, s); s.p_uq("Quat::normalize", a.normalize()); let v = seed_v3(c) * (c.r(0.0, 3.0) as F); s.p_uq("Quat::from_scaled_axis", $Q::from_scaled_axis(v)); if fed { s.consumer_steps_on_produced += 1; } "normalize_q" }
                    22 => { let (d, f1) = uv3(c, s); let up0 = seed_v3(c); let up = (up0 - d * up0.dot(d) * (c.r(0.0, 0.9) as F)).normalize(); if d.cross(up).length_squared() > 1e-4 { s.p_uq("Quat::look_to_rh", $Q::look_to_rh(d, up)); s.p_uq("Quat::look_to_lh", $Q::look_to_lh(d, up)); if f1 { s.consumer_steps_on_produced += 1; } } "look_to_q" }
                    // ---------------- rotation / affine matrices
                    23 => { let (q, fed) = uq(c, s); s.p_rm3("Mat3::from_quat", $M3::from_quat(q)); if fed { s.consumer_steps_on_produced += 1; } "Mat3::from_quat" }
                    24 => { let (a, fed) = uv3(c, s); s.p_rm3("Mat3::from_axis_angle", $M3::from_axis_angle(a, angle(c))); if fed { s.consumer_steps_on_produced += 1; } "Mat3::from_axis_angle" }
                    25 => { let o = EULER_ALL[c.idx(24)]; s.p_rm3("Mat3::from_euler", $M3::from_euler(o, angle(c), angle(c), angle(c))); "Mat3::from_euler" }
                    26 => { if let (Some(a), Some(b)) = (pick(c, &s.rm3), pick(c, &s.rm3)) { s.p_rm3("Mat3 * Mat3 (rotations)", a * b); s.p_rm3("Mat3::transpose (rotation)", a.transpose()); s.consumer_steps_on_produced += 1; } "Mat3 mul" }
                    27 => { let (q, fed) = uq(c, s); let m = $M4::from_scale_rotation_translation(seed_scale(c), q, seed_v3(c) * 10.0); s.p_m4("Mat4::from_scale_rotation_translation", m); if fed { s.consumer_steps_on_produced += 1; } "Mat4::from_srt" }
                    28 => { let (q, fed) = uq(c, s); s.p_rig4("Mat4::from_rotation_translation", $M4::from_rotation_translation(q, seed_v3(c) * 10.0)); s.p_rig4("Mat4::from_quat", $M4::from_quat(q)); if fed { s.consumer_steps_on_produced += 1; } "Mat4::from_rt" }
                    29 => { let (d, fed) = uv3(c, s); let up0 = seed_v3(c); let up = (up0 - d * up0.dot(d) * (c.r(0.0, 0.9) as F)).normalize(); if d.cross(up).length_squared() > 1e-4 { let eye = seed_v3(c) * 10.0; s.p_rig4("Mat4::look_to_rh", $M4::look_to_rh(eye, d, up)); s.p_rig4("Mat4::look_to_lh", $M4::look_to_lh(eye, d, up)); s.p_rig4("Mat4::look_at_rh", $M4::look_at_rh(eye, eye + d * 3.0, up)); s.p_rig4("Mat4::look_at_lh", $M4::look_at_lh(eye, eye + d * 0.5, up)); s.p_rig_a3("Affine3::look_to_rh", $A3::look_to_rh(eye, d, up)); s.p_rig_a3("Affine3::look_to_lh", $A3::look_to_lh(eye, d, up)); s.p_rig_a3("Affine3::look_at_rh", $A3::look_at_rh(eye, eye + d * 2.0, up)); s.p_rig_a3("Affine3::look_at_lh", $A3::look_at_lh(eye, eye + d * 2.0, up)); s.p_rm3("Mat3::look_to_rh", $M3::look_to_rh(d, up)); s.p_rm3("Mat3::look_to_lh", $M3::look_to_lh(d, up)); s.p_rm3("Mat3::look_at_rh", $M3::look_at_rh(eye, eye + d * 2.0, up)); if fed { s.consumer_steps_on_produced += 1; } } "look_to" }
                    30 => { let (a, f1) = m4(c, s); let (b, f2) = m4(c, s); s.p_m4("Mat4 * Mat4 (affine)", a * b); if f1 || f2 { s.consumer_steps_on_produced += 1; } "Mat4 mul" }
                    31 => { let (a, fed) = uv3(c, s); s.p_rig4("Mat4::from_axis_angle", $M4::from_axis_angle(a, angle(c))); let o = EULER_ALL[c.idx(24)]; s.p_rig4("Mat4::from_euler", $M4::from_euler(o, angle(c), angle(c), angle(c))); s.p_rig4("Mat4::from_rotation_x", $M4::from_rotation_x(angle(c))); s.p_rig4("Mat4::from_rotation_y", $M4::from_rotation_y(angle(c))); s.p_rig4("Mat4::from_rotation_z", $M4::from_rotation_z(angle(c))); s.p_m4("Mat4::from_translation", $M4::from_translation(seed_v3(c))); s.p_m4("Mat4::from_scale", $M4::from_scale(seed_scale(c))); if fed { s.consumer_steps_on_produced += 1; } "Mat4 ctors" }
                    32 => { let (q, fed) = uq(c, s); let a = $A3::from_scale_rotation_translation(seed_scale(c), q, seed_v3(c) * 10.0); s.oa3(a); s.a3.push(a); let b = $A3::from_rotation_translation(q, seed_v3(c)); s.p_rig_a3("Affine3::from_rotation_translation", b); s.p_rig_a3("Affine3::from_quat", $A3::from_quat(q)); let m = $M4::from(a); s.p_m4("Mat4::from(Affine3A)", m); if fed { s.consumer_steps_on_produced += 1; } "Affine3 ctors" }
                    // ---------------- consumers
                    33 => { let (n, f1) = uv3(c, s); let v = seed_v3(c); s.o3(v.project_onto_normalized(n)); s.o3(v.reject_from_normalized(n)); s.o3(v.reflect(n)); s.o3(v.project_onto(seed_v3(c))); if f1 { s.consumer_steps_on_produced += 1; } "project/reflect" }
                    34 => { let (i, f1) = uv3(c, s); let (n, f2) = uv3(c, s); s.o3(i.refract(n, c.r(0.2, 5.0) as F)); s.of(i.angle_between(n)); if f1 || f2 { s.consumer_steps_on_produced += 1; } "refract" }
                    35 => { let (q, f1) = uq(c, s); let (p, f2) = uq(c, s); s.of(q.angle_between(p)); let (ax, an) = q.to_axis_angle(); s.o3(ax); s.of(an); s.o3(q.to_scaled_axis()); let e = q.to_euler(EULER_ALL[c.idx(24)]); s.of(e.0); s.of(e.1); s.of(e.2); s.o3(q * seed_v3(c)); if f1 || f2 { s.consumer_steps_on_produced += 1; } "quat consumers" }
                    36 => { if let Some(m) = pick(c, &s.rm3) { let e = m.to_euler(EULER_ALL[c.idx(24)]); s.of(e.0); s.of(e.1); s.of(e.2); s.om3(m.inverse()); s.o3(m * seed_v3(c)); s.consumer_steps_on_produced += 1; } "Mat3 consumers" }
                    37 => { let (m, fed) = m4(c, s); let v = seed_v3(c); s.o3(m.transform_point3(v)); s.o3(m.transform_vector3(v)); s.o3(m.project_point3(v)); if fed { s.consumer_steps_on_produced += 1; } "Mat4 transform" }
                    38 => { let (m, fed) = m4(c, s); let (sc, r, t) = m.to_scale_rotation_translation(); s.o3(sc); s.oq(r); s.o3(t); /* the pool may hold sheared products: r is observed but never pooled (shear-free inputs: ops 48, 49) */ if fed { s.consumer_steps_on_produced += 1; } "Mat4::to_srt" }
                    39 => { let (m, fed) = m4(c, s); let inv = m.inverse(); s.om4(inv); /* the inverse of an affine matrix is an affine matrix: it is handed to the affine-only transforms whenever its computed last row is (0,0,0,1) to rounding (5e-7, half of what transform_point3 accepts; cofactor / determinant is off by an ulp or two, more only for ill-conditioned products, which stay out) */ { let r = inv.row(3); if r.x.abs() <= 5e-7 && r.y.abs() <= 5e-7 && r.z.abs() <= 5e-7 && (r.w - 1.0).abs() <= 5e-7 && inv.is_finite() { let v = seed_v3(c); s.o3(inv.transform_point3(v)); s.o3(inv.transform_vector3(v)); } } /* the same for sixteen fresh TRS matrices (the last-row entry is off by more than an ulp only for about one matrix in ten thousand) */ for _ in 0..16 { let (q, _) = uq(c, s); let k = (2.0f64).powf(c.r(-3.0, 3.0)) as F; let m = $M4::from_scale_rotation_translation(seed_scale(c) * k, q, seed_v3(c) * 10.0); let inv = m.inverse(); let r = inv.row(3); if r.x.abs() <= 5e-7 && r.y.abs() <= 5e-7 && r.z.abs() <= 5e-7 && (r.w - 1.0).abs() <= 5e-7 && inv.is_finite() { let v = seed_v3(c); s.o3(inv.transform_point3(v)); s.o3(inv.transform_vector3(v)); } } if fed { s.consumer_steps_on_produced += 1; } "Mat4::inverse" }
                    40 => { if let Some(a) = pick(c, &s.a3) { let v = seed_v3(c); s.o3(a.transform_point3(v)); s.o3(a.transform_vector3(v)); let (sc, r, t) = a.to_scale_rotation_translation(); s.o3(sc); s.oq(r); s.o3(t); s.oa3(a.inverse()); if let Some(b) = pick(c, &s.a3) { let p = a * b; s.oa3(p); s.a3.push(p); } s.consumer_steps_on_produced += 1; } "Affine3 consumers" }
                    41 => { let v = seed_v3(c); let lo = seed_v3(c); let hi = lo + $V3::new(c.r(0.0, 3.0) as F, c.r(0.0, 3.0) as F, c.r(0.0, 3.0) as F); s.o3(v.clamp(lo, hi)); let mn = c.r(0.0, 2.0) as F; let mx = mn + c.r(0.0, 2.0) as F; s.o3(v.clamp_length(mn, mx)); s.o3(v.clamp_length_max(mx)); s.o3(v.clamp_length_min(mn)); s.o3(v.clamp_length(0.0, 0.0)); "clamp" }
                    42 => { let a = $A2::from_scale_angle_translation(seed_v2(c), angle(c), seed_v2(c)); s.oa2(a); s.a2.push(a); let (sc, an, t) = a.to_scale_angle_translation(); s.o2(sc); s.of(an); s.o2(t); s.oa2(a.inverse()); s.o2(a.transform_point2(seed_v2(c))); let m = $M3::from_scale_angle_translation(seed_v2(c), angle(c), seed_v2(c)); s.o2(m.transform_point2(seed_v2(c))); s.o2(m.transform_vector2(seed_v2(c))); "2d" }
                    43 => { if let Some(q) = pick(c, &s.uq) { for _ in 0..8 { if let Some(p) = pick(c, &s.uq) { let r = q * p; s.p_uq("long product of unit quaternions", r); } } s.consumer_steps_on_produced += 1; } "long product" }
                    44 => { if let Some(m) = pick(c, &s.rig4) { s.p_uq("Quat::from_mat4(rigid)", $Q::from_mat4(&m)); let e = m.to_euler(EULER_ALL[c.idx(24)]); s.of(e.0); s.of(e.1); s.of(e.2); let m3 = $M3::from_mat4(m); s.p_rm3("Mat3::from_mat4(rigid)", m3); s.p_uq("Quat::from_mat3(Mat3::from_mat4(rigid))", $Q::from_mat3(&m3)); let v = seed_v3(c); s.o3(m.transform_point3(v)); s.o3(m.transform_vector3(v)); s.consumer_steps_on_produced += 1; } "rigid Mat4 consumers" }
                    45 => { if let Some(a) = pick(c, &s.rig_a3) { s.p_uq("Quat::from_affine3(rigid)", $Q::from_affine3(&a)); let m = $M4::from(a); s.p_rig4("Mat4::from(rigid Affine3)", m); let (sc, r, t) = a.to_scale_rotation_translation(); s.o3(sc); s.p_uq("Affine3::to_scale_rotation_translation(rigid).rotation", r); s.o3(t); s.consumer_steps_on_produced += 1; } "rigid Affine3 consumers" }
                    46 => { if let (Some(a), Some(b)) = (pick(c, &s.rig4), pick(c, &s.rig4)) { s.p_rig4("Mat4 * Mat4 (rigid)", a * b); s.consumer_steps_on_produced += 1; } if let (Some(a), Some(b)) = (pick(c, &s.rig_a3), pick(c, &s.rig_a3)) { s.p_rig_a3("Affine3 * Affine3 (rigid)", a * b); } "rigid products" }
                    47 => { boundary_clamps(c, s); "clamp at the precondition boundary (all vector types)" }
                    48 => { if let Some(m) = pick(c, &s.rig4) { let (sc, r, t) = m.to_scale_rotation_translation(); s.o3(sc); s.p_uq("Mat4::to_scale_rotation_translation(rigid).rotation", r); s.o3(t); s.consumer_steps_on_produced += 1; } "rigid to_srt" }
                    49 => { let (q, fed) = uq(c, s); let sc = seed_scale(c); let t = seed_v3(c) * 10.0; let m = $M4::from_scale_rotation_translation(sc, q, t); let (s2, r2, t2) = m.to_scale_rotation_translation(); s.o3(s2); s.p_uq("to_scale_rotation_translation(TRS).rotation", r2); s.o3(t2); let a = $A3::from_scale_rotation_translation(sc, q, t); let (s3, r3, t3) = a.to_scale_rotation_translation(); s.o3(s3); s.p_uq("Affine3::to_scale_rotation_translation(TRS).rotation", r3); s.o3(t3); /* the same with scales of 2^-10 .. 2^10: the documented precondition is a non-zero determinant, however small */ let k = (2.0f64).powf(c.r(-10.0, 10.0)) as F; let a = $A3::from_scale_rotation_translation(sc * k, q, t); let (s4, r4, t4) = a.to_scale_rotation_translation(); s.o3(s4); s.p_uq("Affine3::to_scale_rotation_translation(TRS, scale 2^-10..2^10).rotation", r4); s.o3(t4); let m = $M4::from_scale_rotation_translation(sc * k, q, t); let (s5, r5, t5) = m.to_scale_rotation_translation(); s.o3(s5); s.p_uq("Mat4::to_scale_rotation_translation(TRS, scale 2^-10..2^10).rotation", r5); s.o3(t5); if fed { s.consumer_steps_on_produced += 1; } "TRS decompose" }
                    50 => { if $f32only { f32only_step(c, s); } "f32-only (Vec3A / Mat3A / Affine3A)" }
                    51 => {
                        // inverses of well-conditioned matrices of either orientation (reflections, mirrored scales, small determinants):
                        // the only documented precondition is det != 0
                        let (q, fed) = uq(c, s);
                        let sc = seed_scale(c);
                        let k = (2.0f64).powf(c.r(-6.0, 6.0)) as F;
                        let m3 = $M3::from_quat(q) * $M3::from_diagonal(sc * k);
                        s.om3(m3.inverse());
                        s.of(m3.determinant());
                        s.om3($M3::from_diagonal(sc).inverse());
                        let m2 = $M2::from_scale_angle($V2::new(sc.x, sc.y) * k, angle(c));
                        for x in m2.inverse().to_cols_array() { s.obs.push(bits(x)); }
                        let a2 = $A2::from_scale_angle_translation($V2::new(sc.y, sc.z), angle(c), seed_v2(c));
                        s.oa2(a2.inverse());
                        let m4_ = $M4::from_scale_rotation_translation(sc * k, q, seed_v3(c));
                        s.om4(m4_.inverse());
                        let a3_ = $A3::from_scale_rotation_translation(sc * k, q, seed_v3(c));
                        s.oa3(a3_.inverse());
                        if $f32only { f32only_inverse(c, &mut s.obs); }
                        if fed { s.consumer_steps_on_produced += 1; }
                        "inverse of mirrored / scaled matrices"
                    }
                    53 => {
                        // steering between related operands: the target is the start itself, its opposite, or a multiple of either
                        // (the degenerate branches of rotate_towards pick their own rotation axis and hand it to from_axis_angle)
                        let (a, f1) = uv3(c, s);
                        let k = (2.0f64).powf(c.r(-3.0, 3.0)) as F;
                        let b = match c.idx(6) { 0 => a, 1 => -a, 2 => a * k, 3 => -a * k, 4 => (a * k).normalize(), _ => uv3(c, s).0 };
                        let ang = if c.idx(4) == 0 { 0.0 } else { c.r(-4.0, 4.0) as F };
                        s.p_uv3("Vec3::rotate_towards(unit, related target)", a.rotate_towards(b, ang));
                        s.o3((a * k).rotate_towards(b, ang));
                        s.o3(a.move_towards(b, c.r(0.0, 3.0) as F));
                        if let Some(a2) = pick(c, &s.uv2) {
                            let b2 = match c.idx(5) { 0 => a2, 1 => -a2, 2 => a2 * k, 3 => -a2 * k, _ => pick(c, &s.uv2).unwrap_or(a2) };
                            s.p_uv2("Vec2::rotate_towards(unit, related target)", a2.rotate_towards(b2, ang));
                        }
                        if $f32only { f32only_steer(c, s); }
                        if f1 { s.consumer_steps_on_produced += 1; }
                        "vector steering with related operands"
                    }
                    54 => {
                        // the remaining rotation constructors of the 3x3 and affine types
                        let (ax, fed) = uv3(c, s);
                        let an = angle(c);
                        s.p_rig_a3("Affine3::from_axis_angle", $A3::from_axis_angle(ax, an));
                        s.p_rig_a3("Affine3::from_rotation_x", $A3::from_rotation_x(an));
                        s.p_rig_a3("Affine3::from_rotation_y", $A3::from_rotation_y(angle(c)));
                        s.p_rig_a3("Affine3::from_rotation_z", $A3::from_rotation_z(angle(c)));
                        s.p_rm3("Mat3::from_rotation_x", $M3::from_rotation_x(angle(c)));
                        s.p_rm3("Mat3::from_rotation_y", $M3::from_rotation_y(angle(c)));
                        s.p_rm3("Mat3::from_rotation_z", $M3::from_rotation_z(angle(c)));
                        if let Some(m) = pick(c, &s.rm3) { s.p_rig_a3("Affine3::from_mat3(rotation)", $A3::from_mat3(m)); s.p_rig4("Mat4::from_mat3(rotation)", $M4::from_mat3(m)); }
                        if $f32only { f32only_rot_ctors(c, s); }
                        // scale constructors: the documented violation is an all-zero scale; one or two zero components are valid
                        {
                            let sc = seed_scale(c);
                            let z3 = match c.idx(6) { 0 => $V3::new(0.0, sc.y, sc.z), 1 => $V3::new(sc.x, 0.0, sc.z), 2 => $V3::new(sc.x, sc.y, -0.0), 3 => $V3::new(0.0, 0.0, sc.z), 4 => $V3::new(sc.x, 0.0, 0.0), _ => sc };
                            let z2 = match c.idx(3) { 0 => $V2::new(0.0, sc.y), 1 => $V2::new(sc.x, -0.0), _ => $V2::new(sc.x, sc.y) };
                            s.om4($M4::from_scale(z3));
                            s.om3($M3::from_scale(z2));
                            s.om3($M3::from_diagonal(z3));
                            s.oa3($A3::from_scale(z3));
                            s.oa2($A2::from_scale(z2));
                        }
                        if fed { s.consumer_steps_on_produced += 1; }
                        "rotation constructors (3x3 / affine)"
                    }
                    55 => {
                        // (a) the same rotation stored with the opposite sign is a valid second operand of every interpolation;
                        // (b) a quaternion that is unit by `is_normalized` (2e-4 on |q|^2) but not to rounding - a literal with
                        // four decimals, a long product - is a valid argument of every consumer of unit quaternions
                        let (q, fed) = uq(c, s);
                        s.p_uq("Quat::slerp(q, -q, 0.5)", q.slerp(-q, 0.5));
                        s.p_uq("Quat::slerp(q, -q, s)", q.slerp(-q, unit_s(c)));
                        s.p_uq("Quat::lerp(q, -q, 0.5)", q.lerp(-q, 0.5));
                        s.p_uq("Quat::rotate_towards(q, -q, a)", q.rotate_towards(-q, c.r(0.0, 4.0) as F));
                        let mag = 1e-6 * (90.0f64).powf(c.r(0.0, 1.0));
                        let k = (1.0 + if c.idx(2) == 0 { mag } else { -mag }) as F;
                        let qn = q * k;
                        if qn.is_normalized() {
                            let v = seed_v3(c);
                            s.o3(qn * v);
                            s.o3(qn.mul_vec3(v));
                            s.oq(qn.inverse());
                            let (ax, an) = qn.to_axis_angle();
                            s.o3(ax);
                            s.of(an);
                            s.o3(qn.to_scaled_axis());
                            let e = qn.to_euler(EULER_ALL[c.idx(24)]);
                            s.of(e.0);
                            s.of(e.1);
                            s.of(e.2);
                            s.om3($M3::from_quat(qn));
                            s.om4($M4::from_quat(qn));
                            s.om4($M4::from_rotation_translation(qn, v));
                            s.om4($M4::from_scale_rotation_translation(seed_scale(c), qn, v));
                            s.oa3($A3::from_quat(qn));
                            s.oa3($A3::from_rotation_translation(qn, v));
                            let (p, _) = uq(c, s);
                            s.of(qn.angle_between(p));
                            s.oq(qn.slerp(p, unit_s(c)));
                            s.oq(qn.lerp(p, unit_s(c)));
                            s.oq(qn * p);
                        }
                        // (c) directions that are unit by `is_normalized` but not to rounding are valid arguments of the arc
                        // constructors; away from the (anti)parallel special cases the result has to be a unit quaternion
                        {
                            let (a, _) = uv3(c, s);
                            let (b0, _) = uv3(c, s);
                            let b = if c.idx(2) == 0 { b0 } else { (-a + seed_v3(c) * (c.r(0.02, 0.3) as F)).normalize() };
                            let m1 = 1e-6 * (90.0f64).powf(c.r(0.0, 1.0));
                            let m2 = 1e-6 * (90.0f64).powf(c.r(0.0, 1.0));
                            let an = a * (1.0 + if c.idx(2) == 0 { m1 } else { -m1 }) as F;
                            let bn = b * (1.0 + if c.idx(2) == 0 { m2 } else { -m2 }) as F;
                            if an.is_normalized() && bn.is_normalized() && b.is_finite() {
                                let d = an.dot(bn);
                                let general = d.abs() < 0.99;
                                let q1 = $Q::from_rotation_arc(an, bn);
                                let q2 = $Q::from_rotation_arc_colinear(an, bn);
                                if general {
                                    s.c_uq("Quat::from_rotation_arc(directions unit within the documented tolerance)", q1);
                                    s.c_uq("Quat::from_rotation_arc_colinear(directions unit within the documented tolerance)", q2);
                                } else {
                                    s.oq(q1);
                                    s.oq(q2);
                                }
                                let v = seed_v3(c);
                                s.oq($Q::from_axis_angle(an, angle(c)));
                                s.o3(v.project_onto_normalized(an));
                                s.o3(v.reject_from_normalized(an));
                                s.o3(v.reflect(an));
                            }
                        }
                        // (d) a unit quaternion whose vector part is tiny (down to the subnormal range, where |v|^2 underflows):
                        // the axis that to_axis_angle returns is a direction for from_axis_angle and the other consumers
                        {
                            let lim = if core::mem::size_of::<F>() == 4 { 149.0 } else { 1074.0 };
                            let e = (2.0f64).powf(-c.r(20.0, lim)) as F;
                            let d = seed_v3(c).normalize();
                            let qt = $Q::from_xyzw(d.x * e, d.y * e, d.z * e, 1.0);
                            if qt.is_normalized() && d.is_finite() {
                                let (ax, an) = qt.to_axis_angle();
                                s.p_uv3("Quat::to_axis_angle(unit quaternion with a tiny vector part).0", ax);
                                s.of(an);
                                s.o3(qt.to_scaled_axis());
                                s.oq($Q::from_axis_angle(ax, an));
                            }
                        }
                        if fed { s.consumer_steps_on_produced += 1; }
                        "negated end points; nearly-unit quaternions and directions; tiny rotations"
                    }
                    _ => { let (q, fed) = uq(c, s); if let Some(a) = pick(c, &s.a3) { let _ = a; } let m = $M3::from_quat(q); s.oq($Q::from_mat3(&m)); let m4_ = $M4::from_quat(q); s.oq($Q::from_mat4(&m4_)); if fed { s.consumer_steps_on_produced += 1; } "quat<->mat round trip" }
                }
            }

            /// documented precondition violations, each with a clear margin: (name, panicked?)
            pub fn invalid_cases(w: &[u64]) -> Vec<(&'static str, bool)> {
                let mut c = Cur { w, pos: 0 };
                let u = seed_v3(&mut c).normalize();
                let k = if c.idx(2) == 0 { c.r(1.06, 3.0) } else { c.r(0.2, 0.94) } as F;
                let bad = u * k; // length off by >= 6 %
                let u2 = seed_v2(&mut c).normalize();
                let bad2 = u2 * k;
                let q = $Q::from_axis_angle(u, angle(&mut c));
                let badq = q * k;
                let v = seed_v3(&mut c);
                let a = angle(&mut c);
                let mut out: Vec<(&'static str, bool)> = vec![];
                macro_rules! t {
                    ($n:expr, $e:expr) => {
                        out.push(($n, vcore::catch(|| { let _ = $e; }).is_err()));
                    };
                }
                t!("Quat::from_axis_angle(non-unit axis)", $Q::from_axis_angle(bad, a));
                t!("Mat3::from_axis_angle(non-unit axis)", $M3::from_axis_angle(bad, a));
                t!("Mat4::from_axis_angle(non-unit axis)", $M4::from_axis_angle(bad, a));
                t!("Vec3::project_onto_normalized(non-unit)", v.project_onto_normalized(bad));
                t!("Vec3::reject_from_normalized(non-unit)", v.reject_from_normalized(bad));
                t!("Vec3::reflect(non-unit normal)", v.reflect(bad));
                t!("Vec3::refract(non-unit self)", bad.refract(u, 1.3));
                t!("Vec3::refract(non-unit normal)", u.refract(bad, 1.3));
                t!("Vec3::any_orthonormal_vector(non-unit)", bad.any_orthonormal_vector());
                t!("Vec3::any_orthonormal_pair(non-unit)", bad.any_orthonormal_pair());
                t!("Vec2::project_onto_normalized(non-unit)", u2.project_onto_normalized(bad2));
                t!("Vec2::reflect(non-unit normal)", u2.reflect(bad2));
                t!("Quat::from_rotation_arc(non-unit from)", $Q::from_rotation_arc(bad, u));
                t!("Quat::from_rotation_arc(non-unit to)", $Q::from_rotation_arc(u, bad));
                t!("Quat::from_rotation_arc_colinear(non-unit)", $Q::from_rotation_arc_colinear(bad, u));
                t!("Quat::from_rotation_arc_2d(non-unit)", $Q::from_rotation_arc_2d(bad2, u2));
                t!("Quat::look_to_rh(non-unit dir)", $Q::look_to_rh(bad, u.any_orthonormal_vector()));
                t!("Mat4::look_to_rh(non-unit up)", $M4::look_to_rh(v, u, u.any_orthonormal_vector() * k));
                t!("Quat::inverse(non-unit)", badq.inverse());
                t!("Quat::lerp(non-unit)", badq.lerp(q, 0.5));
                t!("Quat::slerp(non-unit end)", q.slerp(badq, 0.5));
                t!("Quat::rotate_towards(non-unit)", badq.rotate_towards(q, 0.1));
                t!("Quat::angle_between(non-unit)", q.angle_between(badq));
                t!("Quat::mul_vec3(non-unit)", badq.mul_vec3(v));
                t!("Mat3::from_quat(non-unit)", $M3::from_quat(badq));
                t!("Mat4::from_quat(non-unit)", $M4::from_quat(badq));
                t!("Mat4::from_rotation_translation(non-unit)", $M4::from_rotation_translation(badq, v));
                t!("Quat::from_mat3(scaled axes)", $Q::from_mat3(&($M3::from_quat(q) * k)));
                t!("Mat3::to_euler(scaled axes)", ($M3::from_quat(q) * k).to_euler(EulerRot::XYZ));
                // exactly one axis violates the normalised-axis precondition (each axis in turn)
                {
                    let r3 = $M3::from_quat(q);
                    let mx = $M3::from_cols(r3.x_axis * k, r3.y_axis, r3.z_axis);
                    let my = $M3::from_cols(r3.x_axis, r3.y_axis * k, r3.z_axis);
                    let mz = $M3::from_cols(r3.x_axis, r3.y_axis, r3.z_axis * k);
                    t!("Mat3::to_euler(x axis not unit)", mx.to_euler(EulerRot::ZYX));
                    t!("Mat3::to_euler(y axis not unit)", my.to_euler(EulerRot::ZYX));
                    t!("Mat3::to_euler(z axis not unit)", mz.to_euler(EulerRot::ZYX));
                    t!("Quat::from_mat3(x axis not unit)", $Q::from_mat3(&mx));
                    t!("Quat::from_mat3(y axis not unit)", $Q::from_mat3(&my));
                    t!("Quat::from_mat3(z axis not unit)", $Q::from_mat3(&mz));
                    let m4 = |m: $M3| $M4::from_mat3(m);
                    t!("Mat4::to_euler(x axis not unit)", m4(mx).to_euler(EulerRot::XYZ));
                    t!("Mat4::to_euler(y axis not unit)", m4(my).to_euler(EulerRot::XYZ));
                    t!("Mat4::to_euler(z axis not unit)", m4(mz).to_euler(EulerRot::XYZ));
                    t!("Quat::from_mat4(x axis not unit)", $Q::from_mat4(&m4(mx)));
                    t!("Quat::from_mat4(y axis not unit)", $Q::from_mat4(&m4(my)));
                    t!("Quat::from_mat4(z axis not unit)", $Q::from_mat4(&m4(mz)));
                    let a3 = |m: $M3| $A3::from_mat3(m);
                    t!("Quat::from_affine3(x axis not unit)", $Q::from_affine3(&a3(mx)));
                    t!("Quat::from_affine3(y axis not unit)", $Q::from_affine3(&a3(my)));
                    t!("Quat::from_affine3(z axis not unit)", $Q::from_affine3(&a3(mz)));
                    if $f32only {
                        out.extend(f32only_invalid(q.to_array().map(|x| x as f32), k as f32));
                    }
                }
                t!("Mat4::to_scale_rotation_translation(zero scale)", $M4::from_scale_rotation_translation($V3::new(0.0, 1.0, 2.0), q, v).to_scale_rotation_translation());
                t!("Mat4::inverse(singular)", $M4::from_scale_rotation_translation($V3::new(0.0, 1.0, 2.0), q, v).inverse());
                t!("Mat3::inverse(singular)", $M3::from_cols(u, u, v).inverse());
                t!("Mat4::transform_point3(non-affine)", $M4::perspective_rh(1.0, 1.5, 0.1, 100.0).transform_point3(v));
                t!("Mat4::transform_vector3(non-affine)", $M4::perspective_rh(1.0, 1.5, 0.1, 100.0).transform_vector3(v));
                t!("Mat4::from_scale(zero)", $M4::from_scale($V3::ZERO));

                // the clamp family of every float vector type of the family, every documented way to violate its bounds
                // (generated magnitudes): negative min with a positive / zero / negative max, min > max, one lane of clamp
                {
                    let neg = -(c.r(0.01, 3.0) as F);
                    let neg2 = neg - c.r(0.01, 3.0) as F;
                    let pos = c.r(0.01, 3.0) as F;
                    let pos2 = pos + c.r(0.01, 3.0) as F;
                    macro_rules! clampfam {
                        ($tn:literal, $V:ty, $n:expr, $val:expr) => {{
                            let x: $V = $val;
                            t!(concat!($tn, "::clamp_length(negative min, positive max)"), x.clamp_length(neg, pos));
                            t!(concat!($tn, "::clamp_length(negative min, zero max)"), x.clamp_length(neg, 0.0));
                            t!(concat!($tn, "::clamp_length(both negative, min < max)"), x.clamp_length(neg2, neg));
                            t!(concat!($tn, "::clamp_length(min > max, both positive)"), x.clamp_length(pos2, pos));
                            t!(concat!($tn, "::clamp_length_max(negative)"), x.clamp_length_max(neg));
                            t!(concat!($tn, "::clamp_length_min(negative)"), x.clamp_length_min(neg));
                            for lane in 0..$n {
                                let lo = <$V>::splat(neg);
                                let mut hi = <$V>::splat(pos);
                                hi[lane] = neg2;
                                t!(concat!($tn, "::clamp(min > max in one lane)"), x.clamp(lo, hi));
                            }
                        }};
                    }
                    clampfam!("Vec2", $V2, 2, seed_v2(&mut c));
                    clampfam!("Vec3", $V3, 3, v);
                    clampfam!("Vec4", $V4, 4, <$V4>::new(v.x, v.y, v.z, pos));
                    if $f32only {
                        out.extend(f32only_clamp(v.to_array().map(|x| x as f32), [neg as f32, neg2 as f32, pos as f32, pos2 as f32]));
                    }
                }
                t!("Vec3::clamp(min > max)", v.clamp($V3::splat(1.0), $V3::splat(-1.0)));
                t!("Vec3::clamp_length(negative min)", v.clamp_length(-1.0, 2.0));
                t!("Vec3::clamp_length(min > max)", v.clamp_length(2.0, 1.0));
                t!("Vec3::clamp_length_max(negative)", v.clamp_length_max(-1.0));
                t!("Vec3::clamp_length_min(negative)", v.clamp_length_min(-1.0));
                t!("Vec3::project_onto(zero)", v.project_onto($V3::ZERO));
                t!("Vec3::normalize(zero)", $V3::ZERO.normalize());
                t!("Affine3::inverse(singular)", $A3::from_scale_rotation_translation($V3::new(1.0, 0.0, 2.0), q, v).inverse());
                t!("Affine2::inverse(singular)", $A2::from_scale_angle_translation($V2::new(0.0, 1.0), a, u2).inverse());
                out
            }

            /// words: nsteps, then per step STEP_WORDS words (op selector first)
            pub fn run_chain(w: &[u64]) -> Result<(Vec<u64>, usize, usize, Option<String>, Vec<&'static str>), String> {
                vcore::catch(|| {
                    let nsteps = (w[0] as usize).min(MAX_STEPS);
                    let mut s = St::default();
                    let mut trace = vec![];
                    for st in 0..nsteps {
                        let base = 1 + st * STEP_WORDS;
                        let mut c = Cur { w: &w[base + 1..base + STEP_WORDS], pos: 0 };
                        let op = ((w[base] as u128 * N_OPS as u128) >> 16).min(N_OPS as u128 - 1) as usize;
                        trace.push(step(op, &mut c, &mut s));
                    }
                    (s.obs, s.produced, s.consumer_steps_on_produced, s.invalid_pool, trace)
                })
            }
        }
    };
}

family!(f32fam, f32, Vec2, Vec3, Vec4, Quat, Mat2, Mat3, Mat4, Affine2, Affine3A, true);
family!(f64fam, f64, DVec2, DVec3, DVec4, DQuat, DMat2, DMat3, DMat4, DAffine2, DAffine3, false);

// Vec3A / Mat3A / Affine3A specific consumers and producers (f32 only)
mod f32only_impl {
    use super::f32fam::St;
    use super::*;
    pub fn go(c: &mut Cur, s: &mut St) {
        let pickq = if s.uq.is_empty() { Quat::IDENTITY } else { s.uq[c.idx(s.uq.len())] };
        // the padding lane carries what earlier operations may leave there (inf, NaN, huge, zero)
        let junk = [f32::INFINITY, f32::NAN, f32::NEG_INFINITY, 1e30, 0.0, -0.0, f32::from_bits(0x7f80_0001), 3.0e38][(c.w[0] >> 40) as usize % 8];
        let v = Vec3A::from_vec4(Vec4::new(c.r(-4.0, 4.0) as f32, c.r(-4.0, 4.0) as f32, c.r(-4.0, 4.0) as f32 + 0.5, junk));
        let r = pickq.mul_vec3a(v);
        for x in r.to_array() {
            s.obs.push(x.to_bits() as u64);
        }
        let n = v.normalize();
        s.p_uv3("Vec3A::normalize (junk padding)", Vec3::from(n));
        if let Some(tn) = v.try_normalize() { s.p_uv3("Vec3A::try_normalize (junk padding)", Vec3::from(tn)); }
        s.p_uv3("Vec3A::normalize_or_zero (junk padding)", Vec3::from(v.normalize_or_zero()));
        for x in [v.length(), v.length_recip(), v.dot(n), v.project_onto_normalized(n).x, v.reject_from_normalized(n).x, v.angle_between(n)] {
            s.obs.push(x.to_bits() as u64);
        }
        let (a, b) = n.any_orthonormal_pair();
        for x in a.to_array().into_iter().chain(b.to_array()) {
            s.obs.push(x.to_bits() as u64);
        }
        let m = Mat3A::from_quat(pickq);
        let q2 = Quat::from_mat3a(&m);
        for x in q2.to_array() {
            s.obs.push(x.to_bits() as u64);
        }
        let e = m.to_euler(EULER_ALL[c.idx(24)]);
        s.obs.push(e.0.to_bits() as u64);
        s.obs.push(e.1.to_bits() as u64);
        s.obs.push(e.2.to_bits() as u64);
        if !s.m4.is_empty() {
            let m4 = s.m4[c.idx(s.m4.len())];
            for x in m4.transform_point3a(v).to_array().into_iter().chain(m4.transform_vector3a(v).to_array()) {
                s.obs.push(x.to_bits() as u64);
            }
        }
        if !s.a3.is_empty() {
            let a3 = s.a3[c.idx(s.a3.len())];
            let q3 = if a3.matrix3.x_axis.is_normalized() && a3.matrix3.y_axis.is_normalized() && a3.matrix3.z_axis.is_normalized() { Some(Quat::from_affine3(&a3)) } else { None };
            if let Some(q3) = q3 {
                for x in q3.to_array() {
                    s.obs.push(x.to_bits() as u64);
                }
            }
            for x in a3.transform_point3a(v).to_array() {
                s.obs.push(x.to_bits() as u64);
            }
        }
        s.consumer_steps_on_produced += 1;
    }
}
fn f32only_steer<S: 'static>(c: &mut Cur, s: &mut S) {
    use std::any::Any;
    if let Some(st) = (s as &mut dyn Any).downcast_mut::<f32fam::St>() {
        let a3 = if st.uv3.is_empty() { Vec3::new(0.6, 0.0, 0.8) } else { st.uv3[c.idx(st.uv3.len())] };
        // Vec3A with junk in the padding lane
        let a = Vec3A::from_vec4(a3.extend(f32::from_bits(0x7fc0_0000 | (c.next() as u32 & 0x3f_ffff))));
        let k = (2.0f64).powf(c.r(-3.0, 3.0)) as f32;
        let b = match c.idx(5) { 0 => a, 1 => -a, 2 => a * k, 3 => -a * k, _ => Vec3A::from(st.uv3[c.idx(st.uv3.len().max(1)) % st.uv3.len().max(1)]) };
        let ang = if c.idx(4) == 0 { 0.0 } else { c.r(-4.0, 4.0) as f32 };
        let r = a.rotate_towards(b, ang);
        st.p_uv3("Vec3A::rotate_towards(unit, related target)", Vec3::from(r));
    }
}
fn f32only_rot_ctors<S: 'static>(c: &mut Cur, s: &mut S) {
    use std::any::Any;
    if let Some(st) = (s as &mut dyn Any).downcast_mut::<f32fam::St>() {
        let ax = if st.uv3.is_empty() { Vec3::new(0.0, 0.6, 0.8) } else { st.uv3[c.idx(st.uv3.len())] };
        let an = c.r(-7.0, 7.0) as f32;
        let prods: [(&str, Mat3A); 6] = [
            ("Mat3A::from_axis_angle", Mat3A::from_axis_angle(ax, an)),
            ("Mat3A::from_euler", Mat3A::from_euler(EULER_ALL[c.idx(24)], an, c.r(-7.0, 7.0) as f32, c.r(-7.0, 7.0) as f32)),
            ("Mat3A::from_rotation_x", Mat3A::from_rotation_x(an)),
            ("Mat3A::from_rotation_y", Mat3A::from_rotation_y(an)),
            ("Mat3A::from_rotation_z", Mat3A::from_rotation_z(an)),
            ("Mat3A::from_quat", Mat3A::from_quat(if st.uq.is_empty() { Quat::IDENTITY } else { st.uq[c.idx(st.uq.len())] })),
        ];
        for (what, m) in prods {
            st.p_rm3(what, Mat3::from(m));
            // its own consumers
            let q = Quat::from_mat3a(&m);
            st.p_uq("Quat::from_mat3a(rotation constructor output)", q);
            let e = m.to_euler(EULER_ALL[c.idx(24)]);
            st.obs.push(e.0.to_bits() as u64);
            st.obs.push(e.1.to_bits() as u64);
            st.obs.push(e.2.to_bits() as u64);
            let a = Affine3A::from_mat3(Mat3::from(m));
            st.p_rig_a3("Affine3A::from_mat3(Mat3A rotation)", a);
        }
    }
}
/// Vec3A has its own implementation in every backend: same boundary clamps and unit-vector consumers
#[allow(dead_code)]
fn f32only_clamps(c: &mut Cur, obs: &mut Vec<u64>) {
    let mut v = [0.0f32; 3];
    let mut lo = [0.0f32; 3];
    let mut hi = [0.0f32; 3];
    for i in 0..3 {
        v[i] = c.r(-4.0, 4.0) as f32;
        lo[i] = c.r(-2.0, 2.0) as f32;
        hi[i] = match c.idx(3) { 0 => lo[i], 1 => lo[i] + (c.r(0.0, 2.0) as f32), _ => lo[i].abs() };
        if hi[i] < lo[i] { hi[i] = lo[i]; }
    }
    let (v, lo, hi) = (Vec3A::from_array(v), Vec3A::from_array(lo), Vec3A::from_array(hi));
    let mut put = |x: Vec3A| for e in x.to_array() { obs.push(e.to_bits() as u64) };
    put(v.clamp(lo, hi));
    put(v.clamp(lo, lo));
    put(v.min(lo).clamp(v.min(lo), v.max(lo)));
    let l = c.r(0.0, 3.0) as f32;
    put(v.clamp_length(l, l));
    put(v.clamp_length(0.0, l));
    put(v.clamp_length_max(0.0));
    put(v.clamp_length_min(0.0));
    let n = v.normalize_or(Vec3A::X);
    put(v.project_onto_normalized(n));
    put(v.reject_from_normalized(n));
    put(v.reflect(n));
    put(n.refract(n.any_orthonormal_vector(), 1.3));
    put(n.any_orthonormal_vector());
}

/// Mat3A has its own to_euler / from_mat3a code in every backend: one non-unit axis at a time
#[allow(dead_code)]
fn f32only_invalid(q: [f32; 4], k: f32) -> Vec<(&'static str, bool)> {
    let q = Quat::from_xyzw(q[0], q[1], q[2], q[3]);
    let r = Mat3A::from_quat(q);
    let mx = Mat3A::from_cols(r.x_axis * k, r.y_axis, r.z_axis);
    let my = Mat3A::from_cols(r.x_axis, r.y_axis * k, r.z_axis);
    let mz = Mat3A::from_cols(r.x_axis, r.y_axis, r.z_axis * k);
    let mut out: Vec<(&'static str, bool)> = vec![];
    macro_rules! t {
        ($n:expr, $e:expr) => {
            out.push(($n, vcore::catch(|| { let _ = $e; }).is_err()));
        };
    }
    t!("Mat3A::to_euler(x axis not unit)", mx.to_euler(EulerRot::YXZ));
    t!("Mat3A::to_euler(y axis not unit)", my.to_euler(EulerRot::YXZ));
    t!("Mat3A::to_euler(z axis not unit)", mz.to_euler(EulerRot::YXZ));
    t!("Quat::from_mat3a(x axis not unit)", Quat::from_mat3a(&mx));
    t!("Quat::from_mat3a(y axis not unit)", Quat::from_mat3a(&my));
    t!("Quat::from_mat3a(z axis not unit)", Quat::from_mat3a(&mz));
    let n = Vec3A::new(0.6, 0.0, 0.8);
    t!("Vec3A::project_onto_normalized(non-unit)", Vec3A::ONE.project_onto_normalized(n * k));
    t!("Vec3A::reflect(non-unit normal)", Vec3A::ONE.reflect(n * k));
    t!("Vec3A::refract(non-unit self)", (n * k).refract(n, 1.3));
    t!("Vec3A::any_orthonormal_vector(non-unit)", (n * k).any_orthonormal_vector());
    t!("Vec3A::any_orthonormal_pair(non-unit)", (n * k).any_orthonormal_pair());
    t!("Vec3A::clamp(min > max)", n.clamp(Vec3A::splat(1.0), Vec3A::splat(-1.0)));
    t!("Vec3A::clamp_length(min > max)", n.clamp_length(2.0, 1.0));
    out
}

#[allow(dead_code)]
fn f32only_clamp(v: [f32; 3], b: [f32; 4]) -> Vec<(&'static str, bool)> {
    let [neg, neg2, pos, pos2] = b;
    let x = Vec3A::from_array(v);
    let mut out: Vec<(&'static str, bool)> = vec![];
    macro_rules! t {
        ($n:expr, $e:expr) => {
            out.push(($n, vcore::catch(|| { let _ = $e; }).is_err()));
        };
    }
    t!("Vec3A::clamp_length(negative min, positive max)", x.clamp_length(neg, pos));
    t!("Vec3A::clamp_length(negative min, zero max)", x.clamp_length(neg, 0.0));
    t!("Vec3A::clamp_length(both negative, min < max)", x.clamp_length(neg2, neg));
    t!("Vec3A::clamp_length(min > max, both positive)", x.clamp_length(pos2, pos));
    t!("Vec3A::clamp_length_max(negative)", x.clamp_length_max(neg));
    t!("Vec3A::clamp_length_min(negative)", x.clamp_length_min(neg));
    for lane in 0..3 {
        let lo = Vec3A::splat(neg);
        let mut hi = Vec3A::splat(pos);
        hi[lane] = neg2;
        t!("Vec3A::clamp(min > max in one lane)", x.clamp(lo, hi));
    }
    out
}

#[allow(dead_code)]
fn f32only_inverse(c: &mut Cur, obs: &mut Vec<u64>) {
    let sc = Vec3::new(if c.idx(2) == 0 { 1.5 } else { -1.5 }, if c.idx(2) == 0 { 0.75 } else { -0.75 }, if c.idx(2) == 0 { 2.0 } else { -2.0 }) * (2.0f64).powf(c.r(-6.0, 6.0)) as f32;
    let q = Quat::from_axis_angle(Vec3::new(0.6, 0.0, 0.8), c.r(-3.0, 3.0) as f32);
    let m = Mat3A::from_quat(q) * Mat3A::from_diagonal(sc);
    for x in m.inverse().to_cols_array() {
        obs.push(x.to_bits() as u64);
    }
    obs.push(m.determinant().to_bits() as u64);
}

#[allow(dead_code)]
fn f32only_step<S: 'static>(c: &mut Cur, s: &mut S) {
    // dispatch on the concrete state type (the f64 family never calls this with $f32only = true)
    use std::any::Any;
    if let Some(st) = (s as &mut dyn Any).downcast_mut::<f32fam::St>() {
        f32only_impl::go(c, st);
    }
}
