//! Reference rotation mathematics, written independently of glam, in double-double arithmetic
//! (~106 bits), so that it is clearly better than both the f32 and the f64 code under test.
//!
//! Conventions (the documented ones of glam, which is what the property pins):
//! * column vectors, `M * v`; matrices here are ROW-major `m[row][col]`;
//! * a rotation by a positive angle is counter-clockwise when looking from the tip of the axis
//!   towards the origin (right-hand rule);
//! * quaternions are `[x, y, z, w]`, Hamilton product, `R(a*b) = R(a) * R(b)`.
#![allow(dead_code)]
use vcore::num::DD;

pub type M3 = [[DD; 3]; 3];
pub type Q = [DD; 4];

pub const Z: DD = DD { hi: 0.0, lo: 0.0 };
pub const ONE: DD = DD { hi: 1.0, lo: 0.0 };

/// pi/2 as a double-double (hi = 0x3FF921FB54442D18, lo = 0x3C91A62633145C07).
pub const PIO2: DD = DD { hi: 1.5707963267948966, lo: 6.123233995736766e-17 };

#[inline]
pub fn dd(x: f64) -> DD {
    DD::new(x)
}
#[inline]
pub fn scale2(a: DD, p: f64) -> DD {
    // multiplication by a power of two is exact
    DD { hi: a.hi * p, lo: a.lo * p }
}

fn inv_fact() -> &'static [DD; 32] {
    static T: std::sync::OnceLock<[DD; 32]> = std::sync::OnceLock::new();
    T.get_or_init(|| {
        let mut t = [ONE; 32];
        let mut f = ONE;
        for k in 1..32 {
            f = f.div(dd(k as f64));
            t[k] = f;
        }
        t
    })
}

/// (sin x, cos x) of a double-double argument. Absolute error < 1e-29 + |x| * 1e-32 (the two-part pi/2 limits the
/// argument reduction): < 1e-26 for |x| <= 1e6, ten orders of magnitude below the f64 unit roundoff.
pub fn sincos(x: DD) -> (DD, DD) {
    if !x.hi.is_finite() {
        return (dd(f64::NAN), dd(f64::NAN));
    }
    let n = (x.hi * std::f64::consts::FRAC_2_PI).round();
    let r = x.sub(PIO2.mul(dd(n)));
    let t = r.mul(r);
    let f = inv_fact();
    // sin r = r * sum_{k} (-1)^k t^k / (2k+1)!, cos r = sum (-1)^k t^k / (2k)!   (|r| <= pi/4 + tiny)
    let mut ps = Z;
    let mut pc = Z;
    let mut k = 14i32;
    while k >= 0 {
        let sg = if k % 2 == 0 { 1.0 } else { -1.0 };
        ps = ps.mul(t).add(scale2(f[(2 * k + 1) as usize], sg));
        pc = pc.mul(t).add(scale2(f[(2 * k) as usize], sg));
        k -= 1;
    }
    let s = ps.mul(r);
    let c = pc;
    match (n as i64).rem_euclid(4) {
        0 => (s, c),
        1 => (c, s.neg()),
        2 => (s.neg(), c.neg()),
        _ => (c.neg(), s),
    }
}

pub fn ident() -> M3 {
    let mut m = [[Z; 3]; 3];
    for i in 0..3 {
        m[i][i] = ONE;
    }
    m
}

/// Elementary rotation about coordinate axis `k` (0 = x, 1 = y, 2 = z) given sin and cos of the angle.
/// Rx = [1 0 0; 0 c -s; 0 s c], Ry = [c 0 s; 0 1 0; -s 0 c], Rz = [c -s 0; s c 0; 0 0 1].
pub fn elementary(k: usize, s: DD, c: DD) -> M3 {
    let (k1, k2) = ((k + 1) % 3, (k + 2) % 3);
    let mut m = [[Z; 3]; 3];
    m[k][k] = ONE;
    m[k1][k1] = c;
    m[k1][k2] = s.neg();
    m[k2][k1] = s;
    m[k2][k2] = c;
    m
}

pub fn abs3(m: &M3) -> M3 {
    let mut r = *m;
    for i in 0..3 {
        for j in 0..3 {
            r[i][j] = m[i][j].abs();
        }
    }
    r
}

pub fn mul3(a: &M3, b: &M3) -> M3 {
    let mut r = [[Z; 3]; 3];
    for i in 0..3 {
        for j in 0..3 {
            let mut s = Z;
            for k in 0..3 {
                s = s.add(a[i][k].mul(b[k][j]));
            }
            r[i][j] = s;
        }
    }
    r
}

pub fn transpose3(a: &M3) -> M3 {
    let mut r = *a;
    for i in 0..3 {
        for j in 0..3 {
            r[i][j] = a[j][i];
        }
    }
    r
}

pub fn det3(m: &M3) -> DD {
    let c0 = m[1][1].mul(m[2][2]).sub(m[1][2].mul(m[2][1]));
    let c1 = m[1][0].mul(m[2][2]).sub(m[1][2].mul(m[2][0]));
    let c2 = m[1][0].mul(m[2][1]).sub(m[1][1].mul(m[2][0]));
    m[0][0].mul(c0).sub(m[0][1].mul(c1)).add(m[0][2].mul(c2))
}

/// (max |M^T M - I|, |det M - 1|)
pub fn proper_dev(m: &M3) -> (f64, f64) {
    let p = mul3(&transpose3(m), m);
    let mut dev = 0.0f64;
    for i in 0..3 {
        for j in 0..3 {
            let e = if i == j { p[i][j].sub(ONE) } else { p[i][j] };
            dev = dev.max(e.abs().f());
        }
    }
    (dev, det3(m).sub(ONE).abs().f())
}

/// Rodrigues formula for the rotation by the angle with the given (sin, cos) about the axis `a`
/// exactly as stored (NOT renormalised):  R = cos*I + (1-cos)*a*a^T + sin*[a]x.
/// Returns the matrix and, per entry, the sum of the absolute values of the terms an evaluation
/// goes through (1 and cos inside 1-cos, the products, the sin term): the S of `k*u*S`.
pub fn rodrigues(a: [f64; 3], s: DD, c: DD) -> (M3, M3) {
    rodrigues_dd([dd(a[0]), dd(a[1]), dd(a[2])], s, c)
}

pub fn rodrigues_dd(a: [DD; 3], s: DD, c: DD) -> (M3, M3) {
    let omc = ONE.sub(c);
    let omc_abs = ONE.add(c.abs());
    let mut m = [[Z; 3]; 3];
    let mut sm = [[Z; 3]; 3];
    for i in 0..3 {
        for j in 0..3 {
            let aa = a[i].mul(a[j]);
            if i == j {
                m[i][j] = aa.mul(omc).add(c);
                sm[i][j] = aa.abs().mul(omc_abs).add(c.abs());
            } else {
                // [a]x: (0,1) = -az, (0,2) = +ay, (1,2) = -ax, antisymmetric
                let k = 3 - i - j;
                let sign = if (j + 3 - i) % 3 == 1 { -1.0 } else { 1.0 };
                let cross = scale2(a[k].mul(s), sign);
                m[i][j] = aa.mul(omc).add(cross);
                sm[i][j] = aa.abs().mul(omc_abs).add(cross.abs());
            }
        }
    }
    (m, sm)
}

pub fn qabs(q: &Q) -> Q {
    [q[0].abs(), q[1].abs(), q[2].abs(), q[3].abs()]
}

/// Hamilton product of `[x, y, z, w]` quaternions.
pub fn qmul(a: &Q, b: &Q) -> Q {
    let (ax, ay, az, aw) = (a[0], a[1], a[2], a[3]);
    let (bx, by, bz, bw) = (b[0], b[1], b[2], b[3]);
    [
        aw.mul(bx).add(ax.mul(bw)).add(ay.mul(bz)).sub(az.mul(by)),
        aw.mul(by).sub(ax.mul(bz)).add(ay.mul(bw)).add(az.mul(bx)),
        aw.mul(bz).add(ax.mul(by)).sub(ay.mul(bx)).add(az.mul(bw)),
        aw.mul(bw).sub(ax.mul(bx)).sub(ay.mul(by)).sub(az.mul(bz)),
    ]
}

/// The same with every term taken positive (inputs must be absolute values): sum of |terms|.
pub fn qmul_abs(a: &Q, b: &Q) -> Q {
    let (ax, ay, az, aw) = (a[0], a[1], a[2], a[3]);
    let (bx, by, bz, bw) = (b[0], b[1], b[2], b[3]);
    [
        aw.mul(bx).add(ax.mul(bw)).add(ay.mul(bz)).add(az.mul(by)),
        aw.mul(by).add(ax.mul(bz)).add(ay.mul(bw)).add(az.mul(bx)),
        aw.mul(bz).add(ax.mul(by)).add(ay.mul(bx)).add(az.mul(bw)),
        aw.mul(bw).add(ax.mul(bx)).add(ay.mul(by)).add(az.mul(bz)),
    ]
}

pub fn qnorm(q: &Q) -> DD {
    q[0].mul(q[0]).add(q[1].mul(q[1])).add(q[2].mul(q[2])).add(q[3].mul(q[3])).sqrt()
}

pub fn qnormalize(q: &Q) -> Q {
    let n = qnorm(q);
    [q[0].div(n), q[1].div(n), q[2].div(n), q[3].div(n)]
}

/// Rotation matrix of the rotation `v -> q v q^-1` (q is normalised first).
pub fn q_to_m3(q: &Q) -> M3 {
    let q = qnormalize(q);
    let (x, y, z, w) = (q[0], q[1], q[2], q[3]);
    let two = |a: DD| scale2(a, 2.0);
    let (xx, yy, zz) = (x.mul(x), y.mul(y), z.mul(z));
    let (xy, xz, yz) = (x.mul(y), x.mul(z), y.mul(z));
    let (xw, yw, zw) = (x.mul(w), y.mul(w), z.mul(w));
    [
        [ONE.sub(two(yy.add(zz))), two(xy.sub(zw)), two(xz.add(yw))],
        [two(xy.add(zw)), ONE.sub(two(xx.add(zz))), two(yz.sub(xw))],
        [two(xz.sub(yw)), two(yz.add(xw)), ONE.sub(two(xx.add(yy)))],
    ]
}

/// Quaternion of the rotation about coordinate axis `k` given sin and cos of HALF the angle.
pub fn q_elementary(k: usize, sh: DD, ch: DD) -> Q {
    let mut q = [Z; 4];
    q[k] = sh;
    q[3] = ch;
    q
}

/// One of the 24 Euler orders, parsed from the NAME of the variant (the name is the specification).
#[derive(Clone, Copy, Debug)]
pub struct Order {
    pub name: &'static str,
    /// axes in the order the name spells them
    pub ax: [usize; 3],
    /// `Ex` suffix
    pub extrinsic: bool,
    /// first and last axis are the same (proper Euler angles); otherwise Tait-Bryan
    pub proper: bool,
}

pub fn order(name: &'static str) -> Order {
    let b = name.as_bytes();
    let ax = [(b[0] - b'X') as usize, (b[1] - b'X') as usize, (b[2] - b'X') as usize];
    assert!(ax.iter().all(|&a| a < 3) && ax[0] != ax[1] && ax[1] != ax[2], "bad order name {name}");
    let extrinsic = name.len() == 5 && name.ends_with("Ex");
    assert!(extrinsic || name.len() == 3, "bad order name {name}");
    Order { name, ax, extrinsic, proper: ax[0] == ax[2] }
}

pub struct EulerRef {
    pub m: M3,
    /// per entry sum of |monomials| of the expanded product
    pub s: M3,
    pub q: Q,
    pub qs: Q,
}

/// The convention, pinned from the doc comment of `EulerRot` in src/euler.rs and from tests/euler.rs:
///   intrinsic `ABC` (a, b, c):   R = R_A(a) * R_B(b) * R_C(c)      (e.g. XYZ = Rx(a) * Ry(b) * Rz(c))
///   extrinsic `ABCEx` (a, b, c): R = R_C(c) * R_B(b) * R_A(a)      (e.g. XYZEx = Rz(c) * Ry(b) * Rx(a))
/// i.e. the angles always belong to the axes in the order spelled; the intrinsic variants multiply
/// left to right, the Ex variants in reverse.
/// Returns the axes in multiplication order (left to right) and the matching angles.
pub fn mult_order(o: &Order, ang: [DD; 3]) -> ([usize; 3], [DD; 3]) {
    if o.extrinsic {
        ([o.ax[2], o.ax[1], o.ax[0]], [ang[2], ang[1], ang[0]])
    } else {
        (o.ax, ang)
    }
}

pub fn euler(o: &Order, ang: [DD; 3]) -> EulerRef {
    let (ax, an) = mult_order(o, ang);
    let mut m = ident();
    let mut s = ident();
    let mut q = [Z, Z, Z, ONE];
    let mut qs = [Z, Z, Z, ONE];
    for t in 0..3 {
        let (sn, cs) = sincos(an[t]);
        let e = elementary(ax[t], sn, cs);
        m = mul3(&m, &e);
        s = mul3(&s, &abs3(&e));
        let (sh, ch) = sincos(scale2(an[t], 0.5));
        let eq = q_elementary(ax[t], sh, ch);
        q = qmul(&q, &eq);
        qs = qmul_abs(&qs, &qabs(&eq));
    }
    EulerRef { m, s, q, qs }
}

/// Distance of a rotation matrix from the singularity of the extraction for this order:
/// |cos(middle angle)| for Tait-Bryan orders, |sin(middle angle)| for proper Euler orders, computed
/// (well conditioned) from the row of the first multiplied axis: for R = R_A R_B R_C that row is
/// row A of R_B R_C; Tait-Bryan: (R[A][A], R[A][B]) = cos(b) * (cos c, -+sin c), R[A][C] = +-sin b;
/// proper (C = A): R[A][A] = cos b and the other two entries are sin(b) * (sin c, +-cos c).
pub fn sing_distance(o: &Order, m: &M3) -> f64 {
    let (ax, _) = mult_order(o, [Z; 3]);
    let r = ax[0];
    let skip = if o.proper { ax[0] } else { ax[2] };
    let mut s = Z;
    for c in 0..3 {
        if c != skip {
            s = s.add(m[r][c].mul(m[r][c]));
        }
    }
    s.sqrt().f()
}

pub fn max_abs_diff(a: &M3, b: &M3) -> f64 {
    let mut e = 0.0f64;
    for i in 0..3 {
        for j in 0..3 {
            e = e.max(a[i][j].sub(b[i][j]).abs().f());
        }
    }
    e
}

/// Uniform unit quaternion from three uniform numbers in [0,1) (Shoemake's subgroup algorithm).
pub fn uniform_quat(u1: f64, u2: f64, u3: f64) -> [f64; 4] {
    let (u1, u2, u3) = (u1.clamp(0.0, 1.0), u2.clamp(0.0, 1.0), u3.clamp(0.0, 1.0));
    let (a, b) = ((1.0 - u1).sqrt(), u1.sqrt());
    let (t2, t3) = (std::f64::consts::TAU * u2, std::f64::consts::TAU * u3);
    [a * t2.sin(), a * t2.cos(), b * t3.sin(), b * t3.cos()]
}

/// Unit vector from z in [-1,1] and longitude phi (uniform on the sphere when z, phi are uniform).
pub fn sphere_point(z: f64, phi: f64) -> [f64; 3] {
    let z = if z.is_finite() { z.clamp(-1.0, 1.0) } else { 0.0 };
    let phi = if phi.is_finite() { phi } else { 0.0 };
    let r = (1.0 - z * z).max(0.0).sqrt();
    [r * phi.cos(), r * phi.sin(), z]
}

/// Panics if the reference mathematics is not self-consistent (run once at start-up).
pub fn self_test() {
    let xs = [0.0, 0.5, -0.75, 1.0, 1.5707963267948966, 3.0, -3.5, 10.0, 12.566370614359172, 1234.56789, -987654.321, 1.0e6, 1e-9, 0.7853981633974483];
    for &x in &xs {
        let (s, c) = sincos(dd(x));
        assert!((s.f() - x.sin()).abs() <= 2.3e-16 && (c.f() - x.cos()).abs() <= 2.3e-16, "sincos({x}) vs std");
        let one = s.mul(s).add(c.mul(c)).sub(ONE).abs().f();
        assert!(one < 1e-29, "sin^2+cos^2 at {x}: {one:e}");
    }
    // addition theorem on exactly representable sums
    for &(a, b) in &[(0.5f64, 0.25f64), (1.0, 2.0), (100.0, -0.125), (65536.0, 3.0)] {
        let (sa, ca) = sincos(dd(a));
        let (sb, cb) = sincos(dd(b));
        let (sab, cab) = sincos(dd(a + b));
        assert!(sa.mul(cb).add(ca.mul(sb)).sub(sab).abs().f() < 1e-26, "sin addition {a}+{b}");
        assert!(ca.mul(cb).sub(sa.mul(sb)).sub(cab).abs().f() < 1e-26, "cos addition {a}+{b}");
    }
    // sin(pi/2 as DD) = 1, cos = 0 to DD accuracy
    let (s, c) = sincos(PIO2);
    assert!(s.sub(ONE).abs().f() < 1e-30 && c.abs().f() < 1e-30, "pi/2");
    // Rodrigues about a coordinate axis equals the elementary rotation; quaternion matrix too
    for k in 0..3 {
        let (s, c) = sincos(dd(0.7));
        let mut a = [0.0; 3];
        a[k] = 1.0;
        let (r, _) = rodrigues(a, s, c);
        let e = elementary(k, s, c);
        assert!(max_abs_diff(&r, &e) < 1e-30, "rodrigues vs elementary {k}");
        let (sh, ch) = sincos(dd(0.35));
        assert!(max_abs_diff(&q_to_m3(&q_elementary(k, sh, ch)), &e) < 1e-30, "quat vs elementary {k}");
    }
    // right-hand rule: Rz(+90 deg) maps x to y, Rx maps y to z, Ry maps z to x
    let (s, c) = sincos(PIO2);
    assert!(elementary(2, s, c)[1][0].sub(ONE).abs().f() < 1e-30);
    assert!(elementary(0, s, c)[2][1].sub(ONE).abs().f() < 1e-30);
    assert!(elementary(1, s, c)[0][2].sub(ONE).abs().f() < 1e-30);
    // quaternion product is a homomorphism onto matrix product; general Rodrigues equals the quaternion rotation
    let a = [dd(0.36), dd(-0.48), dd(0.8)];
    let an = a[0].mul(a[0]).add(a[1].mul(a[1])).add(a[2].mul(a[2])).sqrt();
    let a = [a[0].div(an), a[1].div(an), a[2].div(an)];
    let (s, c) = sincos(dd(1.1));
    let (sh, ch) = sincos(dd(0.55));
    let qa = [a[0].mul(sh), a[1].mul(sh), a[2].mul(sh), ch];
    let (r, _) = rodrigues_dd(a, s, c);
    assert!(max_abs_diff(&q_to_m3(&qa), &r) < 1e-29, "rodrigues vs quaternion");
    let (pd, dd_) = proper_dev(&r);
    assert!(pd < 1e-29 && dd_ < 1e-29, "rodrigues proper");
    let qb = q_elementary(1, sh, ch);
    assert!(max_abs_diff(&q_to_m3(&qmul(&qa, &qb)), &mul3(&q_to_m3(&qa), &q_to_m3(&qb))) < 1e-29, "qmul homomorphism");
    // Euler reference: matrix and quaternion routes agree; documented examples XYZ and XYZEx
    let o = order("XYZ");
    let e = euler(&o, [dd(0.3), dd(-0.4), dd(0.5)]);
    assert!(max_abs_diff(&q_to_m3(&e.q), &e.m) < 1e-29);
    let rx = |t: f64| { let (s, c) = sincos(dd(t)); elementary(0, s, c) };
    let ry = |t: f64| { let (s, c) = sincos(dd(t)); elementary(1, s, c) };
    let rz = |t: f64| { let (s, c) = sincos(dd(t)); elementary(2, s, c) };
    assert!(max_abs_diff(&e.m, &mul3(&mul3(&rx(0.3), &ry(-0.4)), &rz(0.5))) < 1e-30);
    let oe = order("XYZEx");
    let ee = euler(&oe, [dd(0.3), dd(-0.4), dd(0.5)]);
    assert!(max_abs_diff(&ee.m, &mul3(&mul3(&rz(0.5), &ry(-0.4)), &rx(0.3))) < 1e-30);
    assert!((sing_distance(&o, &e.m) - (0.4f64).cos()).abs() < 1e-15);
    let op = order("ZXZ");
    let ep = euler(&op, [dd(0.3), dd(-0.4), dd(0.5)]);
    assert!((sing_distance(&op, &ep.m) - (0.4f64).sin()).abs() < 1e-15);
    let ope = order("YZYEx");
    let epe = euler(&ope, [dd(0.3), dd(2.0), dd(0.5)]);
    assert!((sing_distance(&ope, &epe.m) - (2.0f64).sin()).abs() < 1e-15);
    let ote = order("ZXYEx");
    let ete = euler(&ote, [dd(0.3), dd(2.0), dd(0.5)]);
    assert!((sing_distance(&ote, &ete.m) - (2.0f64).cos().abs()).abs() < 1e-15);
}

// ---------------------------------------------------------------------------------------------
// additions for C10 (scale / rotation / translation)

/// The rotation-matrix polynomial of a quaternion WITHOUT normalisation (what a `from_quat` documents for a unit
/// quaternion): R = [1 - 2(yy + zz), 2(xy - zw), ...]. Returns the matrix and, per entry, the sum of |terms|.
pub fn q_to_m3_poly(q: &Q) -> (M3, M3) {
    let (x, y, z, w) = (q[0], q[1], q[2], q[3]);
    let two = |a: DD| scale2(a, 2.0);
    let (xx, yy, zz) = (x.mul(x), y.mul(y), z.mul(z));
    let (xy, xz, yz) = (x.mul(y), x.mul(z), y.mul(z));
    let (xw, yw, zw) = (x.mul(w), y.mul(w), z.mul(w));
    let m = [
        [ONE.sub(two(yy.add(zz))), two(xy.sub(zw)), two(xz.add(yw))],
        [two(xy.add(zw)), ONE.sub(two(xx.add(zz))), two(yz.sub(xw))],
        [two(xz.sub(yw)), two(yz.add(xw)), ONE.sub(two(xx.add(yy)))],
    ];
    let s = [
        [ONE.add(two(yy.add(zz))), two(xy.abs().add(zw.abs())), two(xz.abs().add(yw.abs()))],
        [two(xy.abs().add(zw.abs())), ONE.add(two(xx.add(zz))), two(yz.abs().add(xw.abs()))],
        [two(xz.abs().add(yw.abs())), two(yz.abs().add(xw.abs())), ONE.add(two(xx.add(yy)))],
    ];
    (m, s)
}

/// Which branch of the matrix -> quaternion conversion (src/f32/scalar/quat.rs `from_rotation_axes`, after
/// DirectXMath) a rotation matrix takes: decided by m22 <= 0, then m11 - m00 <= 0 / m11 + m00 <= 0.
/// Returns the branch name and the smallest |deciding quantity| on the path (distance to a branch boundary).
pub fn quat_branch(m: &M3) -> (&'static str, f64) {
    let (m00, m11, m22) = (m[0][0].f(), m[1][1].f(), m[2][2].f());
    if m22 <= 0.0 {
        let dif10 = m11 - m00;
        if dif10 <= 0.0 {
            ("x", m22.abs().min(dif10.abs()))
        } else {
            ("y", m22.abs().min(dif10.abs()))
        }
    } else {
        let sum10 = m11 + m00;
        if sum10 <= 0.0 {
            ("z", m22.abs().min(sum10.abs()))
        } else {
            ("w", m22.abs().min(sum10.abs()))
        }
    }
}

/// Unit quaternions aimed at every branch of the matrix -> quaternion conversion and at the branch boundaries.
/// kind 0: uniform on S^3; 1: near a half turn (w = +-10^e) about a uniform axis; 2: m22 ~ 0 (x^2+y^2 ~ z^2+w^2);
/// 3: x^2 ~ y^2; 4: z^2 ~ w^2  (offset +-10^e from the boundary).
pub fn branch_quat(kind: u64, u1: f64, u2: f64, u3: f64, e: f64) -> [f64; 4] {
    let (u1, u2, u3) = (u1.clamp(0.0, 1.0), u2.clamp(0.0, 1.0), u3.clamp(0.0, 1.0));
    let off = 10f64.powf(e.clamp(-30.0, -0.5)) * if u1 >= 0.5 { -1.0 } else { 1.0 };
    let tau = std::f64::consts::TAU;
    let q4 = std::f64::consts::FRAC_PI_4;
    let hopf = |alpha: f64, beta: f64, gamma: f64| [alpha.cos() * beta.cos(), alpha.cos() * beta.sin(), alpha.sin() * gamma.cos(), alpha.sin() * gamma.sin()];
    match kind {
        0 => uniform_quat(u1, u2, u3),
        1 => {
            let a = sphere_point(2.0 * u2 - 1.0, tau * u3);
            let s = (1.0 - off * off).max(0.0).sqrt();
            [a[0] * s, a[1] * s, a[2] * s, off]
        }
        2 => hopf(q4 + off, tau * u2, tau * u3),
        3 => hopf(u2 * 2.0 * q4, q4 + off + (u3 * 4.0).floor() * 2.0 * q4, tau * u3),
        4 => hopf(u2 * 2.0 * q4, tau * u3, q4 + off + (u3 * 4.0).floor() * 2.0 * q4),
        6 => {
            // a small rotation (|angle| = 10^e, e = -9..-0.5) about any axis: not the identity, though `is_near_identity` says so below 2.8e-3
            let a = sphere_point(2.0 * u2 - 1.0, tau * u3);
            let h = 0.5 * off;
            [a[0] * h.sin(), a[1] * h.sin(), a[2] * h.sin(), h.cos()]
        }
        _ => {
            // one of the 24 rotations of the cube (exact quarter and third turns: images of the axes are axes again, so
            // rotation-matrix entries are exact zeros), with either sign of the quaternion
            let h = std::f64::consts::FRAC_1_SQRT_2;
            let k = ((u2 * 24.0) as usize).min(23);
            let mut q = match k {
                0 => [0.0, 0.0, 0.0, 1.0],
                1 => [1.0, 0.0, 0.0, 0.0],
                2 => [0.0, 1.0, 0.0, 0.0],
                3 => [0.0, 0.0, 1.0, 0.0],
                4..=9 => {
                    let a = (k - 4) / 2;
                    let mut q = [0.0, 0.0, 0.0, h];
                    q[a] = if (k - 4) % 2 == 0 { h } else { -h };
                    q
                }
                10..=15 => {
                    let (a, b) = [(0, 1), (0, 2), (1, 2)][(k - 10) / 2];
                    let mut q = [0.0; 4];
                    q[a] = h;
                    q[b] = if (k - 10) % 2 == 0 { h } else { -h };
                    q
                }
                _ => {
                    let m = k - 16;
                    [if m & 1 == 0 { 0.5 } else { -0.5 }, if m & 2 == 0 { 0.5 } else { -0.5 }, if m & 4 == 0 { 0.5 } else { -0.5 }, 0.5]
                }
            };
            if u3 >= 0.5 {
                for x in q.iter_mut() {
                    *x = -*x;
                }
            }
            q
        }
    }
}
