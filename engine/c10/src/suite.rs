// Included once per glam variant (`glam` is aliased by the including module).
#[allow(unused_imports)]
use super::refm::{self, dd, M3, Q};
#[allow(unused_imports)]
use super::Fl;
#[allow(unused_imports)]
use glam::{Affine2, Affine3A, DAffine2, DAffine3, DMat2, DMat3, DMat4, DQuat, DVec2, DVec3, Mat2, Mat3, Mat3A, Mat4, Quat, Vec2, Vec3};
use proptest::prelude::*;
use serde_json::json;
use vcore::num::DD;
use vcore::*;

/// a glam 3x3 block as exact f64 values, row-major
type G3 = [[f64; 3]; 3];
type G2 = [[f64; 2]; 2];

fn fail(ty: &str, op: &str, msg: String) -> Fail {
    Fail::new(format!("C10/{}/{}/{}", VARIANT, ty, op), op.to_string(), msg)
}

#[inline]
fn fin(w: u64) -> f64 {
    let x = f64::from_bits(w);
    if x.is_finite() {
        x
    } else {
        0.0
    }
}

fn q_of(a: &[f64; 4]) -> Q {
    [dd(a[0]), dd(a[1]), dd(a[2]), dd(a[3])]
}

/// A decoded 3D affine transform: linear block (exact values, row-major) and the translation lanes as stored.
struct T3<T> {
    b: G3,
    t: [T; 3],
}
fn t3_from_cols16<T: Fl>(a: &[T; 16], ty: &str, op: &str) -> Result<T3<T>, Fail> {
    let mut g = [[0.0; 3]; 3];
    for c in 0..3 {
        for r in 0..3 {
            g[r][c] = a[c * 4 + r].to_f64();
        }
    }
    for (i, e) in [(3usize, 0.0), (7, 0.0), (11, 0.0), (15, 1.0)] {
        if a[i].to_f64() != e {
            return Err(fail(ty, op, format!("bottom row entry {} is {:e}, expected {}", i / 4, a[i].to_f64(), e)));
        }
    }
    Ok(T3 { b: g, t: [a[12], a[13], a[14]] })
}
fn t3_from_cols12<T: Fl>(a: &[T; 12]) -> T3<T> {
    let mut g = [[0.0; 3]; 3];
    for c in 0..3 {
        for r in 0..3 {
            g[r][c] = a[c * 3 + r].to_f64();
        }
    }
    T3 { b: g, t: [a[9], a[10], a[11]] }
}
struct T2<T> {
    b: G2,
    t: [T; 2],
}
fn t2_from_cols6<T: Fl>(a: &[T; 6]) -> T2<T> {
    T2 { b: [[a[0].to_f64(), a[2].to_f64()], [a[1].to_f64(), a[3].to_f64()]], t: [a[4], a[5]] }
}
/// 3x3 homogeneous 2D transform: bottom row must be exactly (0,0,1)
fn t2_from_h9<T: Fl>(a: &[T; 9], ty: &str, op: &str) -> Result<T2<T>, Fail> {
    for (i, e) in [(2usize, 0.0), (5, 0.0), (8, 1.0)] {
        if a[i].to_f64() != e {
            return Err(fail(ty, op, format!("bottom row entry {} is {:e}, expected {}", i / 3, a[i].to_f64(), e)));
        }
    }
    Ok(T2 { b: [[a[0].to_f64(), a[3].to_f64()], [a[1].to_f64(), a[4].to_f64()]], t: [a[6], a[7]] })
}

/// IEEE value equality lane by lane (a product with exact zeros turns -0 into +0)
fn vals_eq<T: Fl, const N: usize>(ty: &str, op: &str, what: &str, got: &[T; N], exp: &[T; N], ctx: &dyn Fn() -> String) -> Result<(), Fail> {
    for i in 0..N {
        if got[i].to_f64() != exp[i].to_f64() {
            return Err(fail(ty, op, format!("{what}[{i}] = {:?} is not equal to {:?}; {}", got[i], exp[i], ctx())));
        }
    }
    Ok(())
}

fn bits_eq<T: Fl, const N: usize>(ty: &str, op: &str, what: &str, got: &[T; N], exp: &[T; N], ctx: &dyn Fn() -> String) -> Result<(), Fail> {
    for i in 0..N {
        if got[i].bits() != exp[i].bits() {
            return Err(fail(ty, op, format!("{what}[{i}] = {:?} (0x{:x}) is not bit-equal to {:?} (0x{:x}); {}", got[i], got[i].bits(), exp[i], exp[i].bits(), ctx())));
        }
    }
    Ok(())
}

/// |got - ref| <= ku * S per entry; entries with S = 0 must be exactly zero
fn cmp3(t: &mut Tally, key: &str, ty: &str, op: &str, got: &G3, exp: &M3, s: &M3, ku: f64, ctx: &dyn Fn() -> String) -> Result<(), Fail> {
    let mut worst = 0.0f64;
    for r in 0..3 {
        for c in 0..3 {
            let err = dd(got[r][c]).sub(exp[r][c]).abs().f();
            let tol = ku * s[r][c].f();
            if !(err <= tol) {
                return Err(fail(ty, op, format!("entry (row {r}, col {c}) = {:e}, reference {:e}, |diff| {:.3e} > tolerance {:.3e}; {}", got[r][c], exp[r][c].f(), err, tol, ctx())));
            }
            if tol > 0.0 {
                worst = worst.max(err / tol);
            }
        }
    }
    t.ratio(key, worst);
    Ok(())
}
fn cmp2(t: &mut Tally, key: &str, ty: &str, op: &str, got: &G2, exp: &[[DD; 2]; 2], ku: f64, ctx: &dyn Fn() -> String) -> Result<(), Fail> {
    let mut worst = 0.0f64;
    for r in 0..2 {
        for c in 0..2 {
            let err = dd(got[r][c]).sub(exp[r][c]).abs().f();
            let tol = ku * exp[r][c].abs().f();
            if !(err <= tol) {
                return Err(fail(ty, op, format!("entry (row {r}, col {c}) = {:e}, reference {:e}, |diff| {:.3e} > tolerance {:.3e}; {}", got[r][c], exp[r][c].f(), err, tol, ctx())));
            }
            if tol > 0.0 {
                worst = worst.max(err / tol);
            }
        }
    }
    t.ratio(key, worst);
    Ok(())
}

fn exact3(ty: &str, op: &str, got: &G3, exp: &G3, ctx: &dyn Fn() -> String) -> Result<(), Fail> {
    for r in 0..3 {
        for c in 0..3 {
            if got[r][c] != exp[r][c] {
                return Err(fail(ty, op, format!("entry (row {r}, col {c}) = {:e}, expected exactly {:e}; {}", got[r][c], exp[r][c], ctx())));
            }
        }
    }
    Ok(())
}
fn exact2(ty: &str, op: &str, got: &G2, exp: &G2, ctx: &dyn Fn() -> String) -> Result<(), Fail> {
    for r in 0..2 {
        for c in 0..2 {
            if got[r][c] != exp[r][c] {
                return Err(fail(ty, op, format!("entry (row {r}, col {c}) = {:e}, expected exactly {:e}; {}", got[r][c], exp[r][c], ctx())));
            }
        }
    }
    Ok(())
}

const SIGNS3: [&str; 8] = ["+++", "-++", "+-+", "--+", "++-", "-+-", "+--", "---"];
const SIGNS2: [&str; 4] = ["++", "-+", "+-", "--"];

/// a magnitude within 1e-12 of a power of two is that power of two (the generator asks for exact ones through their logarithm)
fn pow2_snap(m: f64) -> f64 {
    let p = 2f64.powi(m.log2().round() as i32);
    if (m - p).abs() <= 1e-12 * p {
        p
    } else {
        m
    }
}

fn angle_strat() -> BoxedStrategy<f64> {
    let pi = std::f64::consts::PI;
    prop_oneof![
        8 => -pi..pi,
        1 => (-4i32..=4, -1e-3f64..1e-3).prop_map(|(m, e)| m as f64 * std::f64::consts::FRAC_PI_2 + e),
        1 => (-4i32..=4).prop_map(|m| m as f64 * std::f64::consts::FRAC_PI_2),
        1 => -4.0 * pi..4.0 * pi,
    ]
    .boxed()
}
/// log10 of a scale magnitude: log-uniform over 1e-3..1e3, exactly one, and one plus or minus 10^-j (a transform that
/// is rigid to within a tolerance but not exactly: where a shortcut keyed on "the axes are normalised" would fire)
fn sexp_strat() -> BoxedStrategy<f64> {
    prop_oneof![
        8 => -3.0f64..3.0,
        1 => Just(0.0f64),
        3 => (2.0f64..7.5, any::<bool>()).prop_map(|(j, neg)| (1.0 + 10f64.powf(-j) * if neg { -1.0 } else { 1.0 }).log10()),
    ]
    .boxed()
}
/// translations: ordinary, spread over the exponent range, +-0
fn tr_strat() -> BoxedStrategy<f64> {
    prop_oneof![
        4 => -10.0f64..10.0,
        2 => (any::<bool>(), -20.0f64..20.0).prop_map(|(n, e)| if n { -(10f64.powf(e)) } else { 10f64.powf(e) }),
        1 => Just(0.0f64),
        1 => Just(-0.0f64),
    ]
    .boxed()
}
/// (kind, u1, u2, u3, e) of refm::branch_quat
fn quat_strat() -> BoxedStrategy<(u64, f64, f64, f64, f64)> {
    (prop_oneof![4 => Just(0u64), 2 => Just(1u64), 1 => Just(2u64), 1 => Just(3u64), 1 => Just(4u64), 1 => Just(5u64), 1 => Just(6u64)], 0.0f64..1.0, 0.0f64..1.0, 0.0f64..1.0, -9.0f64..-0.5).boxed()
}

macro_rules! family {
    ($m:ident, $T:ident, $Q:ident, $V3:ident, $V2:ident, $M2:ident, $M3:ident, $M3A:ident, $M4:ident, $A2:ident, $A3:ident, $has3a:expr) => {
        pub mod $m {
            use super::*;
            pub type T = $T;
            pub const FAM: &str = <T as Fl>::FAM;
            pub const U: f64 = <T as Fl>::U;
            pub const HAS3A: bool = $has3a;
            const TM2: &str = stringify!($M2);
            const TM3: &str = stringify!($M3);
            const TM3A: &str = stringify!($M3A);
            const TM4: &str = stringify!($M4);
            const TA2: &str = stringify!($A2);
            const TA3: &str = stringify!($A3);

            /// rotation block of from_quat relative to S = sum |terms| of 1 - 2(yy + zz) / 2(xy - zw): product, sum, 1 - ...
            /// (3 roundings) and the scale product (1) -> 4u, + 2 per DESIGN, rounded up
            const K_C3: f64 = 8.0;
            /// 2D entry cos * s: trigonometric value (1 ulp = 2u) + product (u) = 3u; twice that
            const K_C2: f64 = 6.0;
            /// |s'_i| against the exact column norm: 3 squares, 2 sums, sqrt -> 2.5u; twice that rounded up (calibration 2.8u vs |s_i|)
            const K_S: f64 = 6.0;
            /// recomposition per column norm (DESIGN calibration: 6.6 observed)
            const K_R: f64 = 32.0;

            fn q_arr(q: $Q) -> [f64; 4] {
                let a = q.to_array();
                [a[0].to_f64(), a[1].to_f64(), a[2].to_f64(), a[3].to_f64()]
            }
            fn scale3(w: &[u64]) -> (usize, [T; 3]) {
                let sp = (w[0] & 7) as usize;
                let mut s = [T::from_f64(1.0); 3];
                for i in 0..3 {
                    let m = pow2_snap(10f64.powf(fin(w[1 + i]).clamp(-3.0, 3.0)));
                    s[i] = T::from_f64(if sp >> i & 1 == 1 { -m } else { m });
                }
                (sp, s)
            }
            fn scale2(w: &[u64]) -> (usize, [T; 2]) {
                let sp = (w[0] & 3) as usize;
                let mut s = [T::from_f64(1.0); 2];
                for i in 0..2 {
                    let m = 10f64.powf(fin(w[1 + i]).clamp(-3.0, 3.0));
                    s[i] = T::from_f64(if sp >> i & 1 == 1 { -m } else { m });
                }
                (sp, s)
            }
            fn quat(w: &[u64]) -> [T; 4] {
                let q = refm::branch_quat(w[0].min(6), fin(w[1]), fin(w[2]), fin(w[3]), fin(w[4]));
                [T::from_f64(q[0]), T::from_f64(q[1]), T::from_f64(q[2]), T::from_f64(q[3])]
            }
            /// T * R * S: (value, sum |terms|) of the linear block for scale s and (stored) quaternion q
            fn trs_block(q: &Q, s: &[T; 3]) -> (M3, M3) {
                let (rp, rs) = refm::q_to_m3_poly(q);
                let mut m = rp;
                let mut ms = rs;
                for r in 0..3 {
                    for c in 0..3 {
                        m[r][c] = rp[r][c].mul(dd(s[c].to_f64()));
                        ms[r][c] = rs[r][c].mul(dd(s[c].to_f64()).abs());
                    }
                }
                (m, ms)
            }

            // ------------------------------------------------------------------ (1) 3D composition
            /// words: sign pattern, e0, e1, e2 (|s_i| = 10^e_i), quaternion kind, u1, u2, u3, e, tx, ty, tz
            pub fn check_compose3(w: &[u64], t: &mut Tally) -> Result<(), Fail> {
                let (sp, s) = scale3(&w[0..4]);
                let qt = quat(&w[4..9]);
                let tr: [T; 3] = [T::from_f64(fin(w[9])), T::from_f64(fin(w[10])), T::from_f64(fin(w[11]))];
                let qd = q_of(&[qt[0].to_f64(), qt[1].to_f64(), qt[2].to_f64(), qt[3].to_f64()]);
                t.eval(1);
                t.class(&format!("compose3:signs:{}", SIGNS3[sp]));
                let (rp, rs) = refm::q_to_m3_poly(&qd);
                let (br, _) = refm::quat_branch(&rp);
                t.class(&format!("compose3:rotation-branch:{}", br));
                if sp != 0 || br != "w" {
                    t.nontrivial(mix(hash_str(FAM), mix(hash_str(VARIANT), fnv(w))));
                    if t.want_sample() {
                        t.sample(json!({"sub": "compose-3d", "family": FAM, "variant": VARIANT, "scale": format!("{:?}", s), "rotation": format!("{:?}", qt), "translation": format!("{:?}", tr), "words": hexwords(w)}));
                    }
                }
                let ctx = || format!("scale={:?} rotation={:?} translation={:?}", s, qt, tr);
                let (sv, qv, tv) = ($V3::new(s[0], s[1], s[2]), $Q::from_xyzw(qt[0], qt[1], qt[2], qt[3]), $V3::new(tr[0], tr[1], tr[2]));
                let (em, es) = trs_block(&qd, &s);
                let zero3 = [T::from_f64(0.0); 3];
                let ident: G3 = [[1.0, 0.0, 0.0], [0.0, 1.0, 0.0], [0.0, 0.0, 1.0]];
                let diag: G3 = [[s[0].to_f64(), 0.0, 0.0], [0.0, s[1].to_f64(), 0.0], [0.0, 0.0, s[2].to_f64()]];
                // an arbitrary linear block for from_mat3 / from_mat3_translation: the reference R*S rounded into the type
                let mut c9 = [T::from_f64(0.0); 9];
                let mut blk: G3 = [[0.0; 3]; 3];
                for c in 0..3 {
                    for r in 0..3 {
                        c9[c * 3 + r] = T::from_f64(em[r][c].f());
                        blk[r][c] = c9[c * 3 + r].to_f64();
                    }
                }
                let m3v = $M3::from_cols_array(&c9);

                macro_rules! forms {
                    ($ty:expr, $X:ident, $dec:expr) => {{
                        let dec = $dec;
                        // from_scale_rotation_translation = T * R * S
                        let g: T3<T> = dec($X::from_scale_rotation_translation(sv, qv, tv), "from_scale_rotation_translation")?;
                        cmp3(t, "compose3/scale-rotation-translation", $ty, "from_scale_rotation_translation", &g.b, &em, &es, K_C3 * U, &ctx)?;
                        bits_eq($ty, "from_scale_rotation_translation", "translation", &g.t, &tr, &ctx)?;
                        let srt_block = g.b;
                        // from_rotation_translation = T * R
                        let g: T3<T> = dec($X::from_rotation_translation(qv, tv), "from_rotation_translation")?;
                        cmp3(t, "compose3/rotation-translation", $ty, "from_rotation_translation", &g.b, &rp, &rs, K_C3 * U, &ctx)?;
                        bits_eq($ty, "from_rotation_translation", "translation", &g.t, &tr, &ctx)?;
                        // from_quat = R
                        let g: T3<T> = dec($X::from_quat(qv), "from_quat")?;
                        cmp3(t, "compose3/quat", $ty, "from_quat", &g.b, &rp, &rs, K_C3 * U, &ctx)?;
                        bits_eq($ty, "from_quat", "translation", &g.t, &zero3, &ctx)?;
                        // from_scale = S, from_translation = T: exact
                        let g: T3<T> = dec($X::from_scale(sv), "from_scale")?;
                        exact3($ty, "from_scale", &g.b, &diag, &ctx)?;
                        bits_eq($ty, "from_scale", "translation", &g.t, &zero3, &ctx)?;
                        let g: T3<T> = dec($X::from_translation(tv), "from_translation")?;
                        exact3($ty, "from_translation", &g.b, &ident, &ctx)?;
                        bits_eq($ty, "from_translation", "translation", &g.t, &tr, &ctx)?;
                        // from_mat3 / from_mat3_translation move the block and the translation unchanged
                        let g: T3<T> = dec($X::from_mat3(m3v), "from_mat3")?;
                        exact3($ty, "from_mat3", &g.b, &blk, &ctx)?;
                        bits_eq($ty, "from_mat3", "translation", &g.t, &zero3, &ctx)?;
                        let g: T3<T> = dec($X::from_mat3_translation(m3v, tv), "from_mat3_translation")?;
                        exact3($ty, "from_mat3_translation", &g.b, &blk, &ctx)?;
                        bits_eq($ty, "from_mat3_translation", "translation", &g.t, &tr, &ctx)?;
                        // the documented product, evaluated by glam itself: from_translation * from_quat * from_scale.
                        // R * S only multiplies every rotation entry by one scale (the other terms are exact zeros): <= 2u apart
                        let p: T3<T> = dec($X::from_translation(tv) * $X::from_quat(qv) * $X::from_scale(sv), "from_translation*from_quat*from_scale")?;
                        let mut pm = [[refm::Z; 3]; 3];
                        for r in 0..3 {
                            for c in 0..3 {
                                pm[r][c] = dd(p.b[r][c]);
                            }
                        }
                        cmp3(t, "compose3/documented-product", $ty, "from_scale_rotation_translation(vs product of elementary constructors)", &srt_block, &pm, &refm::abs3(&pm), 4.0 * U, &ctx)?;
                        vals_eq($ty, "from_translation*from_quat*from_scale", "translation", &p.t, &tr, &ctx)?;
                        srt_block
                    }};
                }
                let b4 = forms!(TM4, $M4, |m: $M4, op: &str| t3_from_cols16(&m.to_cols_array(), TM4, op));
                let ba = forms!(TA3, $A3, |m: $A3, _op: &str| -> Result<T3<T>, Fail> { Ok(t3_from_cols12(&m.to_cols_array())) });
                // the two types agree
                let mut pm = [[refm::Z; 3]; 3];
                for r in 0..3 {
                    for c in 0..3 {
                        pm[r][c] = dd(b4[r][c]);
                    }
                }
                cmp3(t, "compose3/types-agree", TA3, "from_scale_rotation_translation(vs Mat4)", &ba, &pm, &es, 2.0 * K_C3 * U, &ctx)?;
                Ok(())
            }

            pub fn strat_compose3(with_source: bool) -> BoxedStrategy<Vec<u64>> {
                // a tenth of the cases: nearly (not exactly) uniform scale of any size, |s_i| = |s_0| (1 +- 10^-j), where a shortcut
                // for "uniform" keyed on an absolute difference would merge them
                let near_uniform = (0u8..10, 5.0f64..15.5, 5.0f64..15.5, any::<bool>(), any::<bool>());
                (0u64..8, (sexp_strat(), sexp_strat(), sexp_strat()), near_uniform, quat_strat(), (tr_strat(), tr_strat(), tr_strat()), 0u64..2)
                    .prop_map(move |(sp, e, nu, q, tr, src)| {
                        let e = if nu.0 == 0 {
                            let d = |j: f64, neg: bool| (1.0 + 10f64.powf(-j) * if neg { -1.0 } else { 1.0 }).log10();
                            (e.0, e.0 + d(nu.1, nu.3), e.0 + d(nu.2, nu.4))
                        } else if nu.0 == 1 {
                            // another tenth: volume-preserving scales 2^a, 2^b, 2^-(a+b) (exact; `scale3` snaps to the power of two):
                            // with an exact rotation the determinant is exactly +-1 although the map is not rigid
                            let l2 = 2f64.log10();
                            let k = |x: f64| ((x - 5.0) / 10.5 * 9.0).floor().clamp(0.0, 8.0) - 4.0;
                            let (a, b) = (k(nu.1), k(nu.2));
                            (a * l2, b * l2, -(a + b) * l2)
                        } else {
                            e
                        };
                        let mut w = vec![sp, e.0.to_bits(), e.1.to_bits(), e.2.to_bits(), q.0, q.1.to_bits(), q.2.to_bits(), q.3.to_bits(), q.4.to_bits(), tr.0.to_bits(), tr.1.to_bits(), tr.2.to_bits()];
                        if with_source {
                            w.push(src);
                        }
                        w
                    })
                    .boxed()
            }

            // ------------------------------------------------------------------ (2) 2D composition
            /// words: sign pattern, e0, e1, angle, tx, ty
            pub fn check_compose2(w: &[u64], t: &mut Tally) -> Result<(), Fail> {
                let (sp, s) = scale2(&w[0..3]);
                let angle = T::from_f64(fin(w[3]));
                let tr: [T; 2] = [T::from_f64(fin(w[4])), T::from_f64(fin(w[5]))];
                t.eval(1);
                t.class(&format!("compose2:signs:{}", SIGNS2[sp]));
                if sp != 0 && angle.to_f64() != 0.0 {
                    t.nontrivial(mix(hash_str(FAM), mix(hash_str(VARIANT), fnv(w))));
                    if t.want_sample() {
                        t.sample(json!({"sub": "compose-2d", "family": FAM, "variant": VARIANT, "scale": format!("{:?}", s), "angle": format!("{:?}", angle), "translation": format!("{:?}", tr), "words": hexwords(w)}));
                    }
                }
                let ctx = || format!("scale={:?} angle={:?} translation={:?}", s, angle, tr);
                let (sn, cs) = refm::sincos(dd(angle.to_f64()));
                let (sx, sy) = (dd(s[0].to_f64()), dd(s[1].to_f64()));
                // R(angle) * diag(s): columns (cos, sin) * sx and (-sin, cos) * sy
                let rs: [[DD; 2]; 2] = [[cs.mul(sx), sn.neg().mul(sy)], [sn.mul(sx), cs.mul(sy)]];
                let r: [[DD; 2]; 2] = [[cs, sn.neg()], [sn, cs]];
                let (sv, tv) = ($V2::new(s[0], s[1]), $V2::new(tr[0], tr[1]));
                let zero2 = [T::from_f64(0.0); 2];
                let ident: G2 = [[1.0, 0.0], [0.0, 1.0]];
                let diag: G2 = [[s[0].to_f64(), 0.0], [0.0, s[1].to_f64()]];
                let m2v = $M2::from_cols_array(&[T::from_f64(rs[0][0].f()), T::from_f64(rs[1][0].f()), T::from_f64(rs[0][1].f()), T::from_f64(rs[1][1].f())]);
                let m2a = m2v.to_cols_array();
                let blk: G2 = [[m2a[0].to_f64(), m2a[2].to_f64()], [m2a[1].to_f64(), m2a[3].to_f64()]];
                // Mat2::from_scale_angle
                {
                    let a = $M2::from_scale_angle(sv, angle).to_cols_array();
                    let g: G2 = [[a[0].to_f64(), a[2].to_f64()], [a[1].to_f64(), a[3].to_f64()]];
                    cmp2(t, "compose2/scale-angle", TM2, "from_scale_angle", &g, &rs, K_C2 * U, &ctx)?;
                }
                // Affine2
                {
                    let g = t2_from_cols6(&$A2::from_scale_angle_translation(sv, angle, tv).to_cols_array());
                    cmp2(t, "compose2/scale-angle-translation", TA2, "from_scale_angle_translation", &g.b, &rs, K_C2 * U, &ctx)?;
                    bits_eq(TA2, "from_scale_angle_translation", "translation", &g.t, &tr, &ctx)?;
                    let sat = g.b;
                    let g = t2_from_cols6(&$A2::from_angle_translation(angle, tv).to_cols_array());
                    cmp2(t, "compose2/angle-translation", TA2, "from_angle_translation", &g.b, &r, K_C2 * U, &ctx)?;
                    bits_eq(TA2, "from_angle_translation", "translation", &g.t, &tr, &ctx)?;
                    let g = t2_from_cols6(&$A2::from_angle(angle).to_cols_array());
                    cmp2(t, "compose2/angle", TA2, "from_angle", &g.b, &r, K_C2 * U, &ctx)?;
                    bits_eq(TA2, "from_angle", "translation", &g.t, &zero2, &ctx)?;
                    let g = t2_from_cols6(&$A2::from_scale(sv).to_cols_array());
                    exact2(TA2, "from_scale", &g.b, &diag, &ctx)?;
                    bits_eq(TA2, "from_scale", "translation", &g.t, &zero2, &ctx)?;
                    let g = t2_from_cols6(&$A2::from_translation(tv).to_cols_array());
                    exact2(TA2, "from_translation", &g.b, &ident, &ctx)?;
                    bits_eq(TA2, "from_translation", "translation", &g.t, &tr, &ctx)?;
                    let g = t2_from_cols6(&$A2::from_mat2(m2v).to_cols_array());
                    exact2(TA2, "from_mat2", &g.b, &blk, &ctx)?;
                    bits_eq(TA2, "from_mat2", "translation", &g.t, &zero2, &ctx)?;
                    let g = t2_from_cols6(&$A2::from_mat2_translation(m2v, tv).to_cols_array());
                    exact2(TA2, "from_mat2_translation", &g.b, &blk, &ctx)?;
                    bits_eq(TA2, "from_mat2_translation", "translation", &g.t, &tr, &ctx)?;
                    // the documented product evaluated by glam
                    let p = t2_from_cols6(&($A2::from_translation(tv) * $A2::from_angle(angle) * $A2::from_scale(sv)).to_cols_array());
                    let pm: [[DD; 2]; 2] = [[dd(p.b[0][0]), dd(p.b[0][1])], [dd(p.b[1][0]), dd(p.b[1][1])]];
                    cmp2(t, "compose2/documented-product", TA2, "from_scale_angle_translation(vs product of elementary constructors)", &sat, &pm, 4.0 * U, &ctx)?;
                    vals_eq(TA2, "from_translation*from_angle*from_scale", "translation", &p.t, &tr, &ctx)?;
                }
                // Mat3 / Mat3A as homogeneous 2D transforms
                macro_rules! h3 {
                    ($ty:expr, $X:ident) => {{
                        let g = t2_from_h9(&$X::from_scale_angle_translation(sv, angle, tv).to_cols_array(), $ty, "from_scale_angle_translation")?;
                        cmp2(t, "compose2/scale-angle-translation", $ty, "from_scale_angle_translation", &g.b, &rs, K_C2 * U, &ctx)?;
                        bits_eq($ty, "from_scale_angle_translation", "translation", &g.t, &tr, &ctx)?;
                        let g = t2_from_h9(&$X::from_angle(angle).to_cols_array(), $ty, "from_angle")?;
                        cmp2(t, "compose2/angle", $ty, "from_angle", &g.b, &r, K_C2 * U, &ctx)?;
                        bits_eq($ty, "from_angle", "translation", &g.t, &zero2, &ctx)?;
                        let g = t2_from_h9(&$X::from_scale(sv).to_cols_array(), $ty, "from_scale")?;
                        exact2($ty, "from_scale", &g.b, &diag, &ctx)?;
                        bits_eq($ty, "from_scale", "translation", &g.t, &zero2, &ctx)?;
                        let g = t2_from_h9(&$X::from_translation(tv).to_cols_array(), $ty, "from_translation")?;
                        exact2($ty, "from_translation", &g.b, &ident, &ctx)?;
                        bits_eq($ty, "from_translation", "translation", &g.t, &tr, &ctx)?;
                        let g = t2_from_h9(&$X::from_mat2(m2v).to_cols_array(), $ty, "from_mat2")?;
                        exact2($ty, "from_mat2", &g.b, &blk, &ctx)?;
                        bits_eq($ty, "from_mat2", "translation", &g.t, &zero2, &ctx)?;
                    }};
                }
                h3!(TM3, $M3);
                if HAS3A {
                    h3!(TM3A, $M3A);
                }
                Ok(())
            }

            pub fn strat_compose2(with_source: bool) -> BoxedStrategy<Vec<u64>> {
                (0u64..4, sexp_strat(), sexp_strat(), angle_strat(), tr_strat(), tr_strat(), 0u64..2)
                    .prop_map(move |(sp, e0, e1, a, tx, ty, src)| {
                        let mut w = vec![sp, e0.to_bits(), e1.to_bits(), a.to_bits(), tx.to_bits(), ty.to_bits()];
                        if with_source {
                            w.push(src);
                        }
                        w
                    })
                    .boxed()
            }

            // ------------------------------------------------------------------ (3) 3D decomposition
            /// words: as compose-3d + source (0: the reference T*R*S rounded into the type; 1: glam's own from_scale_rotation_translation)
            pub fn check_decompose3(w: &[u64], t: &mut Tally) -> Result<(), Fail> {
                let (sp, s) = scale3(&w[0..4]);
                let qt = quat(&w[4..9]);
                let tr: [T; 3] = [T::from_f64(fin(w[9])), T::from_f64(fin(w[10])), T::from_f64(fin(w[11]))];
                let src = w[12].min(1);
                let qd = q_of(&[qt[0].to_f64(), qt[1].to_f64(), qt[2].to_f64(), qt[3].to_f64()]);
                t.eval(1);
                // the exact transform: rotation of the normalised quaternion times the scale
                let rn = refm::q_to_m3(&qd);
                let neg = (sp.count_ones() % 2) == 1;
                // the rotation the decomposition has to report: columns of R*S divided by the reported scale
                // s' = (|sx| * sign(det), |sy|, |sz|): factors s_i / s'_i = +-1
                let f = [if (sp & 1 == 1) != neg { -1.0 } else { 1.0 }, if sp >> 1 & 1 == 1 { -1.0 } else { 1.0 }, if sp >> 2 & 1 == 1 { -1.0 } else { 1.0 }];
                let mut reff = rn;
                for r in 0..3 {
                    for c in 0..3 {
                        reff[r][c] = refm::scale2(rn[r][c], f[c]);
                    }
                }
                let (br, bdist) = refm::quat_branch(&reff);
                t.class(&format!("decompose3:branch:{}|signs:{}", br, SIGNS3[sp]));
                if bdist < 1e-3 {
                    t.class("decompose3:within-1e-3-of-a-branch-boundary");
                }
                t.class(["decompose3:source:reference-rounded", "decompose3:source:self-produced"][src as usize]);
                if sp != 0 || br != "w" {
                    t.nontrivial(mix(hash_str(FAM), mix(hash_str(VARIANT), fnv(w))));
                    if t.want_sample() {
                        t.sample(json!({"sub": "decompose-3d", "family": FAM, "variant": VARIANT, "scale": format!("{:?}", s), "rotation": format!("{:?}", qt), "translation": format!("{:?}", tr), "branch": br, "signs": SIGNS3[sp], "words": hexwords(w)}));
                    }
                }
                let ctx = || format!("scale={:?} rotation={:?} translation={:?} source={}", s, qt, tr, src);
                // A composition made by glam from a quaternion that is unit only to rounding is not exactly shear-free:
                // the from_quat polynomial of q = (1 + e) q^ is R^ + 2e (R^ - I). With nu = | |q|^2 - 1 | the column norms
                // are off by <= 2 nu relative and no (scale, rotation) pair reproduces the columns better than 2 nu;
                // the tolerances of the self-produced source carry that term (twice the bound). nu is exact per case.
                let nu = if src == 1 { qd[0].mul(qd[0]).add(qd[1].mul(qd[1])).add(qd[2].mul(qd[2])).add(qd[3].mul(qd[3])).sub(refm::ONE).abs().f() } else { 0.0 };
                t.ratio("info:input-quaternion-norm-deviation nu/(16u)", nu / (16.0 * U));
                let (sv, qv, tv) = ($V3::new(s[0], s[1], s[2]), $Q::from_xyzw(qt[0], qt[1], qt[2], qt[3]), $V3::new(tr[0], tr[1], tr[2]));
                let mut c16 = [T::from_f64(0.0); 16];
                let mut c12 = [T::from_f64(0.0); 12];
                for c in 0..3 {
                    for r in 0..3 {
                        let v = T::from_f64(rn[r][c].mul(dd(s[c].to_f64())).f());
                        c16[c * 4 + r] = v;
                        c12[c * 3 + r] = v;
                    }
                    c16[12 + c] = tr[c];
                    c12[9 + c] = tr[c];
                }
                c16[15] = T::from_f64(1.0);

                macro_rules! dec {
                    ($ty:expr, $X:ident, $input:expr, $decode:expr) => {{
                        let m: $X = $input;
                        let decode = $decode;
                        let g: T3<T> = decode(m, "input")?;
                        let (s2, r2, t2) = m.to_scale_rotation_translation();
                        let (s2a, t2a) = (s2.to_array(), t2.to_array());
                        let r2a = q_arr(r2);
                        let op = "to_scale_rotation_translation";
                        let ctx2 = || format!("returned scale={:?} rotation={:?} translation={:?}; matrix={:?}; {}", s2a, r2a, t2a, m, ctx());
                        // translation: bit-equal to the last column
                        bits_eq($ty, op, "translation", &t2a, &g.t, &ctx2)?;
                        // unit rotation
                        let r2d = q_of(&r2a);
                        let n = refm::qnorm(&r2d).sub(refm::ONE).abs().f();
                        // the axes handed to the matrix -> quaternion conversion are columns * 1/|column|: norm (2.5u), reciprocal (u),
                        // product (u) = 4.5u relative, which |q| inherits; tolerance twice that, rounded up
                        let tol = 10.0 * U;
                        if !(n <= tol) {
                            return Err(fail($ty, op, format!("rotation is not unit: | |q| - 1 | = {:.3e} > {:.3e}; {}", n, tol, ctx2())));
                        }
                        t.ratio("decompose3/unit-rotation", n / tol);
                        // scale magnitudes: the column norms of the matrix, hence |s_i| of the composition
                        let mut cn = [0.0f64; 3];
                        for c in 0..3 {
                            let nn = dd(g.b[0][c]).mul(dd(g.b[0][c])).add(dd(g.b[1][c]).mul(dd(g.b[1][c]))).add(dd(g.b[2][c]).mul(dd(g.b[2][c]))).sqrt();
                            cn[c] = nn.f();
                            let e = dd(s2a[c].to_f64().abs()).sub(nn).abs().f() / nn.f();
                            if !(e <= K_S * U) {
                                return Err(fail($ty, op, format!("|scale[{c}]| = {:e} differs from the column norm {:e} by {:.3e} relative > {:.3e}; {}", s2a[c].to_f64().abs(), nn.f(), e, K_S * U, ctx2())));
                            }
                            t.ratio("decompose3/scale-vs-column-norm", e / (K_S * U));
                            // against the scale the transform was composed from: the column carries up to (K_C3 + 1) u more
                            let so = s[c].to_f64().abs();
                            let e = (s2a[c].to_f64().abs() - so).abs() / so;
                            let tol = (K_S + K_C3 + 2.0) * U + 4.0 * nu;
                            if !(e <= tol) {
                                return Err(fail($ty, op, format!("|scale[{c}]| = {:e} differs from the composed |scale| {:e} by {:.3e} relative > {:.3e}; {}", s2a[c].to_f64().abs(), so, e, tol, ctx2())));
                            }
                            t.ratio("decompose3/scale-vs-composed", e / tol);
                        }
                        // sign rule: determinant negative <=> exactly the x scale is negative
                        let det = refm::det3(&[[dd(g.b[0][0]), dd(g.b[0][1]), dd(g.b[0][2])], [dd(g.b[1][0]), dd(g.b[1][1]), dd(g.b[1][2])], [dd(g.b[2][0]), dd(g.b[2][1]), dd(g.b[2][2])]]).f();
                        if (det < 0.0) != neg {
                            return Err(fail($ty, "input", format!("harness: determinant sign {det:e} does not match the sign pattern; {}", ctx2())));
                        }
                        let signs_ok = (s2a[0].to_f64() < 0.0) == neg && s2a[0].to_f64() != 0.0 && s2a[1].to_f64() > 0.0 && s2a[2].to_f64() > 0.0;
                        if !signs_ok {
                            return Err(fail($ty, op, format!("sign rule violated: det = {:e}, expected {} x scale and positive y, z scales; {}", det, if neg { "a negative" } else { "a positive" }, ctx2())));
                        }
                        // recomposition with the reference: T(t') * R(r') * S(s') reproduces the matrix, per column norm.
                        // R(r') is the rotation of r' (normalised: its unit length is checked above, and the from_quat
                        // polynomial would turn a deviation nu' of |r'|^2 from 1 into a 2 nu' column error of its own).
                        let rr = refm::q_to_m3(&r2d);
                        let mut em = rr;
                        for r in 0..3 {
                            for c in 0..3 {
                                em[r][c] = rr[r][c].mul(dd(s2a[c].to_f64()));
                            }
                        }
                        let nu2 = r2d[0].mul(r2d[0]).add(r2d[1].mul(r2d[1])).add(r2d[2].mul(r2d[2])).add(r2d[3].mul(r2d[3])).sub(refm::ONE).abs().f();
                        for c in 0..3 {
                            let mut e = 0.0f64;
                            for r in 0..3 {
                                e = e.max(dd(g.b[r][c]).sub(em[r][c]).abs().f());
                            }
                            let tol = (K_R * U + 4.0 * nu) * cn[c];
                            if !(e <= tol) {
                                return Err(fail($ty, op, format!("recomposing (scale, rotation, translation) misses column {c} of the matrix by {:.3e} > {:.3e} (= {} u x column norm {:.3e}); {}", e, tol, K_R, cn[c], ctx2())));
                            }
                            t.ratio(if src == 0 { "decompose3/recompose/reference-rounded" } else { "decompose3/recompose/self-produced" }, e / tol);
                        }
                        // and through glam's own constructor
                        let back: T3<T> = decode($X::from_scale_rotation_translation(s2, r2, t2), "from_scale_rotation_translation")?;
                        bits_eq($ty, "from_scale_rotation_translation(to_scale_rotation_translation)", "translation", &back.t, &g.t, &ctx2)?;
                        for c in 0..3 {
                            let mut e = 0.0f64;
                            for r in 0..3 {
                                e = e.max((back.b[r][c] - g.b[r][c]).abs());
                            }
                            let tol = ((K_R + K_C3) * U + 4.0 * nu + 4.0 * nu2) * cn[c];
                            if !(e <= tol) {
                                return Err(fail($ty, "from_scale_rotation_translation(to_scale_rotation_translation)", format!("round trip misses column {c} by {:.3e} > {:.3e}; {}", e, tol, ctx2())));
                            }
                            t.ratio("decompose3/glam-roundtrip", e / tol);
                        }
                    }};
                }
                dec!(TM4, $M4, if src == 0 { $M4::from_cols_array(&c16) } else { $M4::from_scale_rotation_translation(sv, qv, tv) }, |m: $M4, op: &str| t3_from_cols16(&m.to_cols_array(), TM4, op));
                dec!(TA3, $A3, if src == 0 { $A3::from_cols_array(&c12) } else { $A3::from_scale_rotation_translation(sv, qv, tv) }, |m: $A3, _op: &str| -> Result<T3<T>, Fail> { Ok(t3_from_cols12(&m.to_cols_array())) });
                Ok(())
            }

            // ------------------------------------------------------------------ (4) 2D decomposition
            /// words: sign pattern, e0, e1, angle, tx, ty, source
            pub fn check_decompose2(w: &[u64], t: &mut Tally) -> Result<(), Fail> {
                let (sp, s) = scale2(&w[0..3]);
                let angle = T::from_f64(fin(w[3]));
                let tr: [T; 2] = [T::from_f64(fin(w[4])), T::from_f64(fin(w[5]))];
                let src = w[6].min(1);
                t.eval(1);
                t.class(&format!("decompose2:signs:{}", SIGNS2[sp]));
                t.class(["decompose2:source:reference-rounded", "decompose2:source:self-produced"][src as usize]);
                if sp != 0 {
                    t.nontrivial(mix(hash_str(FAM), mix(hash_str(VARIANT), fnv(w))));
                    if t.want_sample() {
                        t.sample(json!({"sub": "decompose-2d", "family": FAM, "variant": VARIANT, "scale": format!("{:?}", s), "angle": format!("{:?}", angle), "translation": format!("{:?}", tr), "signs": SIGNS2[sp], "words": hexwords(w)}));
                    }
                }
                let neg = (sp.count_ones() % 2) == 1;
                let ctx = || format!("scale={:?} angle={:?} translation={:?} source={}", s, angle, tr, src);
                let (mut sn, mut cs) = refm::sincos(dd(angle.to_f64()));
                // an exact multiple of a quarter turn (the generator emits k * FRAC_PI_2 as such): the reference-rounded source is
                // then the exact matrix, with true zeros, as a transform assembled from columns has them
                {
                    let a64 = fin(w[3]);
                    let k = (a64 / std::f64::consts::FRAC_PI_2).round();
                    if a64 == k * std::f64::consts::FRAC_PI_2 && k.abs() <= 8.0 {
                        let (s_, c_) = [(0.0, 1.0), (1.0, 0.0), (0.0, -1.0), (-1.0, 0.0)][(k as i64).rem_euclid(4) as usize];
                        sn = dd(s_);
                        cs = dd(c_);
                        if src == 0 {
                            t.class("decompose2:exact quarter turn assembled from columns");
                        }
                    }
                }
                let (sx, sy) = (dd(s[0].to_f64()), dd(s[1].to_f64()));
                let c6 = [T::from_f64(cs.mul(sx).f()), T::from_f64(sn.mul(sx).f()), T::from_f64(sn.neg().mul(sy).f()), T::from_f64(cs.mul(sy).f()), tr[0], tr[1]];
                let m = if src == 0 { $A2::from_cols_array(&c6) } else { $A2::from_scale_angle_translation($V2::new(s[0], s[1]), angle, $V2::new(tr[0], tr[1])) };
                let g = t2_from_cols6(&m.to_cols_array());
                let (s2, a2, t2) = m.to_scale_angle_translation();
                let (s2a, t2a) = (s2.to_array(), t2.to_array());
                let op = "to_scale_angle_translation";
                let ctx2 = || format!("returned scale={:?} angle={:?} translation={:?}; matrix={:?}; {}", s2a, a2, t2a, m, ctx());
                bits_eq(TA2, op, "translation", &t2a, &g.t, &ctx2)?;
                let a2f = a2.to_f64();
                if !(a2f.is_finite() && a2f.abs() <= std::f64::consts::PI * (1.0 + 2.0 * U)) {
                    return Err(fail(TA2, op, format!("angle {:e} is not in [-pi, pi]; {}", a2f, ctx2())));
                }
                let mut cn = [0.0f64; 2];
                for c in 0..2 {
                    let nn = dd(g.b[0][c]).mul(dd(g.b[0][c])).add(dd(g.b[1][c]).mul(dd(g.b[1][c]))).sqrt();
                    cn[c] = nn.f();
                    let e = dd(s2a[c].to_f64().abs()).sub(nn).abs().f() / nn.f();
                    if !(e <= K_S * U) {
                        return Err(fail(TA2, op, format!("|scale[{c}]| = {:e} differs from the column norm {:e} by {:.3e} relative > {:.3e}; {}", s2a[c].to_f64().abs(), nn.f(), e, K_S * U, ctx2())));
                    }
                    t.ratio("decompose2/scale-vs-column-norm", e / (K_S * U));
                    let so = s[c].to_f64().abs();
                    let e = (s2a[c].to_f64().abs() - so).abs() / so;
                    let tol = (K_S + K_C2 + 2.0) * U;
                    if !(e <= tol) {
                        return Err(fail(TA2, op, format!("|scale[{c}]| = {:e} differs from the composed |scale| {:e} by {:.3e} relative > {:.3e}; {}", s2a[c].to_f64().abs(), so, e, tol, ctx2())));
                    }
                    t.ratio("decompose2/scale-vs-composed", e / tol);
                }
                let signs_ok = (s2a[0].to_f64() < 0.0) == neg && s2a[0].to_f64() != 0.0 && s2a[1].to_f64() > 0.0;
                if !signs_ok {
                    return Err(fail(TA2, op, format!("sign rule violated: expected {} x scale and a positive y scale; {}", if neg { "a negative" } else { "a positive" }, ctx2())));
                }
                // recomposition with the reference: R(angle') * diag(s')
                let (sn2, cs2) = refm::sincos(dd(a2f));
                let (sx2, sy2) = (dd(s2a[0].to_f64()), dd(s2a[1].to_f64()));
                let em: [[DD; 2]; 2] = [[cs2.mul(sx2), sn2.neg().mul(sy2)], [sn2.mul(sx2), cs2.mul(sy2)]];
                for c in 0..2 {
                    let mut e = 0.0f64;
                    for r in 0..2 {
                        e = e.max(dd(g.b[r][c]).sub(em[r][c]).abs().f());
                    }
                    let tol = K_R * U * cn[c];
                    if !(e <= tol) {
                        return Err(fail(TA2, op, format!("recomposing (scale, angle, translation) misses column {c} of the matrix by {:.3e} > {:.3e} (= {} u x column norm {:.3e}); {}", e, tol, K_R, cn[c], ctx2())));
                    }
                    t.ratio(if src == 0 { "decompose2/recompose/reference-rounded" } else { "decompose2/recompose/self-produced" }, e / tol);
                }
                let back = t2_from_cols6(&$A2::from_scale_angle_translation(s2, a2, t2).to_cols_array());
                bits_eq(TA2, "from_scale_angle_translation(to_scale_angle_translation)", "translation", &back.t, &g.t, &ctx2)?;
                for c in 0..2 {
                    let mut e = 0.0f64;
                    for r in 0..2 {
                        e = e.max((back.b[r][c] - g.b[r][c]).abs());
                    }
                    let tol = (K_R + K_C2) * U * cn[c];
                    if !(e <= tol) {
                        return Err(fail(TA2, "from_scale_angle_translation(to_scale_angle_translation)", format!("round trip misses column {c} by {:.3e} > {:.3e}; {}", e, tol, ctx2())));
                    }
                    t.ratio("decompose2/glam-roundtrip", e / tol);
                }
                Ok(())
            }

            pub fn subs<'a>(out: &mut Vec<SubCheck<'a>>) {
                out.push(SubCheck::new(
                    format!("compose-3d/{}/{}", FAM, VARIANT),
                    4,
                    |env: &mut Env| {
                        let n = env.cases(100_000, 40);
                        env.prop("compose3", n, strat_compose3(false), &check_compose3);
                    },
                    check_compose3,
                ));
                out.push(SubCheck::new(
                    format!("compose-2d/{}/{}", FAM, VARIANT),
                    2,
                    |env: &mut Env| {
                        let n = env.cases(100_000, 40);
                        env.prop("compose2", n, strat_compose2(false), &check_compose2);
                    },
                    check_compose2,
                ));
                out.push(SubCheck::new(
                    format!("decompose-3d/{}/{}", FAM, VARIANT),
                    8,
                    |env: &mut Env| {
                        let n = env.cases(8 * 4 * 3_000 * 2, 40);
                        env.prop("decompose3", n, strat_compose3(true), &check_decompose3);
                    },
                    check_decompose3,
                ));
                out.push(SubCheck::new(
                    format!("decompose-2d/{}/{}", FAM, VARIANT),
                    2,
                    |env: &mut Env| {
                        let n = env.cases(100_000, 40);
                        env.prop("decompose2", n, strat_compose2(true), &check_decompose2);
                    },
                    check_decompose2,
                ));
            }
        }
    };
}

family!(f32fam, f32, Quat, Vec3, Vec2, Mat2, Mat3, Mat3A, Mat4, Affine2, Affine3A, true);
family!(f64fam, f64, DQuat, DVec3, DVec2, DMat2, DMat3, DMat3, DMat4, DAffine2, DAffine3, false);

pub fn subs<'a>(_args: &Args) -> Vec<SubCheck<'a>> {
    let mut out = vec![];
    f32fam::subs(&mut out);
    f64fam::subs(&mut out);
    out
}
