//! C10 — not implemented yet.
fn main() {
    eprintln!("c10: not implemented");
    std::process::exit(2);
}
