//! C10 — scale-rotation-translation composition and decomposition are mutually consistent.
use vcore::*;

pub mod refm;

/// The two float widths of the types under test.
pub trait Fl: Copy + PartialOrd + std::fmt::Debug + 'static {
    /// unit roundoff (half an ulp of 1)
    const U: f64;
    /// machine epsilon as an f64
    const EPS: f64;
    const FAM: &'static str;
    fn from_f64(x: f64) -> Self;
    fn to_f64(self) -> f64;
    fn bits(self) -> u64;
    fn mul(self, o: Self) -> Self;
    /// `a / |a|` evaluated in this precision
    fn normalize3(a: [Self; 3]) -> [Self; 3];
}
impl Fl for f32 {
    const U: f64 = vcore::num::U32;
    const EPS: f64 = f32::EPSILON as f64;
    const FAM: &'static str = "f32";
    #[inline] fn from_f64(x: f64) -> f32 { x as f32 }
    #[inline] fn to_f64(self) -> f64 { self as f64 }
    #[inline] fn bits(self) -> u64 { self.to_bits() as u64 }
    #[inline] fn mul(self, o: f32) -> f32 { self * o }
    #[inline] fn normalize3(a: [f32; 3]) -> [f32; 3] {
        let n = (a[0] * a[0] + a[1] * a[1] + a[2] * a[2]).sqrt();
        [a[0] / n, a[1] / n, a[2] / n]
    }
}
impl Fl for f64 {
    const U: f64 = vcore::num::U64;
    const EPS: f64 = f64::EPSILON;
    const FAM: &'static str = "f64";
    #[inline] fn from_f64(x: f64) -> f64 { x }
    #[inline] fn to_f64(self) -> f64 { self }
    #[inline] fn bits(self) -> u64 { self.to_bits() }
    #[inline] fn mul(self, o: f64) -> f64 { self * o }
    #[inline] fn normalize3(a: [f64; 3]) -> [f64; 3] {
        let n = (a[0] * a[0] + a[1] * a[1] + a[2] * a[2]).sqrt();
        [a[0] / n, a[1] / n, a[2] / n]
    }
}

#[cfg(not(feature = "core"))]
mod simd {
    pub const VARIANT: &str = "simd";
    use ::glam_simd as glam;
    include!("suite.rs");
}
#[cfg(not(feature = "core"))]
mod scalar {
    pub const VARIANT: &str = "scalar";
    use ::glam_scalar as glam;
    include!("suite.rs");
}
/// scalar-math with `glam-assert`: the second pass for the scalar copies (a quarter of the volume)
#[cfg(not(feature = "core"))]
mod scalar_asserting {
    pub const VARIANT: &str = "scalar+glam-assert";
    use ::glam_scalar_assert as glam;
    include!("suite.rs");
}
#[cfg(not(feature = "core"))]
mod libmv {
    pub const VARIANT: &str = "libm";
    use ::glam_libm as glam;
    include!("suite.rs");
}
/// the same checks with `glam-assert` compiled in: every generated input satisfies the documented preconditions
/// (unit axes, pure rotations, non-zero scales), so a panic there is a failure
#[cfg(not(feature = "core"))]
mod asserting {
    pub const VARIANT: &str = "simd+glam-assert";
    use ::glam_assert as glam;
    include!("suite.rs");
}
#[cfg(feature = "core")]
mod core_simd {
    pub const VARIANT: &str = "core";
    use ::glam_core as glam;
    include!("suite.rs");
}
/// core-simd with `glam-assert`: the second pass for the portable-simd copies (a quarter of the volume)
#[cfg(feature = "core")]
mod core_asserting {
    pub const VARIANT: &str = "core+glam-assert";
    use ::glam_core_assert as glam;
    include!("suite.rs");
}

fn main() {
    let args = Args::parse();
    refm::self_test();
    let mut subs = vec![];
    #[cfg(not(feature = "core"))]
    {
        subs.extend(simd::subs(&args));
        subs.extend(scalar::subs(&args));
        subs.extend(libmv::subs(&args));
        subs.extend(asserting::subs(&args));
        subs.extend(scalar_asserting::subs(&args).into_iter().map(|s| s.with_div(4)));
    }
    #[cfg(feature = "core")]
    {
        subs.extend(core_simd::subs(&args));
        subs.extend(core_asserting::subs(&args).into_iter().map(|s| s.with_div(4)));
    }
    let code = main_with("C10", "see MANIFEST / evidence rule", &args, subs);
    std::process::exit(code);
}
