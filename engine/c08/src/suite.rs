use proptest::prelude::*;
use serde_json::json;
use vcore::lattice;
use vcore::*;

pub const NH: usize = 8; // hidden-lane values per world
pub const NW: usize = 48; // argument words per call
pub const MAXSTEPS: usize = 4;

const HIDDEN_TYPES: [&str; 4] = ["Vec3A", "Mat3A", "Affine3A", "BVec3A"];

fn relevant(e: &ApiEntry) -> bool {
    e.present && (HIDDEN_TYPES.contains(&e.ty) || HIDDEN_TYPES.iter().any(|t| e.sig.contains(t)))
}

fn hidden_class(h: u32) -> &'static str {
    let x = f32::from_bits(h);
    if h == 0xffff_ffff {
        "all-ones"
    } else if x.is_nan() {
        if h & 0x0040_0000 != 0 {
            "qnan"
        } else {
            "snan"
        }
    } else if x.is_infinite() {
        "inf"
    } else if x == 0.0 {
        "zero"
    } else if !x.is_normal() {
        "subnormal"
    } else {
        "finite"
    }
}

fn hidden_strategy() -> BoxedStrategy<u64> {
    let l: Vec<u64> = vec![
        0, 0x8000_0000, 0x3f80_0000, 0xbf80_0000, 0x7f80_0000, 0xff80_0000, 0x7fc0_0000, 0xffc0_0000, 0x7f80_0001, 0xff80_0001, 0xffff_ffff,
        1, 0x007f_ffff, 0x7f7f_ffff, 0xff7f_ffff, 0x0080_0000, 0x4b00_0000, 0xcb00_0000, 0x5f00_0000,
    ];
    prop_oneof![
        75 => proptest::sample::select(l),
        25 => any::<u32>().prop_map(|x| x as u64),
    ]
    .boxed()
}

/// visible lanes: lattice values, but with a good share of ordinary magnitudes so that reductions
/// (min/max/sum) are decided by the visible lanes unless the hidden one leaks in
fn visible() -> BoxedStrategy<u64> {
    prop_oneof![
        50 => lattice::lat_f32(),
        50 => (-1000i32..1000, 1u32..64).prop_map(|(a, b)| ((a as f32) / (b as f32)).to_bits() as u64),
    ]
    .boxed()
}

/// words: h1[NH] h2[NH] args[NW]
fn single_check(ty: &'static str) -> impl Fn(&[u64], &mut Tally) -> Result<(), Fail> + Sync {
    move |w: &[u64], t: &mut Tally| {
        let h1: Vec<u32> = w[0..NH].iter().map(|x| *x as u32).collect();
        let h2: Vec<u32> = w[NH..2 * NH].iter().map(|x| *x as u32).collect();
        let args = &w[2 * NH..];
        let c1 = hidden_class(h1[0]);
        let c2 = hidden_class(h2[0]);
        let nt = c1 != c2 && (c1 != "finite" && c1 != "zero" || c2 != "finite" && c2 != "zero");
        t.class(&format!("hidden:{c1}"));
        let (mut o0, mut o1, mut o2) = (Obs::new(), Obs::new(), Obs::new());
        for e in API.iter().filter(|e| relevant(e) && e.ty == ty) {
            t.eval(1);
            o0.clear();
            o1.clear();
            o2.clear();
            let r0 = vcore::catch(|| call(e.id, &mut Src::new(args), &mut o0));
            let r1 = vcore::catch(|| call(e.id, &mut Src::with_hidden(args, &h1), &mut o1));
            // second world: the hidden lane arrives through the raw-register `From` impl instead of `from_vec4`
            let r2 = vcore::catch(|| {
                let mut s2 = Src::with_hidden(args, &h2);
                s2.mk3a = Some(raw_inject);
                call(e.id, &mut s2, &mut o2)
            });
            if nt {
                t.nontrivial(mix(hash_str(VARIANT), mix(e.id as u64, fnv(w))));
                if t.want_sample() && e.id % 11 == 0 {
                    t.sample(json!({"variant": VARIANT, "call": format!("{} :: {}", e.ty, e.sig), "hidden_a": format!("0x{:x}", h1[0]), "hidden_b": format!("0x{:x}", h2[0]), "args": hexwords(&args[..12])}));
                }
            }
            let mk = |m: String| Fail::new(format!("C08/{}/{}/{}", VARIANT, e.ty, e.name), e.sig, m);
            match (&r0, &r1, &r2) {
                (Ok(_), Ok(_), Ok(_)) => {}
                _ => {
                    if r0.is_err() && r1.is_err() && r2.is_err() {
                        continue; // a panic that does not depend on the hidden lane is C18's business
                    }
                    return Err(mk(format!("panics depending on the hidden lane: new()={:?} hidden {:x?}={:?} hidden {:x?}={:?}", r0.is_err(), h1, r1.is_err(), h2, r2.is_err())));
                }
            }
            if !o0.same(&o1) || !o0.same(&o2) {
                return Err(mk(format!(
                    "result depends on the hidden lane: call #{} {} :: {}; with Vec3A::new: [{}]; hidden {:x?}: [{}]; hidden {:x?}: [{}]; arg words {:?}",
                    e.id, e.ty, e.sig, o0.describe(), h1, o1.describe(), h2, o2.describe(), hexwords(&args[..16])
                )));
            }
        }
        Ok(())
    }
}

fn relevant_ids() -> Vec<u32> {
    API.iter().filter(|e| relevant(e)).map(|e| e.id).collect()
}

/// words: nsteps, then per step: selector, args[NW]; preceded by h1[NH] h2[NH]
pub fn program_check(w: &[u64], t: &mut Tally) -> Result<(), Fail> {
    let h1: Vec<u32> = w[0..NH].iter().map(|x| *x as u32).collect();
    let h2: Vec<u32> = w[NH..2 * NH].iter().map(|x| *x as u32).collect();
    let nsteps = (w[2 * NH] as usize).min(MAXSTEPS);
    let ids = relevant_ids();
    let mut p1 = Pool::default();
    let mut p2 = Pool::default();
    let (mut o1, mut o2) = (Obs::new(), Obs::new());
    o1.keep = true;
    o2.keep = true;
    t.eval(1);
    t.class(&format!("program-len-{nsteps}"));
    let c1 = hidden_class(h1[0]);
    let c2 = hidden_class(h2[0]);
    if nsteps >= 2 && c1 != c2 && (c1 != "finite" && c1 != "zero" || c2 != "finite" && c2 != "zero") {
        t.nontrivial(mix(hash_str(VARIANT), fnv(w)));
    }
    let mut trace: Vec<String> = vec![];
    for st in 0..nsteps {
        let base = 2 * NH + 1 + st * (NW + 1);
        let sel = w[base];
        // monotone index mapping (shrinks towards the first entries)
        let id = ids[((sel as u128 * ids.len() as u128) >> 16).min(ids.len() as u128 - 1) as usize];
        let args = &w[base + 1..base + 1 + NW];
        let e = &API[id as usize];
        trace.push(format!("{} :: {}", e.ty, e.sig));
        o1.clear();
        o2.clear();
        let mut s1 = Src::with_hidden(args, &h1);
        s1.pool = Some(&p1);
        let mut s2 = Src::with_hidden(args, &h2);
        s2.pool = Some(&p2);
        s2.mk3a = Some(raw_inject);
        let r1 = vcore::catch(|| call(id, &mut s1, &mut o1));
        let r2 = vcore::catch(|| call(id, &mut s2, &mut o2));
        let mk = |m: String| Fail::new(format!("C08/{}/{}/{}", VARIANT, e.ty, e.name), format!("program step {st}: {}", e.sig), m);
        if r1.is_err() != r2.is_err() {
            return Err(mk(format!("panic depends on the hidden lane; program {:?}", trace)));
        }
        if r1.is_err() {
            break;
        }
        if !o1.same(&o2) {
            return Err(mk(format!("step {st} of program {:?} differs between hidden-lane worlds {:x?} / {:x?}: [{}] vs [{}]", trace, h1, h2, o1.describe(), o2.describe())));
        }
        if t.want_sample() && st == nsteps - 1 && nsteps >= 3 {
            t.sample(json!({"variant": VARIANT, "program": trace, "hidden_a": format!("{:x?}", h1), "hidden_b": format!("{:x?}", h2)}));
        }
        let add = |p: &mut Pool, o: &Obs| {
            p.v3a.extend(o.pool.v3a.iter().copied());
            p.m3a.extend(o.pool.m3a.iter().copied());
            p.a3a.extend(o.pool.a3a.iter().copied());
            p.b3a.extend(o.pool.b3a.iter().copied());
        };
        add(&mut p1, &o1);
        add(&mut p2, &o2);
    }
    Ok(())
}

pub fn subs<'a>(_args: &Args) -> Vec<SubCheck<'a>> {
    let mut out = vec![];
    let mut types: Vec<&'static str> = API.iter().filter(|e| relevant(e)).map(|e| e.ty).collect();
    types.sort();
    types.dedup();
    for ty in types {
        let n_entries = API.iter().filter(|e| relevant(e) && e.ty == ty).count() as u64;
        out.push(SubCheck::new(
            format!("single/{}/{}", ty, VARIANT),
            if n_entries > 100 { 4 } else { 1 },
            move |env: &mut Env| {
                let n = env.cases(4000, 30);
                env.tally.notes.insert("api_entries".into(), json!(n_entries));
                let st = (proptest::collection::vec(hidden_strategy(), 2 * NH), vcore::lattice::with_related_operands(proptest::collection::vec(visible(), NW).boxed(), 32)).prop_map(|(mut h, a)| {
                    h.extend(a);
                    h
                });
                env.prop("single", n, st, &single_check(ty));
            },
            single_check(ty),
        ));
    }
    out.push(SubCheck::new(
        format!("program/{}", VARIANT),
        8,
        |env: &mut Env| {
            let n = env.cases(50_000, 30);
            let step = (0u64..65536, proptest::collection::vec(visible(), NW)).prop_map(|(s, a)| {
                let mut v = vec![s];
                v.extend(a);
                v
            });
            let st = (proptest::collection::vec(hidden_strategy(), 2 * NH), proptest::collection::vec(step, 0..=MAXSTEPS)).prop_map(|(mut h, steps)| {
                h.push(steps.len() as u64);
                for s in steps {
                    h.extend(s);
                }
                // pad so that the check can always index
                h.resize(2 * NH + 1 + MAXSTEPS * (NW + 1), 0);
                h
            });
            env.prop("program", n, st, &program_check);
        },
        program_check,
    ));
    out
}
