//! C08 — the unused fourth lane of Vec3A/Mat3A/Affine3A/BVec3A never influences a result.
#![allow(deprecated, unused_braces)]
use vcore::*;

#[cfg(not(feature = "core"))]
mod simd {
    pub const VARIANT: &str = "simd";
    use ::glam_simd as glam;
    include!(concat!(env!("CARGO_MANIFEST_DIR"), "/../apisupport/api_support.rs"));
    include!(concat!(env!("CARGO_MANIFEST_DIR"), "/../gen/api_table_sse2.rs"));
    include!("suite.rs");
}
#[cfg(feature = "core")]
mod core_simd {
    pub const VARIANT: &str = "core";
    use ::glam_core as glam;
    include!(concat!(env!("CARGO_MANIFEST_DIR"), "/../apisupport/api_support.rs"));
    include!(concat!(env!("CARGO_MANIFEST_DIR"), "/../gen/api_table_coresimd.rs"));
    include!("suite.rs");
}

fn main() {
    let args = Args::parse();
    let mut subs = vec![];
    #[cfg(not(feature = "core"))]
    subs.extend(simd::subs(&args));
    #[cfg(feature = "core")]
    subs.extend(core_simd::subs(&args));
    std::process::exit(main_with("C08", "", &args, subs));
}
