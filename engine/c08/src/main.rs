//! C08 — the unused fourth lane of Vec3A/Mat3A/Affine3A/BVec3A never influences a result.
#![allow(deprecated, unused_braces)]
#![cfg_attr(feature = "core", feature(portable_simd))]
use vcore::*;

#[cfg(not(feature = "core"))]
pub mod simd {
    pub const VARIANT: &str = "simd";
    use ::glam_simd as glam;
    include!(concat!(env!("CARGO_MANIFEST_DIR"), "/../apisupport/api_support.rs"));
    include!(concat!(env!("CARGO_MANIFEST_DIR"), "/../gen/api_table_sse2.rs"));
    /// hidden lane injected through the raw-register conversion `From<__m128>`
    pub fn raw_inject(x: f32, y: f32, z: f32, h: u32) -> Vec3A {
        Vec3A::from(unsafe { core::arch::x86_64::_mm_set_ps(f32::from_bits(h), z, y, x) })
    }
    include!("suite.rs");
}
/// the same with `glam-assert` compiled in: whether an assertion fires is an outcome like any other, and must not
/// depend on the padding lane either (half of the volume)
#[cfg(not(feature = "core"))]
pub mod simd_asserting {
    pub const VARIANT: &str = "simd+glam-assert";
    use ::glam_assert as glam;
    include!(concat!(env!("CARGO_MANIFEST_DIR"), "/../apisupport/api_support.rs"));
    include!(concat!(env!("CARGO_MANIFEST_DIR"), "/../gen/api_table_sse2.rs"));
    pub fn raw_inject(x: f32, y: f32, z: f32, h: u32) -> Vec3A {
        Vec3A::from(unsafe { core::arch::x86_64::_mm_set_ps(f32::from_bits(h), z, y, x) })
    }
    include!("suite.rs");
}
#[cfg(feature = "core")]
mod core_asserting {
    pub const VARIANT: &str = "core+glam-assert";
    use ::glam_core_assert as glam;
    include!(concat!(env!("CARGO_MANIFEST_DIR"), "/../apisupport/api_support.rs"));
    include!(concat!(env!("CARGO_MANIFEST_DIR"), "/../gen/api_table_coresimd.rs"));
    pub fn raw_inject(x: f32, y: f32, z: f32, h: u32) -> Vec3A {
        Vec3A::from(core::simd::f32x4::from_array([x, y, z, f32::from_bits(h)]))
    }
    include!("suite.rs");
}
#[cfg(feature = "core")]
mod core_simd {
    pub const VARIANT: &str = "core";
    use ::glam_core as glam;
    include!(concat!(env!("CARGO_MANIFEST_DIR"), "/../apisupport/api_support.rs"));
    include!(concat!(env!("CARGO_MANIFEST_DIR"), "/../gen/api_table_coresimd.rs"));
    /// hidden lane injected through the raw-register conversion `From<f32x4>`
    pub fn raw_inject(x: f32, y: f32, z: f32, h: u32) -> Vec3A {
        Vec3A::from(core::simd::f32x4::from_array([x, y, z, f32::from_bits(h)]))
    }
    include!("suite.rs");
}

fn main() {
    let args = Args::parse();
    let mut subs = vec![];
    #[cfg(not(feature = "core"))]
    {
        subs.extend(simd::subs(&args));
        subs.extend(simd_asserting::subs(&args).into_iter().map(|s| s.with_div(2)));
    }
    #[cfg(feature = "core")]
    {
        subs.extend(core_simd::subs(&args));
        subs.extend(core_asserting::subs(&args).into_iter().map(|s| s.with_div(2)));
    }
    std::process::exit(main_with("C08", "", &args, subs));
}
