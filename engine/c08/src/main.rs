//! C08 — not implemented yet.
fn main() {
    eprintln!("c08: not implemented");
    std::process::exit(2);
}
