// per-variant bridge: runs one call of this variant's API table and returns a variant-independent observation
pub fn run(id: u32, w: &[u64], kinds: Option<&mut Vec<u8>>) -> Result<crate::CObs, String> {
    let mut s = Src::new(w);
    s.trace = kinds.is_some();
    let mut o = Obs::new();
    let r = vcore::catch(|| call(id, &mut s, &mut o));
    if let Some(k) = kinds {
        *k = std::mem::take(&mut s.kinds);
    }
    match r {
        Ok(true) => Ok(crate::CObs { w: o.w, k: o.k, g: o.g, strs: o.strs }),
        Ok(false) => Err("absent".into()),
        Err(m) => Err(format!("panic: {m}")),
    }
}
pub fn api() -> Vec<crate::ApiInfo> {
    API.iter().map(|e| crate::ApiInfo { id: e.id, ty: e.ty, name: e.name, sig: e.sig, width: e.width, present: e.present }).collect()
}
