// per-variant bridge: runs one call of this variant's API table and returns a variant-independent observation
pub fn run(id: u32, w: &[u64], kinds: Option<&mut Vec<u8>>) -> Result<crate::CObs, String> {
    // padding lanes of Vec3A / Mat3A / Affine3A / BVec3A arguments carry junk (it does not exist in the scalar build,
    // where `from_vec4` simply drops it): the SIMD result must not depend on it
    const JUNK: [u32; 8] = [0x7f80_0000, 0x7fc0_0000, 0xff80_0000, 0x7149_f2ca, 0x8000_0000, 0x0000_0001, 0xffff_ffff, 0x3f80_0000];
    let rot = (w.first().copied().unwrap_or(0) % 8) as usize;
    let mut junk = JUNK;
    junk.rotate_left(rot);
    let mut s = Src::with_hidden(w, &junk);
    s.trace = kinds.is_some();
    let mut o = Obs::new();
    let r = vcore::catch(|| call(id, &mut s, &mut o));
    if let Some(k) = kinds {
        *k = std::mem::take(&mut s.kinds);
    }
    match r {
        Ok(true) => Ok(crate::CObs { w: o.w, k: o.k, g: o.g, strs: o.strs }),
        Ok(false) => Err("absent".into()),
        Err(m) => Err(format!("panic: {m}")),
    }
}
pub fn api() -> Vec<crate::ApiInfo> {
    API.iter().map(|e| crate::ApiInfo { id: e.id, ty: e.ty, name: e.name, sig: e.sig, width: e.width, kind: e.kind, present: e.present }).collect()
}
