//! C07 — backend and build-configuration independence of all SIMD-backed types.
#![allow(deprecated, unused_braces)]
use proptest::prelude::*;
use proptest::strategy::ValueTree;
use proptest::test_runner::{Config, RngAlgorithm, RngSeed, TestRunner};
use serde_json::json;
use vcore::*;

/// variant-independent flattened observation of one call
#[derive(Clone, Debug, Default)]
pub struct CObs {
    pub w: Vec<u64>,
    pub k: Vec<u8>,
    pub g: Vec<u32>,
    pub strs: Vec<String>,
}
pub struct ApiInfo {
    pub id: u32,
    pub ty: &'static str,
    pub name: &'static str,
    pub sig: &'static str,
    pub width: u8,
    pub kind: u8,
    pub present: bool,
}
pub const K_F32: u8 = 0;
pub const K_F64: u8 = 1;
pub const K_STR: u8 = 3;

pub type RunFn = fn(u32, &[u64], Option<&mut Vec<u8>>) -> Result<CObs, String>;

mod simd {
    use ::glam_simd as glam;
    include!(concat!(env!("CARGO_MANIFEST_DIR"), "/../apisupport/api_support.rs"));
    include!(concat!(env!("CARGO_MANIFEST_DIR"), "/../gen/api_table_sse2.rs"));
    include!("bridge.rs");
}
mod scalar {
    use ::glam_scalar as glam;
    include!(concat!(env!("CARGO_MANIFEST_DIR"), "/../apisupport/api_support.rs"));
    include!(concat!(env!("CARGO_MANIFEST_DIR"), "/../gen/api_table_scalar.rs"));
    include!("bridge.rs");
}
#[cfg(feature = "core")]
mod core_simd {
    use ::glam_core as glam;
    include!(concat!(env!("CARGO_MANIFEST_DIR"), "/../apisupport/api_support.rs"));
    include!(concat!(env!("CARGO_MANIFEST_DIR"), "/../gen/api_table_coresimd.rs"));
    include!("bridge.rs");
}

pub const NW: usize = 48;
pub const MAXSTEPS: usize = 8;
const K: f64 = 16.0;
const EPS: f64 = 1.1920929e-7; // f32::EPSILON = 2u

const SIMD_TYPES: [&str; 10] = ["Vec3A", "Vec4", "Quat", "Mat2", "Mat3A", "Mat4", "Affine2", "Affine3A", "BVec3A", "BVec4A"];

fn mentions_simd_type(e: &ApiInfo) -> bool {
    if SIMD_TYPES.contains(&e.ty) {
        return true;
    }
    e.sig.split(|c: char| !c.is_alphanumeric()).any(|tok| SIMD_TYPES.contains(&tok))
}

/// entries compared between `test` and `reference`
fn entries(test: &[ApiInfo], reference: &[ApiInfo]) -> Vec<u32> {
    test.iter().zip(reference.iter()).filter(|(a, b)| a.present && b.present && a.width == 32 && mentions_simd_type(a)).map(|(a, _)| a.id).collect()
}

/// finite, moderate-magnitude words (products of a few of them neither overflow nor underflow) plus exact zeros
fn moderate() -> BoxedStrategy<u64> {
    prop_oneof![
        40 => (121u32..=133, 0u32..(1 << 23), any::<bool>()).prop_map(|(e, m, s)| (((s as u32) << 31) | (e << 23) | m) as u64),
        15 => (117u32..=137, 0u32..(1 << 23), any::<bool>()).prop_map(|(e, m, s)| (((s as u32) << 31) | (e << 23) | m) as u64),
        20 => (-8i32..=8, 0u8..3).prop_map(|(k, h)| ((k as f32) + [0.0f32, 0.5, 0.25][h as usize]).to_bits() as u64),
        10 => prop_oneof![Just(0u64), Just(0x8000_0000u64)],
        15 => proptest::sample::select(vec![1.0f32, -1.0, 0.5, 2.0, -2.0, 0.70710677, -0.70710677, 3.1415927, 1.5707964, 0.1, 10.0]).prop_map(|x| x.to_bits() as u64),
    ]
    .boxed()
}

/// the whole special-value lattice except NaN (the documentation leaves NaN propagation of min / max / clamp and the
/// horizontal reductions backend-specific): signed zeros, subnormals, infinities, huge values, ties, values >= 2^31
fn special_finite() -> BoxedStrategy<u64> {
    prop_oneof![
        50 => lattice::lat_f32().prop_map(|w| if f32::from_bits(w as u32).is_nan() { 0x7f80_0000 | (w & 0x8000_0000) } else { w }),
        50 => moderate(),
    ]
    .boxed()
}

#[inline]
fn f(w: u64) -> f32 {
    f32::from_bits(w as u32)
}

/// norm-wise perturbation of the float words (pattern 0 = all up, 1 = all down, otherwise hashed signs)
fn perturb(w: &[u64], kinds: &[u8], pattern: u64, seed: u64) -> Vec<u64> {
    let mut out = w.to_vec();
    let n = kinds.len().min(w.len());
    for i in 0..n {
        if kinds[i] != 1 {
            continue;
        }
        let x = f(w[i]);
        if !x.is_finite() {
            continue;
        }
        let mut norm = x.abs();
        for j in i.saturating_sub(3)..(i + 4).min(n) {
            if kinds[j] == 1 {
                let y = f(w[j]).abs();
                if y.is_finite() && y > norm {
                    norm = y;
                }
            }
        }
        let h = mix(mix(seed, pattern), i as u64);
        let sign = match pattern {
            0 => 1.0f32,
            1 => -1.0,
            _ => {
                if h & 1 == 0 {
                    1.0
                } else {
                    -1.0
                }
            }
        };
        let mag = 1.0 + ((h >> 8) % 5) as f32 * 0.25 * if pattern >= 10 { 3.0 } else { 1.0 }; // 1..2 eps (1..4 when escalated)
        let d = sign * mag * f32::EPSILON * norm;
        let y = x + d;
        // make sure a non-zero value really moves
        let y = if y == x && norm > 0.0 && x != 0.0 { f32::from_bits((x.to_bits() as i32 + if (d > 0.0) == (x > 0.0) { 1 } else { -1 }) as u32) } else { y };
        out[i] = y.to_bits() as u64;
    }
    out
}

pub enum Verdict {
    Ok { ratio: f64, boundary: bool, identical: bool, amplifies: bool },
    Bad(String),
}

fn describe(o: &CObs) -> String {
    let mut s = String::new();
    let mut si = 0;
    for i in 0..o.w.len() {
        match o.k[i] {
            K_F32 => s += &format!("{:?} ", f(o.w[i])),
            K_F64 => s += &format!("{:?} ", f64::from_bits(o.w[i])),
            K_STR => {
                s += &format!("{:?} ", o.strs.get(si));
                si += 1
            }
            _ => s += &format!("#{} ", o.w[i] as i64),
        }
    }
    s
}

/// Compare the test backend's observation with the reference's, given the reference's observations on perturbed inputs.
fn compare(t: &CObs, r: &CObs, pert: &[Result<CObs, String>], extra_abs: f64, exact_cls: u8) -> Verdict {
    let exact = exact_cls > 0;
    if t.strs != r.strs {
        return Verdict::Bad(format!("formatted output differs: {:?} vs reference {:?}", t.strs, r.strs));
    }
    let same_shape = |p: &CObs| p.k == r.k;
    if t.k != r.k {
        // discrete outcome (Option tag / length) differs: allowed only if the reference itself flips nearby
        let flips = pert.iter().any(|p| match p {
            Ok(p) => !same_shape(p),
            Err(_) => true,
        });
        if flips {
            return Verdict::Ok { ratio: 0.0, boundary: true, identical: false, amplifies: false };
        }
        return Verdict::Bad(format!("shape of the result differs: [{}] vs reference [{}]", describe(t), describe(r)));
    }
    let n = r.w.len();
    // per group: delta and scale
    let ng = r.g.iter().copied().max().unwrap_or(0) as usize + 1;
    let mut delta = vec![0.0f64; ng];
    let mut scale = vec![0.0f64; ng];
    let mut unstable = vec![false; ng];
    for i in 0..n {
        if r.k[i] == K_F32 {
            let b = f(r.w[i]) as f64;
            let g = r.g[i] as usize;
            if b.is_finite() {
                scale[g] = scale[g].max(b.abs());
            } else {
                unstable[g] = true;
            }
            for p in pert {
                match p {
                    Ok(p) if same_shape(p) => {
                        let c = f(p.w[i]) as f64;
                        if c.is_finite() && b.is_finite() {
                            delta[g] = delta[g].max((c - b).abs());
                        } else if !(c.is_nan() && b.is_nan()) && c != b {
                            unstable[g] = true;
                        }
                    }
                    _ => unstable[g] = true,
                }
            }
        }
    }
    // no correct digit: input perturbations of 1-4 eps move the reference result by a quarter of its own magnitude or
    // more (an exactly singular matrix, a pole, total cancellation). One backend may then land on the pole itself
    // (0 for the determinant, inf for the inverse) while the other lands beside it; nothing can be compared
    for g in 0..ng {
        if delta[g] > 0.25 * scale[g] && scale[g] > 0.0 {
            unstable[g] = true;
        }
    }
    let mut worst = 0.0f64;
    let mut boundary = false;
    let mut identical = true;
    let mut amplifies = false;
    for i in 0..n {
        if t.w[i] == r.w[i] {
            continue;
        }
        identical = false;
        match r.k[i] {
            K_F32 => {
                let (a, b) = (f(t.w[i]) as f64, f(r.w[i]) as f64);
                if a.is_nan() && b.is_nan() {
                    continue;
                }
                if a == b && exact_cls < 2 {
                    continue; // -0 vs +0
                }
                let g = r.g[i] as usize;
                if exact {
                    return Verdict::Bad(format!("element-wise / data-move operation differs between backends (no re-association slack applies): lane {i}: {:?} vs reference {:?}; [{}] vs reference [{}]", a, b, describe(t), describe(r)));
                }
                if unstable[g] {
                    boundary = true;
                    continue;
                }
                let tol = K * (delta[g] + 0.5 * EPS * scale[g]) + extra_abs;
                let d = (a - b).abs();
                let ratio = if d.is_finite() { d / tol } else { f64::INFINITY };
                if ratio > worst {
                    worst = ratio;
                }
            }
            K_F64 => {
                // f64 results of f32 arguments (as_dvec etc.) are exact conversions: must be identical
                return Verdict::Bad(format!("f64 result word {i} differs: [{}] vs reference [{}]", describe(t), describe(r)));
            }
            _ => {
                let flips = !exact
                    && pert.iter().any(|p| match p {
                        Ok(p) => !same_shape(p) || p.w[i] != r.w[i],
                        Err(_) => true,
                    });
                if flips {
                    boundary = true;
                } else {
                    return Verdict::Bad(format!("discrete result word {i} differs and the reference does not flip in the neighbourhood: [{}] vs reference [{}]", describe(t), describe(r)));
                }
            }
        }
    }
    for g in 0..ng {
        if delta[g] > 4.0 * EPS * scale[g] && scale[g] > 0.0 {
            amplifies = true;
        }
    }
    if worst > 1.0 {
        return Verdict::Bad(format!("differs by {:.3} x the re-association tolerance (K = {K}): [{}] vs reference [{}]", worst, describe(t), describe(r)));
    }
    Verdict::Ok { ratio: worst, boundary, identical, amplifies }
}

/// Element-wise operations and pure data moves: one rounding per element in every backend and no additions to
/// re-associate, so the slack the statement grants is zero and the backends must agree as IEEE values.
fn exact_class_bool(e: &ApiInfo) -> bool {
    const ELEMENTWISE_TYPES: [&str; 6] = ["Vec3A", "Vec4", "f32", "BVec3A", "BVec4A", "Vec3"];
    let toks: Vec<&str> = e.sig.split(|c: char| !c.is_alphanumeric()).filter(|t| !t.is_empty()).collect();
    if e.kind == 1 {
        let n = e.name;
        if ["Add", "Sub", "Neg", "AddAssign", "SubAssign", "Not", "BitAnd", "BitOr", "BitXor", "BitAndAssign", "BitOrAssign", "BitXorAssign", "PartialEq", "From",
            "AsRef", "AsMut", "Index", "IndexMut", "Deref", "DerefMut", "Default", "Hash", "fmt::Display", "fmt::Debug", "Sum"]
            .contains(&n)
        {
            return true;
        }
        if n.starts_with("swizzle::") {
            return true;
        }
        if ["Mul", "Div", "Rem", "MulAssign", "DivAssign", "RemAssign"].contains(&n) {
            // `impl Mul<X> for Y`: element-wise iff both sides are vectors / scalars, or a matrix-like type with a scalar
            let types: Vec<&str> = toks.iter().copied().filter(|t| t.chars().next().map_or(false, |c| c.is_uppercase()) || *t == "f32").filter(|t| !["Mul", "Div", "Rem", "MulAssign", "DivAssign", "RemAssign", "Self"].contains(t)).collect();
            let all_elementwise = types.iter().all(|t| ELEMENTWISE_TYPES.contains(t));
            let scalar_scaling = types.contains(&"f32") && types.iter().filter(|t| **t != "f32").count() == 1 && n != "Rem" && n != "RemAssign";
            return all_elementwise || scalar_scaling;
        }
        if n == "Product" {
            return ["Vec3A", "Vec4"].contains(&e.ty);
        }
        return false;
    }
    const EXACT: [&str; 92] = [
        "new", "splat", "select", "from_array", "to_array", "from_slice", "write_to_slice", "truncate", "extend", "with_x", "with_y", "with_z", "with_w", "min", "max",
        "clamp", "abs", "signum", "copysign", "floor", "ceil", "round", "trunc", "fract", "fract_gl", "recip", "cmpeq", "cmpne", "cmpge", "cmpgt", "cmple", "cmplt",
        "is_negative_bitmask", "is_finite", "is_finite_mask", "is_nan", "is_nan_mask", "min_element", "max_element", "min_position", "max_position", "div_euclid",
        "rem_euclid", "exp", "powf", "mul_add", "map", "midpoint", "from_cols", "from_cols_array", "to_cols_array", "from_cols_array_2d", "to_cols_array_2d",
        "from_cols_slice", "write_cols_to_slice", "from_diagonal", "col", "row", "col_mut", "transpose", "mul_scalar", "div_scalar", "add_mat2", "sub_mat2", "add_mat3",
        "sub_mat3", "add_mat4", "sub_mat4", "from_mat3", "from_mat3a", "from_mat4", "from_mat2", "from_mat3_minor", "from_mat3a_minor", "from_mat4_minor", "conjugate",
        "xyz", "from_xyzw", "from_vec4", "test", "set", "any", "all", "bitmask", "from_translation", "from_scale", "from_mat3_translation", "from_mat2_translation",
        "to_vec3", "to_vec3a", "is_nan_mask", "abs_diff_eq",
    ];
    if e.ty == "Quat" && ["from_mat3", "from_mat3a", "from_mat4"].contains(&e.name) {
        return false; // matrix -> quaternion takes square roots of sums
    }
    EXACT.contains(&e.name) || e.name.starts_with("as_")
}

/// 0 = tolerance class, 1 = element-wise, must agree as IEEE values (the SSE2 rounding family returns +0 where the
/// primitive returns -0, which the statement's value equality admits), 2 = IEEE arithmetic and data moves, whose
/// results are fully determined including the sign of zero: must agree bit for bit (all NaNs identified).
fn exact_class(e: &ApiInfo) -> u8 {
    if !exact_class_bool(e) {
        return 0;
    }
    const VALUE_ONLY: [&str; 19] = ["min", "max", "clamp", "min_element", "max_element", "floor", "ceil", "round", "trunc", "fract", "fract_gl", "div_euclid", "rem_euclid", "exp", "powf", "Rem", "RemAssign", "signum", "map"];
    if VALUE_ONLY.contains(&e.name) || e.name == "fmt::Display" || e.name == "fmt::Debug" {
        1
    } else {
        2
    }
}

/// documented approximation differences between backends get an absolute allowance (DESIGN.md section 4)
fn extra_abs(e: &ApiInfo) -> f64 {
    if e.ty == "Quat" && (e.name == "slerp" || e.name == "rotate_towards") {
        4e-6
    } else {
        0.0
    }
}

/// One lock-step operation: returns the reference observation (to be carried into the next step).
fn step(test: RunFn, reference: RunFn, api: &[ApiInfo], id: u32, args: &[u64], pseed: u64, t: &mut Tally, pair: &str) -> Result<Option<CObs>, Fail> {
    let e = &api[id as usize];
    let mut kinds = vec![];
    let r = reference(id, args, Some(&mut kinds));
    let tt = test(id, args, None);
    let mk = |m: String| Fail::new(format!("C07/{}/{}/{}", pair, e.ty, e.name), e.sig, format!("{m}; call #{} {} :: {}; arg words {:?}", e.id, e.ty, e.sig, hexwords(&args[..kinds.len().min(args.len())])));
    let (r, tt) = match (r, tt) {
        (Ok(r), Ok(tt)) => (r, tt),
        (Err(_), Err(_)) => return Ok(None),
        (a, b) => return Err(mk(format!("one backend panicked: reference {:?}, test {:?}", a.err(), b.err()))),
    };
    let mut pert: Vec<Result<CObs, String>> = (0..10u64).map(|p| reference(id, &perturb(args, &kinds, p, pseed), None)).collect();
    let exact = exact_class(e);
    if exact > 0 {
        t.class_n(if exact == 2 { "exact-class-ops (bitwise)" } else { "exact-class-ops (IEEE value)" }, 1);
    }
    let mut v = compare(&tt, &r, &pert, extra_abs(e), exact);
    if let Verdict::Bad(_) = v {
        // escalate: 256 further sign patterns with 1..4 eps magnitudes before anything is reported
        pert.extend((10..266u64).map(|p| reference(id, &perturb(args, &kinds, p, pseed), None)));
        v = compare(&tt, &r, &pert, extra_abs(e), exact);
        t.class("escalated");
    }
    match v {
        Verdict::Bad(m) => Err(mk(m)),
        Verdict::Ok { ratio, boundary, identical, amplifies } => {
            t.ratio(&format!("{}::{}", e.ty, e.name), ratio);
            if boundary {
                t.class("boundary");
            } else if identical {
                t.class("bit-identical");
            } else {
                t.class("differs-within-tolerance");
            }
            let discrete = r.k.iter().any(|k| *k >= 2);
            if !boundary && (amplifies || discrete || !identical) {
                t.nontrivial(mix(hash_str(pair), mix(id as u64, fnv(args))));
                if t.want_sample() && id % 13 == 0 {
                    t.sample(json!({"pair": pair, "call": format!("{} :: {}", e.ty, e.sig), "args": hexwords(&args[..kinds.len().min(12)]), "reference": describe(&r), "test": describe(&tt)}));
                }
            }
            Ok(Some(r))
        }
    }
}

/// words: nsteps, perturb_seed, then per step: selector, args[NW]
fn program_check(test: RunFn, reference: RunFn, api: &'static [ApiInfo], ids: &'static [u32], pair: &'static str) -> impl Fn(&[u64], &mut Tally) -> Result<(), Fail> + Sync {
    move |w: &[u64], t: &mut Tally| {
        let nsteps = (w[0] as usize).min(MAXSTEPS);
        let pseed = w[1];
        t.eval(1);
        t.class(&format!("program-len-{nsteps}"));
        let mut carry: Vec<u64> = vec![];
        for st in 0..nsteps {
            let base = 2 + st * (NW + 1);
            let sel = w[base];
            let id = ids[((sel as u128 * ids.len() as u128) >> 16).min(ids.len() as u128 - 1) as usize];
            let mut args: Vec<u64> = w[base + 1..base + 1 + NW].to_vec();
            if !carry.is_empty() {
                // resynchronisation: feed both backends the bit patterns the reference produced
                for j in 0..NW {
                    let h = mix(sel, j as u64);
                    if h % 2 == 0 {
                        args[j] = carry[(h >> 8) as usize % carry.len()];
                    }
                }
            }
            t.class_n("ops", 1);
            match step(test, reference, api, id, &args, pseed, t, pair)? {
                None => {}
                Some(r) => {
                    for i in 0..r.w.len() {
                        if r.k[i] == K_F32 {
                            let x = f(r.w[i]).abs();
                            if x == 0.0 || (x.is_finite() && x > 1.0 / 65536.0 && x < 65536.0) {
                                carry.push(r.w[i]);
                            }
                        }
                    }
                    if carry.len() > 64 {
                        let k = carry.len() - 64;
                        carry.drain(0..k);
                    }
                }
            }
        }
        Ok(())
    }
}

fn program_strategy() -> BoxedStrategy<Vec<u64>> {
    let step = (0u64..65536, proptest::collection::vec(moderate(), NW)).prop_map(|(s, a)| {
        let mut v = vec![s];
        v.extend(a);
        v
    });
    (any::<u32>(), proptest::collection::vec(step, 1..=MAXSTEPS))
        .prop_map(|(ps, steps)| {
            let mut h = vec![steps.len() as u64, ps as u64];
            for s in steps {
                h.extend(s);
            }
            h.resize(2 + MAXSTEPS * (NW + 1), 0);
            h
        })
        .boxed()
}

/// every compared entry at least `per` times as a single operation (words: id-index, perturb_seed, args[NW])
fn single_check(test: RunFn, reference: RunFn, api: &'static [ApiInfo], ids: &'static [u32], pair: &'static str) -> impl Fn(&[u64], &mut Tally) -> Result<(), Fail> + Sync {
    move |w: &[u64], t: &mut Tally| {
        let id = ids[(w[0] as usize).min(ids.len() - 1)];
        t.eval(1);
        step(test, reference, api, id, &w[2..2 + NW], w[1], t, pair).map(|_| ())
    }
}

// ---------------------------------------------------------------------------------------------
// (b) target-feature independence: a deterministic case stream is evaluated in every build and a
// hash per step is written to a side file; the driver compares the files of different builds.

fn lattice_or_moderate() -> BoxedStrategy<u64> {
    prop_oneof![60 => moderate(), 40 => lattice::lat_f32()].boxed()
}

fn canon_nan(w: u64, k: u8) -> u64 {
    if k == K_F32 && f(w).is_nan() {
        0x7fc0_0000
    } else if k == K_F64 && f64::from_bits(w).is_nan() {
        0x7ff8_0000_0000_0000
    } else {
        w
    }
}

fn obs_hash(o: &Result<CObs, String>) -> u64 {
    match o {
        Err(m) => hash_str(if m.starts_with("panic") { "panic" } else { "absent" }),
        Ok(o) => {
            // Rust leaves sign and payload of an arithmetic NaN result unspecified (they depend on operand order in
            // the instruction chosen), so "bit-for-bit" is decided with all NaNs identified
            let canon: Vec<u64> = (0..o.w.len()).map(|i| canon_nan(o.w[i], o.k[i])).collect();
            let mut h = fnv(&canon);
            for s in &o.strs {
                h = mix(h, hash_str(s));
            }
            mix(h, o.k.len() as u64)
        }
    }
}

/// evaluates an unsynchronised chain (outputs of this build feed the next step) and returns one hash per step
fn chain_eval(run: RunFn, ids: &[u32], w: &[u64]) -> Vec<u64> {
    let nsteps = (w[0] as usize).min(MAXSTEPS);
    let mut carry: Vec<u64> = vec![];
    let mut out = vec![];
    for st in 0..nsteps {
        let base = 2 + st * (NW + 1);
        let sel = w[base];
        let id = ids[((sel as u128 * ids.len() as u128) >> 16).min(ids.len() as u128 - 1) as usize];
        let mut args: Vec<u64> = w[base + 1..base + 1 + NW].to_vec();
        if !carry.is_empty() {
            for j in 0..NW {
                let h = mix(sel, j as u64);
                if h % 2 == 0 {
                    args[j] = carry[(h >> 8) as usize % carry.len()];
                }
            }
        }
        let r = run(id, &args, None);
        out.push(mix(obs_hash(&r), id as u64));
        if let Ok(r) = r {
            for i in 0..r.w.len() {
                if r.k[i] == K_F32 {
                    carry.push(canon_nan(r.w[i], K_F32));
                }
            }
            if carry.len() > 64 {
                let k = carry.len() - 64;
                carry.drain(0..k);
            }
        }
    }
    out
}

fn xbuild_strategy() -> BoxedStrategy<Vec<u64>> {
    let step = (0u64..65536, proptest::collection::vec(lattice_or_moderate(), NW)).prop_map(|(s, a)| {
        let mut v = vec![s];
        v.extend(a);
        v
    });
    proptest::collection::vec(step, 1..=MAXSTEPS)
        .prop_map(|steps| {
            let mut h = vec![steps.len() as u64, 0];
            for s in steps {
                h.extend(s);
            }
            h.resize(2 + MAXSTEPS * (NW + 1), 0);
            h
        })
        .boxed()
}

/// deterministic stream of cases from proptest's generator (no failure logic: the comparison happens across processes)
fn stream(seed: u64, n: usize, strat: &BoxedStrategy<Vec<u64>>) -> Vec<Vec<u64>> {
    let cfg = Config { failure_persistence: None, rng_algorithm: RngAlgorithm::ChaCha, rng_seed: RngSeed::Fixed(seed), ..Config::default() };
    let mut runner = TestRunner::new(cfg);
    (0..n).map(|_| strat.new_tree(&mut runner).expect("tree").current()).collect()
}

fn xbuild_sub<'a>(name: &'static str, run: RunFn, ids: &'static [u32], args: &'a Args) -> SubCheck<'a> {
    let out_base = args.out.clone();
    SubCheck::new(
        format!("xbuild/{name}"),
        8,
        move |env: &mut Env| {
            let n = env.cases(60_000, 20) as usize;
            let cases = stream(mix(mix(env.args.seed, hash_str(name)), env.shard as u64), n, &xbuild_strategy());
            let mut hashes: Vec<u64> = vec![];
            let mut offsets: Vec<u64> = vec![];
            for c in &cases {
                offsets.push(hashes.len() as u64);
                let hs = chain_eval(run, ids, c);
                env.tally.eval(1);
                if hs.len() >= 2 {
                    env.tally.nontrivial(fnv(c));
                }
                env.tally.class(&format!("chain-len-{}", hs.len()));
                hashes.extend(hs);
            }
            if env.tally.want_sample() {
                env.tally.sample(json!({"xbuild": name, "first_case_words": hexwords(&cases[0][..20]), "step_hashes": hexwords(&hashes[..hashes.len().min(4)])}));
            }
            if !out_base.is_empty() {
                let path = format!("{}.xbuild-{}-{}.bin", out_base, name, env.shard);
                let mut bytes: Vec<u8> = vec![];
                bytes.extend((cases.len() as u64).to_le_bytes());
                for o in &offsets {
                    bytes.extend(o.to_le_bytes());
                }
                for h in &hashes {
                    bytes.extend(h.to_le_bytes());
                }
                std::fs::write(&path, bytes).expect("write xbuild file");
                env.tally.notes.insert(format!("xbuild_file_{}", env.shard), json!(path));
            }
        },
        // replay: words = [case index as given by the driver is expanded there]; here: evaluate a chain and report its hashes as a "failure" message never - used via --xcase
        move |w: &[u64], _t: &mut Tally| {
            let hs = chain_eval(run, ids, w);
            Err(Fail::new("xbuild-hashes", name, hexwords(&hs).join(",")))
        },
    )
}

fn leak<T>(v: Vec<T>) -> &'static [T] {
    Box::leak(v.into_boxed_slice())
}

/// `C07_XCASE=<variant>:<shard>:<index>:<seed>:<n>` prints the words of one case of the xbuild stream (driver use)
fn xcase_mode() -> bool {
    let Ok(spec) = std::env::var("C07_XCASE") else { return false };
    let p: Vec<&str> = spec.split(':').collect();
    let (name, shard, index, seed, n): (&str, u64, usize, u64, usize) = (p[0], p[1].parse().unwrap(), p[2].parse().unwrap(), p[3].parse().unwrap(), p[4].parse().unwrap());
    let cases = stream(mix(mix(seed, hash_str(name)), shard), n.min(index + 1), &xbuild_strategy());
    println!("{}", serde_json::to_string(&hexwords(&cases[index])).unwrap());
    true
}

/// `C07_DUMP=<variant> <replay.json>`: print what each step of a chain observes in this build (diagnosis)
fn dump_mode() -> bool {
    let Ok(spec) = std::env::var("C07_DUMP") else { return false };
    let mut it = spec.split_whitespace();
    let (name, path) = (it.next().unwrap(), it.next().unwrap());
    let v: serde_json::Value = serde_json::from_str(&std::fs::read_to_string(path).unwrap()).unwrap();
    let w: Vec<u64> = v["words"].as_array().unwrap().iter().map(|x| u64::from_str_radix(x.as_str().unwrap().trim_start_matches("0x"), 16).unwrap()).collect();
    let sapi = scalar::api();
    let api = simd::api();
    let ids = entries(&api, &sapi);
    let run: RunFn = if name == "scalar" { scalar::run } else { simd::run };
    let nsteps = (w[0] as usize).min(MAXSTEPS);
    let mut carry: Vec<u64> = vec![];
    for st in 0..nsteps {
        let base = 2 + st * (NW + 1);
        let sel = w[base];
        let id = ids[((sel as u128 * ids.len() as u128) >> 16).min(ids.len() as u128 - 1) as usize];
        let mut args: Vec<u64> = w[base + 1..base + 1 + NW].to_vec();
        if !carry.is_empty() {
            for j in 0..NW {
                let h = mix(sel, j as u64);
                if h % 2 == 0 {
                    args[j] = carry[(h >> 8) as usize % carry.len()];
                }
            }
        }
        let mut kinds = vec![];
        let r = run(id, &args, Some(&mut kinds));
        println!("step {st}: #{} {} :: {}\n  args {:?}\n  -> {}", id, api[id as usize].ty, api[id as usize].sig, args[..kinds.len().min(args.len())].iter().map(|x| format!("{:?}", f(*x))).collect::<Vec<_>>(), match &r { Ok(o) => format!("{} | bits {:?}", describe(o), hexwords(&o.w)), Err(m) => m.clone() });
        if let Ok(r) = r {
            for i in 0..r.w.len() {
                if r.k[i] == K_F32 {
                    carry.push(canon_nan(r.w[i], K_F32));
                }
            }
        }
    }
    true
}

fn main() {
    if xcase_mode() || dump_mode() {
        return;
    }
    let args = Args::parse();
    let args: &'static Args = Box::leak(Box::new(args));
    let mut subs: Vec<SubCheck> = vec![];
    let sapi = leak(scalar::api());
    let mut pairs: Vec<(&'static str, RunFn, &'static [ApiInfo])> = vec![];
    #[cfg(not(feature = "core"))]
    pairs.push(("simd-vs-scalar", simd::run as RunFn, leak(simd::api())));
    #[cfg(feature = "core")]
    pairs.push(("core-vs-scalar", core_simd::run as RunFn, leak(core_simd::api())));
    for (pair, test, tapi) in pairs {
        let ids = leak(entries(tapi, sapi));
        let nids = ids.len();
        subs.push(SubCheck::new(
            format!("single/{pair}"),
            16,
            move |env: &mut Env| {
                // every entry `reps` times, sharded by entry index
                let reps = env.args.cases(100, 20);
                let r = env.my_range(nids as u64);
                env.tally.notes.insert("api_entries_compared".into(), json!(nids));
                let chk = single_check(test, scalar::run, tapi, ids, pair);
                for idx in r {
                    // element-wise / data-move operations need no conditioning analysis: they also get special (non-NaN) operands
                    let exact_op = exact_class(&tapi[ids[idx as usize] as usize]) > 0;
                    let words = if exact_op { special_finite() } else { moderate() };
                    // exact-class operations also see operand sets that are huge in every lane (sums and doublings overflow) or
                    // tiny in every lane (halvings and products lose bits to the subnormal range)
                    let all_huge = (250u32..=254, 0u32..(1 << 23), any::<bool>()).prop_map(|(e, m, s)| (((s as u32) << 31) | (e << 23) | m) as u64);
                    let all_tiny = (0u32..=2, 0u32..(1 << 23), any::<bool>()).prop_map(|(e, m, s)| (((s as u32) << 31) | (e << 23) | m) as u64);
                    let vecs = if exact_op {
                        prop_oneof![84 => proptest::collection::vec(words, NW), 8 => proptest::collection::vec(all_huge, NW), 8 => proptest::collection::vec(all_tiny, NW)].boxed()
                    } else {
                        proptest::collection::vec(words, NW).boxed()
                    };
                    let st = (any::<u32>(), lattice::with_related_operands(vecs, 32)).prop_map(move |(ps, a)| {
                        let mut v = vec![idx, ps as u64];
                        v.extend(a);
                        v
                    });
                    env.prop(&format!("single-{idx}"), reps as u32, st, &chk);
                    if env.failed() {
                        return;
                    }
                }
            },
            single_check(test, scalar::run, tapi, ids, pair),
        ));
        subs.push(SubCheck::new(
            format!("program/{pair}"),
            16,
            move |env: &mut Env| {
                let n = env.cases(60_000, 20);
                env.prop("program", n, program_strategy(), &program_check(test, scalar::run, tapi, ids, pair));
            },
            program_check(test, scalar::run, tapi, ids, pair),
        ));
    }
    // (b): the same source in another target-feature build must be bit-identical
    #[cfg(not(feature = "core"))]
    {
        let api = leak(simd::api());
        let ids = leak(entries(api, sapi));
        subs.push(xbuild_sub("simd", simd::run, ids, args));
        subs.push(xbuild_sub("scalar", scalar::run, ids, args));
    }
    std::process::exit(main_with("C07", "", args, subs));
}
