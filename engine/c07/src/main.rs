//! C07 — not implemented yet.
fn main() {
    eprintln!("c07: not implemented");
    std::process::exit(2);
}
