// Included once per glam variant (`glam` is aliased by the including module). Only glam calls and the tables of
// conversion edges live here; decoding, reference model and comparisons are in `logic.rs`.
#[allow(unused_imports)]
use crate::logic::{self, hexs, Cx, Fl, EK, RS, K, KX};
use crate::refm::*;
use glam::{Affine2, Affine3A, DAffine2, DAffine3, DMat2, DMat3, DMat4, DQuat, DVec2, DVec3, Mat2, Mat3, Mat3A, Mat4, Quat, Vec2, Vec3, Vec3A};
use serde_json::json;
use vcore::num::{U32, U64};
use vcore::*;

macro_rules! cx {
    ($t:expr, $ty:expr) => {
        &mut Cx { t: &mut *$t, variant: VARIANT, ty: $ty }
    };
}

fn block9<T: Copy>(c: &[T; 16]) -> [T; 9] {
    [c[0], c[1], c[2], c[4], c[5], c[6], c[8], c[9], c[10]]
}
fn block9a<T: Copy>(c: &[T; 12]) -> [T; 9] {
    [c[0], c[1], c[2], c[3], c[4], c[5], c[6], c[7], c[8]]
}

// ------------------------------------------------------------------------------------------
// rotations: quaternion <-> matrix in every form, round trips through every branch, composition, inversion
// ------------------------------------------------------------------------------------------

macro_rules! rot3a {
    (f32, $t:expr, $c:expr, $q:expr, $p:expr, $r:expr, $rqp:expr, $rt:expr, $eq:expr, $ec:expr, $ctx:expr) => {{
        let c = $c;
        let m = Mat3A::from_quat($q);
        logic::rot_entries::<f32>(cx!($t, "Mat3A"), "rot/from_quat-entries", "Mat3A::from_quat", &m.to_cols_array(), $r, 1.0, $eq, $ctx)?;
        logic::rot_action::<f32>(cx!($t, "Mat3A"), "Mat3A::from_quat(q) * Vec3A", &(m * Vec3A::from_array(c.v)).to_array(), $r, &c.v, 1.0, $eq, $ctx)?;
        logic::rot_action::<f32>(cx!($t, "Mat3A"), "Mat3A::from_quat(q) * Vec3", &(m * Vec3::from_array(c.v)).to_array(), $r, &c.v, 1.0, $eq, $ctx)?;
        let q1 = Quat::from_mat3a(&m);
        logic::quat_same::<f32>(cx!($t, "Quat"), "Quat::from_mat3a(Mat3A::from_quat(q))", &q1.to_array(), &c.q, 2.0, $eq, $ctx)?;
        logic::rot_entries::<f32>(cx!($t, "Mat3A"), "rot/roundtrip-matrix", "Mat3A::from_quat(Quat::from_mat3a(Mat3A::from_quat(q)))", &Mat3A::from_quat(q1).to_cols_array(), $r, 3.0, $eq, $ctx)?;
        logic::rot_entries::<f32>(cx!($t, "Mat3A"), "rot/compose", "Mat3A::from_quat(q) * Mat3A::from_quat(p)", &(m * Mat3A::from_quat($p)).to_cols_array(), $rqp, 3.0, $ec, $ctx)?;
        logic::rot_entries::<f32>(cx!($t, "Mat3A"), "rot/inverse", "Mat3A::from_quat(q).inverse()", &m.inverse().to_cols_array(), $rt, 2.0, $eq, $ctx)?;
        // the two 3x3 forms of the same quaternion are the same matrix
        let m3 = Mat3::from_quat($q).to_cols_array();
        let ma = m.to_cols_array();
        $t.class(if (0..9).all(|i| m3[i].to_bits() == ma[i].to_bits()) { "Mat3-vs-Mat3A-from_quat:bit-identical" } else { "Mat3-vs-Mat3A-from_quat:differ-within-tolerance" });
    }};
    (f64, $t:expr, $c:expr, $q:expr, $p:expr, $r:expr, $rqp:expr, $rt:expr, $eq:expr, $ec:expr, $ctx:expr) => {};
}
macro_rules! qcast {
    (f32, $t:expr, $c:expr, $q:expr, $ctx:expr) => {{
        let d = $q.as_dquat().to_array();
        for i in 0..4 {
            cx!($t, "Quat").exact("Quat::as_dquat", d[i], $c.q[i] as f64, $ctx)?;
        }
    }};
    (f64, $t:expr, $c:expr, $q:expr, $ctx:expr) => {{
        let d = $q.as_quat().to_array();
        for i in 0..4 {
            cx!($t, "DQuat").exact("DQuat::as_quat", d[i] as f64, ($c.q[i] as f32) as f64, $ctx)?;
        }
    }};
}

macro_rules! rot_suite {
    ($name:ident, $T:tt, $Q:ident, $V:ident, $M3:ident, $M4:ident, $A:ident) => {
        pub fn $name(w: &[u64], t: &mut Tally) -> Result<(), Fail> {
            let c = match logic::decode_rot::<$T>(w, t, VARIANT) {
                Some(c) => c,
                None => return Ok(()),
            };
            let c = &c;
            let (q, p, v, pt) = ($Q::from_array(c.q), $Q::from_array(c.p), $V::from_array(c.v), $V::from_array(c.pt));
            let r = &M3::from_quat(logic::qs(&c.q));
            let rp = &M3::from_quat(logic::qs(&c.p));
            let rqp = &logic::m3_mul(r, rp);
            let rt = &logic::m3_t(r);
            let ctx: &dyn Fn() -> String = &|| format!("q={} p={}", hexs(&c.q), hexs(&c.p));
            let (qn, m3n, m4n, an) = (stringify!($Q), stringify!($M3), stringify!($M4), stringify!($A));
            let (eq, ec) = (c.eq, c.eq + c.ep);

            // the quaternion's own action
            logic::rot_action::<$T>(cx!(t, qn), "q * v", &(q * v).to_array(), r, &c.v, 1.0, eq, ctx)?;
            // quaternion -> 3x3
            let m3 = $M3::from_quat(q);
            logic::rot_entries::<$T>(cx!(t, m3n), "rot/from_quat-entries", "Mat3::from_quat", &m3.to_cols_array(), r, 1.0, eq, ctx)?;
            logic::rot_action::<$T>(cx!(t, m3n), "Mat3::from_quat(q) * v", &(m3 * v).to_array(), r, &c.v, 1.0, eq, ctx)?;
            // quaternion -> 4x4: block, exact border and zero translation, action on directions and points
            let m4 = $M4::from_quat(q);
            let c16 = m4.to_cols_array();
            logic::rot_entries::<$T>(cx!(t, m4n), "rot/from_quat-entries", "Mat4::from_quat", &block9(&c16), r, 1.0, eq, ctx)?;
            for (i, want) in [(3, 0.0), (7, 0.0), (11, 0.0), (12, 0.0), (13, 0.0), (14, 0.0), (15, 1.0)] {
                cx!(t, m4n).exact("Mat4::from_quat", c16[i] as f64, want, &|| format!("border/translation entry {i}; {}", ctx()))?;
            }
            logic::rot_action::<$T>(cx!(t, m4n), "Mat4::from_quat(q).transform_vector3", &m4.transform_vector3(v).to_array(), r, &c.v, 1.0, eq, ctx)?;
            logic::rot_action::<$T>(cx!(t, m4n), "Mat4::from_quat(q).transform_point3", &m4.transform_point3(pt).to_array(), r, &c.pt, 1.0, eq, ctx)?;
            // quaternion -> affine
            let a = $A::from_quat(q);
            let c12 = a.to_cols_array();
            logic::rot_entries::<$T>(cx!(t, an), "rot/from_quat-entries", "Affine3A::from_quat", &block9a(&c12), r, 1.0, eq, ctx)?;
            for i in 9..12 {
                cx!(t, an).exact("Affine3A::from_quat", c12[i] as f64, 0.0, &|| format!("translation entry {}; {}", i - 9, ctx()))?;
            }
            logic::rot_action::<$T>(cx!(t, an), "Affine3A::from_quat(q).transform_vector3", &a.transform_vector3(v).to_array(), r, &c.v, 1.0, eq, ctx)?;
            logic::rot_action::<$T>(cx!(t, an), "Affine3A::from_quat(q).transform_point3", &a.transform_point3(pt).to_array(), r, &c.pt, 1.0, eq, ctx)?;

            // the rotation + translation constructors hold the same rotation block as from_quat (the translation is a probe point)
            logic::rot_entries::<$T>(cx!(t, m4n), "rot/from_quat-entries", "Mat4::from_rotation_translation", &block9(&$M4::from_rotation_translation(q, pt).to_cols_array()), r, 1.0, eq, ctx)?;
            logic::rot_entries::<$T>(cx!(t, an), "rot/from_quat-entries", "Affine3A::from_rotation_translation", &block9a(&$A::from_rotation_translation(q, pt).to_cols_array()), r, 1.0, eq, ctx)?;

            // matrix -> quaternion -> matrix, through whichever branch this rotation selects
            let q1 = $Q::from_mat3(&m3);
            logic::quat_same::<$T>(cx!(t, qn), "Quat::from_mat3(Mat3::from_quat(q))", &q1.to_array(), &c.q, 2.0, eq, ctx)?;
            logic::rot_entries::<$T>(cx!(t, m3n), "rot/roundtrip-matrix", "Mat3::from_quat(Quat::from_mat3(Mat3::from_quat(q)))", &$M3::from_quat(q1).to_cols_array(), r, 3.0, eq, ctx)?;
            logic::rot_action::<$T>(cx!(t, qn), "Quat::from_mat3(Mat3::from_quat(q)) * v", &(q1 * v).to_array(), r, &c.v, 3.0, eq, ctx)?;
            let q2 = $Q::from_mat4(&m4);
            logic::quat_same::<$T>(cx!(t, qn), "Quat::from_mat4(Mat4::from_quat(q))", &q2.to_array(), &c.q, 2.0, eq, ctx)?;
            logic::rot_entries::<$T>(cx!(t, m4n), "rot/roundtrip-matrix", "Mat4::from_quat(Quat::from_mat4(Mat4::from_quat(q)))", &block9(&$M4::from_quat(q2).to_cols_array()), r, 3.0, eq, ctx)?;
            let q3 = $Q::from_affine3(&a);
            logic::quat_same::<$T>(cx!(t, qn), "Quat::from_affine3(Affine3A::from_quat(q))", &q3.to_array(), &c.q, 2.0, eq, ctx)?;
            logic::rot_entries::<$T>(cx!(t, an), "rot/roundtrip-matrix", "Affine3A::from_quat(Quat::from_affine3(Affine3A::from_quat(q)))", &block9a(&$A::from_quat(q3).to_cols_array()), r, 3.0, eq, ctx)?;

            // conversion commutes with composition
            let qp = q * p;
            logic::rot_entries::<$T>(cx!(t, m3n), "rot/compose", "Mat3::from_quat(q * p)", &$M3::from_quat(qp).to_cols_array(), rqp, 2.0, ec, ctx)?;
            logic::rot_entries::<$T>(cx!(t, m3n), "rot/compose", "Mat3::from_quat(q) * Mat3::from_quat(p)", &(m3 * $M3::from_quat(p)).to_cols_array(), rqp, 3.0, ec, ctx)?;
            logic::rot_entries::<$T>(cx!(t, m4n), "rot/compose", "Mat4::from_quat(q * p)", &block9(&$M4::from_quat(qp).to_cols_array()), rqp, 2.0, ec, ctx)?;
            logic::rot_entries::<$T>(cx!(t, m4n), "rot/compose", "Mat4::from_quat(q) * Mat4::from_quat(p)", &block9(&(m4 * $M4::from_quat(p)).to_cols_array()), rqp, 3.0, ec, ctx)?;
            logic::rot_entries::<$T>(cx!(t, an), "rot/compose", "Affine3A::from_quat(q * p)", &block9a(&$A::from_quat(qp).to_cols_array()), rqp, 2.0, ec, ctx)?;
            logic::rot_entries::<$T>(cx!(t, an), "rot/compose", "Affine3A::from_quat(q) * Affine3A::from_quat(p)", &block9a(&(a * $A::from_quat(p)).to_cols_array()), rqp, 3.0, ec, ctx)?;
            // every way of writing the composite converts to the same matrix
            {
                let l = [q, p];
                let mut acc = q;
                acc *= p;
                let forms: [(&str, $Q); 4] = [
                    ("Mat3::from_quat(q.mul_quat(p))", q.mul_quat(p)),
                    ("Mat3::from_quat(q *= p)", acc),
                    ("Mat3::from_quat([q, p].into_iter().product())", l.iter().copied().product()),
                    ("Mat3::from_quat([q, p].iter().product())", l.iter().product()),
                ];
                for (name, x) in forms {
                    logic::rot_entries::<$T>(cx!(t, m3n), "rot/compose", name, &$M3::from_quat(x).to_cols_array(), rqp, 2.0, ec, ctx)?;
                }
                let ml = [m3, $M3::from_quat(p)];
                logic::rot_entries::<$T>(cx!(t, m3n), "rot/compose", "[Mat3::from_quat(q), Mat3::from_quat(p)].iter().product()", &ml.iter().product::<$M3>().to_cols_array(), rqp, 3.0, ec, ctx)?;
                let ml = [m4, $M4::from_quat(p)];
                logic::rot_entries::<$T>(cx!(t, m4n), "rot/compose", "[Mat4::from_quat(q), Mat4::from_quat(p)].iter().product()", &block9(&ml.iter().product::<$M4>().to_cols_array()), rqp, 3.0, ec, ctx)?;
                let al = [a, $A::from_quat(p)];
                logic::rot_entries::<$T>(cx!(t, an), "rot/compose", "[Affine3A::from_quat(q), Affine3A::from_quat(p)].iter().product()", &block9a(&al.iter().product::<$A>().to_cols_array()), rqp, 3.0, ec, ctx)?;
            }
            // ... and with inversion
            logic::rot_entries::<$T>(cx!(t, m3n), "rot/inverse", "Mat3::from_quat(q.inverse())", &$M3::from_quat(q.inverse()).to_cols_array(), rt, 2.0, eq, ctx)?;
            logic::rot_entries::<$T>(cx!(t, m3n), "rot/inverse", "Mat3::from_quat(q).inverse()", &m3.inverse().to_cols_array(), rt, 2.0, eq, ctx)?;
            logic::rot_entries::<$T>(cx!(t, m4n), "rot/inverse", "Mat4::from_quat(q).inverse()", &block9(&m4.inverse().to_cols_array()), rt, 2.0, eq, ctx)?;
            logic::rot_entries::<$T>(cx!(t, an), "rot/inverse", "Affine3A::from_quat(q).inverse()", &block9a(&a.inverse().to_cols_array()), rt, 2.0, eq, ctx)?;

            // a quaternion that is unit by glam's own test (`is_normalized`, 2e-4 on |q|^2) but not to rounding, as a literal
            // with four decimals or a long product is: every from_quat form accepts it and they agree with each other
            {
                let h = (c.v[0].to_bits() as u64 ^ (c.v[1].to_bits() as u64).rotate_left(17)) as u32;
                let mag = 1e-6 * (90.0f64).powf((h >> 8 & 0xffff) as f64 / 65535.0); // 1e-6 .. 9e-5
                let k = (1.0 + if h & 1 == 0 { mag } else { -mag }) as $T;
                let qa = q.to_array();
                let qn = $Q::from_xyzw(qa[0] * k, qa[1] * k, qa[2] * k, qa[3] * k);
                if qn.is_normalized() {
                    let a3 = $M3::from_quat(qn).to_cols_array();
                    let a4 = block9(&$M4::from_quat(qn).to_cols_array());
                    let aa = block9a(&$A::from_quat(qn).to_cols_array());
                    for i in 0..9 {
                        let (x, y, z) = (a3[i] as f64, a4[i] as f64, aa[i] as f64);
                        let tol = 8.0 * <$T>::EPSILON as f64;
                        if !((x - y).abs() <= tol && (x - z).abs() <= tol) {
                            return Err(cx!(t, m3n).fail("rot/nearly-unit", format!("from_quat of a quaternion with |q|^2 - 1 = {:e} (passes is_normalized): Mat3 / Mat4 / Affine3A entry {i} = {:e} / {:e} / {:e}; {}", (qn.length_squared() - 1.0) as f64, x, y, z, ctx())));
                        }
                    }
                    t.class("nearly-unit quaternion accepted by every from_quat");
                }
            }
            rot3a!($T, t, c, q, p, r, rqp, rt, eq, ec, ctx);
            qcast!($T, t, c, q, ctx);
            Ok(())
        }
    };
}
fn prod_ref<T: Copy + for<'a> core::iter::Product<&'a T>>(l: &[T]) -> T {
    l.iter().product()
}
rot_suite!(check_rot_f32, f32, Quat, Vec3, Mat3, Mat4, Affine3A);
rot_suite!(check_rot_f64, f64, DQuat, DVec3, DMat3, DMat4, DAffine3);

// ------------------------------------------------------------------------------------------
// the 3D conversion graph
// ------------------------------------------------------------------------------------------

#[derive(Clone, Copy, Debug)]
pub enum O3 {
    Q(Quat),
    M3(Mat3),
    M3A(Mat3A),
    M4(Mat4),
    A(Affine3A),
    DQ(DQuat),
    DM3(DMat3),
    DM4(DMat4),
    DA(DAffine3),
}
pub const KIND3: [&str; 9] = ["Quat", "Mat3", "Mat3A", "Mat4", "Affine3A", "DQuat", "DMat3", "DMat4", "DAffine3"];
pub const QUAT_KINDS3: [u64; 2] = [0, 5];

fn comps_n(cols: usize, rows: usize, stride: usize, v: &[f64]) -> Vec<(usize, usize, f64)> {
    let mut o = Vec::with_capacity(cols * rows);
    for j in 0..cols {
        for i in 0..rows {
            o.push((j, i, v[stride * j + i]));
        }
    }
    o
}
fn f64s<const N: usize>(a: [f32; N]) -> [f64; N] {
    let mut o = [0.0; N];
    for i in 0..N {
        o[i] = a[i] as f64;
    }
    o
}

impl O3 {
    pub fn kind(&self) -> usize {
        match self {
            O3::Q(_) => 0,
            O3::M3(_) => 1,
            O3::M3A(_) => 2,
            O3::M4(_) => 3,
            O3::A(_) => 4,
            O3::DQ(_) => 5,
            O3::DM3(_) => 6,
            O3::DM4(_) => 7,
            O3::DA(_) => 8,
        }
    }
    pub fn is_quat(&self) -> bool {
        matches!(self, O3::Q(_) | O3::DQ(_))
    }
    pub fn u(&self) -> f64 {
        if self.kind() < 5 {
            U32
        } else {
            U64
        }
    }
    /// every stored component, widened
    pub fn raw(&self) -> Vec<f64> {
        match self {
            O3::Q(x) => f64s(x.to_array()).to_vec(),
            O3::M3(x) => f64s(x.to_cols_array()).to_vec(),
            O3::M3A(x) => f64s(x.to_cols_array()).to_vec(),
            O3::M4(x) => f64s(x.to_cols_array()).to_vec(),
            O3::A(x) => f64s(x.to_cols_array()).to_vec(),
            O3::DQ(x) => x.to_array().to_vec(),
            O3::DM3(x) => x.to_cols_array().to_vec(),
            O3::DM4(x) => x.to_cols_array().to_vec(),
            O3::DA(x) => x.to_cols_array().to_vec(),
        }
    }
    /// stored entries as (col, row, value) of the 4x4 homogeneous matrix; none for quaternions
    pub fn comps(&self) -> Vec<(usize, usize, f64)> {
        let r = self.raw();
        match self {
            O3::Q(_) | O3::DQ(_) => vec![],
            O3::M3(_) | O3::M3A(_) | O3::DM3(_) => comps_n(3, 3, 3, &r),
            O3::M4(_) | O3::DM4(_) => comps_n(4, 4, 4, &r),
            O3::A(_) | O3::DA(_) => comps_n(4, 3, 3, &r),
        }
    }
    /// image of a direction and of a point under the object's own action
    pub fn act(&self, v: [f32; 3], p: [f32; 3]) -> ([f64; 3], [f64; 3]) {
        let (v3, p3) = (Vec3::from_array(v), Vec3::from_array(p));
        let (dv, dp) = (DVec3::from_array(f64s(v)), DVec3::from_array(f64s(p)));
        match self {
            O3::Q(x) => (f64s((*x * v3).to_array()), f64s((*x * p3).to_array())),
            O3::M3(x) => (f64s((*x * v3).to_array()), f64s((*x * p3).to_array())),
            O3::M3A(x) => (f64s((*x * Vec3A::from_array(v)).to_array()), f64s((*x * Vec3A::from_array(p)).to_array())),
            O3::M4(x) => (f64s(x.transform_vector3(v3).to_array()), f64s(x.transform_point3(p3).to_array())),
            O3::A(x) => (f64s(x.transform_vector3(v3).to_array()), f64s(x.transform_point3(p3).to_array())),
            O3::DQ(x) => ((*x * dv).to_array(), (*x * dp).to_array()),
            O3::DM3(x) => ((*x * dv).to_array(), (*x * dp).to_array()),
            O3::DM4(x) => (x.transform_vector3(dv).to_array(), x.transform_point3(dp).to_array()),
            O3::DA(x) => (x.transform_vector3(dv).to_array(), x.transform_point3(dp).to_array()),
        }
    }
    /// the same action through the Vec3A forms (`q * Vec3A`, `mul_vec3a`, `Mat3/Mat3A * Vec3A`, `transform_point3a`,
    /// `transform_vector3a`), the probes carrying junk in their padding lane; None for the f64 types
    pub fn act_a(&self, v: [f32; 3], p: [f32; 3]) -> Option<Vec<(&'static str, [f64; 3], [f64; 3])>> {
        let j = |a: [f32; 3], h: u32| Vec3A::from_vec4(glam::Vec4::new(a[0], a[1], a[2], f32::from_bits(h)));
        let (va, pa) = (j(v, 0x7fc0_0000), j(p, 0xff80_0000));
        let (vb, pb) = (j(v, 0x7149_f2ca), j(p, 0x0000_0001));
        Some(match self {
            O3::Q(x) => vec![
                ("q * Vec3A", f64s((*x * va).to_array()), f64s((*x * pa).to_array())),
                ("q.mul_vec3a", f64s(x.mul_vec3a(vb).to_array()), f64s(x.mul_vec3a(pb).to_array())),
            ],
            O3::M3(x) => vec![("Mat3 * Vec3A", f64s((*x * va).to_array()), f64s((*x * pa).to_array())), ("Mat3::mul_vec3a", f64s(x.mul_vec3a(vb).to_array()), f64s(x.mul_vec3a(pb).to_array()))],
            O3::M3A(x) => vec![("Mat3A * Vec3A", f64s((*x * va).to_array()), f64s((*x * pa).to_array())), ("Mat3A::mul_vec3a", f64s(x.mul_vec3a(vb).to_array()), f64s(x.mul_vec3a(pb).to_array())), ("Mat3A * Vec3", f64s((*x * Vec3::from_array(v)).to_array()), f64s((*x * Vec3::from_array(p)).to_array()))],
            O3::M4(x) => vec![
                ("Mat4::transform_*3a", f64s(x.transform_vector3a(va).to_array()), f64s(x.transform_point3a(pa).to_array())),
                ("Mat4::transform_*3a", f64s(x.transform_vector3a(vb).to_array()), f64s(x.transform_point3a(pb).to_array())),
            ],
            O3::A(x) => vec![
                ("Affine3A::transform_*3a", f64s(x.transform_vector3a(va).to_array()), f64s(x.transform_point3a(pa).to_array())),
                ("Affine3A::transform_*3a", f64s(x.transform_vector3a(vb).to_array()), f64s(x.transform_point3a(pb).to_array())),
            ],
            _ => return None,
        })
    }
    pub fn identity(kind: usize) -> O3 {
        match kind {
            0 => O3::Q(Quat::IDENTITY),
            1 => O3::M3(Mat3::IDENTITY),
            2 => O3::M3A(Mat3A::IDENTITY),
            3 => O3::M4(Mat4::IDENTITY),
            4 => O3::A(Affine3A::IDENTITY),
            5 => O3::DQ(DQuat::IDENTITY),
            6 => O3::DM3(DMat3::IDENTITY),
            7 => O3::DM4(DMat4::IDENTITY),
            _ => O3::DA(DAffine3::IDENTITY),
        }
    }
}

pub struct E3 {
    pub name: &'static str,
    pub from: usize,
    pub kind: EK,
    pub f: fn(&O3) -> O3,
}
macro_rules! e3 {
    ($i:expr, $from:ident($x:ident) => $to:ident($e:expr), $name:expr, $k:ident) => {
        E3 {
            name: $name,
            from: $i,
            kind: EK::$k,
            f: |o| match o {
                O3::$from($x) => O3::$to($e),
                _ => unreachable!(),
            },
        }
    };
}
/// every public conversion between the 3D representations
pub static EDGES3: &[E3] = &[
    e3!(0, Q(x) => M3(Mat3::from_quat(*x)), "Mat3::from_quat", FromQuat),
    e3!(0, Q(x) => M3A(Mat3A::from_quat(*x)), "Mat3A::from_quat", FromQuat),
    e3!(0, Q(x) => M4(Mat4::from_quat(*x)), "Mat4::from_quat", FromQuat),
    e3!(0, Q(x) => A(Affine3A::from_quat(*x)), "Affine3A::from_quat", FromQuat),
    e3!(0, Q(x) => DQ(x.as_dquat()), "Quat::as_dquat", QWiden),
    e3!(1, M3(x) => M3A(Mat3A::from(*x)), "Mat3A::from(Mat3)", Exact),
    e3!(1, M3(x) => M4(Mat4::from_mat3(*x)), "Mat4::from_mat3", Exact),
    e3!(1, M3(x) => A(Affine3A::from_mat3(*x)), "Affine3A::from_mat3", Exact),
    e3!(1, M3(x) => Q(Quat::from_mat3(x)), "Quat::from_mat3", ToQuat),
    e3!(1, M3(x) => DM3(x.as_dmat3()), "Mat3::as_dmat3", Exact),
    e3!(2, M3A(x) => M3(Mat3::from(*x)), "Mat3::from(Mat3A)", Exact),
    e3!(2, M3A(x) => M4(Mat4::from_mat3a(*x)), "Mat4::from_mat3a", Exact),
    e3!(2, M3A(x) => Q(Quat::from_mat3a(x)), "Quat::from_mat3a", ToQuat),
    e3!(2, M3A(x) => DM3(x.as_dmat3()), "Mat3A::as_dmat3", Exact),
    e3!(3, M4(x) => M3(Mat3::from_mat4(*x)), "Mat3::from_mat4", DropT),
    e3!(3, M4(x) => M3A(Mat3A::from_mat4(*x)), "Mat3A::from_mat4", DropT),
    e3!(3, M4(x) => A(Affine3A::from_mat4(*x)), "Affine3A::from_mat4", Exact),
    e3!(3, M4(x) => Q(Quat::from_mat4(x)), "Quat::from_mat4", ToQuat),
    e3!(3, M4(x) => DM4(x.as_dmat4()), "Mat4::as_dmat4", Exact),
    e3!(4, A(x) => M4(Mat4::from(*x)), "Mat4::from(Affine3A)", Exact),
    e3!(4, A(x) => Q(Quat::from_affine3(x)), "Quat::from_affine3", ToQuat),
    e3!(4, A(x) => DA(x.as_daffine3()), "Affine3A::as_daffine3", Exact),
    e3!(5, DQ(x) => DM3(DMat3::from_quat(*x)), "DMat3::from_quat", FromQuat),
    e3!(5, DQ(x) => DM4(DMat4::from_quat(*x)), "DMat4::from_quat", FromQuat),
    e3!(5, DQ(x) => DA(DAffine3::from_quat(*x)), "DAffine3::from_quat", FromQuat),
    e3!(5, DQ(x) => Q(x.as_quat()), "DQuat::as_quat", QCast),
    e3!(6, DM3(x) => DM4(DMat4::from_mat3(*x)), "DMat4::from_mat3", Exact),
    e3!(6, DM3(x) => DA(DAffine3::from_mat3(*x)), "DAffine3::from_mat3", Exact),
    e3!(6, DM3(x) => DQ(DQuat::from_mat3(x)), "DQuat::from_mat3", ToQuat),
    e3!(6, DM3(x) => M3(x.as_mat3()), "DMat3::as_mat3", Cast),
    e3!(7, DM4(x) => DM3(DMat3::from_mat4(*x)), "DMat3::from_mat4", DropT),
    e3!(7, DM4(x) => DA(DAffine3::from_mat4(*x)), "DAffine3::from_mat4", Exact),
    e3!(7, DM4(x) => DQ(DQuat::from_mat4(x)), "DQuat::from_mat4", ToQuat),
    e3!(7, DM4(x) => M4(x.as_mat4()), "DMat4::as_mat4", Cast),
    e3!(8, DA(x) => DM4(DMat4::from(*x)), "DMat4::from(DAffine3)", Exact),
    e3!(8, DA(x) => DQ(DQuat::from_affine3(x)), "DQuat::from_affine3", ToQuat),
    e3!(8, DA(x) => A(x.as_affine3a()), "DAffine3::as_affine3a", Cast),
];

fn r32<const N: usize>(a: &[f64]) -> [f32; N] {
    let mut o = [0.0f32; N];
    for i in 0..N {
        o[i] = a[i] as f32;
    }
    o
}
fn r64<const N: usize>(a: &[f64]) -> [f64; N] {
    let mut o = [0.0f64; N];
    o.copy_from_slice(&a[..N]);
    o
}

/// the affine map `a` held in representation `kind` (entries rounded to the representation's scalar type), and the
/// exact meaning of that object. None when the representation cannot hold it (quaternion of a non-rotation).
pub fn start3(kind: usize, a: &logic::Aff3) -> Option<(O3, RS<4>)> {
    let l = &a.l;
    let m4 = [l[0], l[1], l[2], 0.0, l[3], l[4], l[5], 0.0, l[6], l[7], l[8], 0.0, a.t[0], a.t[1], a.t[2], 1.0];
    let a12 = [l[0], l[1], l[2], l[3], l[4], l[5], l[6], l[7], l[8], a.t[0], a.t[1], a.t[2]];
    let o = match kind {
        0 | 5 => {
            if !a.pure_rot {
                return None;
            }
            let o = if kind == 0 { O3::Q(Quat::from_array(r32::<4>(&a.q))) } else { O3::DQ(DQuat::from_array(a.q)) };
            let r = o.raw();
            return Some((o, RS::<4>::from_quat([r[0], r[1], r[2], r[3]])));
        }
        1 => O3::M3(Mat3::from_cols_array(&r32::<9>(l))),
        2 => O3::M3A(Mat3A::from_cols_array(&r32::<9>(l))),
        3 => O3::M4(Mat4::from_cols_array(&r32::<16>(&m4))),
        4 => O3::A(Affine3A::from_cols_array(&r32::<12>(&a12))),
        6 => O3::DM3(DMat3::from_cols_array(&r64::<9>(l))),
        7 => O3::DM4(DMat4::from_cols_array(&m4)),
        _ => O3::DA(DAffine3::from_cols_array(&a12)),
    };
    let rs = RS::<4>::from_comps(&o.comps(), a.pure_rot);
    Some((o, rs))
}

fn edges_from3(kind: usize, pure_rot: bool) -> Vec<&'static E3> {
    EDGES3.iter().filter(|e| e.from == kind && (e.kind != EK::ToQuat || pure_rot)).collect()
}

fn run_chain3(t: &mut Tally, key: &str, start: &O3, rs: &RS<4>, edges: &[&E3], v: [f32; 3], p: [f32; 3]) -> Result<(String, u32), Fail> {
    let mut o = *start;
    let mut r = rs.clone();
    let mut path = String::from(KIND3[start.kind()]);
    for e in edges {
        o = (e.f)(&o);
        r.step(e.kind, o.u());
        path.push_str(" > ");
        path.push_str(e.name);
    }
    let (dir, pt) = o.act(v, p);
    let ctx = || format!("start={:?} end={:?}", start, o);
    logic::end_check::<4>(cx!(t, KIND3[start.kind()]), key, &path, &r, o.is_quat(), o.u(), &o.comps(), &f64s(v), &f64s(p), &dir, &pt, &ctx)?;
    if let Some(forms) = o.act_a(v, p) {
        for (name, dir, pt) in forms {
            let pa = format!("{path} [{name}]");
            logic::end_check::<4>(cx!(t, KIND3[start.kind()]), key, &pa, &r, o.is_quat(), o.u(), &o.comps(), &f64s(v), &f64s(p), &dir, &pt, &ctx)?;
        }
    }
    Ok((path, r.lossy_edges))
}

fn probes3(w: &[u64]) -> Option<([f32; 3], [f32; 3])> {
    let f: Vec<f64> = w.iter().map(|x| f64::from_bits(*x)).collect();
    if f.len() < 6 || !f.iter().all(|x| x.is_finite() && x.abs() < 1e12 && (*x as f32) as f64 == *x) {
        return None;
    }
    Some(([f[0] as f32, f[1] as f32, f[2] as f32], [f[3] as f32, f[4] as f32, f[5] as f32]))
}

/// Every single conversion edge out of every representation of one affine map (entries exact where the edge is a
/// re-packaging, action preserved), then composition and inversion commuting with Affine -> Mat4.
pub fn check_edges3(w: &[u64], t: &mut Tally) -> Result<(), Fail> {
    t.eval(1);
    if w.len() < logic::EDGES3_WORDS {
        t.class("out-of-domain");
        return Ok(());
    }
    let (a, b, pr) = (logic::build_aff3(&w[0..13]), logic::build_aff3(&w[13..26]), probes3(&w[26..32]));
    let (a, b, (v, p)) = match (a, b, pr) {
        (Some(a), Some(b), Some(pr)) => (a, b, pr),
        _ => {
            t.class("out-of-domain");
            return Ok(());
        }
    };
    if logic::tally_aff3(t, &a) {
        logic::nontrivial_case(t, VARIANT, "edges3", &w[..logic::EDGES3_WORDS], json!({"variant": VARIANT, "linear(cols)": format!("{:?}", a.l), "translation": format!("{:?}", a.t), "v": format!("{:?}", v), "p": format!("{:?}", p), "words": hexwords(&w[..logic::EDGES3_WORDS])}));
    }
    for kind in 0..9 {
        let (o, rs) = match start3(kind, &a) {
            Some(x) => x,
            None => continue,
        };
        run_chain3(t, "edge3/action", &o, &rs, &[], v, p)?;
        for e in edges_from3(kind, rs.pure_rot) {
            run_chain3(t, "edge3/action", &o, &rs, &[e], v, p)?;
            t.class_n("single-edges-applied", 1);
        }
    }
    // composition and inversion
    macro_rules! compose {
        ($ka:expr, $A:ident, $M4:ident, $V3:ident, $OA:ident, $u:expr, $an:expr) => {{
            let ((oa, ra), (ob, rb)) = (start3($ka, &a).unwrap(), start3($ka, &b).unwrap());
            if let (O3::$OA(ga), O3::$OA(gb)) = (oa, ob) {
                let (prod, pabs) = ra.m.mul(&rb.m);
                let ctx = || format!("a={:?} b={:?}", ga, gb);
                let tol = |j: usize, i: usize| KX * $u * pabs.0[j][i].f();
                let lhs = $M4::from(ga * gb);
                let rhs = $M4::from(ga) * $M4::from(gb);
                logic::entries_within::<4>(cx!(t, $an), "affine3/compose", "Mat4::from(a * b)", &O3::raw(&lhs.into()), &prod, &tol, &ctx)?;
                logic::entries_within::<4>(cx!(t, $an), "affine3/compose", "Mat4::from(a) * Mat4::from(b)", &O3::raw(&rhs.into()), &prod, &tol, &ctx)?;
                // the mixed-type operators are the same composition with one side converted
                let mixed1: $M4 = $M4::from(ga) * gb;
                let mixed2: $M4 = ga * $M4::from(gb);
                logic::entries_within::<4>(cx!(t, $an), "affine3/compose", "Mat4::from(a) * b (Mul<Affine> for Mat4)", &O3::raw(&mixed1.into()), &prod, &tol, &ctx)?;
                logic::entries_within::<4>(cx!(t, $an), "affine3/compose", "a * Mat4::from(b) (Mul<Mat4> for Affine)", &O3::raw(&mixed2.into()), &prod, &tol, &ctx)?;
                let mut acc = ga;
                acc *= gb;
                logic::entries_within::<4>(cx!(t, $an), "affine3/compose", "a *= b", &O3::raw(&$M4::from(acc).into()), &prod, &tol, &ctx)?;
                // the affine-times-matrix operators with a right / left operand that is not affine (a projective bottom row taken
                // from the probes): still the composition of the converted affine map with that matrix
                {
                    let bottom = [p[0] as f64, p[1] as f64, v[0] as f64, 1.0 + v[1] as f64];
                    let mut cols = $M4::from(gb).to_cols_array();
                    let mut rbp = rb.m;
                    for j in 0..4 {
                        cols[4 * j + 3] = bottom[j] as _;
                        rbp.0[j][3] = Q::of(cols[4 * j + 3] as f64);
                    }
                    let mp = $M4::from_cols_array(&cols);
                    let (pr, prabs) = ra.m.mul(&rbp);
                    let tolp = |j: usize, i: usize| KX * $u * prabs.0[j][i].f();
                    let am: $M4 = ga * mp;
                    logic::entries_within::<4>(cx!(t, $an), "affine3/compose", "a * m (m with a projective bottom row)", &O3::raw(&am.into()), &pr, &tolp, &ctx)?;
                    let (pl, plabs) = rbp.mul(&ra.m);
                    let toll = |j: usize, i: usize| KX * $u * plabs.0[j][i].f();
                    let ma: $M4 = mp * ga;
                    logic::entries_within::<4>(cx!(t, $an), "affine3/compose", "m * a (m with a projective bottom row)", &O3::raw(&ma.into()), &pl, &toll, &ctx)?;
                }
                let al = [ga, gb];
                let ml = [$M4::from(ga), $M4::from(gb)];
                logic::entries_within::<4>(cx!(t, $an), "affine3/compose", "Mat4::from([a, b].iter().product())", &O3::raw(&$M4::from(al.iter().product::<$A>()).into()), &prod, &tol, &ctx)?;
                logic::entries_within::<4>(cx!(t, $an), "affine3/compose", "[Mat4::from(a), Mat4::from(b)].iter().product()", &O3::raw(&ml.iter().product::<$M4>().into()), &prod, &tol, &ctx)?;
                logic::entries_within::<4>(cx!(t, $an), "affine3/compose", "[Mat4::from(a), Mat4::from(b)].into_iter().product()", &O3::raw(&ml.iter().copied().product::<$M4>().into()), &prod, &tol, &ctx)?;
                // inverse: entries of the linear block to K u kappa(L) |L^-1|, of the translation to the same times |t|
                let mut lin = ra.m;
                for i in 0..3 {
                    lin.0[3][i] = Q::zero();
                }
                if let (Some(x), Some(li)) = (ra.m.inverse(), lin.inverse()) {
                    let nl = { let mut l0 = lin; l0.0[3][3] = Q::zero(); l0.frob() };
                    let nli = { let mut l0 = li; l0.0[3][3] = Q::zero(); l0.frob() };
                    // conditioning of inversion by cofactors (what every glam inverse does): |L|^3 / |det L| >= kappa(L)
                    let det = M3([V3([lin.0[0][0], lin.0[0][1], lin.0[0][2]]), V3([lin.0[1][0], lin.0[1][1], lin.0[1][2]]), V3([lin.0[2][0], lin.0[2][1], lin.0[2][2]])]).det().f().abs();
                    let kappa = (nl * nli).max(nl * nl * nl / det);
                    let nt = logic::norm2(&[ra.m.0[3][0].f(), ra.m.0[3][1].f(), ra.m.0[3][2].f()]);
                    if K * $u * kappa <= 0.05 {
                        let tol = |j: usize, i: usize| if i == 3 { 0.0 } else if j < 3 { K * $u * kappa * nli } else { K * $u * kappa * nli * nt };
                        let lhs = $M4::from(ga.inverse());
                        let rhs = $M4::from(ga).inverse();
                        logic::entries_within::<4>(cx!(t, $an), "affine3/inverse", "Mat4::from(a.inverse())", &O3::raw(&lhs.into()), &x, &tol, &ctx)?;
                        let tol = |j: usize, i: usize| if i == 3 { K * $u * kappa } else if j < 3 { K * $u * kappa * nli } else { K * $u * kappa * nli * nt };
                        logic::entries_within::<4>(cx!(t, $an), "affine3/inverse", "Mat4::from(a).inverse()", &O3::raw(&rhs.into()), &x, &tol, &ctx)?;
                        t.class("inverse:checked");
                        // the Mat4 inverse still acts like the affine inverse. Its bottom row is (0, 0, 0, 1) up to the rounding of
                        // cofactor / determinant, which transform_point3 / transform_vector3 accept (also under glam-assert)
                        let r3 = rhs.row(3);
                        if r3.x.abs() <= 5e-7 && r3.y.abs() <= 5e-7 && r3.z.abs() <= 5e-7 && (r3.w - 1.0).abs() <= 5e-7 {
                            let pp = $V3::new(p[0] as _, p[1] as _, p[2] as _);
                            let vv = $V3::new(v[0] as _, v[1] as _, v[2] as _);
                            let ai = ga.inverse();
                            let pmax = p.iter().chain(v.iter()).fold(0.0f64, |m, x| m.max((*x as f64).abs()));
                            let tol_act = 4.0 * K * $u * kappa * nli * (3.0 * pmax + nt) + 1e-300;
                            let pairs = [("transform_point3", rhs.transform_point3(pp), ai.transform_point3(pp)), ("transform_vector3", rhs.transform_vector3(vv), ai.transform_vector3(vv))];
                            for (name, g1, g2) in pairs {
                                let (g1, g2) = (g1.to_array(), g2.to_array());
                                for i in 0..3 {
                                    let d = (g1[i] as f64 - g2[i] as f64).abs();
                                    cx!(t, $an).within("affine3/inverse", &format!("Mat4::from(a).inverse().{name} vs a.inverse().{name}"), d, tol_act, &|| format!("component {i}: {:?} vs {:?}; {}", g1[i], g2[i], ctx()))?;
                                }
                            }
                            t.class("inverse:action-checked");
                        } else {
                            t.class("inverse:bottom-row-off-by-more-than-5e-7(action skipped)");
                        }
                    } else {
                        t.class("inverse:ill-conditioned(skipped)");
                    }
                } else {
                    t.class("inverse:singular(skipped)");
                }
            }
        }};
    }
    compose!(4, Affine3A, Mat4, Vec3, A, U32, "Affine3A");
    compose!(8, DAffine3, DMat4, DVec3, DA, U64, "DAffine3");
    Ok(())
}
impl From<Mat4> for O3 {
    fn from(m: Mat4) -> O3 {
        O3::M4(m)
    }
}
impl From<DMat4> for O3 {
    fn from(m: DMat4) -> O3 {
        O3::DM4(m)
    }
}

/// random walk of up to four conversions starting from any representation
pub fn check_chain3(w: &[u64], t: &mut Tally) -> Result<(), Fail> {
    t.eval(1);
    if w.len() < logic::CHAIN3_WORDS || w[0] >= 9 || w[14] > 4 {
        t.class("out-of-domain");
        return Ok(());
    }
    let (a, pr) = (logic::build_aff3(&w[1..14]), probes3(&w[19..25]));
    let (a, (v, p)) = match (a, pr) {
        (Some(a), Some(pr)) => (a, pr),
        _ => {
            t.class("out-of-domain");
            return Ok(());
        }
    };
    let kind = w[0] as usize;
    let (o, rs) = match start3(kind, &a) {
        Some(x) => x,
        None => {
            t.class("out-of-domain:quaternion-of-non-rotation");
            return Ok(());
        }
    };
    let len = w[14] as usize;
    let mut edges: Vec<&E3> = vec![];
    let mut k = kind;
    for s in 0..len {
        let av = edges_from3(k, rs.pure_rot);
        let e = av[logic::pick(w[15 + s], av.len())];
        edges.push(e);
        k = (e.f)(&O3::identity(k)).kind();
    }
    t.class(&format!("start:{}", KIND3[kind]));
    t.class(&format!("end:{}", KIND3[k]));
    let (path, lossy) = run_chain3(t, "chain3/action", &o, &rs, &edges, v, p)?;
    logic::nontrivial_chain(t, VARIANT, "chain3", &w[..logic::CHAIN3_WORDS], len, lossy, &path);
    Ok(())
}

// ------------------------------------------------------------------------------------------
// the 2D conversion graph
// ------------------------------------------------------------------------------------------

#[derive(Clone, Copy, Debug)]
pub enum O2 {
    M2(Mat2),
    M3(Mat3),
    M3A(Mat3A),
    A2(Affine2),
    DM2(DMat2),
    DM3(DMat3),
    DA2(DAffine2),
}
pub const KIND2: [&str; 7] = ["Mat2", "Mat3", "Mat3A", "Affine2", "DMat2", "DMat3", "DAffine2"];

impl O2 {
    pub fn kind(&self) -> usize {
        match self {
            O2::M2(_) => 0,
            O2::M3(_) => 1,
            O2::M3A(_) => 2,
            O2::A2(_) => 3,
            O2::DM2(_) => 4,
            O2::DM3(_) => 5,
            O2::DA2(_) => 6,
        }
    }
    pub fn u(&self) -> f64 {
        if self.kind() < 4 {
            U32
        } else {
            U64
        }
    }
    pub fn raw(&self) -> Vec<f64> {
        match self {
            O2::M2(x) => f64s(x.to_cols_array()).to_vec(),
            O2::M3(x) => f64s(x.to_cols_array()).to_vec(),
            O2::M3A(x) => f64s(x.to_cols_array()).to_vec(),
            O2::A2(x) => f64s(x.to_cols_array()).to_vec(),
            O2::DM2(x) => x.to_cols_array().to_vec(),
            O2::DM3(x) => x.to_cols_array().to_vec(),
            O2::DA2(x) => x.to_cols_array().to_vec(),
        }
    }
    /// stored entries as (col, row, value) of the 3x3 homogeneous matrix
    pub fn comps(&self) -> Vec<(usize, usize, f64)> {
        let r = self.raw();
        match self {
            O2::M2(_) | O2::DM2(_) => comps_n(2, 2, 2, &r),
            O2::M3(_) | O2::M3A(_) | O2::DM3(_) => comps_n(3, 3, 3, &r),
            O2::A2(_) | O2::DA2(_) => comps_n(3, 2, 2, &r),
        }
    }
    pub fn act(&self, v: [f32; 2], p: [f32; 2]) -> ([f64; 2], [f64; 2]) {
        let (v2, p2) = (Vec2::from_array(v), Vec2::from_array(p));
        let (dv, dp) = (DVec2::from_array(f64s(v)), DVec2::from_array(f64s(p)));
        match self {
            O2::M2(x) => (f64s((*x * v2).to_array()), f64s((*x * p2).to_array())),
            O2::M3(x) => (f64s(x.transform_vector2(v2).to_array()), f64s(x.transform_point2(p2).to_array())),
            O2::M3A(x) => (f64s(x.transform_vector2(v2).to_array()), f64s(x.transform_point2(p2).to_array())),
            O2::A2(x) => (f64s(x.transform_vector2(v2).to_array()), f64s(x.transform_point2(p2).to_array())),
            O2::DM2(x) => ((*x * dv).to_array(), (*x * dp).to_array()),
            O2::DM3(x) => (x.transform_vector2(dv).to_array(), x.transform_point2(dp).to_array()),
            O2::DA2(x) => (x.transform_vector2(dv).to_array(), x.transform_point2(dp).to_array()),
        }
    }
    pub fn identity(kind: usize) -> O2 {
        match kind {
            0 => O2::M2(Mat2::IDENTITY),
            1 => O2::M3(Mat3::IDENTITY),
            2 => O2::M3A(Mat3A::IDENTITY),
            3 => O2::A2(Affine2::IDENTITY),
            4 => O2::DM2(DMat2::IDENTITY),
            5 => O2::DM3(DMat3::IDENTITY),
            _ => O2::DA2(DAffine2::IDENTITY),
        }
    }
}

pub struct E2 {
    pub name: &'static str,
    pub from: usize,
    pub kind: EK,
    pub f: fn(&O2) -> O2,
}
macro_rules! e2 {
    ($i:expr, $from:ident($x:ident) => $to:ident($e:expr), $name:expr, $k:ident) => {
        E2 {
            name: $name,
            from: $i,
            kind: EK::$k,
            f: |o| match o {
                O2::$from($x) => O2::$to($e),
                _ => unreachable!(),
            },
        }
    };
}
/// every public conversion between the 2D representations
pub static EDGES2: &[E2] = &[
    e2!(0, M2(x) => M3(Mat3::from_mat2(*x)), "Mat3::from_mat2", Exact),
    e2!(0, M2(x) => M3A(Mat3A::from_mat2(*x)), "Mat3A::from_mat2", Exact),
    e2!(0, M2(x) => A2(Affine2::from_mat2(*x)), "Affine2::from_mat2", Exact),
    e2!(0, M2(x) => DM2(x.as_dmat2()), "Mat2::as_dmat2", Exact),
    e2!(1, M3(x) => M2(Mat2::from_mat3(*x)), "Mat2::from_mat3", DropT),
    e2!(1, M3(x) => M3A(Mat3A::from(*x)), "Mat3A::from(Mat3)", Exact),
    e2!(1, M3(x) => A2(Affine2::from_mat3(*x)), "Affine2::from_mat3", Exact),
    e2!(1, M3(x) => DM3(x.as_dmat3()), "Mat3::as_dmat3", Exact),
    e2!(2, M3A(x) => M2(Mat2::from_mat3a(*x)), "Mat2::from_mat3a", DropT),
    e2!(2, M3A(x) => M3(Mat3::from(*x)), "Mat3::from(Mat3A)", Exact),
    e2!(2, M3A(x) => A2(Affine2::from_mat3a(*x)), "Affine2::from_mat3a", Exact),
    e2!(2, M3A(x) => DM3(x.as_dmat3()), "Mat3A::as_dmat3", Exact),
    e2!(3, A2(x) => M3(Mat3::from(*x)), "Mat3::from(Affine2)", Exact),
    e2!(3, A2(x) => M3A(Mat3A::from(*x)), "Mat3A::from(Affine2)", Exact),
    e2!(3, A2(x) => DA2(x.as_daffine2()), "Affine2::as_daffine2", Exact),
    e2!(4, DM2(x) => DM3(DMat3::from_mat2(*x)), "DMat3::from_mat2", Exact),
    e2!(4, DM2(x) => DA2(DAffine2::from_mat2(*x)), "DAffine2::from_mat2", Exact),
    e2!(4, DM2(x) => M2(x.as_mat2()), "DMat2::as_mat2", Cast),
    e2!(5, DM3(x) => DM2(DMat2::from_mat3(*x)), "DMat2::from_mat3", DropT),
    e2!(5, DM3(x) => DA2(DAffine2::from_mat3(*x)), "DAffine2::from_mat3", Exact),
    e2!(5, DM3(x) => M3(x.as_mat3()), "DMat3::as_mat3", Cast),
    e2!(6, DA2(x) => DM3(DMat3::from(*x)), "DMat3::from(DAffine2)", Exact),
    e2!(6, DA2(x) => A2(x.as_affine2()), "DAffine2::as_affine2", Cast),
];

pub fn start2(kind: usize, a: &logic::Aff2) -> (O2, RS<3>) {
    let l = &a.l;
    let m3 = [l[0], l[1], 0.0, l[2], l[3], 0.0, a.t[0], a.t[1], 1.0];
    let a6 = [l[0], l[1], l[2], l[3], a.t[0], a.t[1]];
    let o = match kind {
        0 => O2::M2(Mat2::from_cols_array(&r32::<4>(l))),
        1 => O2::M3(Mat3::from_cols_array(&r32::<9>(&m3))),
        2 => O2::M3A(Mat3A::from_cols_array(&r32::<9>(&m3))),
        3 => O2::A2(Affine2::from_cols_array(&r32::<6>(&a6))),
        4 => O2::DM2(DMat2::from_cols_array(&r64::<4>(l))),
        5 => O2::DM3(DMat3::from_cols_array(&m3)),
        _ => O2::DA2(DAffine2::from_cols_array(&a6)),
    };
    let rs = RS::<3>::from_comps(&o.comps(), false);
    (o, rs)
}
fn edges_from2(kind: usize) -> Vec<&'static E2> {
    EDGES2.iter().filter(|e| e.from == kind).collect()
}
fn run_chain2(t: &mut Tally, key: &str, start: &O2, rs: &RS<3>, edges: &[&E2], v: [f32; 2], p: [f32; 2]) -> Result<(String, u32), Fail> {
    let mut o = *start;
    let mut r = rs.clone();
    let mut path = String::from(KIND2[start.kind()]);
    for e in edges {
        o = (e.f)(&o);
        r.step(e.kind, o.u());
        path.push_str(" > ");
        path.push_str(e.name);
    }
    let (dir, pt) = o.act(v, p);
    let ctx = || format!("start={:?} end={:?}", start, o);
    logic::end_check::<3>(cx!(t, KIND2[start.kind()]), key, &path, &r, false, o.u(), &o.comps(), &f64s(v), &f64s(p), &dir, &pt, &ctx)?;
    Ok((path, r.lossy_edges))
}
fn probes2(w: &[u64]) -> Option<([f32; 2], [f32; 2])> {
    let f: Vec<f64> = w.iter().map(|x| f64::from_bits(*x)).collect();
    if f.len() < 4 || !f.iter().all(|x| x.is_finite() && x.abs() < 1e12 && (*x as f32) as f64 == *x) {
        return None;
    }
    Some(([f[0] as f32, f[1] as f32], [f[2] as f32, f[3] as f32]))
}
impl From<Mat3> for O2 {
    fn from(m: Mat3) -> O2 {
        O2::M3(m)
    }
}
impl From<Mat3A> for O2 {
    fn from(m: Mat3A) -> O2 {
        O2::M3A(m)
    }
}
impl From<DMat3> for O2 {
    fn from(m: DMat3) -> O2 {
        O2::DM3(m)
    }
}

pub fn check_edges2(w: &[u64], t: &mut Tally) -> Result<(), Fail> {
    t.eval(1);
    if w.len() < logic::EDGES2_WORDS {
        t.class("out-of-domain");
        return Ok(());
    }
    let (a, b, pr) = (logic::build_aff2(&w[0..6]), logic::build_aff2(&w[6..12]), probes2(&w[12..16]));
    let (a, b, (v, p)) = match (a, b, pr) {
        (Some(a), Some(b), Some(pr)) => (a, b, pr),
        _ => {
            t.class("out-of-domain");
            return Ok(());
        }
    };
    let angle = f64::from_bits(w[0]);
    t.class(if a.t == [0.0; 2] { "translation:zero" } else { "translation:non-zero" });
    if (angle.sin() * angle.cos()).abs() > 1e-6 {
        logic::nontrivial_case(t, VARIANT, "edges2", &w[..logic::EDGES2_WORDS], json!({"variant": VARIANT, "linear(cols)": format!("{:?}", a.l), "translation": format!("{:?}", a.t), "v": format!("{:?}", v), "p": format!("{:?}", p), "words": hexwords(&w[..logic::EDGES2_WORDS])}));
    }
    for kind in 0..7 {
        let (o, rs) = start2(kind, &a);
        run_chain2(t, "edge2/action", &o, &rs, &[], v, p)?;
        for e in edges_from2(kind) {
            run_chain2(t, "edge2/action", &o, &rs, &[e], v, p)?;
            t.class_n("single-edges-applied", 1);
        }
    }
    macro_rules! compose {
        ($ka:expr, $M3:ident, $OA:ident, $u:expr, $an:expr, $mn:expr) => {{
            let ((oa, ra), (ob, rb)) = (start2($ka, &a), start2($ka, &b));
            if let (O2::$OA(ga), O2::$OA(gb)) = (oa, ob) {
                let (prod, pabs) = ra.m.mul(&rb.m);
                let ctx = || format!("a={:?} b={:?}", ga, gb);
                let tol = |j: usize, i: usize| KX * $u * pabs.0[j][i].f();
                let lhs = $M3::from(ga * gb);
                let rhs = $M3::from(ga) * $M3::from(gb);
                logic::entries_within::<3>(cx!(t, $an), "affine2/compose", concat!($mn, "::from(a * b)"), &O2::raw(&lhs.into()), &prod, &tol, &ctx)?;
                logic::entries_within::<3>(cx!(t, $an), "affine2/compose", concat!($mn, "::from(a) * ", $mn, "::from(b)"), &O2::raw(&rhs.into()), &prod, &tol, &ctx)?;
                let mixed1: $M3 = $M3::from(ga) * gb;
                let mixed2: $M3 = ga * $M3::from(gb);
                logic::entries_within::<3>(cx!(t, $an), "affine2/compose", concat!($mn, "::from(a) * b (Mul<Affine2> for ", $mn, ")"), &O2::raw(&mixed1.into()), &prod, &tol, &ctx)?;
                logic::entries_within::<3>(cx!(t, $an), "affine2/compose", concat!("a * ", $mn, "::from(b) (Mul<", $mn, "> for Affine2)"), &O2::raw(&mixed2.into()), &prod, &tol, &ctx)?;
                let mut acc = ga;
                acc *= gb;
                logic::entries_within::<3>(cx!(t, $an), "affine2/compose", "a *= b", &O2::raw(&$M3::from(acc).into()), &prod, &tol, &ctx)?;
                logic::entries_within::<3>(cx!(t, $an), "affine2/compose", concat!($mn, "::from([a, b].iter().product())"), &O2::raw(&$M3::from(prod_ref(&[ga, gb])).into()), &prod, &tol, &ctx)?;
                logic::entries_within::<3>(cx!(t, $an), "affine2/compose", concat!("[", $mn, "::from(a), ", $mn, "::from(b)].iter().product()"), &O2::raw(&prod_ref(&[$M3::from(ga), $M3::from(gb)]).into()), &prod, &tol, &ctx)?;
                let mut lin = ra.m;
                for i in 0..2 {
                    lin.0[2][i] = Q::zero();
                }
                if let (Some(x), Some(li)) = (ra.m.inverse(), lin.inverse()) {
                    let nl = { let mut l0 = lin; l0.0[2][2] = Q::zero(); l0.frob() };
                    let nli = { let mut l0 = li; l0.0[2][2] = Q::zero(); l0.frob() };
                    let det = (lin.0[0][0] * lin.0[1][1] - lin.0[1][0] * lin.0[0][1]).f().abs();
                    let kappa = (nl * nli).max(nl * nl / det);
                    let nt = logic::norm2(&[ra.m.0[2][0].f(), ra.m.0[2][1].f()]);
                    if K * $u * kappa <= 0.05 {
                        let tol = |j: usize, i: usize| if i == 2 { 0.0 } else if j < 2 { K * $u * kappa * nli } else { K * $u * kappa * nli * nt };
                        let lhs = $M3::from(ga.inverse());
                        logic::entries_within::<3>(cx!(t, $an), "affine2/inverse", concat!($mn, "::from(a.inverse())"), &O2::raw(&lhs.into()), &x, &tol, &ctx)?;
                        let tol = |j: usize, i: usize| if i == 2 { K * $u * kappa } else if j < 2 { K * $u * kappa * nli } else { K * $u * kappa * nli * nt };
                        let rhs = $M3::from(ga).inverse();
                        logic::entries_within::<3>(cx!(t, $an), "affine2/inverse", concat!($mn, "::from(a).inverse()"), &O2::raw(&rhs.into()), &x, &tol, &ctx)?;
                        t.class("inverse:checked");
                    } else {
                        t.class("inverse:ill-conditioned(skipped)");
                    }
                } else {
                    t.class("inverse:singular(skipped)");
                }
            }
        }};
    }
    compose!(3, Mat3, A2, U32, "Affine2", "Mat3");
    compose!(3, Mat3A, A2, U32, "Affine2", "Mat3A");
    compose!(6, DMat3, DA2, U64, "DAffine2", "DMat3");
    Ok(())
}

pub fn check_chain2(w: &[u64], t: &mut Tally) -> Result<(), Fail> {
    t.eval(1);
    if w.len() < logic::CHAIN2_WORDS || w[0] >= 7 || w[7] > 4 {
        t.class("out-of-domain");
        return Ok(());
    }
    let (a, pr) = (logic::build_aff2(&w[1..7]), probes2(&w[12..16]));
    let (a, (v, p)) = match (a, pr) {
        (Some(a), Some(pr)) => (a, pr),
        _ => {
            t.class("out-of-domain");
            return Ok(());
        }
    };
    let kind = w[0] as usize;
    let (o, rs) = start2(kind, &a);
    let len = w[7] as usize;
    let mut edges: Vec<&E2> = vec![];
    let mut k = kind;
    for s in 0..len {
        let av = edges_from2(k);
        let e = av[logic::pick(w[8 + s], av.len())];
        edges.push(e);
        k = (e.f)(&O2::identity(k)).kind();
    }
    t.class(&format!("start:{}", KIND2[kind]));
    t.class(&format!("end:{}", KIND2[k]));
    let (path, lossy) = run_chain2(t, "chain2/action", &o, &rs, &edges, v, p)?;
    logic::nontrivial_chain(t, VARIANT, "chain2", &w[..logic::CHAIN2_WORDS], len, lossy, &path);
    Ok(())
}

/// identities map to identities exactly, over every edge of both graphs. words: [graph (0 = 3D, 1 = 2D), edge index]
pub fn check_identity(w: &[u64], t: &mut Tally) -> Result<(), Fail> {
    t.eval(1);
    if w.len() < 2 {
        return Ok(());
    }
    let i = w[1] as usize;
    if w[0] == 2 {
        // the composition of no transforms is the identity in every representation (so that converting an empty
        // composite commutes with composing the converted, empty, list)
        macro_rules! empty {
            ($k:expr, $T:ident, [$($byval:tt)*]) => {
                if i == $k {
                    let l: [$T; 0] = [];
                    let by_ref: $T = l.iter().product();
                    if by_ref != $T::IDENTITY {
                        return Err(cx!(t, stringify!($T)).fail("empty product", format!("[].iter().product::<{}>() is {:?}, not the identity", stringify!($T), by_ref)));
                    }
                    $( let _ = stringify!($byval);
                    let by_val: $T = l.iter().copied().product();
                    if by_val != $T::IDENTITY {
                        return Err(cx!(t, stringify!($T)).fail("empty product", format!("[].into_iter().product::<{}>() is {:?}, not the identity", stringify!($T), by_val)));
                    } )*
                }
            };
        }
        empty!(0, Quat, [v]);
        empty!(1, DQuat, [v]);
        empty!(2, Mat2, [v]);
        empty!(3, Mat3, [v]);
        empty!(4, Mat3A, [v]);
        empty!(5, Mat4, [v]);
        empty!(6, DMat2, [v]);
        empty!(7, DMat3, [v]);
        empty!(8, DMat4, [v]);
        empty!(9, Affine2, []);
        empty!(10, Affine3A, []);
        empty!(11, DAffine2, []);
        empty!(12, DAffine3, []);
        return Ok(());
    }
    if w[0] == 3 {
        // the 24 rotations of the cube (signed permutation matrices of determinant +1) have exact arithmetic throughout:
        // in every representation the inverse is the transpose, bit for bit, and converting commutes with inverting
        let perms: [[usize; 3]; 6] = [[0, 1, 2], [0, 2, 1], [1, 0, 2], [1, 2, 0], [2, 0, 1], [2, 1, 0]];
        let mut found = 0usize;
        'outer: for pm in perms.iter() {
            for sg in 0..8u32 {
                let sign = |k: usize| if sg >> k & 1 == 1 { -1.0f32 } else { 1.0 };
                let parity = { let mut inv = 0; for a in 0..3 { for b in a + 1..3 { if pm[a] > pm[b] { inv += 1; } } } inv % 2 };
                let negs = (sg & 1) + (sg >> 1 & 1) + (sg >> 2 & 1);
                if (parity + negs as usize) % 2 != 0 {
                    continue; // determinant -1
                }
                if found == i {
                    let mut c = [0.0f32; 9];
                    for col in 0..3 {
                        c[col * 3 + pm[col]] = sign(col);
                    }
                    let m3 = Mat3::from_cols_array(&c);
                    let want = m3.transpose().to_cols_array();
                    let name = format!("cube rotation (cols) {:?}", c);
                    let chk = |what: &str, got: [f32; 9]| -> Result<(), Fail> {
                        if got.iter().zip(want.iter()).any(|(a, b)| a != b) {
                            return Err(Fail::new(format!("C05/{}/identities/cube-rotations", VARIANT), what, format!("{what} of {name} is {:?}, not its transpose {:?}", got, want)));
                        }
                        Ok(())
                    };
                    let b9 = |a: [f32; 16]| [a[0], a[1], a[2], a[4], a[5], a[6], a[8], a[9], a[10]];
                    let d9 = |a: [f64; 9]| a.map(|x| x as f32);
                    chk("Mat3::inverse", m3.inverse().to_cols_array())?;
                    chk("Mat3A::inverse", Mat3A::from(m3).inverse().to_cols_array())?;
                    chk("Mat4::inverse", b9(Mat4::from_mat3(m3).inverse().to_cols_array()))?;
                    chk("Affine3A::inverse", Mat3::from(Affine3A::from_mat3(m3).inverse().matrix3).to_cols_array())?;
                    chk("DMat3::inverse", d9(m3.as_dmat3().inverse().to_cols_array()))?;
                    chk("DAffine3::inverse", d9(DAffine3::from_mat3(m3.as_dmat3()).inverse().matrix3.to_cols_array()))?;
                    chk("Mat3::from_quat(Quat::from_mat3(m).inverse())", {
                        let q = Quat::from_mat3(&m3).inverse();
                        let r = Mat3::from_quat(q).to_cols_array();
                        // quaternion components of a cube rotation are 0, +-1/2, +-1/sqrt 2, +-1: allow the rounding of 1/sqrt 2
                        let mut out = [0.0f32; 9];
                        for k in 0..9 { out[k] = if (r[k] - want[k]).abs() <= 4.0 * f32::EPSILON { want[k] } else { r[k] }; }
                        out
                    })?;
                    break 'outer;
                }
                found += 1;
            }
        }
        return Ok(());
    }
    let (name, got, want, from) = if w[0] == 0 {
        if i >= EDGES3.len() {
            return Ok(());
        }
        let e = &EDGES3[i];
        let g = (e.f)(&O3::identity(e.from));
        (e.name, g.raw(), O3::identity(g.kind()).raw(), KIND3[e.from])
    } else {
        if i >= EDGES2.len() {
            return Ok(());
        }
        let e = &EDGES2[i];
        let g = (e.f)(&O2::identity(e.from));
        (e.name, g.raw(), O2::identity(g.kind()).raw(), KIND2[e.from])
    };
    if got != want {
        return Err(cx!(t, from).fail(name, format!("{name} of the identity is {:?}, not the identity {:?}", got, want)));
    }
    Ok(())
}

pub fn subs<'a>(_args: &Args) -> Vec<SubCheck<'a>> {
    let mut out = vec![];
    macro_rules! sub {
        ($name:expr, $shards:expr, $q:expr, $mult:expr, $strat:expr, $chk:ident) => {
            out.push(SubCheck::new(
                format!("{}/{}", $name, VARIANT),
                $shards,
                |env: &mut Env| {
                    let n = env.cases($q, $mult);
                    env.prop($name, n, $strat, &$chk);
                },
                $chk,
            ));
        };
    }
    sub!("rot/f32", 4, 150_000, 40, logic::rot_strategy::<f32>(), check_rot_f32);
    sub!("rot/f64", 8, 150_000, 40, logic::rot_strategy::<f64>(), check_rot_f64);
    sub!("edges3", 8, 60_000, 40, logic::edges3_strategy(), check_edges3);
    sub!("edges2", 4, 60_000, 40, logic::edges2_strategy(), check_edges2);
    sub!("chain3", 4, 60_000, 40, logic::chain3_strategy(9, &QUAT_KINDS3), check_chain3);
    sub!("chain2", 2, 60_000, 40, logic::chain2_strategy(7), check_chain2);
    out.push(SubCheck::new(
        format!("identities/{}", VARIANT),
        1,
        |env: &mut Env| {
            let mut n = 0;
            for i in 0..EDGES3.len() {
                n += 1;
                if !env.direct(&[0, i as u64], &check_identity) {
                    return;
                }
            }
            for i in 0..EDGES2.len() {
                n += 1;
                if !env.direct(&[1, i as u64], &check_identity) {
                    return;
                }
            }
            for i in 0..13u64 {
                n += 1;
                if !env.direct(&[2, i], &check_identity) {
                    return;
                }
            }
            for i in 0..24u64 {
                n += 1;
                if !env.direct(&[3, i], &check_identity) {
                    return;
                }
            }
            env.tally.nontrivial_enum(n);
            env.tally.exhaustive = true;
        },
        check_identity,
    ));
    out
}
