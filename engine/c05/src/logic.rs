//! Glam-free part of the C05 checks: case decoding, generators (unit quaternions that reach every branch of the
//! matrix-to-quaternion conversion and its boundaries, affine maps, conversion chains), the reference model of a
//! conversion chain and the tolerance comparisons. Compiled once; `suite.rs` (once per glam variant) only calls glam.
use crate::refm::*;
use proptest::prelude::*;
use serde_json::json;
use std::f64::consts::PI;
use std::fmt::Debug;
use vcore::num::{U32, U64};
use vcore::*;

/// constant per lossy edge (DESIGN C05: k = 16)
pub const K: f64 = 16.0;
/// constant of a plain <= 4-term sum of products (the action itself, matrix products)
pub const KX: f64 = 8.0;

pub trait Fl: Copy + Debug + PartialEq + PartialOrd + 'static {
    type S: Sc;
    const U: f64;
    const NAME: &'static str;
    fn fb(w: u64) -> Self;
    fn tb(self) -> u64;
    fn s(self) -> Self::S;
    fn f(self) -> f64;
    fn rnd(x: f64) -> Self;
    fn finite(self) -> bool;
}
impl Fl for f32 {
    type S = f64;
    const U: f64 = U32;
    const NAME: &'static str = "f32";
    #[inline]
    fn fb(w: u64) -> f32 {
        f32::from_bits(w as u32)
    }
    #[inline]
    fn tb(self) -> u64 {
        self.to_bits() as u64
    }
    #[inline]
    fn s(self) -> f64 {
        self as f64
    }
    #[inline]
    fn f(self) -> f64 {
        self as f64
    }
    #[inline]
    fn rnd(x: f64) -> f32 {
        x as f32
    }
    #[inline]
    fn finite(self) -> bool {
        self.is_finite()
    }
}
impl Fl for f64 {
    type S = Q;
    const U: f64 = U64;
    const NAME: &'static str = "f64";
    #[inline]
    fn fb(w: u64) -> f64 {
        f64::from_bits(w)
    }
    #[inline]
    fn tb(self) -> u64 {
        self.to_bits()
    }
    #[inline]
    fn s(self) -> Q {
        Q::of(self)
    }
    #[inline]
    fn f(self) -> f64 {
        self
    }
    #[inline]
    fn rnd(x: f64) -> f64 {
        x
    }
    #[inline]
    fn finite(self) -> bool {
        self.is_finite()
    }
}

pub struct Cx<'a> {
    pub t: &'a mut Tally,
    pub variant: &'static str,
    pub ty: &'static str,
}

impl<'a> Cx<'a> {
    pub fn fail(&self, op: &str, msg: String) -> Fail {
        Fail::new(format!("C05/{}/{}/{}", self.variant, self.ty, op), op.to_string(), msg)
    }
    #[inline]
    pub fn within(&mut self, key: &str, op: &str, err: f64, tol: f64, msg: &dyn Fn() -> String) -> Result<(), Fail> {
        let r = if tol > 0.0 {
            err / tol
        } else if err == 0.0 {
            0.0
        } else {
            f64::INFINITY
        };
        if !(r <= 1.0) {
            return Err(self.fail(op, format!("{}: |error| {:e} > tolerance {:e}; {}", key, err, tol, msg())));
        }
        self.t.ratio(key, r);
        Ok(())
    }
    /// IEEE value equality (-0 == +0); anything else is a violation of a re-packaging edge
    #[inline]
    pub fn exact(&mut self, op: &str, got: f64, want: f64, msg: &dyn Fn() -> String) -> Result<(), Fail> {
        if !(got == want) {
            return Err(self.fail(op, format!("re-packaging is not exact: got {:e} want {:e}; {}", got, want, msg())));
        }
        Ok(())
    }
}

pub fn hexs<T: Fl>(a: &[T]) -> String {
    let v: Vec<String> = a.iter().map(|x| format!("{:?}(0x{:x})", x, x.tb())).collect();
    format!("[{}]", v.join(", "))
}
pub fn norm2(v: &[f64]) -> f64 {
    v.iter().map(|x| x * x).sum::<f64>().sqrt()
}
fn hash_case(variant: &str, what: &str, w: &[u64]) -> u64 {
    mix(hash_str(what), mix(hash_str(variant), fnv(w)))
}

// ------------------------------------------------------------------------------------------
// unit quaternions
// ------------------------------------------------------------------------------------------

/// Which branch of `from_rotation_axes` the exact rotation matrix of (x,y,z,w) selects, and the distance of the
/// deciding quantities (m22, m11 -+ m00) from their thresholds.
pub fn branch_of(q: [f64; 4]) -> (&'static str, f64) {
    let n = (q[0] * q[0] + q[1] * q[1] + q[2] * q[2] + q[3] * q[3]).sqrt();
    let (x, y, z, w) = (q[0] / n, q[1] / n, q[2] / n, q[3] / n);
    let m00 = 1.0 - 2.0 * (y * y + z * z);
    let m11 = 1.0 - 2.0 * (x * x + z * z);
    let m22 = 1.0 - 2.0 * (x * x + y * y);
    if m22 <= 0.0 {
        let d = m11 - m00;
        (if d <= 0.0 { "branch:x" } else { "branch:y" }, m22.abs().min(d.abs()))
    } else {
        let s = m11 + m00;
        (if s <= 0.0 { "branch:z" } else { "branch:w" }, m22.abs().min(s.abs()))
    }
}

fn nrm4(q: [f64; 4]) -> [f64; 4] {
    let n = (q[0] * q[0] + q[1] * q[1] + q[2] * q[2] + q[3] * q[3]).sqrt();
    if !(n > 1e-12) {
        [0.0, 0.0, 0.0, 1.0]
    } else {
        [q[0] / n, q[1] / n, q[2] / n, q[3] / n]
    }
}
fn unit3() -> BoxedStrategy<[f64; 3]> {
    (-1.0f64..1.0, 0.0f64..(2.0 * PI))
        .prop_map(|(z, a)| {
            let r = (1.0 - z * z).max(0.0).sqrt();
            [r * a.cos(), r * a.sin(), z]
        })
        .boxed()
}
fn axis_angle(a: [f64; 3], th: f64) -> [f64; 4] {
    let (s, c) = (0.5 * th).sin_cos();
    nrm4([a[0] * s, a[1] * s, a[2] * s, c])
}
fn pm(delta_exp: std::ops::Range<f64>) -> BoxedStrategy<f64> {
    (any::<bool>(), delta_exp).prop_map(|(s, e)| if s { -(10f64.powf(e)) } else { 10f64.powf(e) }).boxed()
}

/// DESIGN 3.2: uniform on S^3 (normalised 4D Gaussian), angles within 1e-3..1e-7 of 0 and pi about arbitrary axes,
/// single-axis rotations (incl. exact half and quarter turns), and quaternions placed within 1e-3..1e-8 of each branch
/// threshold of the matrix-to-quaternion conversion (x^2+y^2 = 1/2, x^2 = y^2, z^2 = w^2).
pub fn quat_strat() -> BoxedStrategy<[f64; 4]> {
    let gauss = (1e-12f64..1.0, 0.0f64..1.0, 1e-12f64..1.0, 0.0f64..1.0).prop_map(|(u1, u2, u3, u4)| {
        let r1 = (-2.0 * u1.ln()).sqrt();
        let r2 = (-2.0 * u3.ln()).sqrt();
        nrm4([r1 * (2.0 * PI * u2).cos(), r1 * (2.0 * PI * u2).sin(), r2 * (2.0 * PI * u4).cos(), r2 * (2.0 * PI * u4).sin()])
    });
    let near0 = (unit3(), pm(-7.0..-3.0)).prop_map(|(a, d)| axis_angle(a, d));
    let nearpi = (unit3(), pm(-7.0..-3.0)).prop_map(|(a, d)| axis_angle(a, PI + d));
    let any_angle = (unit3(), -PI..PI).prop_map(|(a, th)| axis_angle(a, th));
    let single = (0usize..3, prop_oneof![3 => -2.0 * PI..2.0 * PI, 1 => prop_oneof![Just(PI), Just(-PI), Just(PI / 2.0), Just(-PI / 2.0), Just(0.0)]]).prop_map(|(i, th)| {
        let mut a = [0.0; 3];
        a[i] = 1.0;
        let mut q = axis_angle(a, th);
        // exact half turns: the f64 cosine of pi/2 is 6e-17, make it a true zero
        if q[3].abs() < 1e-15 {
            q[3] = 0.0;
        }
        q
    });
    // (r cos a, r sin a, s cos b, s sin b) with r^2 + s^2 = 1
    let boundary = (0usize..3, pm(-8.0..-3.0), 0.0f64..(2.0 * PI), 0.0f64..(2.0 * PI), 0.0f64..1.0, 0usize..4).prop_map(|(which, d, a, b, rr, quad)| {
        let quarter = PI / 4.0 + (quad as f64) * PI / 2.0;
        let (r2, a, b) = match which {
            0 => (0.5 + d, a, b),                                  // m22 = -2d
            1 => (0.5 + 0.5 * rr * 0.999, quarter + d, b),          // x^2 ~ y^2 inside the m22 <= 0 half
            _ => (0.5 - 0.5 * rr * 0.999 - 1e-9, a, quarter + d),  // z^2 ~ w^2 inside the m22 > 0 half
        };
        let r = r2.clamp(0.0, 1.0).sqrt();
        let s = (1.0 - r2).clamp(0.0, 1.0).sqrt();
        nrm4([r * a.cos(), r * a.sin(), s * b.cos(), s * b.sin()])
    });
    prop_oneof![
        6 => gauss,
        2 => any_angle,
        2 => near0,
        3 => nearpi,
        2 => single,
        5 => boundary,
    ]
    .boxed()
}

fn probe3() -> BoxedStrategy<[f64; 3]> {
    let c = || prop_oneof![6 => (any::<bool>(), -6.0f64..6.0).prop_map(|(s, e)| if s { -(2f64.powf(e)) } else { 2f64.powf(e) }), 1 => Just(0.0f64), 1 => Just(1.0f64)];
    (c(), c(), c()).prop_map(|(x, y, z)| [x, y, z]).boxed()
}
fn probe2() -> BoxedStrategy<[f64; 2]> {
    probe3().prop_map(|v| [v[0], v[1]]).boxed()
}

pub const ROT_WORDS: usize = 14;

pub struct RotCase<T: Fl> {
    pub q: [T; 4],
    pub p: [T; 4],
    pub v: [T; 3],
    pub pt: [T; 3],
    /// ||q|^2 - 1| and ||p|^2 - 1|: the quaternions are unit only to rounding; this input defect propagates exactly
    /// (from_quat(q) = R + e (R - I), q * v = (1 + e) R v) and is part of every tolerance below
    pub eq: f64,
    pub ep: f64,
}

/// words: q[4] p[4] v[3] point[3] as bit patterns of T. The quaternions must be unit to within rounding.
pub fn decode_rot<T: Fl>(w: &[u64], t: &mut Tally, variant: &'static str) -> Option<RotCase<T>> {
    t.eval(1);
    if w.len() < ROT_WORDS || !w[..ROT_WORDS].iter().all(|x| T::fb(*x).finite()) {
        t.class("out-of-domain");
        return None;
    }
    let g4 = |i: usize| [T::fb(w[i]), T::fb(w[i + 1]), T::fb(w[i + 2]), T::fb(w[i + 3])];
    let g3 = |i: usize| [T::fb(w[i]), T::fb(w[i + 1]), T::fb(w[i + 2])];
    let (q, p, v, pt) = (g4(0), g4(4), g3(8), g3(11));
    let mut eps = [0.0f64; 2];
    for (k, qq) in [&q, &p].iter().enumerate() {
        let s = qs::<T>(qq);
        let n2 = s[0] * s[0] + s[1] * s[1] + s[2] * s[2] + s[3] * s[3];
        eps[k] = (n2 - T::S::one()).f().abs();
        if !(eps[k] <= 8.0 * T::U) {
            t.class("out-of-domain:not-unit");
            return None;
        }
    }
    if !(v.iter().chain(pt.iter()).all(|x| x.f().abs() < 1e15)) {
        t.class("out-of-domain");
        return None;
    }
    let qf = [q[0].f(), q[1].f(), q[2].f(), q[3].f()];
    let (br, dist) = branch_of(qf);
    t.class(br);
    let near_boundary = dist < 1e-3;
    if near_boundary {
        t.class(&format!("{br}:within-1e-3-of-threshold"));
    }
    let angle = 2.0 * qf[3].abs().min(1.0).acos();
    let half_turn = PI - angle < 1e-3;
    let tiny = angle < 1e-3;
    t.class(if tiny {
        "angle:<1e-3"
    } else if half_turn {
        "angle:>pi-1e-3"
    } else {
        "angle:generic"
    });
    let axis_aligned = qf[..3].iter().filter(|x| **x != 0.0).count() <= 1;
    t.class(if axis_aligned { "axis:coordinate-axis" } else { "axis:generic" });
    if (angle > 1e-3 && !axis_aligned) || near_boundary || half_turn {
        t.nontrivial(mix(hash_str(T::NAME), hash_case(variant, "rot", &w[..ROT_WORDS])));
        if t.want_sample() {
            t.sample(json!({"scalar": T::NAME, "variant": variant, "q": format!("{:?}", q), "p": format!("{:?}", p), "v": format!("{:?}", v),
                            "branch": br, "threshold_distance": dist, "angle": angle, "words": hexwords(&w[..ROT_WORDS])}));
        }
    }
    Some(RotCase { q, p, v, pt, eq: eps[0], ep: eps[1] })
}

pub fn rot_strategy<T: Fl>() -> BoxedStrategy<Vec<u64>> {
    (quat_strat(), quat_strat(), probe3(), probe3())
        .prop_map(|(q, p, v, pt)| {
            // re-normalise after rounding is not possible; the rounded quaternion is unit to ~2u, which is the documented precondition
            q.iter().chain(p.iter()).chain(v.iter()).chain(pt.iter()).map(|x| T::rnd(*x).tb()).collect()
        })
        .boxed()
}

pub fn qs<T: Fl>(q: &[T; 4]) -> [T::S; 4] {
    [q[0].s(), q[1].s(), q[2].s(), q[3].s()]
}
pub fn m3_from<T: Fl>(c: &[T; 9]) -> M3<T::S> {
    M3([V3([c[0].s(), c[1].s(), c[2].s()]), V3([c[3].s(), c[4].s(), c[5].s()]), V3([c[6].s(), c[7].s(), c[8].s()])])
}
pub fn v3_from<T: Fl>(v: &[T; 3]) -> V3<T::S> {
    V3([v[0].s(), v[1].s(), v[2].s()])
}
pub fn m3_mul<S: Sc>(a: &M3<S>, b: &M3<S>) -> M3<S> {
    M3([a.mulv(b.0[0]), a.mulv(b.0[1]), a.mulv(b.0[2])])
}
pub fn m3_t<S: Sc>(a: &M3<S>) -> M3<S> {
    M3([a.row(0), a.row(1), a.row(2)])
}

/// budget of `lossy` quaternion <-> matrix steps: K u of rounding each, plus the exact propagation of the input defect `eps`
/// (at most 2 eps through from_quat, eps through the action, <= 3 eps growth through a matrix -> quaternion step: 4 eps per step)
#[inline]
pub fn rot_tol<T: Fl>(lossy: f64, eps: f64) -> f64 {
    lossy * (K * T::U + 4.0 * eps)
}

/// entries of a 3x3 result against a reference rotation, absolute tolerance `rot_tol(lossy, eps)`
pub fn rot_entries<T: Fl>(cx: &mut Cx, key: &str, op: &str, got: &[T; 9], want: &M3<T::S>, lossy: f64, eps: f64, ctx: &dyn Fn() -> String) -> Result<(), Fail> {
    let g = m3_from(got);
    for j in 0..3 {
        for i in 0..3 {
            let e = (g.0[j].0[i] - want.0[j].0[i]).f().abs();
            cx.within(key, op, e, rot_tol::<T>(lossy, eps), &|| format!("entry [col {j}][row {i}] = {:?}, want {:e}; {}", got[3 * j + i], want.0[j].0[i].f(), ctx()))?;
        }
    }
    Ok(())
}

/// image of a vector under a converted rotation against R v; `lossy` edges at K u |v| plus the action's own rounding
pub fn rot_action<T: Fl>(cx: &mut Cx, op: &str, got: &[T; 3], r: &M3<T::S>, v: &[T; 3], lossy: f64, eps: f64, ctx: &dyn Fn() -> String) -> Result<(), Fail> {
    let vv = v3_from(v);
    let want = r.mulv(vv);
    let s = r.absmulv(vv);
    let nv = norm2(&[v[0].f(), v[1].f(), v[2].f()]);
    for i in 0..3 {
        let tol = rot_tol::<T>(lossy, eps) * nv + KX * T::U * s.0[i].f();
        let e = (got[i].s() - want.0[i]).f().abs();
        cx.within("rot/action", op, e, tol, &|| format!("lane {i}: got {:?}, want {:e}; v={} {}", got[i], want.0[i].f(), hexs(v), ctx()))?;
    }
    Ok(())
}

/// a quaternion recovered from a matrix against the original: unit, same rotation (|q.q'| >= 1 - K u and component-wise after sign alignment)
pub fn quat_same<T: Fl>(cx: &mut Cx, op: &str, got: &[T; 4], orig: &[T; 4], lossy: f64, eps: f64, ctx: &dyn Fn() -> String) -> Result<(), Fail> {
    let g = qs(got);
    let o = qs(orig);
    let n2 = g[0] * g[0] + g[1] * g[1] + g[2] * g[2] + g[3] * g[3];
    cx.within("rot/roundtrip-unit", op, (n2 - T::S::one()).f().abs(), rot_tol::<T>(lossy, eps), &|| format!("|q'|^2 - 1; q'={} {}", hexs(got), ctx()))?;
    let no = (o[0] * o[0] + o[1] * o[1] + o[2] * o[2] + o[3] * o[3]).sqrt();
    let ng = n2.sqrt();
    let dot = (g[0] * o[0] + g[1] * o[1] + g[2] * o[2] + g[3] * o[3]) / (no * ng);
    let defect = 1.0 - dot.f().abs();
    cx.within("rot/roundtrip-dot", op, defect.max(0.0), K * T::U, &|| format!("1 - |q.q'| = {:e}; q'={} {}", defect, hexs(got), ctx()))?;
    let sg = if dot.f() < 0.0 { -1.0 } else { 1.0 };
    for i in 0..4 {
        let e = (g[i] / ng - T::S::of(sg) * o[i] / no).f().abs();
        cx.within("rot/roundtrip-components", op, e, rot_tol::<T>(lossy, eps), &|| format!("component {i} of q' = {:?} differs from +-q; q'={} {}", got[i], hexs(got), ctx()))?;
    }
    Ok(())
}

// ------------------------------------------------------------------------------------------
// reference model of a conversion chain
// ------------------------------------------------------------------------------------------

#[derive(Clone, Copy, PartialEq, Eq, Debug)]
pub enum EK {
    /// re-packaging, everything kept
    Exact,
    /// re-packaging that discards the translation (and border): Mat3::from_mat4, Mat2::from_mat3, ...
    DropT,
    /// f64 -> f32 cast of a matrix / affine (one rounding per entry)
    Cast,
    /// matrix -> quaternion (only taken from pure rotations; discards translation)
    ToQuat,
    /// quaternion -> matrix / affine
    FromQuat,
    /// f64 -> f32 cast of a quaternion
    QCast,
    /// f32 -> f64 widening of a quaternion
    QWiden,
}

/// Exact meaning of "what the start object is", carried along a chain, with the error budget of the lossy edges taken.
#[derive(Clone, Debug)]
pub struct RS<const N: usize> {
    pub m: H<Q, N>,
    pub pure_rot: bool,
    /// no lossy edge so far: entries of the current object must equal the reference bit for bit (as values)
    pub exact: bool,
    /// accumulated relative budget (multiplies sum |terms| of each row)
    pub rel: f64,
    /// accumulated absolute budget (multiplies |v|; only quaternion edges, i.e. ||M|| = 1)
    pub abs: f64,
    pub lossy_edges: u32,
    /// how far the start object is from an exact rotation (||q|^2 - 1| of a quaternion, max |L^T L - I| of a pure-rotation
    /// matrix); it is an input defect that every quaternion <-> matrix edge and the quaternion action see again
    pub defect: f64,
}

impl<const N: usize> RS<N> {
    /// from the physically present entries (col, row, value) of the start object, identity elsewhere
    pub fn from_comps(comps: &[(usize, usize, f64)], pure_rot: bool) -> Self {
        let mut m = H::<Q, N>::identity();
        for (j, i, x) in comps {
            m.0[*j][*i] = Q::of(*x);
        }
        let mut defect = 0.0f64;
        if pure_rot {
            let d = N - 1;
            for a in 0..d {
                for b in a..d {
                    let mut s = Q::zero();
                    for i in 0..d {
                        s = s + m.0[a][i] * m.0[b][i];
                    }
                    if a == b {
                        s = s - Q::one();
                    }
                    defect = defect.max(s.f().abs());
                }
            }
        }
        RS { m, pure_rot, exact: true, rel: 0.0, abs: 0.0, lossy_edges: 0, defect }
    }
    pub fn step(&mut self, k: EK, u_to: f64) {
        let drop_t = |m: &mut H<Q, N>| {
            for i in 0..N - 1 {
                m.0[N - 1][i] = Q::zero();
            }
        };
        match k {
            EK::Exact | EK::QWiden => {}
            EK::DropT => drop_t(&mut self.m),
            EK::Cast => {
                let mut representable = true;
                for j in 0..N {
                    for i in 0..N {
                        let x = self.m.0[j][i];
                        representable &= x.0.lo == 0.0 && (x.0.hi as f32) as f64 == x.0.hi;
                    }
                }
                if !representable {
                    self.exact = false;
                    self.lossy_edges += 1;
                    // rounding every entry of a rotation by u32 moves its columns' dot products by <= 2 u32
                    self.defect += 2.0 * U32;
                }
                self.rel += 2.0 * U32;
            }
            EK::ToQuat => {
                drop_t(&mut self.m);
                self.exact = false;
                self.lossy_edges += 1;
                // the matrix handed to from_rotation_axes is a rotation only to within `defect` (an f32-rounded rotation widened
                // to f64, or the matrix of a quaternion whose norm is 1 only to rounding): the result can represent it no better
                self.abs += K * (u_to + self.defect);
            }
            EK::FromQuat => {
                self.exact = false;
                self.lossy_edges += 1;
                // from_quat of a quaternion with |q|^2 = 1 + e is R + e (R - I)
                self.abs += K * (u_to + self.defect);
            }
            EK::QCast => {
                self.exact = false;
                self.lossy_edges += 1;
                self.defect += 2.0 * U32;
                self.abs += 4.0 * U32;
            }
        }
    }
}

impl RS<4> {
    /// a quaternion as the start object: its exact rotation; the distance of |q|^2 from 1 is the input defect
    pub fn from_quat(q: [f64; 4]) -> Self {
        let qq = [Q::of(q[0]), Q::of(q[1]), Q::of(q[2]), Q::of(q[3])];
        let n2 = qq[0] * qq[0] + qq[1] * qq[1] + qq[2] * qq[2] + qq[3] * qq[3];
        let eps = (n2 - Q::one()).f().abs();
        RS { m: h4_from_quat(qq), pure_rot: true, exact: false, rel: 0.0, abs: 0.0, lossy_edges: 0, defect: eps }
    }
}

/// End of a chain (or single edge): entries exact when no lossy edge was taken; action on a direction and on a point
/// against the reference action of the start, within the accumulated budget plus the rounding of the action itself.
#[allow(clippy::too_many_arguments)]
pub fn end_check<const N: usize>(
    cx: &mut Cx,
    key: &str,
    path: &str,
    r: &RS<N>,
    end_is_quat: bool,
    u_end: f64,
    comps: &[(usize, usize, f64)],
    v: &[f64],
    p: &[f64],
    dir: &[f64],
    pt: &[f64],
    ctx: &dyn Fn() -> String,
) -> Result<(), Fail> {
    if r.exact {
        for (j, i, x) in comps {
            cx.exact(path, *x, r.m.0[*j][*i].f(), &|| format!("entry [col {j}][row {i}]; {}", ctx()))?;
        }
    }
    let d = N - 1;
    let mut vh = [Q::zero(); N];
    let mut ph = [Q::zero(); N];
    for i in 0..d {
        vh[i] = Q::of(v[i]);
        ph[i] = Q::of(p[i]);
    }
    ph[d] = Q::one();
    let (ev, sv) = r.m.mulv(&vh);
    let (ep, sp) = r.m.mulv(&ph);
    let rel = r.rel + if end_is_quat { 0.0 } else { KX * u_end };
    let abs = r.abs + if end_is_quat { K * (u_end + r.defect) } else { 0.0 };
    let (nv, np) = (norm2(&v[..d]), norm2(&p[..d]));
    for i in 0..d {
        let e = (Q::of(dir[i]) - ev[i]).f().abs();
        cx.within(key, path, e, rel * sv[i].f() + abs * nv, &|| format!("direction image lane {i}: got {:e}, want {:e}; v={:?} {}", dir[i], ev[i].f(), &v[..d], ctx()))?;
        let e = (Q::of(pt[i]) - ep[i]).f().abs();
        cx.within(key, path, e, rel * sp[i].f() + abs * np, &|| format!("point image lane {i}: got {:e}, want {:e}; p={:?} {}", pt[i], ep[i].f(), &p[..d], ctx()))?;
    }
    Ok(())
}

/// entries of a computed N x N homogeneous matrix against a reference, with an entry-wise tolerance matrix
pub fn entries_within<const N: usize>(cx: &mut Cx, key: &str, op: &str, got: &[f64], want: &H<Q, N>, tol: &dyn Fn(usize, usize) -> f64, ctx: &dyn Fn() -> String) -> Result<(), Fail> {
    for j in 0..N {
        for i in 0..N {
            let e = (Q::of(got[N * j + i]) - want.0[j][i]).f().abs();
            cx.within(key, op, e, tol(j, i), &|| format!("entry [col {j}][row {i}] = {:e}, want {:e}; {}", got[N * j + i], want.0[j][i].f(), ctx()))?;
        }
    }
    Ok(())
}

// ------------------------------------------------------------------------------------------
// affine maps (3D: rotation x scale x shear + translation; 2D likewise)
// ------------------------------------------------------------------------------------------

/// 13 parameters of a 3D affine map: q[4] scale[3] shear[3] translation[3] (f64 bit patterns)
pub const AFF3_PARAMS: usize = 13;

#[derive(Clone, Copy, Debug)]
pub struct Aff3 {
    /// linear part, column-major, unrounded
    pub l: [f64; 9],
    pub t: [f64; 3],
    pub q: [f64; 4],
    pub pure_rot: bool,
}

pub fn build_aff3(w: &[u64]) -> Option<Aff3> {
    let f: Vec<f64> = w[..AFF3_PARAMS].iter().map(|x| f64::from_bits(*x)).collect();
    if !f.iter().all(|x| x.is_finite() && x.abs() < 1e12) {
        return None;
    }
    let q = [f[0], f[1], f[2], f[3]];
    let n2: f64 = q.iter().map(|x| x * x).sum();
    if !((n2 - 1.0).abs() < 1e-9) {
        return None;
    }
    let (s, sh, t) = ([f[4], f[5], f[6]], [f[7], f[8], f[9]], [f[10], f[11], f[12]]);
    if !s.iter().all(|x| x.abs() >= 1e-4 && x.abs() <= 1e4) {
        return None;
    }
    let r = M3::<f64>::from_quat(q);
    // L = R * diag(s) * U,  U = unit upper triangular with the three shear coefficients
    let u = [[1.0, 0.0, 0.0], [sh[0], 1.0, 0.0], [sh[1], sh[2], 1.0]]; // columns
    let mut l = [0.0; 9];
    for j in 0..3 {
        for i in 0..3 {
            let mut acc = 0.0;
            for k in 0..3 {
                acc += r.0[k].0[i] * s[k] * u[j][k];
            }
            l[3 * j + i] = acc;
        }
    }
    let pure_rot = s == [1.0, 1.0, 1.0] && sh == [0.0, 0.0, 0.0];
    Some(Aff3 { l, t, q, pure_rot })
}

fn scale_strat() -> BoxedStrategy<f64> {
    (any::<bool>(), -3.0f64..3.0).prop_map(|(s, e)| if s { -(10f64.powf(e)) } else { 10f64.powf(e) }).boxed()
}
fn trans_strat() -> BoxedStrategy<f64> {
    prop_oneof![5 => (any::<bool>(), -6.0f64..10.0).prop_map(|(s, e)| if s { -(2f64.powf(e)) } else { 2f64.powf(e) }), 1 => Just(0.0f64)].boxed()
}
/// (pure rotation | rotation x scale (every sign pattern) | rotation x scale x shear) + translation
pub fn aff3_strat() -> BoxedStrategy<Vec<u64>> {
    let shape = prop_oneof![
        3 => Just(([1.0f64; 3], [0.0f64; 3])),
        3 => (scale_strat(), scale_strat(), scale_strat()).prop_map(|(a, b, c)| ([a, b, c], [0.0; 3])),
        1 => scale_strat().prop_map(|a| ([a, a, a], [0.0; 3])),
        3 => (scale_strat(), scale_strat(), scale_strat(), -2.0f64..2.0, -2.0f64..2.0, -2.0f64..2.0).prop_map(|(a, b, c, x, y, z)| ([a, b, c], [x, y, z])),
    ];
    (quat_strat(), shape, trans_strat(), trans_strat(), trans_strat())
        .prop_map(|(q, (s, sh), tx, ty, tz)| q.iter().chain(s.iter()).chain(sh.iter()).chain([tx, ty, tz].iter()).map(|x| x.to_bits()).collect())
        .boxed()
}

/// 2D: angle scale[2] shear translation[2]
pub const AFF2_PARAMS: usize = 6;

#[derive(Clone, Copy, Debug)]
pub struct Aff2 {
    pub l: [f64; 4],
    pub t: [f64; 2],
}
pub fn build_aff2(w: &[u64]) -> Option<Aff2> {
    let f: Vec<f64> = w[..AFF2_PARAMS].iter().map(|x| f64::from_bits(*x)).collect();
    if !f.iter().all(|x| x.is_finite() && x.abs() < 1e12) || !(f[1].abs() >= 1e-4 && f[1].abs() <= 1e4 && f[2].abs() >= 1e-4 && f[2].abs() <= 1e4) {
        return None;
    }
    let (s, c) = f[0].sin_cos();
    // L = R(angle) * diag(sx, sy) * [[1, shear], [0, 1]]
    let (sx, sy, sh) = (f[1], f[2], f[3]);
    let c0 = [c * sx, s * sx];
    let c1 = [c * sx * sh - s * sy, s * sx * sh + c * sy];
    Some(Aff2 { l: [c0[0], c0[1], c1[0], c1[1]], t: [f[4], f[5]] })
}
pub fn aff2_strat() -> BoxedStrategy<Vec<u64>> {
    let angle = prop_oneof![4 => -2.0 * PI..2.0 * PI, 1 => prop_oneof![Just(0.0f64), Just(PI / 2.0), Just(PI), Just(-PI / 2.0)]];
    let shape = prop_oneof![
        2 => Just((1.0f64, 1.0f64, 0.0f64)),
        3 => (scale_strat(), scale_strat()).prop_map(|(a, b)| (a, b, 0.0)),
        3 => (scale_strat(), scale_strat(), -2.0f64..2.0).prop_map(|(a, b, c)| (a, b, c)),
    ];
    (angle, shape, trans_strat(), trans_strat()).prop_map(|(a, (sx, sy, sh), tx, ty)| [a, sx, sy, sh, tx, ty].iter().map(|x| x.to_bits()).collect()).boxed()
}

/// words of an "edges3" case: affine a (13), affine b (13), v[3], p[3] (f64 bits; probes are f32-representable)
pub const EDGES3_WORDS: usize = 2 * AFF3_PARAMS + 6;
pub fn edges3_strategy() -> BoxedStrategy<Vec<u64>> {
    (aff3_strat(), aff3_strat(), probe3(), probe3())
        .prop_map(|(mut a, b, v, p)| {
            a.extend(b);
            a.extend(v.iter().chain(p.iter()).map(|x| ((*x as f32) as f64).to_bits()));
            a
        })
        .boxed()
}
pub const EDGES2_WORDS: usize = 2 * AFF2_PARAMS + 4;
pub fn edges2_strategy() -> BoxedStrategy<Vec<u64>> {
    (aff2_strat(), aff2_strat(), probe2(), probe2())
        .prop_map(|(mut a, b, v, p)| {
            a.extend(b);
            a.extend(v.iter().chain(p.iter()).map(|x| ((*x as f32) as f64).to_bits()));
            a
        })
        .boxed()
}

/// tallies of an affine case; returns whether it is non-trivial (rotation angle > 1e-3 and not axis-aligned)
pub fn tally_aff3(t: &mut Tally, a: &Aff3) -> bool {
    let angle = 2.0 * a.q[3].abs().min(1.0).acos();
    let axis_aligned = a.q[..3].iter().filter(|x| **x != 0.0).count() <= 1;
    t.class(if a.pure_rot { "linear:pure-rotation" } else { "linear:rotation*scale(*shear)" });
    t.class(if a.t == [0.0; 3] { "translation:zero" } else { "translation:non-zero" });
    angle > 1e-3 && !axis_aligned
}

// ------------------------------------------------------------------------------------------
// chains
// ------------------------------------------------------------------------------------------

/// words of a 3D chain: start kind, affine (13), len, 4 edge selectors (0..65535), v[3], p[3]
pub const CHAIN3_WORDS: usize = 1 + AFF3_PARAMS + 1 + 4 + 6;
pub const CHAIN2_WORDS: usize = 1 + AFF2_PARAMS + 1 + 4 + 4;

/// monotone map of a 16-bit selector onto 0..n
#[inline]
pub fn pick(sel: u64, n: usize) -> usize {
    (((sel.min(65535)) as usize) * n) >> 16
}

pub fn chain3_strategy(kinds: u64, quat_kinds: &'static [u64]) -> BoxedStrategy<Vec<u64>> {
    (0..kinds, aff3_strat(), 0u64..=4, proptest::collection::vec(0u64..65536, 4), probe3(), probe3())
        .prop_map(move |(kind, mut a, len, sel, v, p)| {
            if quat_kinds.contains(&kind) {
                // a quaternion can only start from a pure rotation: construct, do not reject
                for i in 4..7 {
                    a[i] = 1.0f64.to_bits();
                }
                for i in 7..10 {
                    a[i] = 0.0f64.to_bits();
                }
            }
            let mut w = vec![kind];
            w.extend(a);
            w.push(len);
            w.extend(sel);
            w.extend(v.iter().chain(p.iter()).map(|x| ((*x as f32) as f64).to_bits()));
            w
        })
        .boxed()
}
pub fn chain2_strategy(kinds: u64) -> BoxedStrategy<Vec<u64>> {
    (0..kinds, aff2_strat(), 0u64..=4, proptest::collection::vec(0u64..65536, 4), probe2(), probe2())
        .prop_map(move |(kind, a, len, sel, v, p)| {
            let mut w = vec![kind];
            w.extend(a);
            w.push(len);
            w.extend(sel);
            w.extend(v.iter().chain(p.iter()).map(|x| ((*x as f32) as f64).to_bits()));
            w
        })
        .boxed()
}

pub fn nontrivial_chain(t: &mut Tally, variant: &str, what: &str, w: &[u64], len: usize, lossy: u32, path: &str) {
    t.class(&format!("chain-length:{len}"));
    t.class(&format!("lossy-edges:{lossy}"));
    if len >= 2 {
        t.nontrivial(hash_case(variant, what, w));
        if t.want_sample() {
            t.sample(json!({"variant": variant, "chain": path, "words": hexwords(w)}));
        }
    }
}
pub fn nontrivial_case(t: &mut Tally, variant: &str, what: &str, w: &[u64], desc: serde_json::Value) {
    t.nontrivial(hash_case(variant, what, w));
    if t.want_sample() {
        t.sample(desc);
    }
}
