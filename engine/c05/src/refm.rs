//! Reference arithmetic of the harness (no glam): a scalar abstraction with two instances
//! (f64 for the f32 glam types, double-double for the f64 glam types) and small vector /
//! 3x3 / 4x4 / quaternion helpers written over it.
use std::fmt::Debug;
use std::ops::{Add, Div, Mul, Neg, Sub};
use vcore::num::DD;

pub trait Sc:
    Copy + Debug + Add<Output = Self> + Sub<Output = Self> + Mul<Output = Self> + Div<Output = Self> + Neg<Output = Self> + 'static
{
    fn of(x: f64) -> Self;
    fn f(self) -> f64;
    fn sqrt(self) -> Self;
    /// sine and cosine, argument in [0, 2]
    fn sin_cos(self) -> (Self, Self);
    #[inline]
    fn abs(self) -> Self {
        if self.f() < 0.0 {
            -self
        } else {
            self
        }
    }
    #[inline]
    fn zero() -> Self {
        Self::of(0.0)
    }
    #[inline]
    fn one() -> Self {
        Self::of(1.0)
    }
}

impl Sc for f64 {
    #[inline]
    fn of(x: f64) -> f64 {
        x
    }
    #[inline]
    fn f(self) -> f64 {
        self
    }
    #[inline]
    fn sqrt(self) -> f64 {
        f64::sqrt(self)
    }
    #[inline]
    fn sin_cos(self) -> (f64, f64) {
        f64::sin_cos(self)
    }
}

/// double-double scalar
#[derive(Clone, Copy, Debug)]
pub struct Q(pub DD);

impl Add for Q {
    type Output = Q;
    #[inline]
    fn add(self, o: Q) -> Q {
        Q(self.0.add(o.0))
    }
}
impl Sub for Q {
    type Output = Q;
    #[inline]
    fn sub(self, o: Q) -> Q {
        Q(self.0.sub(o.0))
    }
}
impl Mul for Q {
    type Output = Q;
    #[inline]
    fn mul(self, o: Q) -> Q {
        Q(self.0.mul(o.0))
    }
}
impl Div for Q {
    type Output = Q;
    #[inline]
    fn div(self, o: Q) -> Q {
        Q(self.0.div(o.0))
    }
}
impl Neg for Q {
    type Output = Q;
    #[inline]
    fn neg(self) -> Q {
        Q(self.0.neg())
    }
}
impl Sc for Q {
    #[inline]
    fn of(x: f64) -> Q {
        Q(DD::new(x))
    }
    #[inline]
    fn f(self) -> f64 {
        self.0.f()
    }
    #[inline]
    fn sqrt(self) -> Q {
        Q(self.0.sqrt())
    }
    /// Taylor series in double-double; |x| <= 2 so 28 terms leave a truncation error < 1e-40.
    fn sin_cos(self) -> (Q, Q) {
        let x2 = self * self;
        let mut s = self;
        let mut term = self;
        for k in 1..28 {
            let d = ((2 * k) * (2 * k + 1)) as f64;
            term = -(term * x2) / Q::of(d);
            s = s + term;
        }
        let mut c = Q::one();
        let mut term = Q::one();
        for k in 1..28 {
            let d = ((2 * k - 1) * (2 * k)) as f64;
            term = -(term * x2) / Q::of(d);
            c = c + term;
        }
        (s, c)
    }
}

#[derive(Clone, Copy, Debug)]
pub struct V3<S: Sc>(pub [S; 3]);

impl<S: Sc> V3<S> {
    #[inline]
    pub fn new(x: S, y: S, z: S) -> Self {
        V3([x, y, z])
    }
    #[inline]
    pub fn dot(self, o: Self) -> S {
        self.0[0] * o.0[0] + self.0[1] * o.0[1] + self.0[2] * o.0[2]
    }
    /// sum of |terms| of the dot product
    #[inline]
    pub fn absdot(self, o: Self) -> S {
        (self.0[0] * o.0[0]).abs() + (self.0[1] * o.0[1]).abs() + (self.0[2] * o.0[2]).abs()
    }
    #[inline]
    pub fn cross(self, o: Self) -> Self {
        let (a, b) = (self.0, o.0);
        V3([a[1] * b[2] - a[2] * b[1], a[2] * b[0] - a[0] * b[2], a[0] * b[1] - a[1] * b[0]])
    }
    #[inline]
    pub fn len(self) -> S {
        self.dot(self).sqrt()
    }
    #[inline]
    pub fn scale(self, k: S) -> Self {
        V3([self.0[0] * k, self.0[1] * k, self.0[2] * k])
    }
    #[inline]
    pub fn normalize(self) -> Self {
        let l = self.len();
        V3([self.0[0] / l, self.0[1] / l, self.0[2] / l])
    }
    #[inline]
    pub fn add(self, o: Self) -> Self {
        V3([self.0[0] + o.0[0], self.0[1] + o.0[1], self.0[2] + o.0[2]])
    }
    #[inline]
    pub fn sub(self, o: Self) -> Self {
        V3([self.0[0] - o.0[0], self.0[1] - o.0[1], self.0[2] - o.0[2]])
    }
    pub fn fv(self) -> [f64; 3] {
        [self.0[0].f(), self.0[1].f(), self.0[2].f()]
    }
}

/// 3x3, stored as columns
#[derive(Clone, Copy, Debug)]
pub struct M3<S: Sc>(pub [V3<S>; 3]);

impl<S: Sc> M3<S> {
    #[inline]
    pub fn row(&self, i: usize) -> V3<S> {
        V3([self.0[0].0[i], self.0[1].0[i], self.0[2].0[i]])
    }
    #[inline]
    pub fn mulv(&self, v: V3<S>) -> V3<S> {
        V3([self.row(0).dot(v), self.row(1).dot(v), self.row(2).dot(v)])
    }
    #[inline]
    pub fn absmulv(&self, v: V3<S>) -> V3<S> {
        V3([self.row(0).absdot(v), self.row(1).absdot(v), self.row(2).absdot(v)])
    }
    #[inline]
    pub fn det(&self) -> S {
        self.0[0].dot(self.0[1].cross(self.0[2]))
    }
    /// rotation matrix of the quaternion (x, y, z, w) after exact normalisation
    pub fn from_quat(q: [S; 4]) -> Self {
        let n = (q[0] * q[0] + q[1] * q[1] + q[2] * q[2] + q[3] * q[3]).sqrt();
        let (x, y, z, w) = (q[0] / n, q[1] / n, q[2] / n, q[3] / n);
        let two = S::of(2.0);
        let one = S::one();
        M3([
            V3([one - two * (y * y + z * z), two * (x * y + w * z), two * (x * z - w * y)]),
            V3([two * (x * y - w * z), one - two * (x * x + z * z), two * (y * z + w * x)]),
            V3([two * (x * z + w * y), two * (y * z - w * x), one - two * (x * x + y * y)]),
        ])
    }
}

/// 4x4, stored as columns: c[j][i] is row i of column j
#[derive(Clone, Copy, Debug)]
pub struct M4<S: Sc>(pub [[S; 4]; 4]);

impl<S: Sc> M4<S> {
    /// (M v)_i and the sum of |terms| of each row
    #[inline]
    pub fn mul4(&self, v: [S; 4]) -> ([S; 4], [S; 4]) {
        let mut r = [S::zero(); 4];
        let mut a = [S::zero(); 4];
        for i in 0..4 {
            let mut s = S::zero();
            let mut sa = S::zero();
            for j in 0..4 {
                let p = self.0[j][i] * v[j];
                s = s + p;
                sa = sa + p.abs();
            }
            r[i] = s;
            a[i] = sa;
        }
        (r, a)
    }
    pub fn rot(&self) -> M3<S> {
        let c = &self.0;
        M3([V3([c[0][0], c[0][1], c[0][2]]), V3([c[1][0], c[1][1], c[1][2]]), V3([c[2][0], c[2][1], c[2][2]])])
    }
    pub fn trans(&self) -> V3<S> {
        V3([self.0[3][0], self.0[3][1], self.0[3][2]])
    }
}

/// N x N homogeneous matrix, column-major: c[j][i] is row i of column j
#[derive(Clone, Copy, Debug)]
pub struct H<S: Sc, const N: usize>(pub [[S; N]; N]);

impl<S: Sc, const N: usize> H<S, N> {
    pub fn identity() -> Self {
        let mut m = [[S::zero(); N]; N];
        for i in 0..N {
            m[i][i] = S::one();
        }
        H(m)
    }
    pub fn from_f64(c: &[f64]) -> Self {
        let mut m = [[S::zero(); N]; N];
        for j in 0..N {
            for i in 0..N {
                m[j][i] = S::of(c[N * j + i]);
            }
        }
        H(m)
    }
    /// (M v)_i and sum of |terms| per row
    pub fn mulv(&self, v: &[S; N]) -> ([S; N], [S; N]) {
        let mut r = [S::zero(); N];
        let mut a = [S::zero(); N];
        for i in 0..N {
            let mut s = S::zero();
            let mut sa = S::zero();
            for j in 0..N {
                let p = self.0[j][i] * v[j];
                s = s + p;
                sa = sa + p.abs();
            }
            r[i] = s;
            a[i] = sa;
        }
        (r, a)
    }
    /// product and the entry-wise |A||B|
    pub fn mul(&self, o: &Self) -> (Self, Self) {
        let mut r = [[S::zero(); N]; N];
        let mut a = [[S::zero(); N]; N];
        for j in 0..N {
            let (c, ca) = self.mulv(&o.0[j]);
            r[j] = c;
            a[j] = ca;
        }
        (H(r), H(a))
    }
    pub fn transpose(&self) -> Self {
        let mut r = [[S::zero(); N]; N];
        for j in 0..N {
            for i in 0..N {
                r[j][i] = self.0[i][j];
            }
        }
        H(r)
    }
    pub fn frob(&self) -> f64 {
        let mut s = 0.0;
        for j in 0..N {
            for i in 0..N {
                let x = self.0[j][i].f();
                s += x * x;
            }
        }
        s.sqrt()
    }
    /// Gauss-Jordan inverse with partial pivoting in the reference arithmetic; None when singular
    pub fn inverse(&self) -> Option<Self> {
        let mut a = self.0; // a[j][i]: column j row i
        let mut b = Self::identity().0;
        for c in 0..N {
            // pivot row
            let mut pr = c;
            for r in c + 1..N {
                if a[c][r].f().abs() > a[c][pr].f().abs() {
                    pr = r;
                }
            }
            if a[c][pr].f() == 0.0 {
                return None;
            }
            if pr != c {
                for j in 0..N {
                    let t = a[j][c];
                    a[j][c] = a[j][pr];
                    a[j][pr] = t;
                    let t = b[j][c];
                    b[j][c] = b[j][pr];
                    b[j][pr] = t;
                }
            }
            let piv = a[c][c];
            for j in 0..N {
                a[j][c] = a[j][c] / piv;
                b[j][c] = b[j][c] / piv;
            }
            for r in 0..N {
                if r != c {
                    let f = a[c][r];
                    if f.f() != 0.0 {
                        for j in 0..N {
                            a[j][r] = a[j][r] - f * a[j][c];
                            b[j][r] = b[j][r] - f * b[j][c];
                        }
                    }
                }
            }
        }
        Some(H(b))
    }
}

/// rotation matrix of a quaternion as a 4x4 homogeneous matrix
pub fn h4_from_quat<S: Sc>(q: [S; 4]) -> H<S, 4> {
    let r = M3::from_quat(q);
    let mut m = H::<S, 4>::identity();
    for j in 0..3 {
        for i in 0..3 {
            m.0[j][i] = r.0[j].0[i];
        }
    }
    m
}
