//! C05 — not implemented yet.
fn main() {
    eprintln!("c05: not implemented");
    std::process::exit(2);
}
