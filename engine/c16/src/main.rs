//! C16 — not implemented yet.
fn main() {
    eprintln!("c16: not implemented");
    std::process::exit(2);
}
