//! C16 — swizzle getters and with_ setters permute exactly the lanes their names spell.
use vcore::*;

/// One lane of a vector type as a canonical word (float bit pattern / two's complement truncated to the width).
pub trait Lane: Copy + std::fmt::Debug + 'static {
    const BITS: u32;
    const FLOAT: bool;
    const SIGNED: bool;
    fn fb(w: u64) -> Self;
    fn tb(self) -> u64;
}
impl Lane for f32 {
    const BITS: u32 = 32;
    const FLOAT: bool = true;
    const SIGNED: bool = true;
    #[inline]
    fn fb(w: u64) -> f32 {
        f32::from_bits(w as u32)
    }
    #[inline]
    fn tb(self) -> u64 {
        self.to_bits() as u64
    }
}
impl Lane for f64 {
    const BITS: u32 = 64;
    const FLOAT: bool = true;
    const SIGNED: bool = true;
    #[inline]
    fn fb(w: u64) -> f64 {
        f64::from_bits(w)
    }
    #[inline]
    fn tb(self) -> u64 {
        self.to_bits()
    }
}
macro_rules! int_lane {
    ($t:ty, $u:ty, $bits:expr, $signed:expr) => {
        impl Lane for $t {
            const BITS: u32 = $bits;
            const FLOAT: bool = false;
            const SIGNED: bool = $signed;
            #[inline]
            fn fb(w: u64) -> $t {
                w as $u as $t
            }
            #[inline]
            fn tb(self) -> u64 {
                self as $u as u64
            }
        }
    };
}
int_lane!(i8, u8, 8, true);
int_lane!(u8, u8, 8, false);
int_lane!(i16, u16, 16, true);
int_lane!(u16, u16, 16, false);
int_lane!(i32, u32, 32, true);
int_lane!(u32, u32, 32, false);
int_lane!(i64, u64, 64, true);
int_lane!(u64, u64, 64, false);
int_lane!(usize, u64, 64, false);

/// lanes of a result as canonical words
#[inline(never)]
pub fn push<T: Lane, const N: usize>(o: &mut Vec<u64>, a: [T; N]) {
    for x in a {
        o.push(x.tb());
    }
}

#[cfg(not(feature = "core"))]
mod simd {
    pub const VARIANT: &str = "simd";
    use ::glam_simd as glam;
    include!("suite.rs");
}
/// the same checks with `glam-assert` compiled in: none of these operations has a documented precondition, so a
/// panic there is a failure
#[cfg(not(feature = "core"))]
mod asserting {
    pub const VARIANT: &str = "simd+glam-assert";
    use ::glam_assert as glam;
    include!("suite.rs");
}
#[cfg(not(feature = "core"))]
mod scalar {
    pub const VARIANT: &str = "scalar";
    use ::glam_scalar as glam;
    include!("suite.rs");
}
/// scalar-math with `glam-assert`: the second pass for the scalar copies (a quarter of the volume)
#[cfg(not(feature = "core"))]
mod scalar_asserting {
    pub const VARIANT: &str = "scalar+glam-assert";
    use ::glam_scalar_assert as glam;
    include!("suite.rs");
}
#[cfg(feature = "core")]
mod core_simd {
    pub const VARIANT: &str = "core";
    use ::glam_core as glam;
    include!("suite.rs");
}
/// core-simd with `glam-assert`: the second pass for the portable-simd copies (a quarter of the volume)
#[cfg(feature = "core")]
mod core_asserting {
    pub const VARIANT: &str = "core+glam-assert";
    use ::glam_core_assert as glam;
    include!("suite.rs");
}

fn main() {
    let args = Args::parse();
    let mut subs = vec![];
    #[cfg(not(feature = "core"))]
    {
        subs.extend(simd::subs(&args));
        subs.extend(scalar::subs(&args));
        subs.extend(asserting::subs(&args));
        subs.extend(scalar_asserting::subs(&args).into_iter().map(|s| s.with_div(4)));
    }
    #[cfg(feature = "core")]
    {
        subs.extend(core_simd::subs(&args));
        subs.extend(core_asserting::subs(&args).into_iter().map(|s| s.with_div(4)));
    }
    let code = main_with("C16", "see MANIFEST / evidence rule", &args, subs);
    std::process::exit(code);
}
