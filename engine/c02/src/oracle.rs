//! C02 oracles: compare what glam returned (moved into plain f64 arrays by suite.rs) with the
//! f64 / double-double reference and the derived bound k*u*sum|terms| (DESIGN.md section 4).
use crate::refm::*;
use serde_json::json;
use vcore::num::DD;
use vcore::*;

pub struct TypeInfo {
    pub ty: &'static str,
    pub n: usize,
    pub bits: u32,
}

/// Outputs of the arithmetic group on one case (a, b, unit n, s).
#[derive(Default, Debug)]
pub struct ArithOut {
    pub dot: f64,
    pub dot_into_vec: [f64; 4],
    pub cross: Option<[f64; 4]>,
    pub perp_dot: Option<f64>,
    pub length: f64,
    pub length_squared: f64,
    pub length_recip: f64,
    pub distance: f64,
    pub distance_squared: f64,
    pub element_sum: f64,
    pub element_product: f64,
    pub lerp: [f64; 4],
    pub midpoint: [f64; 4],
    pub project_onto: [f64; 4],
    pub reject_from: [f64; 4],
    pub project_onto_normalized: [f64; 4],
    pub reject_from_normalized: [f64; 4],
    pub reflect: [f64; 4],
    pub angle_between: Option<f64>,
    pub angle_to: Option<f64>,
    /// Vec2's deprecated angle_between (alias of angle_to)
    pub angle_between_signed: Option<f64>,
}

#[derive(Default, Debug)]
pub struct NormOut {
    pub normalize: [f64; 4],
    pub try_normalize: Option<[f64; 4]>,
    pub normalize_or: [f64; 4],
    pub normalize_or_bits: [u64; 4],
    pub normalize_or_zero: [f64; 4],
    pub nal_v: [f64; 4],
    pub nal_len: f64,
}

struct Cx<'a> {
    info: &'a TypeInfo,
    variant: &'a str,
    f: Fmt,
}

impl<'a> Cx<'a> {
    fn fail(&self, op: &str, msg: String) -> Fail {
        Fail::new(format!("C02/{}/{}/{}", self.variant, self.info.ty, op), op, msg)
    }
    /// |got - want| <= tol, recording the ratio
    fn cmp<R: Real>(&self, t: &mut Tally, op: &str, got: f64, want: R, tol: f64, ctx: &dyn Fn() -> String) -> Result<(), Fail> {
        let err = R::of(got).sub(want).abs().f();
        if !(err <= tol) {
            return Err(self.fail(op, format!("got {:e} expected {:e} |err| {:e} > tol {:e}; {}", got, want.f(), err, tol, ctx())));
        }
        t.ratio(op, if tol > 0.0 { err / tol } else { 0.0 });
        Ok(())
    }
    fn cmpv<R: Real>(&self, t: &mut Tally, op: &str, got: &[f64; 4], want: &[R; 4], tol: &[f64; 4], ctx: &dyn Fn() -> String) -> Result<(), Fail> {
        for i in 0..self.info.n {
            let err = R::of(got[i]).sub(want[i]).abs().f();
            if !(err <= tol[i]) {
                return Err(self.fail(
                    op,
                    format!("lane {i}: got {:e} expected {:e} |err| {:e} > tol {:e}; got {:?}; {}", got[i], want[i].f(), err, tol[i], &got[..self.info.n], ctx()),
                ));
            }
            t.ratio(op, if tol[i] > 0.0 { err / tol[i] } else { 0.0 });
        }
        Ok(())
    }
}

/// Tolerance constant for a path of `ops` rounding operations: the first-order worst case of the
/// forward error is ops*u*S (gamma_n, any association order); the tolerance is twice that, so that even
/// the attainable worst case sits at headroom 0.5, and never less than ops + 2 (DESIGN.md section 4).
fn k2(ops: f64) -> f64 {
    (2.0 * ops).max(ops + 2.0)
}

fn nz(a: &[f64]) -> usize {
    a.iter().filter(|x| **x != 0.0).count()
}

pub fn judge_arith(info: &TypeInfo, variant: &str, w: &[u64], o: &ArithOut, t: &mut Tally) -> Result<(), Fail> {
    let cx = Cx { info, variant, f: fmt(info.bits) };
    if info.bits == 32 {
        judge_arith_r::<f64>(&cx, w, o, t)
    } else {
        judge_arith_r::<DD>(&cx, w, o, t)
    }
}

fn judge_arith_r<R: Real>(cx: &Cx, w: &[u64], o: &ArithOut, t: &mut Tally) -> Result<(), Fail> {
    let n = cx.info.n;
    let nf = n as f64;
    let bits = cx.info.bits;
    let (u, tiny, minn, maxf) = (cx.f.u, cx.f.tiny, cx.f.minn, cx.f.max);
    let a = decode(bits, &w[0..n]);
    let b = decode(bits, &w[n..2 * n]);
    let nr = decode(bits, &w[2 * n..3 * n]);
    let s = from_word(bits, w[3 * n]);
    let (ar, br, nrr): ([R; 4], [R; 4], [R; 4]) = (lift(&a), lift(&b), lift(&nr));
    let (ar, br, nrr) = (&ar[..n], &br[..n], &nrr[..n]);
    let ctx = || format!("a={:?} b={:?} n={:?} s={:?}", &a[..n], &b[..n], &nr[..n], s);
    // floor: every operation that underflows contributes at most half a subnormal spacing
    let fl = (nf + 4.0) * tiny;
    let mut evals = 0u64;

    // ---- dot, dot_into_vec
    let (d, sd) = dot_ref(ar, br);
    let tol = k2(nf) * u * sd + fl;
    cx.cmp(t, "dot", o.dot, d, tol, &ctx)?;
    cx.cmpv(t, "dot_into_vec", &o.dot_into_vec, &[d; 4], &[tol; 4], &ctx)?;
    evals += 2;
    let cancel = if d.f() != 0.0 { sd / d.f().abs() } else { f64::INFINITY };

    // ---- cross / perp_dot
    let mut cancel_x = 0.0f64;
    if let Some(c) = &o.cross {
        let (cr, cs) = cross_ref(ar, br);
        let tol = [4.0 * u * cs[0] + fl, 4.0 * u * cs[1] + fl, 4.0 * u * cs[2] + fl, 0.0];
        cx.cmpv(t, "cross", c, &[cr[0], cr[1], cr[2], R::of(0.0)], &tol, &ctx)?;
        for i in 0..3 {
            if cr[i].f() != 0.0 {
                cancel_x = cancel_x.max(cs[i] / cr[i].f().abs());
            }
        }
        evals += 1;
    }
    let mut perp: Option<(R, f64)> = None;
    if let Some(p) = o.perp_dot {
        let x = ar[0].mul(br[1]);
        let y = ar[1].mul(br[0]);
        let pr = x.sub(y);
        let ps = x.abs().f() + y.abs().f();
        cx.cmp(t, "perp_dot", p, pr, 4.0 * u * ps + fl, &ctx)?;
        if pr.f() != 0.0 {
            cancel_x = cancel_x.max(ps / pr.f().abs());
        }
        perp = Some((pr, ps));
        evals += 1;
    }

    // ---- lengths
    let (la, _) = dot_ref(ar, ar);
    let (lb, _) = dot_ref(br, br);
    cx.cmp(t, "length_squared", o.length_squared, la, k2(nf) * u * la.f() + fl, &ctx)?;
    let len = la.sqrt();
    cx.cmp(t, "length", o.length, len, k2(nf / 2.0 + 1.0) * u * len.f(), &ctx)?;
    let rcp = R::of(1.0).div(len);
    cx.cmp(t, "length_recip", o.length_recip, rcp, k2(nf / 2.0 + 2.0) * u * rcp.f(), &ctx)?;
    evals += 3;

    // ---- distances: the differences are rounded once each (relative to the difference), then squared
    let mut dv = [R::of(0.0); 4];
    for i in 0..n {
        dv[i] = ar[i].sub(br[i]);
    }
    let (l2, _) = dot_ref(&dv[..n], &dv[..n]);
    if l2.f() != 0.0 && l2.f() < minn / u {
        // squares of the differences underflow: outside the statement's domain
        t.class("range-skip:distance");
    } else {
        cx.cmp(t, "distance_squared", o.distance_squared, l2, k2(nf + 2.0) * u * l2.f() + fl, &ctx)?;
        let dist = l2.sqrt();
        cx.cmp(t, "distance", o.distance, dist, k2(nf / 2.0 + 2.0) * u * dist.f(), &ctx)?;
        evals += 2;
    }

    // ---- element_sum / element_product
    {
        let mut r = R::of(0.0);
        let mut sa = 0.0;
        for i in 0..n {
            r = r.add(ar[i]);
            sa += a[i].abs();
        }
        cx.cmp(t, "element_sum", o.element_sum, r, k2(nf - 1.0) * u * sa, &ctx)?;
        let mut p = R::of(1.0);
        let (mut pos, mut neg) = (0.0f64, 0.0f64);
        for i in 0..n {
            p = p.mul(ar[i]);
            if a[i] != 0.0 {
                let l = a[i].abs().log2();
                if l > 0.0 { pos += l } else { neg += l }
            }
        }
        if pos > maxf.log2() - 1.0 || neg < minn.log2() + 1.0 {
            // some partial product may leave the normal range in some association order
            t.class("range-skip:element_product");
        } else {
            cx.cmp(t, "element_product", o.element_product, p, k2(nf - 1.0) * u * p.abs().f() + fl, &ctx)?;
            evals += 1;
        }
        evals += 1;
    }

    // ---- lerp, midpoint
    {
        let sr = R::of(s);
        let oms = R::of(1.0).sub(sr);
        let mut want = [R::of(0.0); 4];
        let mut tol = [0.0; 4];
        let mut wm = [R::of(0.0); 4];
        let mut tolm = [0.0; 4];
        for i in 0..n {
            let p = ar[i].mul(oms);
            let q = br[i].mul(sr);
            want[i] = p.add(q);
            tol[i] = k2(3.0) * u * (p.abs().f() + q.abs().f()) + fl;
            wm[i] = ar[i].add(br[i]).mul(R::of(0.5));
            tolm[i] = k2(1.0) * u * 0.5 * (a[i].abs() + b[i].abs()) + fl;
        }
        cx.cmpv(t, "lerp", &o.lerp, &want, &tol, &ctx)?;
        cx.cmpv(t, "midpoint", &o.midpoint, &wm, &tolm, &ctx)?;
        evals += 2;
    }

    // ---- project_onto / reject_from (self = a, rhs = b)
    {
        let lbf = lb.f();
        // every intermediate of (b_i * d) / L in either association must stay in the normal range
        let lg = |x: f64| x.abs().log2();
        let (lmin, lmax) = (minn.log2() + 1.0, maxf.log2() - 2.0);
        let mut under = false;
        if d.f() != 0.0 {
            for i in 0..n {
                if b[i] == 0.0 {
                    continue;
                }
                for x in [lg(b[i]) + lg(d.f()), lg(d.f()) - lg(lbf), lg(b[i]) - lg(lbf), lg(b[i]) + lg(d.f()) - lg(lbf)] {
                    if x < lmin || x > lmax {
                        under = true;
                    }
                }
            }
        }
        if under {
            t.class("range-skip:project_onto");
        } else {
            let mut want = [R::of(0.0); 4];
            let mut wrej = [R::of(0.0); 4];
            let mut tol = [0.0; 4];
            let mut tolr = [0.0; 4];
            for i in 0..n {
                want[i] = br[i].mul(d).div(lb);
                wrej[i] = ar[i].sub(want[i]);
                // dot: N ops on sum|terms|; relative to |d|: 1/(b.b) is N+1 ops, then two multiplications
                tol[i] = u * (b[i].abs() / lbf) * (k2(nf) * sd + k2(nf + 3.0) * d.f().abs()) + fl;
                tolr[i] = tol[i] + k2(1.0) * u * (a[i].abs() + want[i].f().abs());
            }
            cx.cmpv(t, "project_onto", &o.project_onto, &want, &tol, &ctx)?;
            cx.cmpv(t, "reject_from", &o.reject_from, &wrej, &tolr, &ctx)?;
            evals += 2;
        }
    }
    // ---- project_onto_normalized / reject_from_normalized / reflect with the unit vector n (self = a)
    {
        let (dn, sdn) = dot_ref(ar, nrr);
        let mut want = [R::of(0.0); 4];
        let mut wrej = [R::of(0.0); 4];
        let mut wrefl = [R::of(0.0); 4];
        let mut tol = [0.0; 4];
        let mut tolr = [0.0; 4];
        let mut tolf = [0.0; 4];
        for i in 0..n {
            want[i] = nrr[i].mul(dn);
            wrej[i] = ar[i].sub(want[i]);
            wrefl[i] = ar[i].sub(want[i].mul(R::of(2.0)));
            tol[i] = u * nr[i].abs() * (k2(nf) * sdn + k2(1.0) * dn.f().abs()) + fl;
            tolr[i] = tol[i] + k2(1.0) * u * (a[i].abs() + want[i].f().abs());
            tolf[i] = 2.0 * tol[i] + k2(1.0) * u * (a[i].abs() + 2.0 * want[i].f().abs());
        }
        cx.cmpv(t, "project_onto_normalized", &o.project_onto_normalized, &want, &tol, &ctx)?;
        cx.cmpv(t, "reject_from_normalized", &o.reject_from_normalized, &wrej, &tolr, &ctx)?;
        cx.cmpv(t, "reflect", &o.reflect, &wrefl, &tolf, &ctx)?;
        evals += 3;
    }

    // ---- angles
    let mut theta = f64::NAN;
    let lalb = la.f().log2() + lb.f().log2();
    if (o.angle_between.is_some() || o.angle_to.is_some()) && (lalb < minn.log2() + 1.0 || lalb > maxf.log2() - 1.0) {
        // glam forms |a|^2 |b|^2: that product leaves the normal range (outside the statement's domain)
        t.class("range-skip:angle(|a|^2|b|^2)");
    } else if o.angle_between.is_some() || o.angle_to.is_some() {
        theta = angle_ref(ar, br);
        let sin = theta.sin().abs();
        // cosine error: (2N+4) u; arccos conditioning 1/max(sin, sqrt u) with the factor 2 of the end regions
        let k = 2.0 * (2.0 * nf + 4.0) + if bits == 64 { 8.0 } else { 0.0 };
        let poly = if bits == 32 { 6e-7 } else { 0.0 };
        let tol = poly + k * u / sin.max(u.sqrt());
        let c2 = || format!("true angle {:e}; {}", theta, ctx());
        if let Some(g) = o.angle_between {
            cx.cmp(t, "angle_between", g, theta, tol, &c2)?;
            evals += 1;
        }
        for (name, g) in [("angle_to", o.angle_to), ("angle_between(deprecated)", o.angle_between_signed)] {
            let Some(g) = g else { continue };
            cx.cmp(t, name, g.abs(), theta, tol, &c2)?;
            let (pr, ps) = perp.unwrap();
            if pr.f().abs() > 4.0 * u * ps + fl && g != 0.0 && theta > tol && std::f64::consts::PI - theta > tol {
                if (g > 0.0) != (pr.f() > 0.0) {
                    return Err(cx.fail(name, format!("sign: got {:e}, perp_dot is {:e}; {}", g, pr.f(), ctx())));
                }
            } else {
                t.class("angle_to:sign-free");
            }
            evals += 1;
        }
    }

    // ---- tallies
    t.eval(evals);
    let (za, zb) = (nz(&a[..n]), nz(&b[..n]));
    t.class(match za {
        1 => "a:single-axis",
        x if x == n => "a:dense",
        _ => "a:sparse",
    });
    t.class(match zb {
        1 => "b:single-axis",
        x if x == n => "b:dense",
        _ => "b:sparse",
    });
    let cmax = cancel.max(cancel_x);
    t.class(if cmax > 1e6 {
        "cancel:>1e6"
    } else if cmax > 1e3 {
        "cancel:>1e3"
    } else if cmax > 4.0 {
        "cancel:>4"
    } else {
        "cancel:<=4"
    });
    {
        let th = if theta.is_nan() { angle_ref(ar, br) } else { theta };
        let pi = std::f64::consts::PI;
        t.class(if th == 0.0 {
            "angle:0"
        } else if th < 1e-6 {
            "angle:<1e-6"
        } else if th < 1e-3 {
            "angle:<1e-3"
        } else if (th - pi / 2.0).abs() < 1e-6 {
            "angle:pi/2+-1e-6"
        } else if pi - th < 1e-6 {
            "angle:>pi-1e-6"
        } else if pi - th < 1e-3 {
            "angle:>pi-1e-3"
        } else {
            "angle:mid"
        });
    }
    if (za >= 2 && zb >= 2) || cmax > 4.0 {
        t.nontrivial(mix(hash_str(cx.info.ty), mix(hash_str(cx.variant), fnv(w))));
        if t.want_sample() {
            t.sample(json!({"type": cx.info.ty, "variant": cx.variant, "a": format!("{:?}", &a[..n]), "b": format!("{:?}", &b[..n]),
                "unit": format!("{:?}", &nr[..n]), "s": s, "cancellation": cmax, "words": hexwords(w)}));
        }
    }
    Ok(())
}

// ------------------------------------------------------------------ normalize family

#[derive(Clone, Copy, PartialEq, Debug)]
enum Band {
    Valid,
    LowSlack,
    HighSlack,
    Overflow,
    Zero,
    NonFinite,
}

pub fn judge_norm(info: &TypeInfo, variant: &str, w: &[u64], o: &NormOut, t: &mut Tally) -> Result<(), Fail> {
    let cx = Cx { info, variant, f: fmt(info.bits) };
    if info.bits == 32 {
        judge_norm_r::<f64>(&cx, w, o, t)
    } else {
        judge_norm_r::<DD>(&cx, w, o, t)
    }
}

fn judge_norm_r<R: Real>(cx: &Cx, w: &[u64], o: &NormOut, t: &mut Tally) -> Result<(), Fail> {
    let n = cx.info.n;
    let nf = n as f64;
    let bits = cx.info.bits;
    let (u, tiny) = (cx.f.u, cx.f.tiny);
    let x = decode(bits, &w[0..n]);
    let fb = decode(bits, &w[n..2 * n]);
    let ctx = || format!("x={:?} (words {:?}) fallback={:?}", &x[..n], hexwords(&w[..n]), &fb[..n]);
    t.eval(5);

    // classification by the exact squared length L = 2^(2e) * L'
    let mut e = 0;
    let mut xs = [0.0; 4];
    let mut lp = R::of(0.0);
    let band = if x[..n].iter().any(|v| !v.is_finite()) {
        Band::NonFinite
    } else if x[..n].iter().all(|v| *v == 0.0) {
        Band::Zero
    } else {
        let m = x[..n].iter().fold(0.0f64, |m, v| m.max(v.abs()));
        e = ilogb(m);
        for i in 0..n {
            xs[i] = ldexp(x[i], -e);
        }
        let xr: [R; 4] = lift(&xs);
        lp = dot_ref(&xr[..n], &xr[..n]).0;
        let lg = lp.f().log2() + 2.0 * e as f64;
        let lo = (2.0 * cx.f.minn).log2();
        let hi = cx.f.emax_all as f64 - 1.0; // log2(MAX/2) just below this
        let (m_in, m_ov) = if bits == 32 { (1e-6, 3e-6) } else { (1e-9, 1e-9) };
        if lg < lo + m_in {
            Band::LowSlack
        } else if lg <= hi - m_in {
            Band::Valid
        } else if lg <= cx.f.emax_all as f64 + m_ov {
            Band::HighSlack
        } else {
            Band::Overflow
        }
    };
    t.class(match band {
        Band::Valid => "band:valid",
        Band::LowSlack => "band:slack-low(L<2*MIN_POSITIVE)",
        Band::HighSlack => "band:slack-high(MAX/2<L<=MAX)",
        Band::Overflow => "band:L-overflows",
        Band::Zero => "band:zero",
        Band::NonFinite => "band:non-finite",
    });
    let finite = |v: &[f64; 4]| v[..n].iter().all(|c| c.is_finite());
    let is_zero = |v: &[f64; 4]| v[..n].iter().all(|c| *c == 0.0);
    let is_x0 = |v: &[f64; 4], l: f64| (0..n).all(|i| v[i] == if i == 0 { 1.0 } else { 0.0 }) && l == 0.0;
    let is_fb = || (0..n).all(|i| o.normalize_or_bits[i] == w[n + i] || (o.normalize_or[i].is_nan() && fb[i].is_nan()));

    match band {
        Band::Valid => {
            let len = lp.sqrt(); // scaled length
            let xr: [R; 4] = lift(&xs);
            let mut want = [R::of(0.0); 4];
            let mut tol = [0.0; 4];
            // L: N ops (+2: squares of small lanes may be subnormal), sqrt halves and adds 1, division 1, multiplication 1
            let k = k2(nf / 2.0 + 4.0);
            for i in 0..n {
                want[i] = xr[i].div(len);
                tol[i] = k * u * want[i].f().abs() + 4.0 * tiny; // floor: rounding into the subnormal grid, and the reference itself there
            }
            let unit = |t: &mut Tally, op: &str, v: &[f64; 4]| -> Result<(), Fail> {
                cx.cmpv(t, op, v, &want, &tol, &ctx)?;
                let vr: [R; 4] = lift(v);
                let nv = norm_ref(&vr[..n]);
                let err = nv.sub(R::of(1.0)).abs().f();
                if !(err <= k * u) {
                    return Err(cx.fail(op, format!("length of result {:e} differs from 1 by {:e} > {:e}; got {:?}; {}", nv.f(), err, k * u, &v[..n], ctx())));
                }
                t.ratio(&format!("{op}:unit-length"), err / (k * u));
                Ok(())
            };
            unit(t, "normalize", &o.normalize)?;
            match &o.try_normalize {
                None => return Err(cx.fail("try_normalize", format!("None for a vector whose squared length is a normal finite number; {}", ctx()))),
                Some(v) => unit(t, "try_normalize", v)?,
            }
            unit(t, "normalize_or", &o.normalize_or)?;
            unit(t, "normalize_or_zero", &o.normalize_or_zero)?;
            unit(t, "normalize_and_length", &o.nal_v)?;
            // returned length, compared after exact rescaling by 2^-e
            let gl = ldexp(o.nal_len, -e);
            cx.cmp(t, "normalize_and_length:length", gl, len, k2(nf / 2.0 + 2.0) * u * len.f(), &ctx)?;
        }
        Band::Zero | Band::NonFinite | Band::Overflow => {
            if let Some(v) = &o.try_normalize {
                return Err(cx.fail("try_normalize", format!("Some({:?}) where 1/length is not finite and positive ({:?}); {}", &v[..n], band, ctx())));
            }
            if !is_fb() {
                return Err(cx.fail("normalize_or", format!("got {:?}, expected the fallback ({:?}); {}", &o.normalize_or[..n], band, ctx())));
            }
            if !is_zero(&o.normalize_or_zero) {
                return Err(cx.fail("normalize_or_zero", format!("got {:?}, expected zero ({:?}); {}", &o.normalize_or_zero[..n], band, ctx())));
            }
            if !is_x0(&o.nal_v, o.nal_len) {
                return Err(cx.fail("normalize_and_length", format!("got ({:?}, {:e}), expected (X, 0) ({:?}); {}", &o.nal_v[..n], o.nal_len, band, ctx())));
            }
        }
        Band::LowSlack | Band::HighSlack => {
            // either side of the representability boundary; the checked forms never hand out a non-finite vector
            if let Some(v) = &o.try_normalize {
                t.class("slack:normalized");
                if !finite(v) {
                    return Err(cx.fail("try_normalize", format!("non-finite Some({:?}); {}", &v[..n], ctx())));
                }
            } else {
                t.class("slack:fallback");
            }
            if !is_fb() && !finite(&o.normalize_or) {
                return Err(cx.fail("normalize_or", format!("non-finite {:?} that is not the fallback; {}", &o.normalize_or[..n], ctx())));
            }
            if !finite(&o.normalize_or_zero) {
                return Err(cx.fail("normalize_or_zero", format!("non-finite {:?}; {}", &o.normalize_or_zero[..n], ctx())));
            }
            if !finite(&o.nal_v) || !(o.nal_len.is_finite() && o.nal_len >= 0.0) {
                return Err(cx.fail("normalize_and_length", format!("non-finite ({:?}, {:e}); {}", &o.nal_v[..n], o.nal_len, ctx())));
            }
        }
    }
    if band != Band::Valid || nz(&x[..n]) >= 2 {
        if band == Band::LowSlack || band == Band::HighSlack {
            // boundary cases are tallied, not counted as non-trivial
            t.class("boundary");
        } else {
            t.nontrivial(mix(hash_str(cx.info.ty), mix(hash_str(cx.variant), fnv(w))));
            if t.want_sample() {
                t.sample(json!({"type": cx.info.ty, "variant": cx.variant, "x": format!("{:?}", &x[..n]), "band": format!("{:?}", band), "words": hexwords(w)}));
            }
        }
    }
    Ok(())
}

// ------------------------------------------------------------------ refract

pub fn judge_refract(info: &TypeInfo, variant: &str, w: &[u64], got: &[f64; 4], t: &mut Tally) -> Result<(), Fail> {
    let cx = Cx { info, variant, f: fmt(info.bits) };
    if info.bits == 32 {
        judge_refract_r::<f64>(&cx, w, got, t)
    } else {
        judge_refract_r::<DD>(&cx, w, got, t)
    }
}

fn judge_refract_r<R: Real>(cx: &Cx, w: &[u64], got: &[f64; 4], t: &mut Tally) -> Result<(), Fail> {
    let n = cx.info.n;
    let nf = n as f64;
    let bits = cx.info.bits;
    let u = cx.f.u;
    let iv = decode(bits, &w[0..n]);
    let nv = decode(bits, &w[n..2 * n]);
    let eta = from_word(bits, w[2 * n]);
    let (ir, nr): ([R; 4], [R; 4]) = (lift(&iv), lift(&nv));
    let (ir, nr) = (&ir[..n], &nr[..n]);
    t.eval(1);
    let (d, sd) = dot_ref(nr, ir);
    let er = R::of(eta);
    let e2 = er.mul(er);
    let omd = R::of(1.0).sub(d.mul(d));
    let kk = R::of(1.0).sub(e2.mul(omd));
    // rounding slack of the computed k = 1 - eta^2 (1 - d^2), first order: d carries N u sd; d^2: 2|d| times that + u d^2;
    // 1 - d^2: + u; eta^2 and the product: + 2 u each relative; the last subtraction: u |k|. Twice that bound is used.
    let e2f = e2.f();
    let slack = 2.0 * u * (e2f * (2.0 * d.f().abs() * nf * sd + 3.0) + kk.f().abs());
    let kf = kk.f();
    let ctx = || format!("i={:?} n={:?} eta={:?} k={:e} slack={:e}", &iv[..n], &nv[..n], eta, kf, slack);
    let zero_ok = kf - slack < 0.0;
    let refr_ok = kf + slack >= 0.0;
    let is_zero = got[..n].iter().all(|c| *c == 0.0);
    let side = if kf >= 0.0 { "refracted" } else { "total-internal-reflection" };
    let dist = kf.abs();
    t.class(&format!(
        "k:{}:{}",
        side,
        if zero_ok && refr_ok { "within-slack" } else if dist < 1e-6 { "<1e-6" } else if dist < 1e-3 { "<1e-3" } else { ">=1e-3" }
    ));
    if is_zero && zero_ok {
        // (a refracted result can only be exactly zero when eta = 0, which is not generated)
    } else if !refr_ok {
        return Err(cx.fail("refract", format!("got {:?}, expected the zero vector (total internal reflection); {}", &got[..n], ctx())));
    } else {
        // got = eta*i - (eta*d + t) n with t in [sqrt(max(k-slack,0)), sqrt(k+slack)]
        let lo = (kf - slack).max(0.0).sqrt();
        let hi = (kf + slack).max(0.0).sqrt();
        // estimate t from the result
        let mut num = R::of(0.0);
        for j in 0..n {
            num = num.add(er.mul(ir[j]).sub(R::of(got[j])).mul(nr[j]));
        }
        let (nn, _) = dot_ref(nr, nr);
        let test = num.div(nn).sub(er.mul(d)).f();
        // any t in the window is acceptable: compare at the admissible t closest to the estimate
        let tuse = R::of(test.clamp(lo, hi));
        let mut want = [R::of(0.0); 4];
        let mut tol = [0.0; 4];
        let coef = er.mul(d).add(tuse);
        let mut tn = 0.0;
        for j in 0..n {
            want[j] = er.mul(ir[j]).sub(coef.mul(nr[j]));
            // eta*i_j (1) and the final subtraction (1); coefficient of n_j: eta*d (dot: N u sd; product 1), sqrt (1), sum (1), times n_j (1),
            // subtraction (1): first-order bound u (2|eta i_j| + |n_j| (|eta| N sd + 4 |eta d| + 4 t)), doubled
            tol[j] = 2.0 * u * (2.0 * (eta * iv[j]).abs() + nv[j].abs() * (eta.abs() * (nf * sd + 4.0 * d.f().abs()) + 4.0 * tuse.f().abs())) + 4.0 * cx.f.tiny;
            tn += tol[j] * nv[j].abs();
        }
        // the estimate of t absorbs the component of the error along n
        for j in 0..n {
            tol[j] += nv[j].abs() * tn;
        }
        if is_zero && !zero_ok {
            return Err(cx.fail("refract", format!("got the zero vector but k = {:e} is positive beyond rounding slack; {}", kf, ctx())));
        }
        cx.cmpv(t, "refract", got, &want, &tol, &ctx)?;
    }
    if zero_ok && refr_ok {
        t.class("boundary");
    } else {
        t.nontrivial(mix(hash_str(cx.info.ty), mix(hash_str(cx.variant), fnv(w))));
        if t.want_sample() {
            t.sample(json!({"type": cx.info.ty, "variant": cx.variant, "i": format!("{:?}", &iv[..n]), "n": format!("{:?}", &nv[..n]), "eta": eta, "k": kf, "words": hexwords(w)}));
        }
    }
    Ok(())
}
