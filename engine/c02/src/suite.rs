// Included once per glam variant (`glam` is aliased by the including module).
#[allow(unused_imports)]
use super::Fl;
use crate::gens;
use crate::oracle::{judge_arith, judge_norm, judge_refract, ArithOut, NormOut, TypeInfo};
#[allow(unused_imports)]
use glam::{DVec2, DVec3, DVec4, Vec2, Vec3, Vec3A, Vec4};
use vcore::*;

/// How a case's lanes become a vector. Vec3A gets a hidden fourth lane that differs from every visible
/// lane (from_array would copy z into it), so that a kernel reading the hidden lane cannot go unnoticed.
pub trait Mk<T, const N: usize> {
    fn mk(a: [T; N]) -> Self;
}
macro_rules! mk_plain {
    ($V:ident, $T:ident, $N:expr) => {
        impl Mk<$T, $N> for $V {
            #[inline]
            fn mk(a: [$T; $N]) -> Self {
                $V::from_array(a)
            }
        }
    };
}
mk_plain!(Vec2, f32, 2);
mk_plain!(Vec3, f32, 3);
mk_plain!(Vec4, f32, 4);
mk_plain!(DVec2, f64, 2);
mk_plain!(DVec3, f64, 3);
mk_plain!(DVec4, f64, 4);
impl Mk<f32, 3> for Vec3A {
    #[inline]
    fn mk(a: [f32; 3]) -> Self {
        let h = 1.0 + 2.0 * (a[0].abs() + a[1].abs() + a[2].abs());
        let h = if h.is_finite() { h } else { 3.0 };
        Vec3A::from_vec4(Vec4::new(a[0], a[1], a[2], h))
    }
}

macro_rules! dim_extra {
    (d2, $o:ident, $a:ident, $b:ident) => {
        $o.perp_dot = Some($a.perp_dot($b).to64());
        $o.angle_to = Some($a.angle_to($b).to64());
        #[allow(deprecated)]
        {
            $o.angle_between_signed = Some($a.angle_between($b).to64());
        }
    };
    (d3, $o:ident, $a:ident, $b:ident) => {
        $o.cross = Some(arr4($a.cross($b)));
        $o.angle_between = Some($a.angle_between($b).to64());
    };
    (d4, $o:ident, $a:ident, $b:ident) => {};
}

macro_rules! geom_type {
    ($m:ident, $V:ident, $T:ident, $N:expr, $dim:ident) => {
        pub mod $m {
            use super::*;
            pub const N: usize = $N;
            pub type V = $V;
            pub type T = $T;
            pub const INFO: TypeInfo = TypeInfo { ty: stringify!($V), n: N, bits: <T as Fl>::BITS };

            #[inline]
            fn v(w: &[u64]) -> V {
                let mut a = [0.0 as T; N];
                for i in 0..N {
                    a[i] = T::fb(w[i]);
                }
                <V as Mk<T, N>>::mk(a)
            }
            #[inline]
            fn arr4(x: V) -> [f64; 4] {
                let a = x.to_array();
                let mut o = [0.0; 4];
                for i in 0..N {
                    o[i] = a[i].to64();
                }
                o
            }

            /// words: a[N] b[N] unit[N] s
            pub fn arith(w: &[u64], t: &mut Tally) -> Result<(), Fail> {
                let (a, b, n) = (v(&w[0..N]), v(&w[N..2 * N]), v(&w[2 * N..3 * N]));
                let s = T::fb(w[3 * N]);
                let mut o = ArithOut::default();
                o.dot = a.dot(b).to64();
                o.dot_into_vec = arr4(a.dot_into_vec(b));
                o.length = a.length().to64();
                o.length_squared = a.length_squared().to64();
                o.length_recip = a.length_recip().to64();
                o.distance = a.distance(b).to64();
                o.distance_squared = a.distance_squared(b).to64();
                o.element_sum = a.element_sum().to64();
                o.element_product = a.element_product().to64();
                o.lerp = arr4(a.lerp(b, s));
                o.midpoint = arr4(a.midpoint(b));
                o.project_onto = arr4(a.project_onto(b));
                o.reject_from = arr4(a.reject_from(b));
                o.project_onto_normalized = arr4(a.project_onto_normalized(n));
                o.reject_from_normalized = arr4(a.reject_from_normalized(n));
                o.reflect = arr4(a.reflect(n));
                dim_extra!($dim, o, a, b);
                judge_arith(&INFO, VARIANT, w, &o, t)
            }

            /// words: x[N] fallback[N]
            pub fn normalize(w: &[u64], t: &mut Tally) -> Result<(), Fail> {
                let (x, fb) = (v(&w[0..N]), v(&w[N..2 * N]));
                let mut o = NormOut::default();
                o.normalize = arr4(x.normalize());
                o.try_normalize = x.try_normalize().map(arr4);
                let r = x.normalize_or(fb);
                o.normalize_or = arr4(r);
                let ra = r.to_array();
                for i in 0..N {
                    o.normalize_or_bits[i] = ra[i].tb();
                }
                o.normalize_or_zero = arr4(x.normalize_or_zero());
                let (nv, nl) = x.normalize_and_length();
                o.nal_v = arr4(nv);
                o.nal_len = nl.to64();
                judge_norm(&INFO, VARIANT, w, &o, t)
            }

            /// words: i[N] n[N] eta
            pub fn refract(w: &[u64], t: &mut Tally) -> Result<(), Fail> {
                let (i, n) = (v(&w[0..N]), v(&w[N..2 * N]));
                let eta = T::fb(w[2 * N]);
                let got = arr4(i.refract(n, eta));
                judge_refract(&INFO, VARIANT, w, &got, t)
            }

            pub fn subs<'a>(out: &mut Vec<SubCheck<'a>>) {
                out.push(SubCheck::new(
                    format!("arith/{}/{}", INFO.ty, VARIANT),
                    2,
                    |env: &mut Env| {
                        let c = env.cases(100_000, 20);
                        env.prop("arith", c, gens::arith(N, INFO.bits), &arith);
                    },
                    arith,
                ));
                out.push(SubCheck::new(
                    format!("normalize/{}/{}", INFO.ty, VARIANT),
                    1,
                    |env: &mut Env| {
                        let c = env.cases(50_000, 20);
                        env.prop("normalize", c, gens::normalize(N, INFO.bits), &normalize);
                    },
                    normalize,
                ));
                out.push(SubCheck::new(
                    format!("refract/{}/{}", INFO.ty, VARIANT),
                    1,
                    |env: &mut Env| {
                        let c = env.cases(50_000, 20);
                        env.prop("refract", c, gens::refract(N, INFO.bits), &refract);
                    },
                    refract,
                ));
            }
        }
    };
}

geom_type!(vec2, Vec2, f32, 2, d2);
geom_type!(vec3, Vec3, f32, 3, d3);
geom_type!(vec3a, Vec3A, f32, 3, d3);
geom_type!(vec4, Vec4, f32, 4, d4);
geom_type!(dvec2, DVec2, f64, 2, d2);
geom_type!(dvec3, DVec3, f64, 3, d3);
geom_type!(dvec4, DVec4, f64, 4, d4);

pub fn subs<'a>(_args: &Args) -> Vec<SubCheck<'a>> {
    let mut out = vec![];
    vec2::subs(&mut out);
    vec3::subs(&mut out);
    vec3a::subs(&mut out);
    vec4::subs(&mut out);
    dvec2::subs(&mut out);
    dvec3::subs(&mut out);
    dvec4::subs(&mut out);
    out
}
