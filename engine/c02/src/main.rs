//! C02 — not implemented yet.
fn main() {
    eprintln!("c02: not implemented");
    std::process::exit(2);
}
