//! Case generators of C02 (words for the three sub-check groups).
use crate::refm::*;
use proptest::collection::vec as pvec;
use proptest::prelude::*;
use vcore::lattice;

/// arith case: a[N] b[N] unit[N] s
pub fn arith(n: usize, bits: u32) -> BoxedStrategy<Vec<u64>> {
    let f = fmt(bits);
    let dmax = if bits == 32 { 7.5 } else { 15.0 };
    (pair(n, f.emax, dmax), unit(n), s_param(), any::<bool>())
        .prop_map(move |((a, b), un, s, swap)| {
            let (a, b) = if swap { (b, a) } else { (a, b) };
            let mut w = words(bits, &a);
            w.extend(words(bits, &b));
            w.extend(words(bits, &un));
            w.push(to_word(bits, s));
            w
        })
        .boxed()
}

/// normalize case: x[N] fallback[N]
pub fn normalize(n: usize, bits: u32) -> BoxedStrategy<Vec<u64>> {
    let f = fmt(bits);
    // |x| ~ 2^e_lo <=> L ~ 2*MIN_POSITIVE; |x| ~ 2^e_hi <=> L ~ MAX
    let e_lo = (2.0 * f.minn).log2() as i32 / 2;
    let e_hi = f.emax_all / 2;
    let e_min = ilogb(f.tiny) - 3;
    let e_max = f.emax_all + 1;
    let scaled = (
        pvec((1.0f64..2.0, any::<bool>()).prop_map(|(m, s)| if s { -m } else { m }), n),
        pvec(-3i32..=0, n),
        prop_oneof![3 => (e_lo - 5)..=(e_lo + 3), 3 => (e_hi - 4)..=(e_hi + 1), 2 => e_min..=e_max],
        0u32..(1u32 << n),
    )
        .prop_map(move |(m, off, e, zmask)| (0..n).map(|i| if zmask >> i & 1 == 1 && zmask != (1 << n) - 1 { 0.0 } else { to_word_val(bits, ldexp(m[i], e + off[i])) }).map(|x| to_word(bits, x)).collect::<Vec<u64>>());
    let x = prop_oneof![
        3 => lattice::lanes(bits, n),
        2 => well_scaled(n, f.emax).prop_map(move |v| words(bits, &v)),
        5 => scaled,
        1 => pvec(any::<bool>(), n).prop_map(move |z| z.iter().map(|s| to_word(bits, if *s { -0.0 } else { 0.0 })).collect::<Vec<u64>>()),
        // an ordinary vector with one lane replaced by +-inf / NaN
        1 => (well_scaled(n, f.emax), 0..n, 0u8..4).prop_map(move |(v, ax, k)| {
            let mut w = words(bits, &v);
            w[ax] = to_word(bits, [f64::INFINITY, f64::NEG_INFINITY, f64::NAN, -f64::NAN][k as usize]);
            w
        }),
        2 => (lattice::lat(bits), 0..n, pvec(any::<bool>(), n)).prop_map(move |(l, ax, z)| (0..n).map(|i| if i == ax { l } else { to_word(bits, if z[i] { -0.0 } else { 0.0 }) }).collect::<Vec<u64>>()),
    ];
    let fb = prop_oneof![2 => lattice::lanes(bits, n), 1 => well_scaled(n, f.emax).prop_map(move |v| words(bits, &v))];
    (x, fb)
        .prop_map(|(mut x, fb)| {
            x.extend(fb);
            x
        })
        .boxed()
}
fn to_word_val(_bits: u32, x: f64) -> f64 {
    x
}

/// refract case: i[N] n[N] eta. Generic unit pairs, and pairs constructed at k = 1 - eta^2 (1 - (n.i)^2) = 0 +- 10^-j.
pub fn refract(n: usize, bits: u32) -> BoxedStrategy<Vec<u64>> {
    let jmax = if bits == 32 { 9.0 } else { 17.0 };
    // eta: log-uniform, plus exact values a special case would be keyed on (1.0 and its neighbours, common ratios)
    let eps = if bits == 32 { f32::EPSILON as f64 } else { f64::EPSILON };
    let eta = prop_oneof![
        6 => (0.2f64.ln()..5.0f64.ln()).prop_map(|l| l.exp()),
        2 => Just(1.0f64),
        2 => proptest::sample::select(vec![1.0 - eps, 1.0 + eps, 0.5, 0.75, 1.25, 1.5, 2.0, 1.0 / 1.33, 1.33]),
    ];
    let generic = (unit(n), unit(n), eta);
    let boundary = (unit(n), pvec(-1.0f64..1.0, n), 1.0005f64..5.0, prop_oneof![1 => Just(-1.0f64), 8 => 1.0f64..jmax], any::<bool>(), any::<bool>()).prop_map(
        move |(nv, r, eta, j, neg, front)| {
            let tv = orth(&nv, &r);
            let k0 = if j < 0.0 { 0.0 } else { 10f64.powf(-j) * if neg { -1.0 } else { 1.0 } };
            let sin2 = ((1.0 - k0) / (eta * eta)).clamp(0.0, 1.0);
            let (sn, cs) = (sin2.sqrt(), (1.0 - sin2).sqrt());
            let cs = if front { -cs } else { cs };
            let iv: Vec<f64> = (0..nv.len()).map(|q| cs * nv[q] + sn * tv[q]).collect();
            (iv, nv, eta)
        },
    );
    // (near-)normal incidence: I within 10^-j rad of +-N, where 1 - (N.I)^2 is a rounding residue of either sign
    let eta2 = prop_oneof![3 => (0.2f64.ln()..5.0f64.ln()).prop_map(|l| l.exp()), 1 => Just(1.0f64), 1 => Just(1.5f64)];
    let normal = (unit(n), pvec(-1.0f64..1.0, n), eta2, prop_oneof![1 => Just(-1.0f64), 4 => 2.5f64..9.0], any::<bool>()).prop_map(|(nv, r, eta, j, front)| {
        let tv = orth(&nv, &r);
        let th = if j < 0.0 { 0.0 } else { 10f64.powf(-j) };
        let (sn, cs) = th.sin_cos();
        let cs = if front { -cs } else { cs };
        let iv: Vec<f64> = (0..nv.len()).map(|q| cs * nv[q] + sn * tv[q]).collect();
        (iv, nv, eta)
    });
    prop_oneof![2 => generic, 3 => boundary, 1 => normal]
        .prop_map(move |(iv, nv, eta)| {
            let mut w = words(bits, &iv);
            w.extend(words(bits, &nv));
            w.push(to_word(bits, eta));
            w
        })
        .boxed()
}
