//! Glam-free part of the C11 checks: decoding of cases, generators, the f64 / double-double
//! statement of every documented mapping and the tolerance comparisons. Compiled once; the
//! per-variant `suite.rs` only calls glam and hands the results over as plain arrays.
use crate::refm::*;
use proptest::prelude::*;
use serde_json::json;
use std::f64::consts::PI;
use std::fmt::Debug;
use vcore::num::{U32, U64};
use vcore::*;

/// constant of the view / projection tolerances (DESIGN C11: k = 16)
pub const K: f64 = 16.0;
/// constant of the plain sum-of-products comparisons (4 products/adds + divide + 2)
pub const KX: f64 = 8.0;

pub trait Fl: Copy + Debug + PartialEq + PartialOrd + 'static {
    type S: Sc;
    const U: f64;
    const NAME: &'static str;
    fn fb(w: u64) -> Self;
    fn tb(self) -> u64;
    /// exact widening into the reference scalar
    fn s(self) -> Self::S;
    fn f(self) -> f64;
    fn rnd(x: f64) -> Self;
    fn up(self) -> Self;
    fn finite(self) -> bool;
}
impl Fl for f32 {
    type S = f64;
    const U: f64 = U32;
    const NAME: &'static str = "f32";
    #[inline]
    fn fb(w: u64) -> f32 {
        f32::from_bits(w as u32)
    }
    #[inline]
    fn tb(self) -> u64 {
        self.to_bits() as u64
    }
    #[inline]
    fn s(self) -> f64 {
        self as f64
    }
    #[inline]
    fn f(self) -> f64 {
        self as f64
    }
    #[inline]
    fn rnd(x: f64) -> f32 {
        x as f32
    }
    #[inline]
    fn up(self) -> f32 {
        if self == 0.0 {
            f32::from_bits(1)
        } else if self > 0.0 {
            f32::from_bits(self.to_bits() + 1)
        } else {
            f32::from_bits(self.to_bits() - 1)
        }
    }
    #[inline]
    fn finite(self) -> bool {
        self.is_finite()
    }
}
impl Fl for f64 {
    type S = Q;
    const U: f64 = U64;
    const NAME: &'static str = "f64";
    #[inline]
    fn fb(w: u64) -> f64 {
        f64::from_bits(w)
    }
    #[inline]
    fn tb(self) -> u64 {
        self.to_bits()
    }
    #[inline]
    fn s(self) -> Q {
        Q::of(self)
    }
    #[inline]
    fn f(self) -> f64 {
        self
    }
    #[inline]
    fn rnd(x: f64) -> f64 {
        x
    }
    #[inline]
    fn up(self) -> f64 {
        if self == 0.0 {
            f64::from_bits(1)
        } else if self > 0.0 {
            f64::from_bits(self.to_bits() + 1)
        } else {
            f64::from_bits(self.to_bits() - 1)
        }
    }
    #[inline]
    fn finite(self) -> bool {
        self.is_finite()
    }
}

pub struct Cx<'a> {
    pub t: &'a mut Tally,
    pub variant: &'static str,
    pub ty: &'static str,
}

impl<'a> Cx<'a> {
    pub fn fail(&self, op: &str, msg: String) -> Fail {
        Fail::new(format!("C11/{}/{}/{}", self.variant, self.ty, op), op.to_string(), msg)
    }
    /// tolerance comparison with headroom recording; NaN errors fail
    #[inline]
    pub fn within(&mut self, key: &str, op: &str, err: f64, tol: f64, msg: &dyn Fn() -> String) -> Result<(), Fail> {
        let r = if tol > 0.0 {
            err / tol
        } else if err == 0.0 {
            0.0
        } else {
            f64::INFINITY
        };
        if !(r <= 1.0) {
            return Err(self.fail(op, format!("{}: |error| {:e} > tolerance {:e}; {}", key, err, tol, msg())));
        }
        self.t.ratio(key, r);
        Ok(())
    }
}

fn v3s<T: Fl>(a: [T; 3]) -> V3<T::S> {
    V3([a[0].s(), a[1].s(), a[2].s()])
}
pub fn m4s<T: Fl>(c: &[T; 16]) -> M4<T::S> {
    let mut m = [[T::S::zero(); 4]; 4];
    for j in 0..4 {
        for i in 0..4 {
            m[j][i] = c[4 * j + i].s();
        }
    }
    M4(m)
}
pub fn m3s<T: Fl>(c: &[T; 9]) -> M3<T::S> {
    M3([v3s([c[0], c[1], c[2]]), v3s([c[3], c[4], c[5]]), v3s([c[6], c[7], c[8]])])
}
/// affine (3x3 columns then translation) as a 4x4 with the exact (0,0,0,1) bottom row
pub fn affine_cols<T: Fl>(c: &[T; 12]) -> [T; 16] {
    let z = T::rnd(0.0);
    let o = T::rnd(1.0);
    [c[0], c[1], c[2], z, c[3], c[4], c[5], z, c[6], c[7], c[8], z, c[9], c[10], c[11], o]
}
fn hexs<T: Fl>(a: &[T]) -> String {
    let v: Vec<String> = a.iter().map(|x| format!("{:?}(0x{:x})", x, x.tb())).collect();
    format!("[{}]", v.join(", "))
}
fn nonzero<T: Fl>(a: &[T; 3]) -> usize {
    a.iter().filter(|x| x.f() != 0.0).count()
}
fn hash_case<T: Fl>(variant: &str, what: &str, w: &[u64]) -> u64 {
    mix(hash_str(what), mix(hash_str(T::NAME), mix(hash_str(variant), fnv(w))))
}

// ------------------------------------------------------------------------------------------
// cameras
// ------------------------------------------------------------------------------------------

pub const CAM_WORDS: usize = 10;

pub struct Cam<T: Fl> {
    pub eye: [T; 3],
    pub dir: [T; 3],
    pub up: [T; 3],
    pub center: [T; 3],
    /// look_at part is in the domain (center != eye and the actual direction is not parallel to up)
    pub at_ok: bool,
}

/// words: eye[3] dir[3] up[3] dist. Returns None (counted) when the words are outside the domain.
pub fn decode_cam<T: Fl>(w: &[u64], t: &mut Tally, variant: &'static str) -> Option<Cam<T>> {
    t.eval(1);
    if w.len() < CAM_WORDS {
        t.class("out-of-domain:short");
        return None;
    }
    let g = |i: usize| [T::fb(w[i]), T::fb(w[i + 1]), T::fb(w[i + 2])];
    let (eye, dir, up, dist) = (g(0), g(3), g(6), T::fb(w[9]));
    if !(eye.iter().chain(dir.iter()).chain(up.iter()).all(|x| x.finite()) && dist.finite()) {
        t.class("out-of-domain:non-finite");
        return None;
    }
    let (d, u) = (v3s(dir), v3s(up));
    let one = T::S::one();
    if !((d.dot(d) - one).f().abs() <= 8.0 * T::U && (u.dot(u) - one).f().abs() <= 8.0 * T::U) {
        t.class("out-of-domain:not-unit");
        return None;
    }
    let sn = d.cross(u).len().f();
    if !(sn >= 0.999e-3) {
        t.class("out-of-domain:dir-parallel-up");
        return None;
    }
    let mut center = eye;
    for i in 0..3 {
        center[i] = T::rnd(eye[i].f() + dist.f() * dir[i].f());
    }
    let dv = v3s(center).sub(v3s(eye));
    let at_ok = center.iter().all(|x| x.finite()) && dv.len().f() > 0.0 && dv.normalize().cross(u).len().f() >= 0.5e-3;
    t.class(if sn < 1e-2 {
        "sin(dir,up):[1e-3,1e-2)"
    } else if sn < 1e-1 {
        "sin(dir,up):[1e-2,1e-1)"
    } else {
        "sin(dir,up):>=0.1"
    });
    t.class(match nonzero(&eye) {
        0 => "eye:origin",
        1 => "eye:on-axis",
        2 => "eye:in-coordinate-plane",
        _ => "eye:generic",
    });
    t.class(if nonzero(&dir) == 1 { "dir:axis-aligned" } else { "dir:generic" });
    t.class(if nonzero(&up) == 1 { "up:axis-aligned" } else { "up:generic" });
    t.class(if d.dot(u).f() < 0.0 { "dir.up<0" } else { "dir.up>=0" });
    if !at_ok {
        t.class("look_at:skipped(center==eye or parallel)");
    }
    if nonzero(&eye) >= 2 && nonzero(&dir) >= 2 {
        t.nontrivial(hash_case::<T>(variant, "cam", &w[..CAM_WORDS]));
        if t.want_sample() {
            t.sample(json!({"scalar": T::NAME, "variant": variant, "eye": format!("{:?}", eye), "dir": format!("{:?}", dir), "up": format!("{:?}", up),
                            "center": format!("{:?}", center), "sin_dir_up": sn, "words": hexwords(&w[..CAM_WORDS])}));
        }
    }
    Some(Cam { eye, dir, up, center, at_ok })
}

/// Tolerance of the view-transform contract: u * (K + K / sin(dir, up)). The first K bounds what is rounded directly
/// (longest path cross, normalise, cross = 14 operations, + 2; it also absorbs the <= 4u by which |dir|^2 and |up|^2 of an
/// input that is "unit in f32/f64" differ from 1); the second K bounds the rounding of dir x up (3 operations per
/// component, three components), which the normalisation amplifies by 1 / |dir x up|.
#[inline]
pub fn look_tol<T: Fl>(sn: f64) -> f64 {
    K * T::U * (1.0 + 1.0 / sn)
}

/// The documented contract of look_to / look_at, stated on the result alone: `rot` rigid, dir -> -Z (rh) / +Z (lh),
/// up into the +Y half of the YZ plane, eye -> origin. `at` selects the direction (given / normalised centre - eye).
pub fn look_check<T: Fl>(cx: &mut Cx, op: &str, lh: bool, cam: &Cam<T>, at: bool, rot: &M3<T::S>, trans: Option<V3<T::S>>) -> Result<(), Fail> {
    let eye = v3s(cam.eye);
    let up = v3s(cam.up);
    let dir = if at { v3s(cam.center).sub(eye).normalize() } else { v3s(cam.dir) };
    let sn = (dir.cross(up).len() / (dir.len() * up.len())).f();
    let tol = look_tol::<T>(sn);
    let ctx = || {
        format!(
            "eye={} dir={} up={} center={} sin={:e} rot(cols)={:?} trans={:?}",
            hexs(&cam.eye),
            hexs(&cam.dir),
            hexs(&cam.up),
            hexs(&cam.center),
            sn,
            [rot.0[0].fv(), rot.0[1].fv(), rot.0[2].fv()],
            trans.map(|v| v.fv())
        )
    };
    // rigid: M^T M = I, det = +1
    for i in 0..3 {
        for j in i..3 {
            let e = rot.0[i].dot(rot.0[j]) - if i == j { T::S::one() } else { T::S::zero() };
            cx.within("look/orthonormal", op, e.f().abs(), tol, &|| format!("(M^T M - I)[{i}][{j}]; {}", ctx()))?;
        }
    }
    cx.within("look/det", op, (rot.det() - T::S::one()).f().abs(), 2.0 * tol, &|| format!("det - 1; {}", ctx()))?;
    // dir -> -Z / +Z
    let sg = if lh { 1.0 } else { -1.0 };
    let img = rot.mulv(dir);
    let want = [0.0, 0.0, sg];
    for i in 0..3 {
        cx.within("look/dir-image", op, (img.0[i].f() - want[i]).abs(), tol, &|| format!("(M dir)[{i}] = {:e}, want {}; {}", img.0[i].f(), want[i], ctx()))?;
    }
    // up -> +Y half of the YZ plane
    let iu = rot.mulv(up);
    cx.within("look/up-image-x", op, iu.0[0].f().abs(), tol, &|| format!("(M up).x = {:e}, want 0; {}", iu.0[0].f(), ctx()))?;
    if !(iu.0[1].f() > 0.0) {
        return Err(cx.fail(op, format!("(M up).y = {:e} is not positive; {}", iu.0[1].f(), ctx())));
    }
    // eye -> origin: t is computed from the same rows, so the bound is the plain sum-of-products one
    if let Some(tr) = trans {
        let o = rot.mulv(eye).add(tr);
        let s = rot.absmulv(eye);
        for i in 0..3 {
            let tl = K * T::U * (s.0[i].f() + tr.0[i].f().abs());
            cx.within("look/eye-to-origin", op, o.0[i].f().abs(), tl, &|| format!("(M eye + t)[{i}] = {:e}; {}", o.0[i].f(), ctx()))?;
        }
    }
    Ok(())
}

/// 4x4 form: exact (0,0,0,1) bottom row, then the contract on the 3x3 block and the translation column
pub fn look_m4<T: Fl>(cx: &mut Cx, op: &str, lh: bool, cam: &Cam<T>, at: bool, cols: &[T; 16]) -> Result<(), Fail> {
    let bottom = [cols[3].f(), cols[7].f(), cols[11].f(), cols[15].f()];
    if bottom != [0.0, 0.0, 0.0, 1.0] {
        return Err(cx.fail(op, format!("bottom row {:?} is not (0,0,0,1); eye={} dir={} up={}", bottom, hexs(&cam.eye), hexs(&cam.dir), hexs(&cam.up))));
    }
    let m = m4s(cols);
    look_check(cx, op, lh, cam, at, &m.rot(), Some(m.trans()))
}

/// quaternion form: unit length (rigid), the contract on its rotation matrix, and agreement with the 3x3 matrix form
pub fn look_quat<T: Fl>(cx: &mut Cx, op: &str, lh: bool, cam: &Cam<T>, at: bool, q: [T; 4], mat3: &[T; 9]) -> Result<(), Fail> {
    let qs = [q[0].s(), q[1].s(), q[2].s(), q[3].s()];
    let n2 = qs[0] * qs[0] + qs[1] * qs[1] + qs[2] * qs[2] + qs[3] * qs[3];
    let eye = v3s(cam.eye);
    let up = v3s(cam.up);
    let dir = if at { v3s(cam.center).sub(eye).normalize() } else { v3s(cam.dir) };
    let sn = (dir.cross(up).len() / (dir.len() * up.len())).f();
    let tol = look_tol::<T>(sn);
    cx.within("look/quat-unit", op, (n2 - T::S::one()).f().abs(), 2.0 * tol, &|| format!("|q|^2 - 1, q={}; dir={} up={}", hexs(&q), hexs(&cam.dir), hexs(&cam.up)))?;
    let r = M3::from_quat(qs);
    look_check(cx, op, lh, cam, at, &r, None)?;
    let m = m3s(mat3);
    for j in 0..3 {
        for i in 0..3 {
            let e = (r.0[j].0[i] - m.0[j].0[i]).f().abs();
            cx.within("look/quat-vs-mat3", op, e, tol, &|| {
                format!("R(q)[col {j}][row {i}] = {:e} but the Mat3 form has {:e}; q={} dir={} up={}", r.0[j].0[i].f(), m.0[j].0[i].f(), hexs(&q), hexs(&cam.dir), hexs(&cam.up))
            })?;
        }
    }
    Ok(())
}

fn sgn_pow(lo: f64, hi: f64) -> BoxedStrategy<f64> {
    (any::<bool>(), lo..hi).prop_map(|(s, e)| if s { -(2f64.powf(e)) } else { 2f64.powf(e) }).boxed()
}
fn axis(i: usize) -> [f64; 3] {
    let mut a = [0.0; 3];
    a[i % 3] = if i >= 3 { -1.0 } else { 1.0 };
    a
}
fn nrm(a: [f64; 3]) -> [f64; 3] {
    let l = (a[0] * a[0] + a[1] * a[1] + a[2] * a[2]).sqrt();
    if l < 1e-6 {
        [1.0, 0.0, 0.0]
    } else {
        [a[0] / l, a[1] / l, a[2] / l]
    }
}
fn crs(a: [f64; 3], b: [f64; 3]) -> [f64; 3] {
    [a[1] * b[2] - a[2] * b[1], a[2] * b[0] - a[0] * b[2], a[0] * b[1] - a[1] * b[0]]
}
fn unit_strat() -> BoxedStrategy<[f64; 3]> {
    prop_oneof![
        6 => (-1.0f64..1.0, -1.0f64..1.0, -1.0f64..1.0).prop_map(|(x, y, z)| nrm([x, y, z])),
        1 => (0usize..6).prop_map(axis),
        1 => (0usize..6, -7.0f64..-1.0, -1.0f64..1.0, -1.0f64..1.0).prop_map(|(i, e, a, b)| {
            let mut v = axis(i);
            let m = 10f64.powf(e);
            v[(i + 1) % 3] += m * a;
            v[(i + 2) % 3] += m * b;
            nrm(v)
        }),
    ]
    .boxed()
}
fn eye_strat() -> BoxedStrategy<[f64; 3]> {
    prop_oneof![
        6 => (sgn_pow(-8.0, 12.0), sgn_pow(-8.0, 12.0), sgn_pow(-8.0, 12.0)).prop_map(|(x, y, z)| [x, y, z]),
        1 => Just([0.0, 0.0, 0.0]),
        1 => (0usize..3, sgn_pow(-8.0, 12.0)).prop_map(|(i, x)| { let mut v = [0.0; 3]; v[i] = x; v }),
        1 => (0usize..3, sgn_pow(-8.0, 12.0), sgn_pow(-8.0, 12.0)).prop_map(|(i, x, y)| { let mut v = [x; 3]; v[i] = 0.0; v[(i + 1) % 3] = y; v }),
        1 => (sgn_pow(12.0, 20.0), sgn_pow(-8.0, 20.0), sgn_pow(-8.0, 20.0)).prop_map(|(x, y, z)| [x, y, z]),
    ]
    .boxed()
}
fn angle_strat() -> BoxedStrategy<f64> {
    prop_oneof![
        4 => 1.001e-3f64..(PI - 1.001e-3),
        2 => (0.0f64..2.0).prop_map(|e| 1.001e-3 * 10f64.powf(e)),
        2 => (0.0f64..2.0).prop_map(|e| PI - 1.001e-3 * 10f64.powf(e)),
        1 => Just(PI / 2.0),
    ]
    .boxed()
}

/// eye, (dir, up) = a unit vector and a second one at a prescribed angle from it (1e-3 .. pi - 1e-3), in either role
pub fn cam_strategy<T: Fl>() -> BoxedStrategy<Vec<u64>> {
    // distance eye -> centre: 2^-6 .. 2^6 times the eye's magnitude, and (a quarter of the cases) far closer, down to
    // where the difference centre - eye still has a dozen significant bits: look_at is scale-invariant
    let lo: f64 = if T::U < 1e-10 { -40.0 } else { -11.0 };
    let de = prop_oneof![3 => -6.0f64..6.0, 1 => lo..-6.0];
    (eye_strat(), unit_strat(), angle_strat(), 0.0f64..(2.0 * PI), any::<bool>(), de)
        .prop_map(|(eye, a, th, ph, swap, de)| {
            let mut k = 0;
            for i in 1..3 {
                if a[i].abs() < a[k].abs() {
                    k = i
                }
            }
            let e1 = nrm(crs(axis(k), a));
            let e2 = crs(a, e1);
            let (st, ct) = th.sin_cos();
            let (sp, cp) = ph.sin_cos();
            let mut b = [0.0; 3];
            for i in 0..3 {
                b[i] = ct * a[i] + st * (cp * e1[i] + sp * e2[i]);
            }
            let b = nrm(b);
            let (dir, up) = if swap { (b, a) } else { (a, b) };
            let emax = eye.iter().fold(0.0f64, |m, x| m.max(x.abs()));
            let dist = 2f64.powf(de) * (1.0 + emax);
            let mut w = vec![];
            for v in [eye, dir, up] {
                for x in v {
                    w.push(T::rnd(x).tb());
                }
            }
            w.push(T::rnd(dist).tb());
            w
        })
        .boxed()
}

// ------------------------------------------------------------------------------------------
// perspective frusta
// ------------------------------------------------------------------------------------------

pub const FRUSTUM_WORDS: usize = 16;

pub struct Frustum<T: Fl> {
    pub fov: T,
    pub aspect: T,
    pub near: T,
    pub far: T,
    /// tan(fov/2) in the reference arithmetic
    pub tn: T::S,
    /// (x, y, depth along the view direction); the first 14 are the corners and plane centres
    pub probes: Vec<[T; 3]>,
}

pub struct PSpec {
    pub name: &'static str,
    pub lh: bool,
    /// documented depth of the near plane and of the far plane (at infinity for the infinite forms)
    pub lo: f64,
    pub hi: f64,
    pub infinite: bool,
}
pub const PSPECS: [PSpec; 7] = [
    PSpec { name: "perspective_rh_gl", lh: false, lo: -1.0, hi: 1.0, infinite: false },
    PSpec { name: "perspective_lh", lh: true, lo: 0.0, hi: 1.0, infinite: false },
    PSpec { name: "perspective_rh", lh: false, lo: 0.0, hi: 1.0, infinite: false },
    PSpec { name: "perspective_infinite_lh", lh: true, lo: 0.0, hi: 1.0, infinite: true },
    PSpec { name: "perspective_infinite_rh", lh: false, lo: 0.0, hi: 1.0, infinite: true },
    PSpec { name: "perspective_infinite_reverse_lh", lh: true, lo: 1.0, hi: 0.0, infinite: true },
    PSpec { name: "perspective_infinite_reverse_rh", lh: false, lo: 1.0, hi: 0.0, infinite: true },
];
pub const OSPECS: [PSpec; 3] = [
    PSpec { name: "orthographic_rh_gl", lh: false, lo: -1.0, hi: 1.0, infinite: false },
    PSpec { name: "orthographic_lh", lh: true, lo: 0.0, hi: 1.0, infinite: false },
    PSpec { name: "orthographic_rh", lh: false, lo: 0.0, hi: 1.0, infinite: false },
];
impl PSpec {
    /// the probe as a view-space point of this handedness
    #[inline]
    pub fn point<T: Fl>(&self, pr: &[T; 3]) -> [T; 3] {
        [pr[0], pr[1], if self.lh { pr[2] } else { T::rnd(-pr[2].f()) }]
    }
}

/// words: fov aspect near far, 2 x (u, v, s) interior, 2 x (u, v, e) exterior
pub fn decode_frustum<T: Fl>(w: &[u64], t: &mut Tally, variant: &'static str) -> Option<Frustum<T>> {
    t.eval(1);
    if w.len() < FRUSTUM_WORDS {
        t.class("out-of-domain:short");
        return None;
    }
    let (fov, aspect, near, far) = (T::fb(w[0]), T::fb(w[1]), T::fb(w[2]), T::fb(w[3]));
    let ok = w[..FRUSTUM_WORDS].iter().all(|x| T::fb(*x).finite())
        && fov.f() > 1e-2
        && fov.f() < PI - 1e-2
        && aspect.f() >= 1e-2
        && aspect.f() <= 1e2
        && near.f() > 0.0
        && far > near
        && far.f() / near.f() <= 1.0001e6
        && near.f() > 1e-30
        && far.f() < 1e30;
    if !ok {
        t.class("out-of-domain");
        return None;
    }
    let tn = (0.5 * fov.f()).tan();
    let (a, n, f) = (aspect.f(), near.f(), far.f());
    let mut probes: Vec<[T; 3]> = vec![];
    let mut push = |x: f64, y: f64, d: f64| probes.push([T::rnd(x), T::rnd(y), T::rnd(d)]);
    for d in [n, f] {
        for sx in [-1.0, 1.0] {
            for sy in [-1.0, 1.0] {
                push(sx * a * tn * d, sy * tn * d, d);
            }
        }
    }
    push(0.0, 0.0, n);
    push(0.0, 0.0, f);
    let dm = 0.5 * (n + f);
    push(a * tn * dm, 0.0, dm);
    push(-a * tn * dm, 0.0, dm);
    push(0.0, tn * dm, dm);
    push(0.0, -tn * dm, dm);
    let mut off_axis = false;
    for k in 0..2 {
        let (u, v, s) = (T::fb(w[4 + 3 * k]).f().clamp(-1.0, 1.0), T::fb(w[5 + 3 * k]).f().clamp(-1.0, 1.0), T::fb(w[6 + 3 * k]).f().clamp(0.0, 1.0));
        let d = (n * (f / n).powf(s)).clamp(n, f);
        push(u * a * tn * d, v * tn * d, d);
        off_axis |= u != 0.0 && v != 0.0;
    }
    for k in 0..2 {
        let (u, v, e) = (T::fb(w[10 + 3 * k]).f().clamp(-8.0, 8.0), T::fb(w[11 + 3 * k]).f().clamp(-8.0, 8.0), T::fb(w[12 + 3 * k]).f().clamp(-10.0, 24.0));
        let d = n * 2f64.powf(e);
        push(u * a * tn * d, v * tn * d, d);
    }
    let ratio = f / n;
    t.class(if ratio < 1.1 {
        "far/near:<1.1"
    } else if ratio < 1e3 {
        "far/near:[1.1,1e3)"
    } else {
        "far/near:[1e3,1e6]"
    });
    t.class(if a == 1.0 {
        "aspect:1"
    } else if a < 1.0 {
        "aspect:<1"
    } else {
        "aspect:>1"
    });
    t.class(if fov.f() < 0.1 {
        "fov:<0.1"
    } else if fov.f() > PI - 0.1 {
        "fov:>pi-0.1"
    } else {
        "fov:mid"
    });
    if a != 1.0 && off_axis {
        t.nontrivial(hash_case::<T>(variant, "frustum", &w[..FRUSTUM_WORDS]));
        if t.want_sample() {
            t.sample(json!({"scalar": T::NAME, "variant": variant, "fov": fov.f(), "aspect": a, "near": n, "far": f,
                            "interior_probe(x,y,depth)": format!("{:?}", probes[14]), "words": hexwords(&w[..FRUSTUM_WORDS])}));
        }
    }
    // reference tangent (double-double Taylor series for f64 cases), cross-checked against std: std is within 1 ulp = 2u of the
    // true value, so this self-check of the harness records at most 0.25
    let half = T::S::of(0.5) * fov.s();
    let (rs, rc) = half.sin_cos();
    let (ss, sc) = (0.5 * fov.f()).sin_cos();
    t.ratio("reference/sin_cos-vs-std", ((rs.f() - ss).abs() / ss.abs()).max((rc.f() - sc).abs() / sc.abs()) / (8.0 * U64));
    Some(Frustum { fov, aspect, near, far, tn: rs / rc, probes })
}

/// The documented mapping of one perspective constructor, applied to the matrix glam returned (entries widened exactly,
/// product evaluated in the reference arithmetic): clip w = -z / +z exactly, ndc_x = x / (aspect tan(fov/2) d),
/// ndc_y = y / (tan(fov/2) d), depth = A + B/d through the documented end points.
pub fn persp_matrix<T: Fl>(cx: &mut Cx, spec: &PSpec, fr: &Frustum<T>, cols: &[T; 16]) -> Result<(), Fail> {
    let op = spec.name;
    let tn = fr.tn;
    let (n, f, a) = (fr.near.s(), fr.far.s(), fr.aspect.s());
    let (lo, hi) = (T::S::of(spec.lo), T::S::of(spec.hi));
    let (ca, cb, sa) = if spec.infinite {
        (hi, (lo - hi) * n, hi.abs())
    } else {
        ((hi * f - lo * n) / (f - n), (lo - hi) * n * f / (f - n), (hi.abs() * f + lo.abs() * n) / (f - n))
    };
    let m = m4s(cols);
    let ctx = |p: &[T; 3]| format!("fov={} aspect={} near={} far={} p={} M(cols)={:?}", hexs(&[fr.fov]), hexs(&[fr.aspect]), hexs(&[fr.near]), hexs(&[fr.far]), hexs(p), cols);
    for pr in &fr.probes {
        let p = spec.point(pr);
        let (x, y, d) = (pr[0].s(), pr[1].s(), pr[2].s());
        let (c, _) = m.mul4([p[0].s(), p[1].s(), p[2].s(), T::S::one()]);
        if (c[3] - d).f() != 0.0 {
            return Err(cx.fail(op, format!("clip w = {:e}, want {} = {:e}; {}", c[3].f(), if spec.lh { "+z" } else { "-z" }, d.f(), ctx(&p))));
        }
        let rx = x / (a * tn * d);
        let ry = y / (tn * d);
        let rz = ca + cb / d;
        let gx = c[0] / c[3];
        let gy = c[1] / c[3];
        let gz = c[2] / c[3];
        cx.within("persp/ndc-xy", op, (gx - rx).f().abs(), K * T::U * rx.f().abs(), &|| format!("ndc x = {:e}, want {:e}; {}", gx.f(), rx.f(), ctx(&p)))?;
        cx.within("persp/ndc-xy", op, (gy - ry).f().abs(), K * T::U * ry.f().abs(), &|| format!("ndc y = {:e}, want {:e}; {}", gy.f(), ry.f(), ctx(&p)))?;
        let tz = K * T::U * (sa.f() + (cb / d).f().abs());
        cx.within("persp/depth", op, (gz - rz).f().abs(), tz, &|| format!("ndc depth = {:e}, want {:e} (= {:e} + {:e}/d); {}", gz.f(), rz.f(), ca.f(), cb.f(), ctx(&p)))?;
    }
    Ok(())
}

/// `project_point3(p)` = xyz of M (p,1) divided by its w, for any matrix. Points whose w is lost to cancellation are counted and skipped.
pub fn project<T: Fl>(cx: &mut Cx, op: &str, cols: &[T; 16], p: [T; 3], got: [T; 3]) -> Result<(), Fail> {
    let m = m4s(cols);
    let (c, s) = m.mul4([p[0].s(), p[1].s(), p[2].s(), T::S::one()]);
    let w = c[3].f();
    let sw = s[3].f();
    if !(w != 0.0 && KX * T::U * sw / w.abs() <= 0.01) {
        cx.t.class("project:w-cancels(skipped)");
        return Ok(());
    }
    for i in 0..3 {
        let want = c[i] / c[3];
        let tol = KX * T::U * (s[i].f() / w.abs() + c[i].f().abs() * sw / (w * w));
        let e = (got[i].s() - want).f().abs();
        cx.within("project", op, e, tol, &|| format!("lane {i}: got {:?}, want {:e} (= {:e} / {:e}); p={} M(cols)={:?}", got[i], want.f(), c[i].f(), w, hexs(&p), cols))?;
    }
    Ok(())
}

/// `transform_point3 / transform_vector3` = xyz of M (p, wc) without the divide
pub fn transform<T: Fl>(cx: &mut Cx, op: &str, cols: &[T; 16], p: [T; 3], wc: f64, got: [T; 3]) -> Result<(), Fail> {
    let m = m4s(cols);
    let (c, s) = m.mul4([p[0].s(), p[1].s(), p[2].s(), T::S::of(wc)]);
    for i in 0..3 {
        let tol = KX * T::U * s[i].f();
        let e = (got[i].s() - c[i]).f().abs();
        cx.within("transform", op, e, tol, &|| format!("lane {i}: got {:?}, want {:e}; p={} M(cols)={:?}", got[i], c[i].f(), hexs(&p), cols))?;
    }
    Ok(())
}

/// the Vec3 and the Vec3A form are the same function: both already agree with the reference; record how often they are bit-identical
pub fn same_forms<T: Fl>(cx: &mut Cx, a: [T; 3], b: [T; 3]) {
    cx.t.class(if (0..3).all(|i| a[i].tb() == b[i].tb() || (a[i].f() == 0.0 && b[i].f() == 0.0)) { "vec3-vs-vec3a:bit-identical" } else { "vec3-vs-vec3a:differ-within-tolerance" });
}

pub fn frustum_strategy<T: Fl>() -> BoxedStrategy<Vec<u64>> {
    let fov = prop_oneof![
        4 => 0.0101f64..(PI - 0.0101),
        1 => (0.0f64..1.0).prop_map(|e| 0.0101 * 10f64.powf(e)),
        1 => (0.0f64..1.0).prop_map(|e| PI - 0.0101 * 10f64.powf(e)),
        1 => prop_oneof![Just(PI / 4.0), Just(PI / 3.0), Just(PI / 2.0), Just(1.0)],
    ];
    let aspect = prop_oneof![
        4 => (-1.99f64..1.99).prop_map(|e| 10f64.powf(e)),
        1 => Just(1.0),
        1 => prop_oneof![Just(16.0 / 9.0), Just(4.0 / 3.0), Just(0.75), Just(2.0)],
    ];
    let ratio = prop_oneof![
        3 => (0.001f64..5.999).prop_map(|e| 10f64.powf(e)),
        1 => (-6.0f64..-1.0).prop_map(|e| 1.0 + 10f64.powf(e)),
        1 => Just(999_000.0),
    ];
    let unit = || (-1.0f64..1.0, -1.0f64..1.0, 0.0f64..1.0);
    let ext = || (-8.0f64..8.0, -8.0f64..8.0, -10.0f64..24.0);
    // near plane: 2^-10 .. 2^10, and (an eighth of the cases) scenes so large or so small that near * far is not
    // representable although every entry of the lh / rh / infinite matrices is (the GL form, which is written with
    // 2 * near * far, is left out of those cases by the check)
    let wide: f64 = if T::U < 1e-10 { 100.0 } else { 55.0 };
    let ne = prop_oneof![7 => -10.0f64..10.0, 1 => prop_oneof![-wide..-40.0, 40.0f64..wide]];
    (fov, aspect, ne, ratio, unit(), unit(), ext(), ext())
        .prop_map(|(fov, aspect, ne, ratio, i0, i1, e0, e1)| {
            let near = T::rnd(2f64.powf(ne));
            let mut far = T::rnd(near.f() * ratio);
            if !(far > near) {
                far = near.up();
            }
            let mut w = vec![T::rnd(fov).tb(), T::rnd(aspect).tb(), near.tb(), far.tb()];
            for (a, b, c) in [i0, i1, e0, e1] {
                w.push(T::rnd(a).tb());
                w.push(T::rnd(b).tb());
                w.push(T::rnd(c).tb());
            }
            w
        })
        .boxed()
}

// ------------------------------------------------------------------------------------------
// orthographic boxes
// ------------------------------------------------------------------------------------------

pub const BOX_WORDS: usize = 18;

pub struct OBox<T: Fl> {
    /// left right bottom top near far
    pub b: [T; 6],
    pub probes: Vec<[T; 3]>,
}

/// words: left right bottom top near far, 2 x (u, v, s) interior in [-1,1], 2 x (u, v, s) exterior in [-4,4]
pub fn decode_box<T: Fl>(w: &[u64], t: &mut Tally, variant: &'static str) -> Option<OBox<T>> {
    t.eval(1);
    if w.len() < BOX_WORDS {
        t.class("out-of-domain:short");
        return None;
    }
    let mut b = [T::rnd(0.0); 6];
    for i in 0..6 {
        b[i] = T::fb(w[i]);
    }
    let ok = w[..BOX_WORDS].iter().all(|x| T::fb(*x).finite()) && b[0] != b[1] && b[2] != b[3] && b[4] < b[5] && b.iter().all(|x| x.f().abs() < 1e30);
    if !ok {
        t.class("out-of-domain");
        return None;
    }
    let g: Vec<f64> = b.iter().map(|x| x.f()).collect();
    let mut probes: Vec<[T; 3]> = vec![];
    let mut push = |x: f64, y: f64, d: f64| probes.push([T::rnd(x), T::rnd(y), T::rnd(d)]);
    for d in [g[4], g[5]] {
        for x in [g[0], g[1]] {
            for y in [g[2], g[3]] {
                push(x, y, d);
            }
        }
    }
    let (mx, my, md) = (0.5 * (g[0] + g[1]), 0.5 * (g[2] + g[3]), 0.5 * (g[4] + g[5]));
    push(mx, my, g[4]);
    push(mx, my, g[5]);
    push(g[0], my, md);
    push(g[1], my, md);
    push(mx, g[2], md);
    push(mx, g[3], md);
    let lerp = |a: f64, b: f64, u: f64| 0.5 * (1.0 - u) * a + 0.5 * (1.0 + u) * b;
    let mut off_axis = false;
    for k in 0..4 {
        let lim = if k < 2 { 1.0 } else { 4.0 };
        let (u, v, s) = (T::fb(w[6 + 3 * k]).f().clamp(-lim, lim), T::fb(w[7 + 3 * k]).f().clamp(-lim, lim), T::fb(w[8 + 3 * k]).f().clamp(-lim, lim));
        push(lerp(g[0], g[1], u), lerp(g[2], g[3], v), lerp(g[4], g[5], s));
        off_axis |= k < 2 && u != 0.0 && v != 0.0;
    }
    t.class(if g[0] == -g[1] && g[2] == -g[3] { "box:symmetric" } else { "box:off-centre" });
    let thin = ((g[0] + g[1]).abs() / (g[1] - g[0]).abs()).max((g[2] + g[3]).abs() / (g[3] - g[2]).abs());
    t.class(if g[0] > g[1] || g[2] > g[3] { "box:x or y planes descending (e.g. y-down screen space)" } else { "box:planes ascending" });
    t.class(if thin > 1e3 { "box:offset/extent>1e3" } else { "box:offset/extent<=1e3" });
    t.class(if g[4] < 0.0 { "near:<0" } else if g[4] == 0.0 { "near:0" } else { "near:>0" });
    let de = g[5] - g[4];
    t.class(if de <= 1e-6 { "depth-extent:<=1e-6" } else if de >= 1e6 { "depth-extent:>=1e6" } else { "depth-extent:1e-6..1e6" });
    let square = g[1] - g[0] == g[3] - g[2];
    if !square && off_axis {
        t.nontrivial(hash_case::<T>(variant, "box", &w[..BOX_WORDS]));
        if t.want_sample() {
            t.sample(json!({"scalar": T::NAME, "variant": variant, "left,right,bottom,top,near,far": format!("{:?}", b),
                            "interior_probe(x,y,depth)": format!("{:?}", probes[14]), "words": hexwords(&w[..BOX_WORDS])}));
        }
    }
    Some(OBox { b, probes })
}

/// documented mapping of an orthographic constructor: left/right -> -1/+1, bottom/top -> -1/+1, near/far -> lo/hi, w = 1
pub fn ortho_matrix<T: Fl>(cx: &mut Cx, spec: &PSpec, bx: &OBox<T>, cols: &[T; 16]) -> Result<(), Fail> {
    let op = spec.name;
    let g: Vec<T::S> = bx.b.iter().map(|x| x.s()).collect();
    let (l, r, b, tp, n, f) = (g[0], g[1], g[2], g[3], g[4], g[5]);
    let (lo, hi) = (T::S::of(spec.lo), T::S::of(spec.hi));
    let two = T::S::of(2.0);
    let m = m4s(cols);
    let ctx = |p: &[T; 3]| format!("l,r,b,t,n,f={} p={} M(cols)={:?}", hexs(&bx.b), hexs(p), cols);
    for pr in &bx.probes {
        let p = spec.point(pr);
        let (x, y, d) = (pr[0].s(), pr[1].s(), pr[2].s());
        let (c, _) = m.mul4([p[0].s(), p[1].s(), p[2].s(), T::S::one()]);
        if (c[3] - T::S::one()).f() != 0.0 {
            return Err(cx.fail(op, format!("clip w = {:e}, want 1; {}", c[3].f(), ctx(&p))));
        }
        let rx = (two * x - (r + l)) / (r - l);
        let sx = ((two * x).abs() + (r + l).abs()) / (r - l).abs();
        let ry = (two * y - (tp + b)) / (tp - b);
        let sy = ((two * y).abs() + (tp + b).abs()) / (tp - b).abs();
        let k0 = lo * f - hi * n;
        let rz = ((hi - lo) * d + k0) / (f - n);
        let sz = (((hi - lo) * d).abs() + k0.abs()) / (f - n);
        cx.within("ortho/ndc-xy", op, (c[0] - rx).f().abs(), K * T::U * sx.f(), &|| format!("ndc x = {:e}, want {:e}; {}", c[0].f(), rx.f(), ctx(&p)))?;
        cx.within("ortho/ndc-xy", op, (c[1] - ry).f().abs(), K * T::U * sy.f(), &|| format!("ndc y = {:e}, want {:e}; {}", c[1].f(), ry.f(), ctx(&p)))?;
        cx.within("ortho/depth", op, (c[2] - rz).f().abs(), K * T::U * sz.f(), &|| format!("ndc depth = {:e}, want {:e}; {}", c[2].f(), rz.f(), ctx(&p)))?;
    }
    Ok(())
}

pub fn box_strategy<T: Fl>() -> BoxedStrategy<Vec<u64>> {
    let centre = || prop_oneof![2 => Just(0.0f64), 5 => sgn_pow(-6.0, 10.0)];
    let half = || (-8.0f64..10.0).prop_map(|e| 2f64.powf(e));
    let near = prop_oneof![4 => (-8.0f64..8.0).prop_map(|e| 2f64.powf(e)), 1 => Just(0.0f64), 2 => sgn_pow(-8.0, 8.0)];
    let cube = |l: f64| (-l..l, -l..l, -l..l);
    // a quarter of the boxes are scaled as a whole by 2^k, |k| <= 40: micrometre or astronomical scenes in metres
    // ("all boxes with non-empty extent": nothing in the constructors depends on the absolute size)
    let scale = prop_oneof![3 => Just(0i32), 1 => -40i32..41];
    (centre(), half(), centre(), half(), near, (-8.0f64..12.0), cube(1.0), cube(1.0), cube(4.0), cube(4.0), 0u8..16, scale)
        .prop_map(|(cx, hx, cy, hy, n, de, i0, i1, e0, e1, flip, sc)| {
            let k = 2f64.powi(sc);
            let (cx, hx, cy, hy, n, dd) = (cx * k, hx * k, cy * k, hy * k, n * k, 2f64.powf(de) * k);
            let span = |c: f64, h: f64| {
                let lo = T::rnd(c - h);
                let mut hi = T::rnd(c + h);
                if !(hi > lo) {
                    hi = lo.up();
                }
                (lo, hi)
            };
            let (l, r) = span(cx, hx);
            let (b, t) = span(cy, hy);
            // a quarter of the boxes each: right-to-left x planes, top-to-bottom y planes (no constructor documents an ordering)
            let (l, r) = if flip & 3 == 0 { (r, l) } else { (l, r) };
            let (b, t) = if flip >> 2 == 0 { (t, b) } else { (b, t) };
            let n = T::rnd(n);
            let mut f = T::rnd(n.f() + dd);
            if !(f > n) {
                f = n.up();
            }
            let mut w = vec![l.tb(), r.tb(), b.tb(), t.tb(), n.tb(), f.tb()];
            for (a, b, c) in [i0, i1, e0, e1] {
                w.push(T::rnd(a).tb());
                w.push(T::rnd(b).tb());
                w.push(T::rnd(c).tb());
            }
            w
        })
        .boxed()
}

// ------------------------------------------------------------------------------------------
// general matrices for project_point3 / transform_point3 / transform_vector3
// ------------------------------------------------------------------------------------------

pub const XFORM_WORDS: usize = 19;

/// words: 16 column-major entries, point. None when not finite.
pub fn decode_xform<T: Fl>(w: &[u64], t: &mut Tally, variant: &'static str) -> Option<([T; 16], [T; 3])> {
    t.eval(1);
    if w.len() < XFORM_WORDS || !w[..XFORM_WORDS].iter().all(|x| T::fb(*x).finite() && T::fb(*x).f().abs() < 1e30) {
        t.class("out-of-domain");
        return None;
    }
    let mut m = [T::rnd(0.0); 16];
    for i in 0..16 {
        m[i] = T::fb(w[i]);
    }
    let p = [T::fb(w[16]), T::fb(w[17]), T::fb(w[18])];
    let nz = m.iter().filter(|x| x.f() != 0.0).count();
    t.class(if nz == 16 { "matrix:dense" } else if nz >= 10 { "matrix:some-zero-entries" } else { "matrix:sparse" });
    t.class(if nonzero(&p) == 3 { "point:generic" } else { "point:has-zero-lane" });
    if nz >= 10 && nonzero(&p) == 3 {
        t.nontrivial(hash_case::<T>(variant, "xform", &w[..XFORM_WORDS]));
        if t.want_sample() {
            t.sample(json!({"scalar": T::NAME, "variant": variant, "matrix_cols": format!("{:?}", m), "point": format!("{:?}", p), "words": hexwords(&w[..XFORM_WORDS])}));
        }
    }
    Some((m, p))
}
/// the same matrix with the bottom row replaced by (0,0,0,1)
pub fn affine_of<T: Fl>(m: &[T; 16]) -> [T; 16] {
    let mut a = *m;
    a[3] = T::rnd(0.0);
    a[7] = T::rnd(0.0);
    a[11] = T::rnd(0.0);
    a[15] = T::rnd(1.0);
    a
}

pub fn xform_strategy<T: Fl>() -> BoxedStrategy<Vec<u64>> {
    let entry = || prop_oneof![6 => sgn_pow(-6.0, 6.0), 1 => Just(0.0f64), 1 => (-4i32..=4).prop_map(|x| x as f64), 1 => sgn_pow(-20.0, 20.0)];
    (proptest::collection::vec(entry(), 16), proptest::collection::vec(entry(), 3))
        .prop_map(|(m, p)| m.iter().chain(p.iter()).map(|x| T::rnd(*x).tb()).collect())
        .boxed()
}
