// Included once per glam variant (`glam` is aliased by the including module). Only the glam calls live here;
// decoding, reference mathematics and comparisons are in `logic.rs`.
#[allow(unused_imports)]
use crate::logic::{self, Cx, Fl};
use glam::{Affine3A, DAffine3, DMat3, DMat4, DQuat, DVec3, Mat3, Mat3A, Mat4, Quat, Vec3, Vec3A};
use vcore::*;

/// Vec3A probes carry junk in the padding lane (NaN-pattern derived from the visible lanes)
#[allow(dead_code)]
fn vec3a_junk(p: [f32; 3]) -> Vec3A {
    Vec3A::from_vec4(glam::Vec4::new(p[0], p[1], p[2], f32::from_bits(0x7fc0_0000 ^ (p[2].to_bits() >> 7))))
}

macro_rules! cx {
    ($t:expr, $ty:expr) => {
        &mut Cx { t: &mut *$t, variant: VARIANT, ty: $ty }
    };
}

/// look_to_* / look_at_* of every type that has them, on one camera.
macro_rules! look_suite {
    ($name:ident, $T:ty, $V:ident, $M4:ident, $A:ident, $Q:ident, [$($M3:ident),+]) => {
        pub fn $name(w: &[u64], t: &mut Tally) -> Result<(), Fail> {
            let cam = match logic::decode_cam::<$T>(w, t, VARIANT) {
                Some(c) => c,
                None => return Ok(()),
            };
            let (eye, dir, up, center) = ($V::from_array(cam.eye), $V::from_array(cam.dir), $V::from_array(cam.up), $V::from_array(cam.center));
            for at in [false, true] {
                if at && !cam.at_ok {
                    continue;
                }
                for lh in [false, true] {
                    let op = match (at, lh) {
                        (false, false) => "look_to_rh",
                        (false, true) => "look_to_lh",
                        (true, false) => "look_at_rh",
                        (true, true) => "look_at_lh",
                    };
                    let m = match (at, lh) {
                        (false, false) => $M4::look_to_rh(eye, dir, up),
                        (false, true) => $M4::look_to_lh(eye, dir, up),
                        (true, false) => $M4::look_at_rh(eye, center, up),
                        (true, true) => $M4::look_at_lh(eye, center, up),
                    };
                    logic::look_m4::<$T>(cx!(t, stringify!($M4)), op, lh, &cam, at, &m.to_cols_array())?;
                    let a = match (at, lh) {
                        (false, false) => $A::look_to_rh(eye, dir, up),
                        (false, true) => $A::look_to_lh(eye, dir, up),
                        (true, false) => $A::look_at_rh(eye, center, up),
                        (true, true) => $A::look_at_lh(eye, center, up),
                    };
                    logic::look_m4::<$T>(cx!(t, stringify!($A)), op, lh, &cam, at, &logic::affine_cols(&a.to_cols_array()))?;
                    let mut first: Option<[$T; 9]> = None;
                    $(
                        let m3 = match (at, lh) {
                            (false, false) => $M3::look_to_rh(dir, up),
                            (false, true) => $M3::look_to_lh(dir, up),
                            (true, false) => $M3::look_at_rh(eye, center, up),
                            (true, true) => $M3::look_at_lh(eye, center, up),
                        };
                        let c9 = m3.to_cols_array();
                        logic::look_check::<$T>(cx!(t, stringify!($M3)), op, lh, &cam, at, &logic::m3s(&c9), None)?;
                        if first.is_none() {
                            first = Some(c9);
                        }
                    )+
                    let q = match (at, lh) {
                        (false, false) => $Q::look_to_rh(dir, up),
                        (false, true) => $Q::look_to_lh(dir, up),
                        (true, false) => $Q::look_at_rh(eye, center, up),
                        (true, true) => $Q::look_at_lh(eye, center, up),
                    };
                    logic::look_quat::<$T>(cx!(t, stringify!($Q)), op, lh, &cam, at, q.to_array(), &first.unwrap())?;
                }
            }
            Ok(())
        }
    };
}
look_suite!(check_look_f32, f32, Vec3, Mat4, Affine3A, Quat, [Mat3, Mat3A]);
look_suite!(check_look_f64, f64, DVec3, DMat4, DAffine3, DQuat, [DMat3]);

macro_rules! proj3a {
    (f32, $cx:expr, $op:expr, $m:expr, $cols:expr, $p:expr, $got:expr) => {{
        let g3a = $m.project_point3a(vec3a_junk($p)).to_array();
        logic::project::<f32>($cx, concat!("project_point3a"), $cols, $p, g3a)?;
        logic::same_forms::<f32>($cx, $got, g3a);
    }};
    (f64, $cx:expr, $op:expr, $m:expr, $cols:expr, $p:expr, $got:expr) => {};
}

/// every perspective_* constructor on one frustum: the matrix against the documented mapping, then project_point3 on it
macro_rules! persp_suite {
    ($name:ident, $T:tt, $V:ident, $M4:ident) => {
        pub fn $name(w: &[u64], t: &mut Tally) -> Result<(), Fail> {
            let fr = match logic::decode_frustum::<$T>(w, t, VARIANT) {
                Some(f) => f,
                None => return Ok(()),
            };
            let (fov, asp, n, f) = (fr.fov, fr.aspect, fr.near, fr.far);
            let ms = [
                $M4::perspective_rh_gl(fov, asp, n, f),
                $M4::perspective_lh(fov, asp, n, f),
                $M4::perspective_rh(fov, asp, n, f),
                $M4::perspective_infinite_lh(fov, asp, n),
                $M4::perspective_infinite_rh(fov, asp, n),
                $M4::perspective_infinite_reverse_lh(fov, asp, n),
                $M4::perspective_infinite_reverse_rh(fov, asp, n),
            ];
            // perspective_rh_gl is documented through 2 * near * far: when that product leaves the normal range of the scalar
            // type the form is not judged (the other six only use near, far and their difference)
            let nf = 2.0 * (n as f64) * (f as f64);
            let gl_ok = nf.is_finite() && nf < <$T>::MAX as f64 / 4.0 && nf > <$T>::MIN_POSITIVE as f64 * 4.0;
            if !gl_ok {
                t.class("persp:2*near*far outside the normal range (GL form not judged)");
            }
            for (i, m) in ms.iter().enumerate() {
                if i == 0 && !gl_ok {
                    continue;
                }
                let spec = &logic::PSPECS[i];
                let cols = m.to_cols_array();
                logic::persp_matrix::<$T>(cx!(t, stringify!($M4)), spec, &fr, &cols)?;
                for pr in &fr.probes {
                    let p = spec.point(pr);
                    let got = m.project_point3($V::from_array(p)).to_array();
                    logic::project::<$T>(cx!(t, stringify!($M4)), "project_point3", &cols, p, got)?;
                    proj3a!($T, cx!(t, stringify!($M4)), "project_point3a", m, &cols, p, got);
                }
            }
            Ok(())
        }
    };
}
persp_suite!(check_persp_f32, f32, Vec3, Mat4);
persp_suite!(check_persp_f64, f64, DVec3, DMat4);

macro_rules! ortho_suite {
    ($name:ident, $T:tt, $V:ident, $M4:ident) => {
        pub fn $name(w: &[u64], t: &mut Tally) -> Result<(), Fail> {
            let bx = match logic::decode_box::<$T>(w, t, VARIANT) {
                Some(b) => b,
                None => return Ok(()),
            };
            let b = bx.b;
            let ms = [
                $M4::orthographic_rh_gl(b[0], b[1], b[2], b[3], b[4], b[5]),
                $M4::orthographic_lh(b[0], b[1], b[2], b[3], b[4], b[5]),
                $M4::orthographic_rh(b[0], b[1], b[2], b[3], b[4], b[5]),
            ];
            for (i, m) in ms.iter().enumerate() {
                let spec = &logic::OSPECS[i];
                let cols = m.to_cols_array();
                logic::ortho_matrix::<$T>(cx!(t, stringify!($M4)), spec, &bx, &cols)?;
                for pr in &bx.probes {
                    let p = spec.point(pr);
                    let got = m.project_point3($V::from_array(p)).to_array();
                    logic::project::<$T>(cx!(t, stringify!($M4)), "project_point3", &cols, p, got)?;
                    let gt = m.transform_point3($V::from_array(p)).to_array();
                    logic::transform::<$T>(cx!(t, stringify!($M4)), "transform_point3", &cols, p, 1.0, gt)?;
                    proj3a!($T, cx!(t, stringify!($M4)), "project_point3a", m, &cols, p, got);
                }
            }
            Ok(())
        }
    };
}
ortho_suite!(check_ortho_f32, f32, Vec3, Mat4);
ortho_suite!(check_ortho_f64, f64, DVec3, DMat4);

macro_rules! xform3a {
    (f32, $t:expr, $m:expr, $ma:expr, $af:expr, $cols:expr, $acols:expr, $p:expr, $g:expr) => {{
        let pa = vec3a_junk($p);
        let g = $m.project_point3a(pa).to_array();
        logic::project::<f32>(cx!($t, "Mat4"), "project_point3a", $cols, $p, g)?;
        logic::same_forms::<f32>(cx!($t, "Mat4"), $g[0], g);
        let g = $ma.transform_point3a(pa).to_array();
        logic::transform::<f32>(cx!($t, "Mat4"), "transform_point3a", $acols, $p, 1.0, g)?;
        logic::same_forms::<f32>(cx!($t, "Mat4"), $g[1], g);
        let g = $ma.transform_vector3a(pa).to_array();
        logic::transform::<f32>(cx!($t, "Mat4"), "transform_vector3a", $acols, $p, 0.0, g)?;
        logic::same_forms::<f32>(cx!($t, "Mat4"), $g[2], g);
        let g = $af.transform_point3a(pa).to_array();
        logic::transform::<f32>(cx!($t, "Affine3A"), "transform_point3a", $acols, $p, 1.0, g)?;
        logic::same_forms::<f32>(cx!($t, "Affine3A"), $g[3], g);
        let g = $af.transform_vector3a(pa).to_array();
        logic::transform::<f32>(cx!($t, "Affine3A"), "transform_vector3a", $acols, $p, 0.0, g)?;
        logic::same_forms::<f32>(cx!($t, "Affine3A"), $g[4], g);
    }};
    (f64, $t:expr, $m:expr, $ma:expr, $af:expr, $cols:expr, $acols:expr, $p:expr, $g:expr) => {};
}

/// project_point3 on a general matrix; transform_point3 / transform_vector3 on the same matrix with an affine bottom row,
/// as Mat4 and as Affine3A
macro_rules! xform_suite {
    ($name:ident, $T:tt, $V:ident, $M4:ident, $A:ident) => {
        pub fn $name(w: &[u64], t: &mut Tally) -> Result<(), Fail> {
            let (cols, p) = match logic::decode_xform::<$T>(w, t, VARIANT) {
                Some(x) => x,
                None => return Ok(()),
            };
            let acols = logic::affine_of(&cols);
            let m = $M4::from_cols_array(&cols);
            let ma = $M4::from_cols_array(&acols);
            let a12 = [acols[0], acols[1], acols[2], acols[4], acols[5], acols[6], acols[8], acols[9], acols[10], acols[12], acols[13], acols[14]];
            let af = $A::from_cols_array(&a12);
            let v = $V::from_array(p);
            let mut g = [[p[0]; 3]; 5];
            g[0] = m.project_point3(v).to_array();
            logic::project::<$T>(cx!(t, stringify!($M4)), "project_point3", &cols, p, g[0])?;
            let ga = ma.project_point3(v).to_array();
            logic::project::<$T>(cx!(t, stringify!($M4)), "project_point3", &acols, p, ga)?;
            g[1] = ma.transform_point3(v).to_array();
            logic::transform::<$T>(cx!(t, stringify!($M4)), "transform_point3", &acols, p, 1.0, g[1])?;
            g[2] = ma.transform_vector3(v).to_array();
            logic::transform::<$T>(cx!(t, stringify!($M4)), "transform_vector3", &acols, p, 0.0, g[2])?;
            g[3] = af.transform_point3(v).to_array();
            logic::transform::<$T>(cx!(t, stringify!($A)), "transform_point3", &acols, p, 1.0, g[3])?;
            g[4] = af.transform_vector3(v).to_array();
            logic::transform::<$T>(cx!(t, stringify!($A)), "transform_vector3", &acols, p, 0.0, g[4])?;
            xform3a!($T, t, m, ma, af, &cols, &acols, p, g);
            Ok(())
        }
    };
}
xform_suite!(check_xform_f32, f32, Vec3, Mat4, Affine3A);
xform_suite!(check_xform_f64, f64, DVec3, DMat4, DAffine3);

pub fn subs<'a>(_args: &Args) -> Vec<SubCheck<'a>> {
    let mut out = vec![];
    macro_rules! sub {
        ($name:expr, $shards:expr, $q:expr, $mult:expr, $strat:expr, $chk:ident) => {
            out.push(SubCheck::new(
                format!("{}/{}", $name, VARIANT),
                $shards,
                |env: &mut Env| {
                    let n = env.cases($q, $mult);
                    env.prop($name, n, $strat, &$chk);
                },
                $chk,
            ));
        };
    }
    sub!("look/f32", 4, 60_000, 30, logic::cam_strategy::<f32>(), check_look_f32);
    sub!("look/f64", 4, 60_000, 30, logic::cam_strategy::<f64>(), check_look_f64);
    sub!("persp/f32", 4, 60_000, 30, logic::frustum_strategy::<f32>(), check_persp_f32);
    sub!("persp/f64", 8, 60_000, 30, logic::frustum_strategy::<f64>(), check_persp_f64);
    sub!("ortho/f32", 2, 60_000, 30, logic::box_strategy::<f32>(), check_ortho_f32);
    sub!("ortho/f64", 4, 60_000, 30, logic::box_strategy::<f64>(), check_ortho_f64);
    sub!("xform/f32", 2, 60_000, 30, logic::xform_strategy::<f32>(), check_xform_f32);
    sub!("xform/f64", 2, 60_000, 30, logic::xform_strategy::<f64>(), check_xform_f64);
    out
}
