//! C11 — view and projection matrices map the frustum as documented for each handedness.
use vcore::*;

mod logic;
mod refm;

mod simd {
    pub const VARIANT: &str = "simd";
    use ::glam_simd as glam;
    include!("suite.rs");
}
mod scalar {
    pub const VARIANT: &str = "scalar";
    use ::glam_scalar as glam;
    include!("suite.rs");
}
/// scalar-math with `glam-assert`: the second pass for the scalar copies (a quarter of the volume)
#[cfg(not(feature = "core"))]
mod scalar_asserting {
    pub const VARIANT: &str = "scalar+glam-assert";
    use ::glam_scalar_assert as glam;
    include!("suite.rs");
}
mod libmv {
    pub const VARIANT: &str = "libm";
    use ::glam_libm as glam;
    include!("suite.rs");
}
/// the same checks with `glam-assert` compiled in: the generated inputs satisfy the documented preconditions,
/// so a panic there is a failure
#[cfg(not(feature = "core"))]
mod asserting {
    pub const VARIANT: &str = "simd+glam-assert";
    use ::glam_assert as glam;
    include!("suite.rs");
}
#[cfg(feature = "core")]
mod core_simd {
    pub const VARIANT: &str = "core";
    use ::glam_core as glam;
    include!("suite.rs");
}
/// core-simd with `glam-assert`: the second pass for the portable-simd copies (a quarter of the volume)
#[cfg(feature = "core")]
mod core_asserting {
    pub const VARIANT: &str = "core+glam-assert";
    use ::glam_core_assert as glam;
    include!("suite.rs");
}

fn main() {
    let args = Args::parse();
    let mut subs = vec![];
    #[cfg(not(feature = "core"))]
    {
        subs.extend(simd::subs(&args));
        subs.extend(scalar::subs(&args));
        subs.extend(asserting::subs(&args));
        subs.extend(scalar_asserting::subs(&args).into_iter().map(|s| s.with_div(4)));
        // the libm build runs in every tier (a change confined to the libm math shims is invisible otherwise)
        {
            subs.extend(libmv::subs(&args));
        }
    }
    #[cfg(feature = "core")]
    {
        subs.extend(core_simd::subs(&args));
        subs.extend(core_asserting::subs(&args).into_iter().map(|s| s.with_div(4)));
    }
    let code = main_with("C11", "see MANIFEST / evidence rule", &args, subs);
    std::process::exit(code);
}
