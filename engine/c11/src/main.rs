//! C11 — not implemented yet.
fn main() {
    eprintln!("c11: not implemented");
    std::process::exit(2);
}
