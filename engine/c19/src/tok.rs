//! An exact in-memory serde carrier: a token stream in which every scalar keeps its bits.
//! Nothing here depends on glam.
use serde::{de, ser};
use std::fmt;

#[derive(Clone, PartialEq, Debug)]
pub enum Tok {
    TupleStruct(&'static str, usize),
    Bool(bool),
    I8(i8),
    I16(i16),
    I32(i32),
    I64(i64),
    U8(u8),
    U16(u16),
    U32(u32),
    U64(u64),
    /// bit pattern
    F32(u32),
    /// bit pattern
    F64(u64),
    End,
    UnitVariant(&'static str, u32, &'static str),
    /// anything the glam impls are not expected to emit
    Other(String),
}

impl Tok {
    pub fn show(&self) -> String {
        match self {
            Tok::F32(b) => format!("F32({:?}=0x{:08x})", f32::from_bits(*b), b),
            Tok::F64(b) => format!("F64({:?}=0x{:016x})", f64::from_bits(*b), b),
            o => format!("{o:?}"),
        }
    }
}
pub fn show(t: &[Tok]) -> String {
    let v: Vec<String> = t.iter().map(|x| x.show()).collect();
    format!("[{}]", v.join(", "))
}

#[derive(Debug, Clone)]
pub struct TErr(pub String);
impl fmt::Display for TErr {
    fn fmt(&self, f: &mut fmt::Formatter<'_>) -> fmt::Result {
        f.write_str(&self.0)
    }
}
impl std::error::Error for TErr {}
impl ser::Error for TErr {
    fn custom<T: fmt::Display>(m: T) -> Self {
        TErr(m.to_string())
    }
}
impl de::Error for TErr {
    fn custom<T: fmt::Display>(m: T) -> Self {
        TErr(m.to_string())
    }
}

// ---------------------------------------------------------------------------------------------
// Serializer

#[derive(Default)]
pub struct TokSer {
    pub out: Vec<Tok>,
}

type Imp = ser::Impossible<(), TErr>;

macro_rules! prim {
    ($f:ident, $t:ty, $v:ident => $e:expr) => {
        fn $f(self, $v: $t) -> Result<(), TErr> {
            self.out.push($e);
            Ok(())
        }
    };
}

impl<'a> ser::Serializer for &'a mut TokSer {
    type Ok = ();
    type Error = TErr;
    type SerializeSeq = Imp;
    type SerializeTuple = Imp;
    type SerializeTupleStruct = Self;
    type SerializeTupleVariant = Imp;
    type SerializeMap = Imp;
    type SerializeStruct = Imp;
    type SerializeStructVariant = Imp;

    prim!(serialize_bool, bool, v => Tok::Bool(v));
    prim!(serialize_i8, i8, v => Tok::I8(v));
    prim!(serialize_i16, i16, v => Tok::I16(v));
    prim!(serialize_i32, i32, v => Tok::I32(v));
    prim!(serialize_i64, i64, v => Tok::I64(v));
    prim!(serialize_u8, u8, v => Tok::U8(v));
    prim!(serialize_u16, u16, v => Tok::U16(v));
    prim!(serialize_u32, u32, v => Tok::U32(v));
    prim!(serialize_u64, u64, v => Tok::U64(v));
    prim!(serialize_f32, f32, v => Tok::F32(v.to_bits()));
    prim!(serialize_f64, f64, v => Tok::F64(v.to_bits()));
    prim!(serialize_char, char, v => Tok::Other(format!("char {v:?}")));
    prim!(serialize_str, &str, v => Tok::Other(format!("str {v:?}")));
    prim!(serialize_bytes, &[u8], v => Tok::Other(format!("bytes {v:?}")));

    fn serialize_none(self) -> Result<(), TErr> {
        self.out.push(Tok::Other("none".into()));
        Ok(())
    }
    fn serialize_some<T: ?Sized + ser::Serialize>(self, v: &T) -> Result<(), TErr> {
        self.out.push(Tok::Other("some".into()));
        v.serialize(self)
    }
    fn serialize_unit(self) -> Result<(), TErr> {
        self.out.push(Tok::Other("unit".into()));
        Ok(())
    }
    fn serialize_unit_struct(self, name: &'static str) -> Result<(), TErr> {
        self.out.push(Tok::Other(format!("unit_struct {name}")));
        Ok(())
    }
    fn serialize_unit_variant(self, name: &'static str, idx: u32, variant: &'static str) -> Result<(), TErr> {
        self.out.push(Tok::UnitVariant(name, idx, variant));
        Ok(())
    }
    fn serialize_newtype_struct<T: ?Sized + ser::Serialize>(self, name: &'static str, v: &T) -> Result<(), TErr> {
        self.out.push(Tok::Other(format!("newtype_struct {name}")));
        v.serialize(self)
    }
    fn serialize_newtype_variant<T: ?Sized + ser::Serialize>(self, name: &'static str, _: u32, variant: &'static str, v: &T) -> Result<(), TErr> {
        self.out.push(Tok::Other(format!("newtype_variant {name}::{variant}")));
        v.serialize(self)
    }
    fn serialize_seq(self, len: Option<usize>) -> Result<Imp, TErr> {
        self.out.push(Tok::Other(format!("seq {len:?}")));
        Err(TErr("serialize_seq is not a flat tuple struct".into()))
    }
    fn serialize_tuple(self, len: usize) -> Result<Imp, TErr> {
        self.out.push(Tok::Other(format!("tuple {len}")));
        Err(TErr("serialize_tuple is not a flat tuple struct".into()))
    }
    fn serialize_tuple_struct(self, name: &'static str, len: usize) -> Result<Self, TErr> {
        self.out.push(Tok::TupleStruct(name, len));
        Ok(self)
    }
    fn serialize_tuple_variant(self, name: &'static str, _: u32, variant: &'static str, len: usize) -> Result<Imp, TErr> {
        self.out.push(Tok::Other(format!("tuple_variant {name}::{variant} {len}")));
        Err(TErr("serialize_tuple_variant".into()))
    }
    fn serialize_map(self, len: Option<usize>) -> Result<Imp, TErr> {
        self.out.push(Tok::Other(format!("map {len:?}")));
        Err(TErr("serialize_map".into()))
    }
    fn serialize_struct(self, name: &'static str, len: usize) -> Result<Imp, TErr> {
        self.out.push(Tok::Other(format!("struct {name} {len}")));
        Err(TErr("serialize_struct".into()))
    }
    fn serialize_struct_variant(self, name: &'static str, _: u32, variant: &'static str, len: usize) -> Result<Imp, TErr> {
        self.out.push(Tok::Other(format!("struct_variant {name}::{variant} {len}")));
        Err(TErr("serialize_struct_variant".into()))
    }
    fn is_human_readable(&self) -> bool {
        false
    }
}

impl<'a> ser::SerializeTupleStruct for &'a mut TokSer {
    type Ok = ();
    type Error = TErr;
    fn serialize_field<T: ?Sized + ser::Serialize>(&mut self, v: &T) -> Result<(), TErr> {
        v.serialize(&mut **self)
    }
    fn end(self) -> Result<(), TErr> {
        self.out.push(Tok::End);
        Ok(())
    }
}

/// The token stream a value serialises to (the tokens emitted so far are kept on error).
pub fn to_tokens<T: ser::Serialize>(v: &T) -> (Vec<Tok>, Result<(), TErr>) {
    let mut s = TokSer::default();
    let r = v.serialize(&mut s);
    (s.out, r)
}

// ---------------------------------------------------------------------------------------------
// Deserializer: strict (the requested scalar type must be the token's type), records the
// (name, len) hints of deserialize_tuple_struct, and performs the carrier's end-of-sequence check.

pub struct TokDe<'t> {
    toks: &'t [Tok],
    pos: usize,
    pub hints: Vec<(&'static str, usize)>,
}

impl<'t> TokDe<'t> {
    pub fn new(toks: &'t [Tok]) -> Self {
        TokDe { toks, pos: 0, hints: vec![] }
    }
    fn next(&mut self) -> Result<&'t Tok, TErr> {
        let t = self.toks.get(self.pos).ok_or_else(|| TErr("carrier: unexpected end of token stream".into()))?;
        self.pos += 1;
        Ok(t)
    }
    fn seq<'de, V: de::Visitor<'de>>(&mut self, visitor: V) -> Result<V::Value, TErr> {
        let n = match self.next()? {
            Tok::TupleStruct(_, n) => *n,
            o => return Err(TErr(format!("carrier: expected a tuple struct, found {}", o.show()))),
        };
        let mut acc = Seq { de: self, left: n };
        let r = visitor.visit_seq(&mut acc)?;
        let left = acc.left;
        if left != 0 {
            return Err(TErr(format!("carrier: trailing elements, {left} of {n} not read by the visitor")));
        }
        match self.next()? {
            Tok::End => Ok(r),
            o => Err(TErr(format!("carrier: expected end of tuple struct, found {}", o.show()))),
        }
    }
}

struct Seq<'a, 't> {
    de: &'a mut TokDe<'t>,
    left: usize,
}

impl<'de, 'a, 't> de::SeqAccess<'de> for &mut Seq<'a, 't> {
    type Error = TErr;
    fn next_element_seed<T: de::DeserializeSeed<'de>>(&mut self, seed: T) -> Result<Option<T::Value>, TErr> {
        if self.left == 0 {
            return Ok(None);
        }
        self.left -= 1;
        seed.deserialize(&mut *self.de).map(Some)
    }
    fn size_hint(&self) -> Option<usize> {
        Some(self.left)
    }
}

macro_rules! de_prim {
    ($f:ident, $T:ident, $visit:ident, $conv:expr) => {
        fn $f<V: de::Visitor<'de>>(self, visitor: V) -> Result<V::Value, TErr> {
            match self.next()? {
                Tok::$T(v) => visitor.$visit($conv(*v)),
                o => Err(TErr(format!("carrier: {} requested, found {}", stringify!($f), o.show()))),
            }
        }
    };
}

impl<'de, 'a, 't> de::Deserializer<'de> for &'a mut TokDe<'t> {
    type Error = TErr;

    fn deserialize_any<V: de::Visitor<'de>>(self, visitor: V) -> Result<V::Value, TErr> {
        match self.toks.get(self.pos) {
            Some(Tok::TupleStruct(..)) => self.seq(visitor),
            Some(Tok::Bool(v)) => {
                self.pos += 1;
                visitor.visit_bool(*v)
            }
            Some(Tok::I8(v)) => {
                self.pos += 1;
                visitor.visit_i8(*v)
            }
            Some(Tok::I16(v)) => {
                self.pos += 1;
                visitor.visit_i16(*v)
            }
            Some(Tok::I32(v)) => {
                self.pos += 1;
                visitor.visit_i32(*v)
            }
            Some(Tok::I64(v)) => {
                self.pos += 1;
                visitor.visit_i64(*v)
            }
            Some(Tok::U8(v)) => {
                self.pos += 1;
                visitor.visit_u8(*v)
            }
            Some(Tok::U16(v)) => {
                self.pos += 1;
                visitor.visit_u16(*v)
            }
            Some(Tok::U32(v)) => {
                self.pos += 1;
                visitor.visit_u32(*v)
            }
            Some(Tok::U64(v)) => {
                self.pos += 1;
                visitor.visit_u64(*v)
            }
            Some(Tok::F32(v)) => {
                self.pos += 1;
                visitor.visit_f32(f32::from_bits(*v))
            }
            Some(Tok::F64(v)) => {
                self.pos += 1;
                visitor.visit_f64(f64::from_bits(*v))
            }
            Some(o) => Err(TErr(format!("carrier: cannot deserialize {}", o.show()))),
            None => Err(TErr("carrier: unexpected end of token stream".into())),
        }
    }

    de_prim!(deserialize_bool, Bool, visit_bool, |v| v);
    de_prim!(deserialize_i8, I8, visit_i8, |v| v);
    de_prim!(deserialize_i16, I16, visit_i16, |v| v);
    de_prim!(deserialize_i32, I32, visit_i32, |v| v);
    de_prim!(deserialize_i64, I64, visit_i64, |v| v);
    de_prim!(deserialize_u8, U8, visit_u8, |v| v);
    de_prim!(deserialize_u16, U16, visit_u16, |v| v);
    de_prim!(deserialize_u32, U32, visit_u32, |v| v);
    de_prim!(deserialize_u64, U64, visit_u64, |v| v);
    de_prim!(deserialize_f32, F32, visit_f32, f32::from_bits);
    de_prim!(deserialize_f64, F64, visit_f64, f64::from_bits);

    fn deserialize_tuple_struct<V: de::Visitor<'de>>(self, name: &'static str, len: usize, visitor: V) -> Result<V::Value, TErr> {
        self.hints.push((name, len));
        self.seq(visitor)
    }

    fn is_human_readable(&self) -> bool {
        false
    }

    serde::forward_to_deserialize_any! {
        i128 u128 char str string bytes byte_buf option unit unit_struct newtype_struct seq tuple
        map struct enum identifier ignored_any
    }
}

/// Deserialise a `T` from exactly these tokens. Also returns the tuple-struct hints the impl gave.
pub fn from_tokens<T: de::DeserializeOwned>(toks: &[Tok]) -> (Result<T, TErr>, Vec<(&'static str, usize)>) {
    let mut d = TokDe::new(toks);
    let r = T::deserialize(&mut d);
    let r = match r {
        Ok(v) if d.pos != toks.len() => {
            let _ = v;
            Err(TErr(format!("carrier: {} trailing tokens", toks.len() - d.pos)))
        }
        o => o,
    };
    (r, d.hints)
}

// ---------------------------------------------------------------------------------------------
// Scalars as canonical words

pub trait Sc: Copy + fmt::Debug + ser::Serialize + de::DeserializeOwned + 'static {
    const BITS: u32;
    const FLOAT: bool;
    const SIGNED: bool;
    const BOOL: bool;
    const SIZE: usize;
    const TNAME: &'static str;
    fn fb(w: u64) -> Self;
    fn tb(self) -> u64;
    fn tok(self) -> Tok;
    fn ne(self, out: &mut Vec<u8>);
    fn finite(self) -> bool {
        true
    }
    /// the carrier's own text for this scalar
    fn json(self) -> String {
        serde_json::to_string(&self).unwrap()
    }
    /// the carrier's own parse of one scalar
    fn from_json(s: &str) -> Option<Self> {
        serde_json::from_str::<Self>(s).ok()
    }
}

impl Sc for f32 {
    const BITS: u32 = 32;
    const FLOAT: bool = true;
    const SIGNED: bool = true;
    const BOOL: bool = false;
    const SIZE: usize = 4;
    const TNAME: &'static str = "f32";
    fn fb(w: u64) -> f32 {
        f32::from_bits(w as u32)
    }
    fn tb(self) -> u64 {
        self.to_bits() as u64
    }
    fn tok(self) -> Tok {
        Tok::F32(self.to_bits())
    }
    fn ne(self, out: &mut Vec<u8>) {
        out.extend_from_slice(&self.to_bits().to_ne_bytes())
    }
    fn finite(self) -> bool {
        self.is_finite()
    }
}
impl Sc for f64 {
    const BITS: u32 = 64;
    const FLOAT: bool = true;
    const SIGNED: bool = true;
    const BOOL: bool = false;
    const SIZE: usize = 8;
    const TNAME: &'static str = "f64";
    fn fb(w: u64) -> f64 {
        f64::from_bits(w)
    }
    fn tb(self) -> u64 {
        self.to_bits()
    }
    fn tok(self) -> Tok {
        Tok::F64(self.to_bits())
    }
    fn ne(self, out: &mut Vec<u8>) {
        out.extend_from_slice(&self.to_bits().to_ne_bytes())
    }
    fn finite(self) -> bool {
        self.is_finite()
    }
}
impl Sc for bool {
    const BITS: u32 = 1;
    const FLOAT: bool = false;
    const SIGNED: bool = false;
    const BOOL: bool = true;
    const SIZE: usize = 1;
    const TNAME: &'static str = "bool";
    fn fb(w: u64) -> bool {
        w & 1 != 0
    }
    fn tb(self) -> u64 {
        self as u64
    }
    fn tok(self) -> Tok {
        Tok::Bool(self)
    }
    fn ne(self, out: &mut Vec<u8>) {
        out.push(self as u8)
    }
}
macro_rules! int_sc {
    ($t:ty, $u:ty, $bits:expr, $signed:expr, $Tk:ident, $tk:ty) => {
        impl Sc for $t {
            const BITS: u32 = $bits;
            const FLOAT: bool = false;
            const SIGNED: bool = $signed;
            const BOOL: bool = false;
            const SIZE: usize = $bits / 8;
            const TNAME: &'static str = stringify!($t);
            fn fb(w: u64) -> $t {
                w as $u as $t
            }
            fn tb(self) -> u64 {
                self as $u as u64
            }
            fn tok(self) -> Tok {
                Tok::$Tk(self as $tk)
            }
            fn ne(self, out: &mut Vec<u8>) {
                out.extend_from_slice(&self.to_ne_bytes())
            }
        }
    };
}
int_sc!(i8, u8, 8, true, I8, i8);
int_sc!(u8, u8, 8, false, U8, u8);
int_sc!(i16, u16, 16, true, I16, i16);
int_sc!(u16, u16, 16, false, U16, u16);
int_sc!(i32, u32, 32, true, I32, i32);
int_sc!(u32, u32, 32, false, U32, u32);
int_sc!(i64, u64, 64, true, I64, i64);
int_sc!(u64, u64, 64, false, U64, u64);
// serde's data model has no usize: it travels as u64
int_sc!(usize, u64, 64, false, U64, u64);
