//! C19 — serialisation and interop (serde, bytemuck, rkyv, mint) round-trip every value, identically across backends.
#![allow(dead_code)]
use vcore::*;

mod gen;
mod tok;

/// Compile-time trait probes: `<IsPod<T>>::YES` is the inherent constant (true) when `T: Pod`,
/// otherwise it falls back to the blanket trait constant (false). Works for concrete `T` only.
pub mod probe {
    use core::marker::PhantomData;
    pub trait ProbeNo {
        const YES: bool = false;
    }
    macro_rules! probe_def {
        ($P:ident, $($Tr:tt)+) => {
            pub struct $P<T>(PhantomData<T>);
            impl<T: $($Tr)+> $P<T> {
                pub const YES: bool = true;
            }
            impl<T> ProbeNo for $P<T> {}
        };
    }
    probe_def!(IsPod, bytemuck::Pod);
    probe_def!(IsAbp, bytemuck::AnyBitPattern);
    probe_def!(IsZeroable, bytemuck::Zeroable);
    probe_def!(IsNoUninit, bytemuck::NoUninit);
    probe_def!(IsSer, serde::Serialize);
    probe_def!(IsDe, serde::de::DeserializeOwned);
    probe_def!(IsArchive, rkyv::Archive);
    probe_def!(IsMint, mint::IntoMint);
}

/// What one build makes of one value through the serde carriers (compared across builds).
#[derive(Clone, PartialEq, Debug)]
pub struct Obs {
    pub tokens: Vec<tok::Tok>,
    pub tok_err: Option<String>,
    pub json: Result<String, String>,
    /// elements deserialised from the harness-built token stream
    pub de_tok: Result<Vec<u64>, String>,
    /// elements deserialised from the harness-built JSON text (finite values only)
    pub de_json: Option<Result<Vec<u64>, String>>,
}

#[derive(Clone, Copy, Debug)]
pub struct Info {
    pub name: &'static str,
    pub kind: gen::Kind,
    pub n: usize,
}

mod feat {
    pub const VARIANT: &str = "feat";
    macro_rules! simd_only { ($($t:tt)*) => { $($t)* }; }
    use ::glam_feat as glam;
    include!("suite.rs");
}
mod scalar_feat {
    pub const VARIANT: &str = "scalar_feat";
    macro_rules! simd_only { ($($t:tt)*) => {}; }
    use ::glam_scalar_feat as glam;
    include!("suite.rs");
}
/// the feature-enabled SSE2 build with `glam-assert`: no feature impl may gain a precondition (half the volume)
mod feat_assert {
    pub const VARIANT: &str = "feat+glam-assert";
    macro_rules! simd_only { ($($t:tt)*) => { $($t)* }; }
    use ::glam_feat_assert as glam;
    include!("suite.rs");
}
#[cfg(feature = "core")]
mod core_feat {
    pub const VARIANT: &str = "core_feat";
    macro_rules! simd_only { ($($t:tt)*) => { $($t)* }; }
    use ::glam_core_feat as glam;
    include!("suite.rs");
}

type ObsFn = fn(&str, &[u64]) -> Option<Obs>;

/// In-process differential: the same element words through two builds of the working tree.
fn cross_subs<'a>(out: &mut Vec<SubCheck<'a>>, an: &'static str, a: ObsFn, bn: &'static str, b: ObsFn, infos: Vec<Info>) {
    use serde_json::json;
    for inf in infos {
        let pair = format!("{an}~{bn}");
        let name = format!("cross/{}/{}", inf.name, pair);
        let pair2 = pair.clone();
        let check = move |w: &[u64], t: &mut Tally| -> Result<(), Fail> {
            t.eval(1);
            let (oa, ob) = (a(inf.name, w), b(inf.name, w));
            let (oa, ob) = match (oa, ob) {
                (Some(x), Some(y)) => (x, y),
                (x, y) => {
                    t.class(&format!("not-compared: serde impl present in {an}: {}, in {bn}: {}", x.is_some(), y.is_some()));
                    return Ok(());
                }
            };
            let euler = inf.name == "EulerRot";
            let nt = if euler { true } else { gen::classify(inf.kind, &w[..inf.n.min(w.len())], t) };
            if nt {
                if euler || inf.kind.boolean {
                    t.nontrivial_enum(1);
                } else {
                    t.nontrivial(mix(hash_str(inf.name), mix(hash_str(&pair2), fnv(w))));
                }
                if t.want_sample() {
                    t.sample(json!({"type": inf.name, "builds": pair2, "words": hexwords(w), "tokens": tok::show(&oa.tokens), "json": format!("{:?}", oa.json)}));
                }
            }
            if oa.json.is_ok() && oa.de_json.is_some() {
                t.class("json-text-compared");
            }
            let f = |op: &str, msg: String| Fail::new(format!("C19/{}/{}/{}", pair2, inf.name, op), op.to_string(), msg);
            if oa.tokens != ob.tokens || oa.tok_err != ob.tok_err {
                return Err(f("cross-tokens", format!("{} words {:?}: {an} serialises to {} ({:?}), {bn} to {} ({:?})", inf.name, hexwords(w), tok::show(&oa.tokens), oa.tok_err, tok::show(&ob.tokens), ob.tok_err)));
            }
            if oa.json != ob.json {
                return Err(f("cross-json", format!("{} words {:?}: serde_json::to_string gives {:?} in {an}, {:?} in {bn}", inf.name, hexwords(w), oa.json, ob.json)));
            }
            if oa.de_tok != ob.de_tok {
                return Err(f("cross-deserialize", format!("{} words {:?}: from tokens {an} gives {:?}, {bn} gives {:?}", inf.name, hexwords(w), oa.de_tok, ob.de_tok)));
            }
            if oa.de_json != ob.de_json {
                return Err(f("cross-json-deserialize", format!("{} words {:?}: from JSON text {an} gives {:?}, {bn} gives {:?}", inf.name, hexwords(w), oa.de_json, ob.de_json)));
            }
            Ok(())
        };
        let check2 = check.clone();
        let run = move |env: &mut Env| {
            if inf.name == "EulerRot" {
                for i in 0..24u64 {
                    if !env.direct(&[i], &check2) {
                        return;
                    }
                }
                return;
            }
            for f in gen::fixed(inf.kind, inf.n) {
                if !env.direct(&f, &check2) {
                    return;
                }
            }
            if inf.kind.boolean {
                return;
            }
            env.tally.exhaustive = false;
            let n = env.cases(20_000, 40);
            env.prop("cross", n, gen::elems_text(inf.kind, inf.n), &check2);
        };
        out.push(SubCheck::new(name, 1, run, check));
    }
}

fn main() {
    let args = Args::parse();
    let mut subs = vec![];
    #[cfg(not(feature = "core"))]
    {
        subs.extend(feat::subs(&args));
        subs.extend(scalar_feat::subs(&args));
        subs.extend(feat_assert::subs(&args).into_iter().map(|s| s.with_div(2)));
        cross_subs(&mut subs, "feat", feat::observe, "scalar_feat", scalar_feat::observe, feat::infos());
    }
    #[cfg(feature = "core")]
    {
        subs.extend(core_feat::subs(&args));
        cross_subs(&mut subs, "core_feat", core_feat::observe, "feat", feat::observe, core_feat::infos());
        cross_subs(&mut subs, "core_feat", core_feat::observe, "scalar_feat", scalar_feat::observe, core_feat::infos());
    }
    let code = main_with("C19", "see MANIFEST / evidence rule", &args, subs);
    std::process::exit(code);
}
