//! C19 — not implemented yet.
fn main() {
    eprintln!("c19: not implemented");
    std::process::exit(2);
}
