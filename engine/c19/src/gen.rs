//! Element-word generators, classification and byte-image layout rules. Nothing here depends on glam.
use proptest::prelude::*;
use vcore::lattice;
use vcore::Tally;

#[derive(Clone, Copy, Debug)]
pub struct Kind {
    pub bits: u32,
    pub float: bool,
    pub signed: bool,
    pub boolean: bool,
}

pub fn mask(bits: u32) -> u64 {
    if bits == 64 {
        u64::MAX
    } else {
        (1u64 << bits) - 1
    }
}
pub fn is_nan(k: Kind, w: u64) -> bool {
    k.float && if k.bits == 32 { f32::from_bits(w as u32).is_nan() } else { f64::from_bits(w).is_nan() }
}
pub fn is_finite(k: Kind, w: u64) -> bool {
    !k.float || if k.bits == 32 { f32::from_bits(w as u32).is_finite() } else { f64::from_bits(w).is_finite() }
}
pub fn neg_zero(k: Kind) -> u64 {
    1u64 << (k.bits - 1)
}
pub fn int_min_max(k: Kind) -> (u64, u64) {
    if k.signed {
        (1u64 << (k.bits - 1), (1u64 << (k.bits - 1)) - 1)
    } else {
        (0, mask(k.bits))
    }
}
/// largest finite magnitude / infinity / MIN / MAX
pub fn is_extreme(k: Kind, w: u64) -> bool {
    if k.boolean {
        false
    } else if k.float {
        let a = w & (mask(k.bits) >> 1);
        let (inf, max) = if k.bits == 32 { (0x7f80_0000u64, 0x7f7f_ffffu64) } else { (0x7ff0_0000_0000_0000, 0x7fef_ffff_ffff_ffff) };
        a == inf || a == max || a == 1
    } else {
        let (mn, mx) = int_min_max(k);
        w == mn || w == mx
    }
}

pub fn repair_distinct(w: &mut [u64], bits: u32) {
    let m = mask(bits);
    for i in 0..w.len() {
        while w[..i].contains(&w[i]) {
            w[i] = w[i].wrapping_add(1) & m;
        }
    }
}
pub fn pairwise_distinct(w: &[u64]) -> bool {
    (0..w.len()).all(|i| !w[..i].contains(&w[i]))
}

fn lane(k: Kind) -> BoxedStrategy<u64> {
    if k.boolean {
        any::<bool>().prop_map(|b| b as u64).boxed()
    } else if k.float {
        lattice::lat(k.bits)
    } else {
        lattice::lat_int(k.bits, k.signed)
    }
}

/// `n` element words of one scalar kind, by class: pairwise distinct (the main non-trivial class), independent lattice
/// values, all equal, two-valued, NaNs with distinct payloads (quiet/signalling, both signs), signed zeros, integer
/// extremes, arbitrary bit patterns.
pub fn elems(k: Kind, n: usize) -> BoxedStrategy<Vec<u64>> {
    let bits = k.bits;
    let m = mask(bits);
    if k.boolean {
        return proptest::collection::vec(any::<bool>().prop_map(|b| b as u64), n).boxed();
    }
    let l = move || lane(k);
    let distinct = proptest::collection::vec(l(), n).prop_map(move |mut v| {
        repair_distinct(&mut v, bits);
        v
    });
    let raw = proptest::collection::vec(l(), n);
    let equal = l().prop_map(move |x| vec![x; n]);
    let two = (l(), l(), proptest::collection::vec(any::<bool>(), n)).prop_map(|(a, b, s)| s.iter().map(|&t| if t { b } else { a }).collect::<Vec<u64>>());
    let anyb = proptest::collection::vec(any::<u64>(), n).prop_map(move |mut v| {
        for x in v.iter_mut() {
            *x &= m;
        }
        repair_distinct(&mut v, bits);
        v
    });
    if k.float {
        let mant = if bits == 32 { 23u32 } else { 52 };
        let expo: u64 = if bits == 32 { 0x7f80_0000 } else { 0x7ff0_0000_0000_0000 };
        let nans = proptest::collection::vec((any::<bool>(), any::<bool>(), 1u64..(1u64 << (mant - 1))), n).prop_map(move |v| {
            let mut w: Vec<u64> = v.iter().map(|&(s, q, p)| ((s as u64) << (bits - 1)) | expo | ((q as u64) << (mant - 1)) | p).collect();
            repair_distinct(&mut w, bits);
            w
        });
        let nz = neg_zero(k);
        let zeros = proptest::collection::vec(prop_oneof![3 => Just(0u64), 3 => Just(nz), 2 => l()], n);
        prop_oneof![40 => distinct, 10 => raw, 6 => equal, 8 => two, 16 => nans, 10 => zeros, 10 => anyb].boxed()
    } else {
        let (min, max) = int_min_max(k);
        let ext = vec![min, max, 0, m, 1, (min + 1) & m, max.wrapping_sub(1) & m];
        let extremes = proptest::collection::vec(proptest::sample::select(ext), n).prop_map(move |mut v| {
            repair_distinct(&mut v, bits);
            v
        });
        prop_oneof![40 => distinct, 10 => raw, 6 => equal, 8 => two, 26 => extremes, 10 => anyb].boxed()
    }
}

/// mostly-finite element words (text carriers): non-finite lanes are made finite by flipping the lowest exponent bit
/// in 85 % of the cases.
pub fn elems_text(k: Kind, n: usize) -> BoxedStrategy<Vec<u64>> {
    if !k.float {
        return elems(k, n);
    }
    let mant = if k.bits == 32 { 23u32 } else { 52 };
    (elems(k, n), 0u8..100)
        .prop_map(move |(mut v, p)| {
            if p < 85 {
                let was_distinct = pairwise_distinct(&v);
                for x in v.iter_mut() {
                    if !is_finite(k, *x) {
                        *x ^= 1u64 << mant;
                    }
                }
                if was_distinct {
                    repair_distinct(&mut v, k.bits);
                    // a repair step cannot leave the finite range: the largest finite pattern + 1 is inf only for MAX
                    for x in v.iter_mut() {
                        if !is_finite(k, *x) {
                            *x = x.wrapping_sub(3) & mask(k.bits);
                        }
                    }
                }
            }
            v
        })
        .boxed()
}

/// element words followed by `pads` arbitrary words (content of padding bytes / hidden lanes)
pub fn elems_pads(k: Kind, n: usize, pads: usize) -> BoxedStrategy<Vec<u64>> {
    if pads == 0 {
        return elems(k, n);
    }
    let special: Vec<u64> = vec![0, u64::MAX, 0x7fc0_0000_7fc0_0000, 0x7f80_0001_ff80_0001, 0x3f80_0000_3f80_0000, 0x0000_0001_8000_0000];
    (elems(k, n), proptest::collection::vec(prop_oneof![2 => proptest::sample::select(special), 3 => any::<u64>()], pads))
        .prop_map(|(mut v, p)| {
            v.extend(p);
            v
        })
        .boxed()
}

/// fixed inputs evaluated in every run
pub fn fixed(k: Kind, n: usize) -> Vec<Vec<u64>> {
    let m = mask(k.bits);
    let mut out: Vec<Vec<u64>> = vec![];
    if k.boolean {
        for b in 0..(1u64 << n) {
            out.push((0..n).map(|i| (b >> i) & 1).collect());
        }
        return out;
    }
    let small: Vec<u64> = (1..=n as u64)
        .map(|i| if !k.float { i } else if k.bits == 32 { (i as f32).to_bits() as u64 } else { (i as f64).to_bits() })
        .collect();
    out.push(small.clone());
    out.push(vec![small[0]; n]);
    out.push(vec![0; n]);
    if k.float {
        let (q, s, sh): (u64, u64, u32) = if k.bits == 32 { (0x7fc0_0000, 0x7f80_0000, 31) } else { (0x7ff8_0000_0000_0000, 0x7ff0_0000_0000_0000, 63) };
        out.push((0..n as u64).map(|i| (if i % 2 == 0 { q } else { s }) | ((i / 2 % 2) << sh) | (i + 1)).collect());
        out.push((0..n as u64).map(|i| (m >> (i % 2)) - (i / 2)).collect());
        out.push((0..n as u64).map(|i| if i % 2 == 0 { neg_zero(k) } else { 0 }).collect());
        out.push((0..n as u64).map(|i| if i % 2 == 1 { neg_zero(k) } else { 0 }).collect());
        let base = [s, s | (1 << sh), 1, m >> 1, neg_zero(k) | 1, q | 5, 0, s - 1, (s - 1) | (1 << sh)];
        let mut v: Vec<u64> = (0..n).map(|i| base[i % base.len()].wrapping_add((i / base.len()) as u64 * 2)).collect();
        repair_distinct(&mut v, k.bits);
        out.push(v);
        // values that compare equal to an identity (matrix, affine, quaternion) but carry negative zeros in a few fixed patterns:
        // a deserialiser that recognises "the identity" by == would lose the signs
        let one: u64 = if k.bits == 32 { 1f32.to_bits() as u64 } else { 1f64.to_bits() };
        let mut shapes: Vec<Vec<u64>> = vec![];
        let d = match n {
            4 | 6 => 2,
            9 | 12 => 3,
            16 => 4,
            _ => 0,
        };
        if d > 0 {
            shapes.push((0..n).map(|i| if i / d == i % d && i / d < d { one } else { 0 }).collect());
        }
        if n == 4 {
            shapes.push(vec![0, 0, 0, one]);
        }
        for sh0 in shapes {
            for pat in [0u64, u64::MAX, 0x5555_5555_5555_5555, 0xaaaa_aaaa_aaaa_aaaa, 0x9e37_79b9_7f4a_7c15, 0x0f0f_3c3c_a5a5_9669, 1, 1 << (n - 1)] {
                out.push(sh0.iter().enumerate().map(|(i, &x)| if x == 0 && pat >> i & 1 == 1 { neg_zero(k) } else { x }).collect());
            }
        }
        // tenths: finite values whose shortest decimal text is not an exact binary fraction
        out.push((1..=n as u64).map(|i| if k.bits == 32 { (i as f32 * 0.1).to_bits() as u64 } else { (i as f64 * 0.1).to_bits() }).collect());
    } else {
        let (min, max) = int_min_max(k);
        let base = [min, max, 0, m, 1, (min + 1) & m, max.wrapping_sub(1) & m];
        let mut v: Vec<u64> = (0..n).map(|i| base[i % base.len()]).collect();
        repair_distinct(&mut v, k.bits);
        out.push(v.clone());
        v.reverse();
        out.push(v);
    }
    out
}

/// Tally the classes of one case's element words; returns whether the case is non-trivial by the property's rule:
/// element values pairwise distinct, or containing a NaN / -0 / extreme value. (bool vectors: not all equal.)
pub fn classify(k: Kind, w: &[u64], t: &mut Tally) -> bool {
    if k.boolean {
        let mixed = w.iter().any(|&x| x != w[0]);
        t.class(if mixed { "elems:mixed-bools" } else { "elems:all-equal" });
        return mixed;
    }
    let distinct = pairwise_distinct(w);
    if distinct {
        t.class("elems:pairwise-distinct");
    } else if w.iter().all(|&x| x == w[0]) {
        t.class("elems:all-equal");
    } else {
        t.class("elems:some-equal");
    }
    let mut special = false;
    if k.float {
        let nans = w.iter().filter(|&&x| is_nan(k, x)).count();
        if nans > 0 {
            t.class("has:nan");
            special = true;
        }
        if nans >= 2 && distinct {
            t.class("has:distinct-nan-payloads");
        }
        let qbit = if k.bits == 32 { 22 } else { 51 };
        if w.iter().any(|&x| is_nan(k, x) && (x >> qbit) & 1 == 0) {
            t.class("has:signalling-nan");
        }
        if w.iter().any(|&x| x == neg_zero(k)) {
            t.class("has:neg-zero");
            special = true;
        }
        if w.iter().any(|&x| !is_finite(k, x) && !is_nan(k, x)) {
            t.class("has:inf");
        }
        if w.iter().all(|&x| is_finite(k, x)) {
            t.class("all-finite");
        }
    }
    if w.iter().any(|&x| is_extreme(k, x)) {
        t.class("has:extreme");
        special = true;
    }
    distinct || special
}

// ---------------------------------------------------------------------------------------------
// byte images

#[derive(Clone, Copy, Debug, PartialEq)]
pub enum Lay {
    /// elements back to back; trailing bytes up to the alignment are padding
    Packed,
    /// columns of three 4-byte elements, each column padded to 16 bytes
    Cols16,
}

pub fn offsets(lay: Lay, n: usize, ssz: usize) -> Vec<usize> {
    match lay {
        Lay::Packed => (0..n).map(|i| i * ssz).collect(),
        Lay::Cols16 => (0..n).map(|i| (i / 3) * 16 + (i % 3) * 4).collect(),
    }
}
pub fn expected_size(lay: Lay, n: usize, ssz: usize, align: usize) -> usize {
    match lay {
        Lay::Packed => (n * ssz + align - 1) / align * align,
        Lay::Cols16 => (n / 3) * 16,
    }
}
/// number of pad words (8 bytes of padding content each)
pub fn pad_words(size: usize, n: usize, ssz: usize) -> usize {
    (size - n * ssz + 7) / 8
}
/// the byte image: element i (native endian) at its offset, padding bytes filled from the pad words
pub fn image(lay: Lay, size: usize, ssz: usize, elem_bytes: &[u8], pads: &[u64]) -> Vec<u8> {
    let n = elem_bytes.len() / ssz;
    let offs = offsets(lay, n, ssz);
    let mut used = vec![false; size];
    let mut out = vec![0u8; size];
    for (i, &o) in offs.iter().enumerate() {
        out[o..o + ssz].copy_from_slice(&elem_bytes[i * ssz..(i + 1) * ssz]);
        for u in used[o..o + ssz].iter_mut() {
            *u = true;
        }
    }
    let pb: Vec<u8> = pads.iter().flat_map(|p| p.to_ne_bytes()).collect();
    let mut j = 0;
    for i in 0..size {
        if !used[i] {
            out[i] = pb.get(j).copied().unwrap_or(0);
            j += 1;
        }
    }
    out
}
