// Included once per glam variant (`glam`, VARIANT and simd_only! come from the including module).
use super::gen::{self, Kind, Lay};
#[allow(unused_imports)]
use super::probe::{IsAbp, IsArchive, IsDe, IsMint, IsNoUninit, IsPod, IsSer, IsZeroable, ProbeNo};
use super::tok::{self, Sc, Tok};
use super::{Info, Obs};
use serde_json::json;
use vcore::*;

/// A glam value type as a flat sequence of N scalar elements (lane order / column-major order).
/// `from_elems` / `elems` use the type's array movers (from_array/to_array, from_cols_array/to_cols_array);
/// every check first verifies that they reproduce the input bit for bit.
pub trait GT: Copy + 'static {
    type S: Sc;
    const NAME: &'static str;
    const N: usize;
    const LAY: Lay;
    /// numeric type: any byte pattern is a value (the harness may build it from a raw image)
    const RAW: bool;
    fn from_elems(e: &[Self::S]) -> Self;
    fn elems(&self) -> Vec<Self::S>;
    /// words of hidden content for types that cannot be built from a raw image (BVec3A: the padding lane of the mask)
    const HIDDEN: usize = 0;
    /// the same value with that hidden content, built through a public route that sets it
    fn from_elems_hidden(e: &[Self::S], _h: u64) -> Self {
        Self::from_elems(e)
    }
}

macro_rules! impl_gt {
    (arr, $T:ident, $S:ty, $N:expr, $lay:ident) => {
        impl GT for glam::$T {
            type S = $S;
            const NAME: &'static str = stringify!($T);
            const N: usize = $N;
            const LAY: Lay = Lay::$lay;
            const RAW: bool = true;
            fn from_elems(e: &[$S]) -> Self {
                let a: [$S; $N] = core::array::from_fn(|i| e[i]);
                glam::$T::from_array(a)
            }
            fn elems(&self) -> Vec<$S> {
                self.to_array().to_vec()
            }
        }
    };
    (cols, $T:ident, $S:ty, $N:expr, $lay:ident) => {
        impl GT for glam::$T {
            type S = $S;
            const NAME: &'static str = stringify!($T);
            const N: usize = $N;
            const LAY: Lay = Lay::$lay;
            const RAW: bool = true;
            fn from_elems(e: &[$S]) -> Self {
                let a: [$S; $N] = core::array::from_fn(|i| e[i]);
                glam::$T::from_cols_array(&a)
            }
            fn elems(&self) -> Vec<$S> {
                self.to_cols_array().to_vec()
            }
        }
    };
    (boolarr3a, $T:ident, $S:ty, $N:expr, $lay:ident) => {
        impl GT for glam::$T {
            type S = bool;
            const NAME: &'static str = stringify!($T);
            const N: usize = $N;
            const LAY: Lay = Lay::$lay;
            const RAW: bool = false;
            const HIDDEN: usize = 1;
            fn from_elems(e: &[bool]) -> Self {
                let a: [bool; $N] = core::array::from_fn(|i| e[i]);
                glam::$T::from_array(a)
            }
            fn from_elems_hidden(e: &[bool], h: u64) -> Self {
                // what a comparison of two Vec3A leaves behind: the padding lane compares true or false on its own;
                // every second case goes through `!` (which flips the padding lane too)
                let f = |b: bool| if b { 1.0f32 } else { 0.0 };
                let one = glam::Vec3A::from_vec4(glam::Vec4::ONE);
                if h & 2 == 0 {
                    glam::Vec3A::from_vec4(glam::Vec4::new(f(e[0]), f(e[1]), f(e[2]), f(h & 1 == 1))).cmpeq(one)
                } else {
                    !glam::Vec3A::from_vec4(glam::Vec4::new(f(!e[0]), f(!e[1]), f(!e[2]), f(h & 1 == 1))).cmpeq(one)
                }
            }
            fn elems(&self) -> Vec<bool> {
                let a: [bool; $N] = (*self).into();
                a.to_vec()
            }
        }
    };
    (boolarr, $T:ident, $S:ty, $N:expr, $lay:ident) => {
        impl GT for glam::$T {
            type S = bool;
            const NAME: &'static str = stringify!($T);
            const N: usize = $N;
            const LAY: Lay = Lay::$lay;
            const RAW: bool = false;
            fn from_elems(e: &[bool]) -> Self {
                let a: [bool; $N] = core::array::from_fn(|i| e[i]);
                glam::$T::from_array(a)
            }
            fn elems(&self) -> Vec<bool> {
                let a: [bool; $N] = (*self).into();
                a.to_vec()
            }
        }
    };
}

// name, scalar, N, movers, layout rule, bytemuck (pod / abp = AnyBitPattern only / nobm), rkyv, mint forms, serde (ser / ser_simd = not under scalar-math)
macro_rules! c19_types {
    ($cb:ident) => {
        $cb!(Vec2, f32, 2, arr, Packed, pod, rk, v2, ser);
        $cb!(Vec3, f32, 3, arr, Packed, pod, rk, v3, ser);
        $cb!(Vec3A, f32, 3, arr, Cols16, abp, rk, v3, ser);
        $cb!(Vec4, f32, 4, arr, Packed, pod, rk, v4, ser);
        $cb!(Quat, f32, 4, arr, Packed, pod, rk, q, ser);
        $cb!(Mat2, f32, 4, cols, Packed, pod, rk, m2, ser);
        $cb!(Mat3, f32, 9, cols, Packed, pod, rk, m3, ser);
        $cb!(Mat3A, f32, 9, cols, Cols16, abp, rk, m3, ser);
        $cb!(Mat4, f32, 16, cols, Packed, pod, rk, m4, ser);
        $cb!(Affine2, f32, 6, cols, Packed, abp, rk, nomint, ser);
        $cb!(Affine3A, f32, 12, cols, Cols16, abp, rk, nomint, ser);
        $cb!(DVec2, f64, 2, arr, Packed, pod, rk, v2, ser);
        $cb!(DVec3, f64, 3, arr, Packed, pod, rk, v3, ser);
        $cb!(DVec4, f64, 4, arr, Packed, pod, rk, v4, ser);
        $cb!(DQuat, f64, 4, arr, Packed, pod, rk, q, ser);
        $cb!(DMat2, f64, 4, cols, Packed, pod, rk, m2, ser);
        $cb!(DMat3, f64, 9, cols, Packed, pod, rk, m3, ser);
        $cb!(DMat4, f64, 16, cols, Packed, pod, rk, m4, ser);
        $cb!(DAffine2, f64, 6, cols, Packed, pod, rk, nomint, ser);
        $cb!(DAffine3, f64, 12, cols, Packed, pod, rk, nomint, ser);
        $cb!(I8Vec2, i8, 2, arr, Packed, pod, rk, v2, ser);
        $cb!(I8Vec3, i8, 3, arr, Packed, pod, rk, v3, ser);
        $cb!(I8Vec4, i8, 4, arr, Packed, pod, rk, v4, ser);
        $cb!(U8Vec2, u8, 2, arr, Packed, pod, rk, v2, ser);
        $cb!(U8Vec3, u8, 3, arr, Packed, pod, rk, v3, ser);
        $cb!(U8Vec4, u8, 4, arr, Packed, pod, rk, v4, ser);
        $cb!(I16Vec2, i16, 2, arr, Packed, pod, rk, v2, ser);
        $cb!(I16Vec3, i16, 3, arr, Packed, pod, rk, v3, ser);
        $cb!(I16Vec4, i16, 4, arr, Packed, pod, rk, v4, ser);
        $cb!(U16Vec2, u16, 2, arr, Packed, pod, rk, v2, ser);
        $cb!(U16Vec3, u16, 3, arr, Packed, pod, rk, v3, ser);
        $cb!(U16Vec4, u16, 4, arr, Packed, pod, rk, v4, ser);
        $cb!(IVec2, i32, 2, arr, Packed, pod, rk, v2, ser);
        $cb!(IVec3, i32, 3, arr, Packed, pod, rk, v3, ser);
        $cb!(IVec4, i32, 4, arr, Packed, pod, rk, v4, ser);
        $cb!(UVec2, u32, 2, arr, Packed, pod, rk, v2, ser);
        $cb!(UVec3, u32, 3, arr, Packed, pod, rk, v3, ser);
        $cb!(UVec4, u32, 4, arr, Packed, pod, rk, v4, ser);
        $cb!(I64Vec2, i64, 2, arr, Packed, pod, rk, v2, ser);
        $cb!(I64Vec3, i64, 3, arr, Packed, pod, rk, v3, ser);
        $cb!(I64Vec4, i64, 4, arr, Packed, pod, rk, v4, ser);
        $cb!(U64Vec2, u64, 2, arr, Packed, pod, rk, v2, ser);
        $cb!(U64Vec3, u64, 3, arr, Packed, pod, rk, v3, ser);
        $cb!(U64Vec4, u64, 4, arr, Packed, pod, rk, v4, ser);
        $cb!(USizeVec2, usize, 2, arr, Packed, nobm, nork, v2, ser);
        $cb!(USizeVec3, usize, 3, arr, Packed, nobm, nork, v3, ser);
        $cb!(USizeVec4, usize, 4, arr, Packed, nobm, nork, v4, ser);
        $cb!(BVec2, bool, 2, boolarr, Packed, nobm, nork, nomint, ser);
        $cb!(BVec3, bool, 3, boolarr, Packed, nobm, nork, nomint, ser);
        $cb!(BVec4, bool, 4, boolarr, Packed, nobm, nork, nomint, ser);
        $cb!(BVec3A, bool, 3, boolarr3a, Packed, nobm, nork, nomint, ser_simd);
        $cb!(BVec4A, bool, 4, boolarr, Packed, nobm, nork, nomint, ser_simd);
    };
}

macro_rules! with_serde {
    (ser, $($body:tt)*) => { $($body)* };
    (ser_simd, $($body:tt)*) => { simd_only! { $($body)* } };
}

// ---------------------------------------------------------------------------------------------
// rkyv and mint go through small per-type adapters (their bounds are awkward to state generically)

pub trait Rk: GT {
    fn rk_to_bytes(&self) -> Result<Vec<u8>, String>;
    fn rk_access(img: &[u8]) -> Result<Self, String>;
    fn rk_access_unchecked(img: &[u8]) -> Self;
    fn rk_deserialize(img: &[u8]) -> Result<Self, String>;
    fn rk_from_bytes(img: &[u8]) -> Result<Self, String>;
}
fn aligned(img: &[u8]) -> rkyv::util::AlignedVec<16> {
    let mut a = rkyv::util::AlignedVec::<16>::new();
    a.extend_from_slice(img);
    a
}
macro_rules! impl_rk {
    (nork, $T:ident) => {};
    (rk, $T:ident) => {
        impl Rk for glam::$T {
            fn rk_to_bytes(&self) -> Result<Vec<u8>, String> {
                rkyv::to_bytes::<rkyv::rancor::Error>(self).map(|b| b.to_vec()).map_err(|e| e.to_string())
            }
            fn rk_access(img: &[u8]) -> Result<Self, String> {
                let a = aligned(img);
                rkyv::access::<rkyv::Archived<glam::$T>, rkyv::rancor::Error>(&a).map(|r| *r).map_err(|e| e.to_string())
            }
            fn rk_access_unchecked(img: &[u8]) -> Self {
                let a = aligned(img);
                // SAFETY: the buffer is 16-aligned, exactly size_of::<T>() long and every bit pattern is a value of these numeric types
                unsafe { *rkyv::access_unchecked::<rkyv::Archived<glam::$T>>(&a) }
            }
            fn rk_deserialize(img: &[u8]) -> Result<Self, String> {
                let a = aligned(img);
                let r = rkyv::access::<rkyv::Archived<glam::$T>, rkyv::rancor::Error>(&a).map_err(|e| e.to_string())?;
                rkyv::deserialize::<glam::$T, rkyv::rancor::Error>(r).map_err(|e| e.to_string())
            }
            fn rk_from_bytes(img: &[u8]) -> Result<Self, String> {
                let a = aligned(img);
                rkyv::from_bytes::<glam::$T, rkyv::rancor::Error>(&a).map_err(|e| e.to_string())
            }
        }
    };
}

pub struct MintObs {
    pub form: &'static str,
    /// the mint value's entries, flattened so that index c*R + r holds entry (r, c)  (vectors: x, y, z, w)
    pub to: Vec<u64>,
    /// glam -> mint -> glam
    pub back: Vec<u64>,
    /// glam value converted from a mint value that the harness built from the element words
    pub built: Vec<u64>,
}
pub trait Mi: GT {
    fn mint_forms(&self, e: &[Self::S]) -> Vec<MintObs>;
}
fn wv<T: GT>(v: &T) -> Vec<u64> {
    v.elems().iter().map(|x| x.tb()).collect()
}
macro_rules! vec_form {
    ($o:ident, $v:ident, $e:ident, $T:ident, $S:ty, $F:ident, $($f:ident $i:expr),+) => {{
        let m: mint::$F<$S> = $v.into();
        let back: glam::$T = m.into();
        let b = mint::$F::<$S> { $($f: $e[$i]),+ };
        let built: glam::$T = b.into();
        $o.push(MintObs { form: stringify!($F), to: vec![$(m.$f.tb()),+], back: wv(&back), built: wv(&built) });
    }};
}
macro_rules! mat_forms {
    ($o:ident, $v:ident, $e:ident, $T:ident, $S:ty, $n:expr, $Col:ident, $Row:ident) => {{
        {
            let m: mint::$Col<$S> = $v.into();
            let back: glam::$T = m.into();
            let a: [[$S; $n]; $n] = m.into();
            let mut to = vec![0u64; $n * $n];
            let mut b = [[$e[0]; $n]; $n];
            for c in 0..$n {
                for r in 0..$n {
                    to[c * $n + r] = a[c][r].tb();
                    b[c][r] = $e[c * $n + r];
                }
            }
            let bm: mint::$Col<$S> = b.into();
            let built: glam::$T = bm.into();
            $o.push(MintObs { form: stringify!($Col), to, back: wv(&back), built: wv(&built) });
        }
        {
            let m: mint::$Row<$S> = $v.into();
            let back: glam::$T = m.into();
            let a: [[$S; $n]; $n] = m.into();
            let mut to = vec![0u64; $n * $n];
            let mut b = [[$e[0]; $n]; $n];
            for c in 0..$n {
                for r in 0..$n {
                    to[c * $n + r] = a[r][c].tb();
                    b[r][c] = $e[c * $n + r];
                }
            }
            let bm: mint::$Row<$S> = b.into();
            let built: glam::$T = bm.into();
            $o.push(MintObs { form: stringify!($Row), to, back: wv(&back), built: wv(&built) });
        }
    }};
}
macro_rules! impl_mi {
    (nomint, $T:ident, $S:ty) => {};
    (v2, $T:ident, $S:ty) => {
        impl Mi for glam::$T {
            fn mint_forms(&self, e: &[$S]) -> Vec<MintObs> {
                let v = *self;
                let mut o = vec![];
                let _: mint::Vector2<$S> = <glam::$T as mint::IntoMint>::MintType::from(v);
                vec_form!(o, v, e, $T, $S, Point2, x 0, y 1);
                vec_form!(o, v, e, $T, $S, Vector2, x 0, y 1);
                o
            }
        }
    };
    (v3, $T:ident, $S:ty) => {
        impl Mi for glam::$T {
            fn mint_forms(&self, e: &[$S]) -> Vec<MintObs> {
                let v = *self;
                let mut o = vec![];
                let _: mint::Vector3<$S> = <glam::$T as mint::IntoMint>::MintType::from(v);
                vec_form!(o, v, e, $T, $S, Point3, x 0, y 1, z 2);
                vec_form!(o, v, e, $T, $S, Vector3, x 0, y 1, z 2);
                o
            }
        }
    };
    (v4, $T:ident, $S:ty) => {
        impl Mi for glam::$T {
            fn mint_forms(&self, e: &[$S]) -> Vec<MintObs> {
                let v = *self;
                let mut o = vec![];
                let _: mint::Vector4<$S> = <glam::$T as mint::IntoMint>::MintType::from(v);
                vec_form!(o, v, e, $T, $S, Vector4, x 0, y 1, z 2, w 3);
                o
            }
        }
    };
    (q, $T:ident, $S:ty) => {
        impl Mi for glam::$T {
            fn mint_forms(&self, e: &[$S]) -> Vec<MintObs> {
                let v = *self;
                let _: mint::Quaternion<$S> = <glam::$T as mint::IntoMint>::MintType::from(v);
                let m: mint::Quaternion<$S> = v.into();
                let back: glam::$T = m.into();
                let b = mint::Quaternion::<$S> { v: mint::Vector3 { x: e[0], y: e[1], z: e[2] }, s: e[3] };
                let built: glam::$T = b.into();
                vec![MintObs { form: "Quaternion", to: vec![m.v.x.tb(), m.v.y.tb(), m.v.z.tb(), m.s.tb()], back: wv(&back), built: wv(&built) }]
            }
        }
    };
    (m2, $T:ident, $S:ty) => {
        impl Mi for glam::$T {
            fn mint_forms(&self, e: &[$S]) -> Vec<MintObs> {
                let v = *self;
                let mut o = vec![];
                let _: mint::ColumnMatrix2<$S> = <glam::$T as mint::IntoMint>::MintType::from(v);
                mat_forms!(o, v, e, $T, $S, 2, ColumnMatrix2, RowMatrix2);
                o
            }
        }
    };
    (m3, $T:ident, $S:ty) => {
        impl Mi for glam::$T {
            fn mint_forms(&self, e: &[$S]) -> Vec<MintObs> {
                let v = *self;
                let mut o = vec![];
                let _: mint::ColumnMatrix3<$S> = <glam::$T as mint::IntoMint>::MintType::from(v);
                mat_forms!(o, v, e, $T, $S, 3, ColumnMatrix3, RowMatrix3);
                o
            }
        }
    };
    (m4, $T:ident, $S:ty) => {
        impl Mi for glam::$T {
            fn mint_forms(&self, e: &[$S]) -> Vec<MintObs> {
                let v = *self;
                let mut o = vec![];
                let _: mint::ColumnMatrix4<$S> = <glam::$T as mint::IntoMint>::MintType::from(v);
                mat_forms!(o, v, e, $T, $S, 4, ColumnMatrix4, RowMatrix4);
                o
            }
        }
    };
}

macro_rules! impl_all {
    ($T:ident, $S:ty, $N:expr, $gt:ident, $lay:ident, $bm:ident, $rk:ident, $mi:ident, $se:ident) => {
        impl_gt!($gt, $T, $S, $N, $lay);
        impl_rk!($rk, $T);
        impl_mi!($mi, $T, $S);
    };
}
c19_types!(impl_all);

// ---------------------------------------------------------------------------------------------
// helpers

fn kind<T: GT>() -> Kind {
    Kind { bits: <T::S as Sc>::BITS, float: <T::S as Sc>::FLOAT, signed: <T::S as Sc>::SIGNED, boolean: <T::S as Sc>::BOOL }
}
fn fail<T: GT>(op: &str, msg: String) -> Fail {
    Fail::new(format!("C19/{}/{}/{}", VARIANT, T::NAME, op), op.to_string(), msg)
}
fn harness(msg: String) -> Fail {
    Fail::new("harness-panic", "harness", msg)
}
fn fmtw<T: GT>(w: &[u64]) -> String {
    let v: Vec<String> = w.iter().map(|&x| if <T::S as Sc>::BOOL { format!("{:?}", <T::S as Sc>::fb(x)) } else { format!("{:?}(0x{:x})", <T::S as Sc>::fb(x), x) }).collect();
    format!("[{}]", v.join(", "))
}
/// element values and their canonical words
fn canon<T: GT>(w: &[u64]) -> Result<(Vec<T::S>, Vec<u64>), Fail> {
    if w.len() < T::N {
        return Err(harness(format!("{}: {} words, {} elements needed", T::NAME, w.len(), T::N)));
    }
    let e: Vec<T::S> = w[..T::N].iter().map(|&x| <T::S as Sc>::fb(x)).collect();
    let c: Vec<u64> = e.iter().map(|x| x.tb()).collect();
    Ok((e, c))
}
fn tally_case<T: GT>(carrier: &str, w: &[u64], c: &[u64], t: &mut Tally) {
    t.eval(1);
    let k = kind::<T>();
    if gen::classify(k, c, t) {
        if k.boolean {
            t.nontrivial_enum(1);
        } else {
            t.nontrivial(mix(hash_str(T::NAME), mix(hash_str(VARIANT), mix(hash_str(carrier), fnv(w)))));
        }
        if t.want_sample() {
            t.sample(json!({"type": T::NAME, "variant": VARIANT, "carrier": carrier, "elements": fmtw::<T>(c), "words": hexwords(w)}));
        }
    }
}
/// the array movers must reproduce the input bit for bit (trusted; a failure here is reported as its own signature)
fn mover<T: GT>(v: &T, c: &[u64]) -> Result<(), Fail> {
    let b = wv(v);
    if b != c {
        return Err(fail::<T>("array-mover", format!("{}: built from {} but to_array/to_cols_array reads {}", T::NAME, fmtw::<T>(c), fmtw::<T>(&b))));
    }
    Ok(())
}
fn packed<T: GT>(e: &[T::S]) -> Vec<u8> {
    let mut o = Vec::with_capacity(e.len() * <T::S as Sc>::SIZE);
    for x in e {
        x.ne(&mut o);
    }
    o
}
/// number of words that carry padding content for this type in this build
fn pads_of<T: GT>() -> usize {
    if T::RAW {
        gen::pad_words(core::mem::size_of::<T>().max(T::N * <T::S as Sc>::SIZE), T::N, <T::S as Sc>::SIZE)
    } else {
        T::HIDDEN
    }
}
/// byte image of the case: elements at their offsets, padding bytes from the pad words
fn raw_image<T: GT>(w: &[u64], e: &[T::S]) -> Result<Vec<u8>, Fail> {
    let (size, ssz) = (core::mem::size_of::<T>(), <T::S as Sc>::SIZE);
    let exp = gen::expected_size(T::LAY, T::N, ssz, core::mem::align_of::<T>());
    if size != exp {
        return Err(fail::<T>("layout", format!("size_of::<{}>() = {size}, the layout rule {:?} for {} elements of {ssz} bytes at alignment {} gives {exp}", T::NAME, T::LAY, T::N, core::mem::align_of::<T>())));
    }
    let pads: &[u64] = if w.len() > T::N { &w[T::N..] } else { &[] };
    Ok(gen::image(T::LAY, size, ssz, &packed::<T>(e), pads))
}
/// value with exactly these bytes (numeric types only: every bit pattern is a value)
fn raw_value<T: GT>(img: &[u8]) -> T {
    assert!(T::RAW && img.len() == core::mem::size_of::<T>());
    // SAFETY: T is a plain numeric aggregate (f32/f64/integers or __m128), img has size_of::<T>() bytes
    unsafe { core::ptr::read_unaligned(img.as_ptr() as *const T) }
}
/// the case's value: through the array mover, or (numeric types with padding, when pad words are present) from the raw
/// image so that hidden lanes / padding bytes carry arbitrary content
fn make<T: GT>(w: &[u64], e: &[T::S], t: &mut Tally) -> Result<T, Fail> {
    if T::RAW && w.len() > T::N && core::mem::size_of::<T>() > T::N * <T::S as Sc>::SIZE {
        t.class("value:from-raw-image-with-padding-content");
        Ok(raw_value::<T>(&raw_image::<T>(w, e)?))
    } else if !T::RAW && T::HIDDEN > 0 && w.len() > T::N {
        t.class("value:mask-built-by-a-comparison(hidden lane set or clear)");
        Ok(T::from_elems_hidden(e, w[T::N]))
    } else {
        Ok(T::from_elems(e))
    }
}

// ---------------------------------------------------------------------------------------------
// serde through the exact token carrier

pub fn check_serde<T>(w: &[u64], t: &mut Tally) -> Result<(), Fail>
where
    T: GT + serde::Serialize + serde::de::DeserializeOwned,
{
    let n = T::N;
    let (e, c) = canon::<T>(w)?;
    tally_case::<T>("serde", w, &c, t);
    let v = make::<T>(w, &e, t)?;
    mover::<T>(&v, &c)?;
    // value -> tokens
    let mut exp: Vec<Tok> = Vec::with_capacity(n + 2);
    exp.push(Tok::TupleStruct(T::NAME, n));
    exp.extend(e.iter().map(|x| x.tok()));
    exp.push(Tok::End);
    let (got, r) = tok::to_tokens(&v);
    if let Err(er) = r {
        return Err(fail::<T>("serialize", format!("{}{} failed to serialise: {er}; tokens so far {}", T::NAME, fmtw::<T>(&c), tok::show(&got))));
    }
    if got != exp {
        let i = (0..got.len().min(exp.len())).find(|&i| got[i] != exp[i]).unwrap_or(got.len().min(exp.len()));
        return Err(fail::<T>(
            "serialize",
            format!("{}{} serialises to {}, expected {} (first difference at token {i})", T::NAME, fmtw::<T>(&c), tok::show(&got), tok::show(&exp)),
        ));
    }
    // tokens -> value
    let (r, hints) = tok::from_tokens::<T>(&exp);
    match r {
        Err(er) => return Err(fail::<T>("deserialize", format!("{} rejects its own serialised form {}: {er}", T::NAME, tok::show(&exp)))),
        Ok(v2) => {
            let b = wv(&v2);
            if b != c {
                return Err(fail::<T>("deserialize", format!("{} deserialised from {} has elements {}, expected {}", T::NAME, tok::show(&exp), fmtw::<T>(&b), fmtw::<T>(&c))));
            }
        }
    }
    if hints.len() != 1 || hints[0].1 != n {
        return Err(fail::<T>("deserialize-len-hint", format!("{}: deserialize_tuple_struct hints {:?}, expected one call with len {n} (a length-prefixed carrier reads exactly that many elements)", T::NAME, hints)));
    }
    if hints[0].0 != T::NAME {
        // a carrier that writes and checks struct names (RON with struct names, any schema-checking format) cannot read
        // back what Serialize wrote: the value does not round-trip through that exact carrier
        return Err(fail::<T>(
            "deserialize-name",
            format!("{} serialises as tuple struct {:?} but asks the deserializer for tuple struct {:?}: a name-checking carrier rejects its own output", T::NAME, T::NAME, hints[0].0),
        ));
    }
    // every shorter sequence is rejected
    for l in 0..n {
        let mut s: Vec<Tok> = Vec::with_capacity(l + 2);
        s.push(Tok::TupleStruct(T::NAME, l));
        s.extend_from_slice(&exp[1..1 + l]);
        s.push(Tok::End);
        match tok::from_tokens::<T>(&s).0 {
            Ok(v2) => {
                return Err(fail::<T>("accepts-short-sequence", format!("{} accepts a sequence of {l} elements {} (needs {n}) and yields {}", T::NAME, tok::show(&s), fmtw::<T>(&wv(&v2)))));
            }
            Err(er) => {
                if er.0.contains(&format!("invalid length {l}")) {
                    t.class("rejected-short:invalid_length(len)");
                } else {
                    t.class("rejected-short:other-message");
                }
            }
        }
    }
    Ok(())
}

// ---------------------------------------------------------------------------------------------
// serde through serde_json text

pub fn check_json<T>(w: &[u64], t: &mut Tally) -> Result<(), Fail>
where
    T: GT + serde::Serialize + serde::de::DeserializeOwned,
{
    let n = T::N;
    let (e, c) = canon::<T>(w)?;
    tally_case::<T>("json", w, &c, t);
    let v = make::<T>(w, &e, t)?;
    mover::<T>(&v, &c)?;
    let texts: Vec<String> = e.iter().map(|x| x.json()).collect();
    let exp = format!("[{}]", texts.join(","));
    match serde_json::to_string(&v) {
        Err(er) => return Err(fail::<T>("json-serialize", format!("{}{}: serde_json::to_string failed: {er}", T::NAME, fmtw::<T>(&c)))),
        Ok(s) => {
            if s != exp {
                return Err(fail::<T>("json-serialize", format!("{}{}: serde_json::to_string gives {s}, expected {exp}", T::NAME, fmtw::<T>(&c))));
            }
        }
    }
    if !e.iter().all(|x| x.finite()) {
        t.class("json:non-finite element (to_string only; the text carries null)");
        return Ok(());
    }
    // the carrier's own parse of each scalar is the reference for the parse of the sequence
    let mut pe: Vec<u64> = Vec::with_capacity(n);
    for s in &texts {
        match <T::S as Sc>::from_json(s) {
            Some(x) => pe.push(x.tb()),
            None => return Err(harness(format!("serde_json cannot parse its own scalar text {s}"))),
        }
    }
    if pe != c {
        t.class("json:carrier scalar parse not bit-exact (reference follows the carrier)");
    }
    match serde_json::from_str::<T>(&exp) {
        Err(er) => return Err(fail::<T>("json-deserialize", format!("{}: serde_json::from_str({exp}) failed: {er}", T::NAME))),
        Ok(v2) => {
            let b = wv(&v2);
            if b != pe {
                return Err(fail::<T>("json-deserialize", format!("{}: serde_json::from_str({exp}) has elements {}, expected {}", T::NAME, fmtw::<T>(&b), fmtw::<T>(&pe))));
            }
        }
    }
    // every other length 0..N+2 is rejected
    for l in 0..=n + 2 {
        if l == n {
            continue;
        }
        let parts: Vec<&str> = (0..l).map(|i| texts[i % n].as_str()).collect();
        let s = format!("[{}]", parts.join(","));
        if let Ok(v2) = serde_json::from_str::<T>(&s) {
            return Err(fail::<T>(
                if l < n { "json-accepts-short-sequence" } else { "json-accepts-long-sequence" },
                format!("{}: serde_json::from_str({s}) with {l} elements (needs {n}) is accepted and yields {}", T::NAME, fmtw::<T>(&wv(&v2))),
            ));
        }
        t.class(if l < n { "json-rejected:short" } else { "json-rejected:long" });
    }
    // ... and so are the lengths of the related larger layouts, filled the way that layout would be: every column of 2 or 3
    // elements padded with a 0 (the last one with a 1), optionally followed by a whole extra column 0, .., 0, 1 - e.g. the
    // 16 numbers of the Mat4 that holds an Affine3A, the 9 of the Mat3 that holds an Affine2, a Vec3 with w appended
    {
        let (zero, one) = if texts[0] == "true" || texts[0] == "false" {
            ("false", "true")
        } else if texts[0].contains('.') || texts[0].contains('e') || texts[0].contains('E') {
            ("0.0", "1.0")
        } else {
            ("0", "1")
        };
        for r in [2usize, 3, 4] {
            if n % r != 0 {
                continue;
            }
            let cols = n / r;
            for extra_col in [false, true] {
                let mut parts: Vec<&str> = vec![];
                for c in 0..cols {
                    for i in 0..r {
                        parts.push(texts[c * r + i].as_str());
                    }
                    parts.push(if c + 1 == cols && !extra_col { one } else { zero });
                }
                if extra_col {
                    for _ in 0..r {
                        parts.push(zero);
                    }
                    parts.push(one);
                }
                let s = format!("[{}]", parts.join(","));
                if let Ok(v2) = serde_json::from_str::<T>(&s) {
                    return Err(fail::<T>("json-accepts-long-sequence", format!("{}: serde_json::from_str({s}) with {} elements (needs {n}; its columns padded like the next larger layout) is accepted and yields {}", T::NAME, parts.len(), fmtw::<T>(&wv(&v2)))));
                }
                t.class("json-rejected:padded-column layout");
            }
        }
    }
    // not a flat sequence
    for s in ["{}".to_string(), format!("[{exp}]")] {
        if let Ok(v2) = serde_json::from_str::<T>(&s) {
            return Err(fail::<T>("json-accepts-non-flat", format!("{}: serde_json::from_str({s}) is accepted and yields {}", T::NAME, fmtw::<T>(&wv(&v2)))));
        }
    }
    Ok(())
}

// ---------------------------------------------------------------------------------------------
// bytemuck

#[repr(C, align(16))]
struct Al([u8; 256]);

/// bytes -> value for every type with AnyBitPattern; returns (elements, canonical words, image)
fn bm_any<T>(w: &[u64], t: &mut Tally) -> Result<(Vec<T::S>, Vec<u64>, Vec<u8>), Fail>
where
    T: GT + bytemuck::AnyBitPattern,
{
    let (e, c) = canon::<T>(w)?;
    tally_case::<T>("bytemuck", w, &c, t);
    let img = raw_image::<T>(w, &e)?;
    let size = img.len();
    if size > T::N * <T::S as Sc>::SIZE {
        t.class("image:has-padding-bytes");
    }
    let v: T = bytemuck::pod_read_unaligned(&img);
    let b = wv(&v);
    if b != c {
        return Err(fail::<T>("bytemuck-read", format!("{}: pod_read_unaligned of the image of {} (bytes {:02x?}) has elements {}", T::NAME, fmtw::<T>(&c), img, fmtw::<T>(&b))));
    }
    let mut al = Al([0u8; 256]);
    al.0[..size].copy_from_slice(&img);
    match bytemuck::try_from_bytes::<T>(&al.0[..size]) {
        Err(er) => return Err(fail::<T>("bytemuck-from-bytes", format!("{}: try_from_bytes on an aligned {size}-byte image failed: {er}", T::NAME))),
        Ok(r) => {
            let b = wv(r);
            if b != c {
                return Err(fail::<T>("bytemuck-from-bytes", format!("{}: from_bytes of the image of {} has elements {}", T::NAME, fmtw::<T>(&c), fmtw::<T>(&b))));
            }
        }
    }
    // all-zero bytes are the zero value
    let z = <T as bytemuck::Zeroable>::zeroed();
    let zb: T = bytemuck::pod_read_unaligned(&vec![0u8; size]);
    if wv(&z).iter().any(|&x| x != 0) || wv(&zb).iter().any(|&x| x != 0) {
        return Err(fail::<T>("bytemuck-zeroed", format!("{}: Zeroable::zeroed() has elements {}, the all-zero image reads {}", T::NAME, fmtw::<T>(&wv(&z)), fmtw::<T>(&wv(&zb)))));
    }
    Ok((e, c, img))
}

pub fn check_bm_abp<T>(w: &[u64], t: &mut Tally) -> Result<(), Fail>
where
    T: GT + bytemuck::AnyBitPattern,
{
    bm_any::<T>(w, t).map(|_| ())
}

pub fn check_bm_pod<T>(w: &[u64], t: &mut Tally) -> Result<(), Fail>
where
    T: GT + bytemuck::Pod,
    T::S: bytemuck::Pod,
{
    let (e, c, img) = bm_any::<T>(w, t)?;
    let pk = packed::<T>(&e);
    if core::mem::size_of::<T>() != pk.len() {
        return Err(fail::<T>("pod-on-padded-type", format!("{} is Pod but size_of = {} and its {} elements take {} bytes", T::NAME, core::mem::size_of::<T>(), T::N, pk.len())));
    }
    // bytes -> value -> bytes
    let v: T = bytemuck::pod_read_unaligned(&img);
    let b = bytemuck::bytes_of(&v);
    if b != &img[..] {
        return Err(fail::<T>("bytemuck-bytes-roundtrip", format!("{}: bytes {:02x?} -> value -> bytes {:02x?}", T::NAME, img, b)));
    }
    // value -> bytes: the elements in order, native endian
    let v3 = T::from_elems(&e);
    let b = bytemuck::bytes_of(&v3);
    if b != &pk[..] {
        return Err(fail::<T>("bytemuck-bytes-of", format!("{}: bytes_of({}) = {:02x?}, expected the elements in order {:02x?}", T::NAME, fmtw::<T>(&c), b, pk)));
    }
    let s: &[T::S] = bytemuck::cast_slice(core::slice::from_ref(&v3));
    let sw: Vec<u64> = s.iter().map(|x| x.tb()).collect();
    if sw != c {
        return Err(fail::<T>("bytemuck-cast", format!("{}: cast_slice::<_, {}>(&[{}]) = {}", T::NAME, <T::S as Sc>::TNAME, fmtw::<T>(&c), fmtw::<T>(&sw))));
    }
    let z = <T as bytemuck::Zeroable>::zeroed();
    if bytemuck::bytes_of(&z).iter().any(|&x| x != 0) {
        return Err(fail::<T>("bytemuck-zeroed", format!("{}: bytes_of(zeroed()) = {:02x?}", T::NAME, bytemuck::bytes_of(&z))));
    }
    Ok(())
}

// ---------------------------------------------------------------------------------------------
// rkyv

pub fn check_rk<T: Rk>(w: &[u64], t: &mut Tally) -> Result<(), Fail> {
    let (e, c) = canon::<T>(w)?;
    tally_case::<T>("rkyv", w, &c, t);
    let img = raw_image::<T>(w, &e)?;
    let (size, ssz) = (img.len(), <T::S as Sc>::SIZE);
    let v: T = raw_value::<T>(&img);
    mover::<T>(&v, &c)?;
    let out = v.rk_to_bytes().map_err(|er| fail::<T>("rkyv-serialize", format!("{}{}: rkyv::to_bytes failed: {er}", T::NAME, fmtw::<T>(&c))))?;
    if out.len() != size {
        return Err(fail::<T>("rkyv-image", format!("{}: rkyv::to_bytes gives {} bytes, the archived form is the value itself ({size} bytes)", T::NAME, out.len())));
    }
    let pk = packed::<T>(&e);
    for (i, &o) in gen::offsets(T::LAY, T::N, ssz).iter().enumerate() {
        if out[o..o + ssz] != pk[i * ssz..(i + 1) * ssz] {
            return Err(fail::<T>("rkyv-image", format!("{}{}: archive bytes {:02x?}: element {i} expected at offset {o} as {:02x?}", T::NAME, fmtw::<T>(&c), out, &pk[i * ssz..(i + 1) * ssz])));
        }
    }
    let chk = |what: &str, r: Result<T, String>| -> Result<(), Fail> {
        match r {
            Err(er) => Err(fail::<T>(what, format!("{}{}: {what} failed: {er}", T::NAME, fmtw::<T>(&c)))),
            Ok(v2) => {
                let b = wv(&v2);
                if b != c {
                    Err(fail::<T>(what, format!("{}{}: {what} returns {}", T::NAME, fmtw::<T>(&c), fmtw::<T>(&b))))
                } else {
                    Ok(())
                }
            }
        }
    };
    chk("rkyv-access", T::rk_access(&out))?;
    chk("rkyv-access-unchecked", Ok(T::rk_access_unchecked(&out)))?;
    chk("rkyv-deserialize", T::rk_deserialize(&out))?;
    chk("rkyv-from-bytes", T::rk_from_bytes(&out))?;
    // bytes -> value for the harness-built image (arbitrary padding content)
    chk("rkyv-access-image", T::rk_access(&img))?;
    chk("rkyv-deserialize-image", T::rk_deserialize(&img))?;
    Ok(())
}

// ---------------------------------------------------------------------------------------------
// mint

pub fn check_mi<T: Mi>(w: &[u64], t: &mut Tally) -> Result<(), Fail> {
    let (e, c) = canon::<T>(w)?;
    tally_case::<T>("mint", w, &c, t);
    let v = make::<T>(w, &e, t)?;
    mover::<T>(&v, &c)?;
    for o in v.mint_forms(&e) {
        t.class_n("mint-forms", 1);
        if o.to != c {
            return Err(fail::<T>(&format!("mint-to-{}", o.form), format!("{}{} -> mint::{}: entries (r,c) flattened column-major are {}", T::NAME, fmtw::<T>(&c), o.form, fmtw::<T>(&o.to))));
        }
        if o.back != c {
            return Err(fail::<T>(&format!("mint-roundtrip-{}", o.form), format!("{}{} -> mint::{} -> {} gives {}", T::NAME, fmtw::<T>(&c), o.form, T::NAME, fmtw::<T>(&o.back))));
        }
        if o.built != c {
            return Err(fail::<T>(&format!("mint-from-{}", o.form), format!("mint::{} with entries {} -> {} gives {}", o.form, fmtw::<T>(&c), T::NAME, fmtw::<T>(&o.built))));
        }
    }
    Ok(())
}

// ---------------------------------------------------------------------------------------------
// EulerRot (unit variants): words = [index]

macro_rules! euler_table {
    ($($n:ident),+) => { pub const EULER: &[(glam::EulerRot, &str)] = &[$((glam::EulerRot::$n, stringify!($n))),+]; };
}
euler_table!(ZYX, ZXY, YXZ, YZX, XYZ, XZY, ZYZ, ZXZ, YXY, YZY, XYX, XZX, ZYXEx, ZXYEx, YXZEx, YZXEx, XYZEx, XZYEx, ZYZEx, ZXZEx, YXYEx, YZYEx, XYXEx, XZXEx);

pub fn check_euler(w: &[u64], t: &mut Tally) -> Result<(), Fail> {
    use serde::de::IntoDeserializer;
    use serde::Deserialize;
    let f = |op: &str, msg: String| Fail::new(format!("C19/{}/EulerRot/{}", VARIANT, op), op.to_string(), msg);
    let i = *w.first().ok_or_else(|| harness("EulerRot: one word needed".into()))? as usize;
    t.eval(1);
    t.nontrivial_enum(1);
    if i >= EULER.len() {
        t.class("euler:unknown-variant-rejected");
        let name = format!("Q{i}");
        let d: serde::de::value::StrDeserializer<tok::TErr> = name.as_str().into_deserializer();
        if let Ok(e) = glam::EulerRot::deserialize(d) {
            return Err(f("accepts-unknown-variant", format!("EulerRot accepts the variant name {name:?} as {e:?}")));
        }
        let d: serde::de::value::U32Deserializer<tok::TErr> = (i as u32).into_deserializer();
        if let Ok(e) = glam::EulerRot::deserialize(d) {
            return Err(f("accepts-unknown-variant", format!("EulerRot accepts the variant index {i} as {e:?}")));
        }
        if let Ok(e) = serde_json::from_str::<glam::EulerRot>(&format!("\"{name}\"")) {
            return Err(f("accepts-unknown-variant", format!("EulerRot accepts the JSON text \"{name}\" as {e:?}")));
        }
        return Ok(());
    }
    t.class("euler:variant");
    let (e, name) = EULER[i];
    if t.want_sample() {
        t.sample(json!({"type": "EulerRot", "variant": VARIANT, "value": name, "index": i}));
    }
    let (got, r) = tok::to_tokens(&e);
    let exp = vec![Tok::UnitVariant("EulerRot", i as u32, name)];
    if r.is_err() || got != exp {
        return Err(f("serialize", format!("EulerRot::{name} serialises to {} ({r:?}), expected {}", tok::show(&got), tok::show(&exp))));
    }
    let text = format!("\"{name}\"");
    match serde_json::to_string(&e) {
        Ok(s) if s == text => {}
        o => return Err(f("json-serialize", format!("EulerRot::{name}: serde_json::to_string gives {o:?}, expected {text}"))),
    }
    match serde_json::from_str::<glam::EulerRot>(&text) {
        Ok(x) if x == e => {}
        o => return Err(f("json-deserialize", format!("serde_json::from_str({text}) gives {o:?}, expected {name}"))),
    }
    let d: serde::de::value::StrDeserializer<tok::TErr> = name.into_deserializer();
    match glam::EulerRot::deserialize(d) {
        Ok(x) if x == e => {}
        o => return Err(f("deserialize", format!("EulerRot from the variant name {name:?} gives {o:?}"))),
    }
    let d: serde::de::value::U32Deserializer<tok::TErr> = (i as u32).into_deserializer();
    match glam::EulerRot::deserialize(d) {
        Ok(x) if x == e => {}
        o => return Err(f("deserialize", format!("EulerRot from the variant index {i} gives {o:?}, expected {name}"))),
    }
    Ok(())
}

// ---------------------------------------------------------------------------------------------
// compile-time probe table: which carrier traits each type has in this build, and the Pod size rule. words = [row]

pub struct ProbeRow {
    pub name: &'static str,
    pub n: usize,
    pub ssz: usize,
    pub size: usize,
    pub align: usize,
    pub pod: bool,
    pub abp: bool,
    pub zeroable: bool,
    pub no_uninit: bool,
    pub ser: bool,
    pub de: bool,
    pub archive: bool,
    pub mint: bool,
    /// the harness table exercises bytes_of on it
    pub harness_pod: bool,
    pub harness_bm: bool,
}
macro_rules! flag_is {
    (pod, pod) => { true };
    (abp, bm) => { true };
    (pod, bm) => { true };
    ($a:ident, $b:ident) => { false };
}
pub fn probe_rows() -> Vec<ProbeRow> {
    let mut v = vec![];
    macro_rules! row {
        ($T:ident, $S:ty, $N:expr, $gt:ident, $lay:ident, $bm:ident, $rk:ident, $mi:ident, $se:ident) => {
            v.push(ProbeRow {
                name: stringify!($T),
                n: $N,
                ssz: <$S as Sc>::SIZE,
                size: core::mem::size_of::<glam::$T>(),
                align: core::mem::align_of::<glam::$T>(),
                pod: <IsPod<glam::$T>>::YES,
                abp: <IsAbp<glam::$T>>::YES,
                zeroable: <IsZeroable<glam::$T>>::YES,
                no_uninit: <IsNoUninit<glam::$T>>::YES,
                ser: <IsSer<glam::$T>>::YES,
                de: <IsDe<glam::$T>>::YES,
                archive: <IsArchive<glam::$T>>::YES,
                mint: <IsMint<glam::$T>>::YES,
                harness_pod: flag_is!($bm, pod),
                harness_bm: flag_is!($bm, bm),
            });
        };
    }
    c19_types!(row);
    v
}
pub fn check_probe(w: &[u64], t: &mut Tally) -> Result<(), Fail> {
    let rows = probe_rows();
    let i = *w.first().ok_or_else(|| harness("probe: one word needed".into()))? as usize;
    let r = rows.get(i).ok_or_else(|| harness(format!("probe: row {i} of {}", rows.len())))?;
    t.eval(1);
    t.nontrivial_enum(1);
    let f = |op: &str, msg: String| Fail::new(format!("C19/{}/{}/{}", VARIANT, r.name, op), op.to_string(), msg);
    let padded = r.size != r.n * r.ssz;
    t.class(match (r.pod, r.abp, padded) {
        (true, _, false) => "Pod, no padding",
        (true, _, true) => "Pod, PADDED",
        (false, true, true) => "AnyBitPattern only, padded",
        (false, true, false) => "AnyBitPattern only, no padding in this build",
        (false, false, _) => "no bytemuck impl",
    });
    if r.pod && padded {
        return Err(f("pod-on-padded-type", format!("{} implements bytemuck::Pod but size_of = {} while its {} elements of {} bytes take {} (padding bytes would be exposed as initialised)", r.name, r.size, r.n, r.ssz, r.n * r.ssz)));
    }
    if r.no_uninit && padded {
        return Err(f("pod-on-padded-type", format!("{} implements bytemuck::NoUninit but size_of = {} while its elements take {}", r.name, r.size, r.n * r.ssz)));
    }
    if (r.pod || r.abp) && !r.zeroable {
        return Err(f("zeroable-missing", format!("{} has Pod/AnyBitPattern but not Zeroable", r.name)));
    }
    if r.ser != r.de {
        return Err(f("serde-half-implemented", format!("{}: Serialize {} but Deserialize {}", r.name, r.ser, r.de)));
    }
    if r.pod != r.harness_pod || (r.pod || r.abp) != r.harness_bm {
        t.class("note: bytemuck trait set differs from the harness table (type exercised per the table)");
    }
    if !r.ser {
        t.class("note: no serde impl in this build");
    }
    Ok(())
}

// ---------------------------------------------------------------------------------------------
// cross-build observation

fn obs<T>(w: &[u64]) -> Option<Obs>
where
    T: GT + serde::Serialize + serde::de::DeserializeOwned,
{
    let (e, c) = canon::<T>(w).ok()?;
    let v = T::from_elems(&e);
    let (tokens, r) = tok::to_tokens(&v);
    let mut exp: Vec<Tok> = vec![Tok::TupleStruct(T::NAME, T::N)];
    exp.extend(e.iter().map(|x| x.tok()));
    exp.push(Tok::End);
    let de_tok = tok::from_tokens::<T>(&exp).0.map(|x| wv(&x)).map_err(|er| er.0);
    let json = serde_json::to_string(&v).map_err(|er| er.to_string());
    let de_json = if e.iter().all(|x| x.finite()) {
        let texts: Vec<String> = e.iter().map(|x| x.json()).collect();
        Some(serde_json::from_str::<T>(&format!("[{}]", texts.join(","))).map(|x| wv(&x)).map_err(|er| er.to_string()))
    } else {
        None
    };
    let _ = c;
    Some(Obs { tokens, tok_err: r.err().map(|x| x.0), json, de_tok, de_json })
}

pub fn observe(name: &str, w: &[u64]) -> Option<Obs> {
    if name == "EulerRot" {
        let (e, _) = *EULER.get(*w.first()? as usize)?;
        let (tokens, r) = tok::to_tokens(&e);
        return Some(Obs { tokens, tok_err: r.err().map(|x| x.0), json: serde_json::to_string(&e).map_err(|er| er.to_string()), de_tok: Ok(vec![]), de_json: None });
    }
    macro_rules! arm {
        ($T:ident, $S:ty, $N:expr, $gt:ident, $lay:ident, $bm:ident, $rk:ident, $mi:ident, $se:ident) => {
            with_serde!($se, if name == stringify!($T) { return obs::<glam::$T>(w); });
        };
    }
    c19_types!(arm);
    None
}

pub fn infos() -> Vec<Info> {
    let mut v = vec![];
    macro_rules! inf {
        ($T:ident, $S:ty, $N:expr, $gt:ident, $lay:ident, $bm:ident, $rk:ident, $mi:ident, $se:ident) => {
            v.push(Info { name: stringify!($T), kind: kind::<glam::$T>(), n: $N });
        };
    }
    c19_types!(inf);
    v.push(Info { name: "EulerRot", kind: Kind { bits: 8, float: false, signed: false, boolean: false }, n: 1 });
    v
}

// ---------------------------------------------------------------------------------------------
// registration

/// fixed inputs (with two fixed paddings where the type has padding), then generated cases
fn run_elems<T: GT>(env: &mut Env, salt: &str, chk: &CheckFn, pads: usize, text: bool) {
    let k = kind::<T>();
    for f in gen::fixed(k, T::N) {
        let variants: Vec<Vec<u64>> = if pads == 0 {
            vec![f]
        } else if k.boolean {
            // masks: hidden lane clear / set, each through a comparison and through `!`
            (0..4u64).map(|h| [f.clone(), vec![h; pads]].concat()).chain([f.clone()]).collect()
        } else {
            vec![f.clone(), [f.clone(), vec![0u64; pads]].concat(), [f, vec![u64::MAX; pads]].concat()]
        };
        for w in variants {
            if !env.direct(&w, chk) {
                return;
            }
        }
    }
    if k.boolean {
        // all 2^N values were enumerated
        return;
    }
    env.tally.exhaustive = false;
    let n = env.cases(20_000, 40);
    if text {
        env.prop(salt, n, gen::elems_text(k, T::N), chk);
    } else {
        env.prop(salt, n, gen::elems_pads(k, T::N, pads), chk);
    }
}

fn reg_serde<'a, T>(out: &mut Vec<SubCheck<'a>>)
where
    T: GT + serde::Serialize + serde::de::DeserializeOwned,
{
    out.push(SubCheck::new(format!("serde/{}/{}", T::NAME, VARIANT), 1, |env: &mut Env| run_elems::<T>(env, "serde", &check_serde::<T>, pads_of::<T>(), false), check_serde::<T>));
    out.push(SubCheck::new(format!("json/{}/{}", T::NAME, VARIANT), 1, |env: &mut Env| run_elems::<T>(env, "json", &check_json::<T>, 0, true), check_json::<T>));
}
fn reg_bm_abp<'a, T: GT + bytemuck::AnyBitPattern>(out: &mut Vec<SubCheck<'a>>) {
    out.push(SubCheck::new(format!("bytemuck/{}/{}", T::NAME, VARIANT), 1, |env: &mut Env| run_elems::<T>(env, "bytemuck", &check_bm_abp::<T>, pads_of::<T>(), false), check_bm_abp::<T>));
}
fn reg_bm_pod<'a, T: GT + bytemuck::Pod>(out: &mut Vec<SubCheck<'a>>)
where
    T::S: bytemuck::Pod,
{
    out.push(SubCheck::new(format!("bytemuck/{}/{}", T::NAME, VARIANT), 1, |env: &mut Env| run_elems::<T>(env, "bytemuck", &check_bm_pod::<T>, pads_of::<T>(), false), check_bm_pod::<T>));
}
fn reg_rk<'a, T: Rk>(out: &mut Vec<SubCheck<'a>>) {
    out.push(SubCheck::new(format!("rkyv/{}/{}", T::NAME, VARIANT), 1, |env: &mut Env| run_elems::<T>(env, "rkyv", &check_rk::<T>, pads_of::<T>(), false), check_rk::<T>));
}
fn reg_mi<'a, T: Mi>(out: &mut Vec<SubCheck<'a>>) {
    out.push(SubCheck::new(format!("mint/{}/{}", T::NAME, VARIANT), 1, |env: &mut Env| run_elems::<T>(env, "mint", &check_mi::<T>, pads_of::<T>(), false), check_mi::<T>));
}
macro_rules! reg_bm {
    (pod, $T:ident, $out:ident) => { reg_bm_pod::<glam::$T>(&mut $out); };
    (abp, $T:ident, $out:ident) => { reg_bm_abp::<glam::$T>(&mut $out); };
    (nobm, $T:ident, $out:ident) => {};
}
macro_rules! reg_rkm {
    (rk, $T:ident, $out:ident) => { reg_rk::<glam::$T>(&mut $out); };
    (nork, $T:ident, $out:ident) => {};
}
macro_rules! reg_mim {
    (nomint, $T:ident, $out:ident) => {};
    ($m:ident, $T:ident, $out:ident) => { reg_mi::<glam::$T>(&mut $out); };
}

pub fn subs<'a>(_args: &Args) -> Vec<SubCheck<'a>> {
    let mut out: Vec<SubCheck<'a>> = vec![];
    macro_rules! reg {
        ($T:ident, $S:ty, $N:expr, $gt:ident, $lay:ident, $bm:ident, $rk:ident, $mi:ident, $se:ident) => {
            with_serde!($se, reg_serde::<glam::$T>(&mut out););
            reg_bm!($bm, $T, out);
            reg_rkm!($rk, $T, out);
            reg_mim!($mi, $T, out);
        };
    }
    c19_types!(reg);
    out.push(SubCheck::new(
        format!("serde/EulerRot/{}", VARIANT),
        1,
        |env: &mut Env| {
            for i in 0..(EULER.len() as u64 + 4) {
                if !env.direct(&[i], &check_euler) {
                    return;
                }
            }
        },
        check_euler,
    ));
    out.push(SubCheck::new(
        format!("probe/traits/{}", VARIANT),
        1,
        |env: &mut Env| {
            let rows = probe_rows();
            let table: Vec<serde_json::Value> = rows
                .iter()
                .map(|r| {
                    json!({"type": r.name, "elements": r.n, "size_of": r.size, "align_of": r.align, "padded": r.size != r.n * r.ssz,
                           "Pod": r.pod, "AnyBitPattern": r.abp, "Zeroable": r.zeroable, "NoUninit": r.no_uninit,
                           "Serialize": r.ser, "Deserialize": r.de, "rkyv::Archive": r.archive, "mint::IntoMint": r.mint})
                })
                .collect();
            env.tally.notes.insert(format!("trait-table/{}", VARIANT), json!(table));
            for i in 0..rows.len() as u64 {
                if !env.direct(&[i], &check_probe) {
                    return;
                }
            }
        },
        check_probe,
    ));
    out
}
