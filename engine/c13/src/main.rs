//! C13 — not implemented yet.
fn main() {
    eprintln!("c13: not implemented");
    std::process::exit(2);
}
