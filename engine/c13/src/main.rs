//! C13 — the 27 integer vector types are the exact lane-wise lift of Rust's integer primitives,
//! in the release profile (wrapping arithmetic) and in the `chk` profile (overflow-checks on).
use vcore::*;

mod simd {
    pub const VARIANT: &str = "simd";
    use ::glam_simd as glam;
    include!("suite.rs");
}

/// the same lanewise checks with `glam-assert` compiled in: the only assertion the integer vectors carry is
/// clamp's `min <= max`, which the generated bounds satisfy (equal bounds included), so a panic there that the
/// primitive does not raise is a failure
mod asserting {
    pub const VARIANT: &str = "simd+glam-assert";
    use ::glam_assert as glam;
    include!("suite.rs");
}

fn main() {
    let args = Args::parse();
    silence_panics();
    // The driver names the whole-build configuration; the oracle follows the *measured* profile.
    // A binary whose measured profile contradicts the configuration it is supposed to cover is an
    // inconclusive run (exit 2), never a verdict.
    let (h, g) = (simd::ovf(), simd::glam_ovf());
    if h != g || ((args.build == "chk" || args.build == "ovf") && !h) || (args.build == "stable" && h && !args.out.is_empty()) {
        eprintln!("c13: profile mismatch: build={} harness overflow-checks={} glam overflow-checks={}", args.build, h, g);
        std::process::exit(2);
    }
    let mut subs = simd::subs(&args);
    subs.extend(asserting::subs(&args).into_iter().filter(|s| s.name.starts_with("lanewise/") || s.name.starts_with("boundary-pairs/")));
    let code = main_with("C13", "see MANIFEST / evidence rule", &args, subs);
    std::process::exit(code);
}
