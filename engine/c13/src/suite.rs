// Included once per glam variant (`glam` is aliased by the including module).
//
// Oracle: the Rust integer primitive applied to each lane's operands alone. Whether an operation
// must panic is decided by running that primitive under `catch` in *this* binary, so the oracle
// follows the build profile (release: wrapping; chk: overflow-checks) by itself.
//
// NOTE: no glob import of glam: it exports modules called `i8`, `u8`, `usize`, ... that would
// shadow the primitive types.
use glam::{
    I16Vec2, I16Vec3, I16Vec4, I64Vec2, I64Vec3, I64Vec4, I8Vec2, I8Vec3, I8Vec4, IVec2, IVec3, IVec4, U16Vec2, U16Vec3, U16Vec4,
    U64Vec2, U64Vec3, U64Vec4, U8Vec2, U8Vec3, U8Vec4, USizeVec2, USizeVec3, USizeVec4, UVec2, UVec3, UVec4,
};
use proptest::prelude::*;
use serde_json::json;
use std::hint::black_box;
use std::sync::OnceLock;
use vcore::lattice;
use vcore::*;

/// does integer overflow panic in the harness crate (profile `chk`) or wrap (profile `release`)?
pub fn ovf() -> bool {
    static O: OnceLock<bool> = OnceLock::new();
    *O.get_or_init(|| catch(|| black_box(i32::MAX) + black_box(1)).is_err())
}
/// the same question asked of glam's own code (must agree: one cargo profile builds both)
pub fn glam_ovf() -> bool {
    static O: OnceLock<bool> = OnceLock::new();
    *O.get_or_init(|| catch(|| black_box(IVec2::MAX) + black_box(IVec2::ONE)).is_err())
}

/// 1-in-8 sample of the cases on which the panic prediction is validated against the operator primitive
#[inline]
fn ovf_or_div_sample(x: u64, y: u64, z: u64) -> bool {
    mix(mix(x, y), z) & 7 == 0
}

fn fail(ty: &str, op: &str, form: &str, msg: String) -> Fail {
    Fail::new(format!("C13/{}/{}/{}", VARIANT, ty, op), format!("{op}[{form}]"), msg)
}

/// got vs expected where both sides may have panicked
fn judge<X: PartialEq + std::fmt::Debug>(
    ty: &str,
    op: &str,
    form: &str,
    got: Result<X, String>,
    exp: &Result<X, String>,
    ctx: &dyn Fn() -> String,
) -> Result<(), Fail> {
    match (got, exp) {
        (Ok(g), Ok(e)) => {
            if g != *e {
                return Err(fail(ty, op, form, format!("got {:?} expected {:?}; {}", g, e, ctx())));
            }
            Ok(())
        }
        (Err(_), Err(_)) => Ok(()),
        (Ok(g), Err(pm)) => Err(fail(
            ty,
            op,
            form,
            format!("returned {:?} but the primitive panics on some lane in this profile ({}); overflow-checks={}; {}", g, pm, ovf(), ctx()),
        )),
        (Err(gm), Ok(e)) => Err(fail(
            ty,
            op,
            form,
            format!("panicked ({}) but no lane's primitive panics in this profile, expected {:?}; overflow-checks={}; {}", gm, e, ovf(), ctx()),
        )),
    }
}

#[cold]
#[inline(never)]
fn cold_mismatch<X: PartialEq + std::fmt::Debug>(ty: &str, op: &str, form: &str, g: &X, e: &Result<X, String>, ctx: &dyn Fn() -> String) -> Fail {
    fail(ty, op, form, format!("got {:?} expected {:?}; {}", g, e, ctx()))
}

/// What a reduction (element_sum, dot, ...) has to do.
#[derive(Debug)]
pub enum Verdict<X> {
    /// no evaluation order overflows an intermediate: must return the value
    Must(X),
    /// every evaluation order overflows somewhere (or a lane operation itself panics): must panic
    Panic,
    /// whether an intermediate overflows depends on the association order: value judged only if no panic
    Ambig(X),
}

fn judge_red<X: PartialEq + std::fmt::Debug>(
    ty: &str,
    op: &str,
    got: Result<X, String>,
    v: &Verdict<X>,
    ctx: &dyn Fn() -> String,
) -> Result<(), Fail> {
    match (got, v) {
        (Ok(g), Verdict::Must(e)) | (Ok(g), Verdict::Ambig(e)) => {
            if g != *e {
                return Err(fail(ty, op, "", format!("got {:?} expected {:?}; {}", g, e, ctx())));
            }
            Ok(())
        }
        (Err(_), Verdict::Panic) | (Err(_), Verdict::Ambig(_)) => Ok(()),
        (Ok(g), Verdict::Panic) => Err(fail(
            ty,
            op,
            "",
            format!("returned {:?} but the primitive expression (for dot-like reductions: every evaluation order) overflows in this profile (overflow-checks={}); {}", g, ovf(), ctx()),
        )),
        (Err(gm), Verdict::Must(e)) => Err(fail(
            ty,
            op,
            "",
            format!("panicked ({}) but the primitive expression (for dot-like reductions: no evaluation order) overflows, expected {:?}; overflow-checks={}; {}", gm, e, ovf(), ctx()),
        )),
    }
}

/// `catch`, or a plain call in the FAST instantiation (the whole case then runs under one outer catch
/// and is re-run through the slow path if anything panicked)
#[inline(always)]
fn cat<const FAST: bool, R>(f: impl FnOnce() -> R) -> Result<R, String> {
    if FAST {
        Ok(f())
    } else {
        catch(f)
    }
}

/// The oracle: the lane primitives `f`, run under catch. Unwinding costs microseconds, so when the
/// `checked_*` primitives (and the measured profile) already say that some lane panics, the direct
/// run is skipped — except on a 1-in-8 sample of the cases (`validate`), where it is still run and
/// must agree with the prediction; a primitive that panics without having been predicted to is a
/// harness defect and aborts the sub-check (harness-panic), never a verdict about glam.
#[inline(always)]
fn oracle<const FAST: bool, R>(pred: bool, validate: bool, f: impl FnOnce() -> R) -> Result<R, String> {
    if FAST {
        return Ok(f());
    }
    if pred && !validate {
        return Err("predicted by the checked_* primitives and the measured profile".into());
    }
    let r = catch(f);
    assert!(r.is_err() == pred, "oracle model mismatch: checked_* primitives predicted panic={} but the operator primitive gave panic={}", pred, r.is_err());
    r
}

/// Overflow analysis of a reduction `l0 (op) l1 (op) ...` over every association order and operand
/// order. `leaves[i] = None`: computing the leaf itself overflows. Returns
/// (some order is free of overflow, every order is free of overflow).
fn red_analysis(leaves: &[Option<i128>], mul: bool, lo: i128, hi: i128) -> (bool, bool) {
    let n = leaves.len();
    debug_assert!(n >= 1 && n <= 4);
    let full = (1usize << n) - 1;
    let mut inr = [false; 16];
    let mut any = [false; 16];
    let mut all = [false; 16];
    for mask in 1..=full {
        // exact value of the sub-expression (None: outside i128, hence outside the type's range)
        let mut ex: Option<i128> = Some(if mul { 1 } else { 0 });
        let mut leaf_bad = false;
        let mut has_zero = false;
        for i in 0..n {
            if mask >> i & 1 == 1 {
                match leaves[i] {
                    None => leaf_bad = true,
                    Some(v) => {
                        if v == 0 {
                            has_zero = true;
                        }
                        ex = match ex {
                            None => None,
                            Some(e) => {
                                if mul {
                                    e.checked_mul(v)
                                } else {
                                    e.checked_add(v)
                                }
                            }
                        };
                    }
                }
            }
        }
        if mul && has_zero {
            ex = Some(0);
        }
        inr[mask] = !leaf_bad && matches!(ex, Some(e) if e >= lo && e <= hi);
        if mask.count_ones() == 1 {
            any[mask] = !leaf_bad;
            all[mask] = !leaf_bad;
            continue;
        }
        // unordered splits: A keeps the lowest set bit
        let low = mask & mask.wrapping_neg();
        let rest = mask ^ low;
        let mut ex_any = false;
        let mut fa_all = true;
        // enumerate sub-masks of `rest` that are not all of it (B = rest \ sub must be non-empty)
        let mut sub = rest;
        loop {
            sub = (sub.wrapping_sub(1)) & rest;
            let a = low | sub;
            let b = mask ^ a;
            if b != 0 {
                ex_any |= any[a] && any[b];
                fa_all &= all[a] && all[b];
            }
            if sub == 0 {
                break;
            }
        }
        any[mask] = inr[mask] && ex_any;
        all[mask] = inr[mask] && fa_all;
    }
    (any[full], all[full])
}

fn verdict<X>(leaves: &[Option<i128>], mul: bool, lo: i128, hi: i128, val: X) -> Verdict<X> {
    if !ovf() {
        return Verdict::Must(val);
    }
    let (any, all) = red_analysis(leaves, mul, lo, hi);
    if all {
        Verdict::Must(val)
    } else if !any {
        Verdict::Panic
    } else {
        Verdict::Ambig(val)
    }
}

/// element_sum / element_product are documented as `self.x + self.y + ..` / `self.x * self.y * ..`: the primitive
/// expression is the left fold, so in an overflow-checking profile the panic is decided by its intermediates
fn verdict_left<X>(leaves: &[Option<i128>], mul: bool, lo: i128, hi: i128, val: X) -> Verdict<X> {
    if !ovf() {
        return Verdict::Must(val);
    }
    let mut acc = match leaves[0] {
        Some(x) => x,
        None => return Verdict::Panic,
    };
    for l in &leaves[1..] {
        let Some(x) = l else { return Verdict::Panic };
        acc = match if mul { acc.checked_mul(*x) } else { acc.checked_add(*x) } {
            Some(v) if v >= lo && v <= hi => v,
            _ => return Verdict::Panic,
        };
    }
    Verdict::Must(val)
}

/// sign-extend / zero-extend a raw lane word
fn sx(bits: u32, signed: bool, w: u64) -> i128 {
    let m: u64 = if bits == 64 { u64::MAX } else { (1u64 << bits) - 1 };
    let w = w & m;
    if signed && (w >> (bits - 1)) & 1 == 1 {
        (w as i128) - (1i128 << bits)
    } else {
        w as i128
    }
}
/// raw lane word of a value (two's complement, truncated)
fn mk(bits: u32, v: i128) -> u64 {
    let m: u64 = if bits == 64 { u64::MAX } else { (1u64 << bits) - 1 };
    (v as u64) & m
}
fn tmin(bits: u32, signed: bool) -> i128 {
    if signed {
        -(1i128 << (bits - 1))
    } else {
        0
    }
}
fn tmax(bits: u32, signed: bool) -> i128 {
    if signed {
        (1i128 << (bits - 1)) - 1
    } else {
        (1i128 << bits) - 1
    }
}

fn lane_class(bits: u32, signed: bool, w: u64) -> &'static str {
    let v = sx(bits, signed, w);
    let (lo, hi) = (tmin(bits, signed), tmax(bits, signed));
    if v == 0 {
        "lane:0"
    } else if v == 1 {
        "lane:1"
    } else if v == -1 {
        "lane:-1"
    } else if v == lo {
        "lane:MIN"
    } else if v == hi {
        "lane:MAX"
    } else if v == lo + 1 || v == hi - 1 {
        "lane:MIN+1|MAX-1"
    } else {
        let a = v.unsigned_abs();
        if a.is_power_of_two() {
            "lane:pow2"
        } else if (a + 1).is_power_of_two() || (a - 1).is_power_of_two() {
            "lane:pow2+-1"
        } else if a < 16 {
            "lane:small"
        } else if a < 256 {
            "lane:byte"
        } else {
            "lane:other"
        }
    }
}
fn is_boundary(bits: u32, signed: bool, w: u64) -> bool {
    matches!(lane_class(bits, signed, w), "lane:0" | "lane:1" | "lane:-1" | "lane:MIN" | "lane:MAX" | "lane:MIN+1|MAX-1")
}

/// every boundary value of the type: 0, +-1.., MIN.., MAX.., +-2^k, +-2^k+-1, alternating bits
fn boundaries(bits: u32, signed: bool, all_powers: bool) -> Vec<u64> {
    let (lo, hi) = (tmin(bits, signed), tmax(bits, signed));
    let mut v: Vec<i128> = vec![0, 1, 2, 3, hi, hi - 1, hi - 2, lo, lo + 1, lo + 2, 7, 10];
    if signed {
        v.extend_from_slice(&[-1, -2, -3, -7]);
    }
    let ks: Vec<u32> = if all_powers { (1..bits).collect() } else { vec![bits / 2 - 1, bits / 2, bits - 2, bits - 1] };
    for k in ks {
        let p = 1i128 << k;
        for d in [-1i128, 0, 1] {
            v.push(p + d);
            if signed {
                v.push(-(p + d));
            }
        }
    }
    let mut out: Vec<u64> = v.into_iter().filter(|x| *x >= lo && *x <= hi).map(|x| mk(bits, x)).collect();
    if all_powers {
        out.push(mk(bits, 0x5555_5555_5555_5555));
        out.push(mk(bits, 0xAAAA_AAAA_AAAA_AAAAu64 as i128));
    }
    out.sort_unstable();
    out.dedup();
    out
}

/// a lane pair (a, b) for binary operations: independent lattice values or related so that the
/// overflow / division edge cases are hit exactly
fn rel_pair(bits: u32, signed: bool) -> BoxedStrategy<(u64, u64)> {
    (lattice::lat_int(bits, signed), lattice::lat_int(bits, signed), 0u8..24)
        .prop_map(move |(a, b, k)| {
            let (lo, hi) = (tmin(bits, signed), tmax(bits, signed));
            let x = sx(bits, signed, a);
            let y: i128 = match k {
                0 => x,
                1 => -x,
                2 => 0,
                3 => -1,
                4 => 1,
                5 => hi - x,     // a + b == MAX
                6 => hi - x + 1, // a + b == MAX + 1
                7 => x - lo,     // a - b == MIN
                8 => x - lo + 1, // a - b == MIN - 1
                9 => x - hi,     // a - b == MAX
                10 => x - hi - 1,
                11 if x != 0 => hi / x,     // a * b just inside
                12 if x != 0 => hi / x + x.signum(), // a * b just outside
                13 if x != 0 => lo / x,
                14 if x != 0 => lo / x - x.signum(),
                15 => x + 1,
                16 => x - 1,
                _ => sx(bits, signed, b),
            };
            (a, mk(bits, y))
        })
        .boxed()
}

/// small values whose sums and products stay inside even the 8-bit types
fn tame(bits: u32, signed: bool) -> BoxedStrategy<u64> {
    if signed {
        (-11i128..=11).prop_map(move |v| mk(bits, v)).boxed()
    } else {
        (0i128..=11).prop_map(move |v| mk(bits, v)).boxed()
    }
}

/// shift counts as i64: inside the width, at and just beyond it, negative, type-width specials, anything
fn count_strat(bits: u32) -> BoxedStrategy<u64> {
    let b = bits as i64;
    let sp: Vec<i64> = vec![
        7, 8, 9, 15, 16, 17, 31, 32, 33, 63, 64, 65, 127, 128, 129, 255, 256, 257, 32767, 32768, 65535, 65536, 65537, i32::MAX as i64,
        i32::MAX as i64 + 1, u32::MAX as i64, u32::MAX as i64 + 1, i64::MAX, i64::MIN, -1, -2, -127, -128, -129, -32768, -32769,
        i32::MIN as i64,
    ];
    prop_oneof![
        5 => 0i64..b,
        3 => b - 2..=b + 2,
        1 => -(b + 2)..0i64,
        1 => proptest::sample::select(sp),
        1 => any::<i64>(),
    ]
    .prop_map(|c| c as u64)
    .boxed()
}

macro_rules! sel_s {
    (s; $($b:tt)*) => { $($b)* };
    (u; $($b:tt)*) => {};
}
/// signed type with an unsigned counterpart (`*_unsigned` methods)
macro_rules! sel_mix_s {
    (s, y; $($b:tt)*) => { $($b)* };
    ($a:ident, $c:ident; $($b:tt)*) => {};
}
/// unsigned type with a signed counterpart (`*_signed` methods); usize has none
macro_rules! sel_mix_u {
    (u, y; $($b:tt)*) => { $($b)* };
    ($a:ident, $c:ident; $($b:tt)*) => {};
}
macro_rules! sel_dim2 {
    (2; $($b:tt)*) => { $($b)* };
    ($n:tt; $($b:tt)*) => {};
}
macro_rules! sel_dim3 {
    (3; $($b:tt)*) => { $($b)* };
    ($n:tt; $($b:tt)*) => {};
}

macro_rules! int_type {
    ($m:ident, $V:ident, $T:ident, $N:tt, $sg:ident, $U:ident, $mx:ident, $MV:ident, $MT:ident, $IV:ident, $UV:ident) => {
        #[allow(dead_code, unused_macros)]
        pub mod $m {
            use super::*;
            pub const N: usize = $N;
            pub type V = $V;
            pub type T = $T;
            /// result type of the abs_diff based distances
            pub type U = $U;
            /// lane type of the opposite-signedness vector (dummy = T for usize)
            pub type MT = $MT;
            pub const TY: &str = stringify!($V);
            pub const BITS: u32 = <$T>::BITS;
            pub const SIGNED: bool = <$T>::MIN != 0;
            /// words of a lanewise case: mode, a[N], b[N], c[N], m[N], s
            pub const W: usize = 4 * N + 2;
            const LO: i128 = <$T>::MIN as i128;
            const HI: i128 = <$T>::MAX as i128;

            #[inline]
            pub fn arr(w: &[u64]) -> [T; N] {
                let mut a = [0 as T; N];
                for i in 0..N {
                    a[i] = w[i] as T;
                }
                a
            }
            #[inline]
            pub fn marr(w: &[u64]) -> [MT; N] {
                let mut a = [0 as MT; N];
                for i in 0..N {
                    a[i] = w[i] as MT;
                }
                a
            }

            /// N rule: some lane at a boundary value, or some lane overflows / divides by zero
            #[inline]
            pub fn nontrivial(a: &[T; N], b: &[T; N]) -> bool {
                for i in 0..N {
                    let (x, y) = (a[i], b[i]);
                    if x == 0 || y == 0 || x == T::MAX || y == T::MAX || x == T::MIN || y == T::MIN || x == 1 || y == 1 {
                        return true;
                    }
                    if SIGNED && (x == (0 as T).wrapping_sub(1) || y == (0 as T).wrapping_sub(1)) {
                        return true;
                    }
                    if x.checked_add(y).is_none() || x.checked_sub(y).is_none() || x.checked_mul(y).is_none() {
                        return true;
                    }
                }
                false
            }

            /// words: mode, a[N], b[N], c[N], m[N], s.
            /// mode 3: as 2, without the operations of `a` alone.
            /// mode 0: every operator form; 1: one form per distinct implementation body (the by-reference
            /// and assign forms delegate); 2: as 1, and operations that panic on overflow are left out when
            /// overflow-checks are on (16-bit sweeps).
            pub fn check_impl<const FAST: bool>(w: &[u64], mut t: Option<&mut Tally>) -> Result<(), Fail> {
                let mode = w[0];
                let full = mode == 0;
                let skip_ovf = mode >= 2 && ovf();
                // mode 3: only operations of two vector operands (every value of `a` alone is met by the strided sweeps)
                let unary = mode != 3;
                let a = arr(&w[1..1 + N]);
                let b = arr(&w[1 + N..1 + 2 * N]);
                let c = arr(&w[1 + 2 * N..1 + 3 * N]);
                #[allow(unused_variables)]
                let m = marr(&w[1 + 3 * N..1 + 4 * N]);
                let s = w[1 + 4 * N] as T;
                let validate = !FAST && ovf_or_div_sample(w[1], w[1 + N], w[1 + 4 * N]);

                if let Some(t) = t.as_deref_mut() {
                    t.eval(1);
                    for i in 0..N {
                        t.class(lane_class(BITS, SIGNED, w[1 + i]));
                        t.class(lane_class(BITS, SIGNED, w[1 + N + i]));
                        let (x, y) = (a[i], b[i]);
                        if x.checked_add(y).is_none() {
                            t.class("outcome:add-overflow");
                        }
                        if x.checked_sub(y).is_none() {
                            t.class("outcome:sub-overflow");
                        }
                        if x.checked_mul(y).is_none() {
                            t.class("outcome:mul-overflow");
                        }
                        if y == 0 {
                            t.class("outcome:zero-divisor");
                        } else if x.checked_div(y).is_none() {
                            t.class("outcome:MIN/-1");
                        }
                        if x.saturating_add(y) != x.wrapping_add(y) || x.saturating_mul(y) != x.wrapping_mul(y) {
                            t.class("outcome:saturates");
                        }
                    }
                    if nontrivial(&a, &b) {
                        t.nontrivial(mix(hash_str(TY), mix(hash_str(VARIANT), fnv(&w[..W]))));
                        if t.want_sample() {
                            t.sample(json!({"type": TY, "profile": if ovf() {"overflow-checks"} else {"wrapping"},
                                "a": format!("{:?}", a), "b": format!("{:?}", b), "c": format!("{:?}", c), "s": format!("{:?}", s), "words": hexwords(&w[..W])}));
                        }
                    }
                }

                let (va, vb) = (V::from_array(a), V::from_array(b));
                let ctx = || format!("a={:?} b={:?} c={:?} m={:?} s={:?}", a, b, c, m, s);

                macro_rules! vop {
                    ($name:expr, $form:expr, $g:expr, $e:expr) => {
                        if FAST {
                            // straight-line: nothing is caught here, a mismatch takes the cold path
                            let g = $g;
                            match $e {
                                Ok(e) if g == *e => {}
                                e => return Err(cold_mismatch(TY, $name, $form, &g, e, &ctx)),
                            }
                        } else {
                            judge(TY, $name, $form, catch(|| $g), $e, &ctx)?
                        }
                    };
                }

                // the carrier itself
                if unary {
                    vop!("from_array/to_array", "", V::from_array(a).to_array(), &Ok(a));
                    vop!("splat", "", V::splat(s).to_array(), &Ok([s; N]));
                }

                // ---- + - * / % in every operator form
                macro_rules! arith {
                    ($name:expr, $op:tt, $opa:tt, $ck:ident, $always:expr) => {{
                        if !(skip_ovf && !$always) {
                            // a lane panics iff the checked primitive is None and (the operator always checks | overflow-checks are on)
                            let pp = |x: T, y: T| -> bool { x.$ck(y).is_none() && ($always || ovf()) };
                            let e = oracle::<FAST, _>((0..N).any(|i| pp(a[i], b[i])), validate, || { let mut e = [0 as T; N]; for i in 0..N { e[i] = a[i] $op b[i]; } e });
                            vop!($name, "v,v", (va $op vb).to_array(), &e);
                            if full {
                                vop!($name, "v,&v", (va $op &vb).to_array(), &e);
                                vop!($name, "&v,v", (&va $op vb).to_array(), &e);
                                vop!($name, "&v,&v", (&va $op &vb).to_array(), &e);
                                vop!($name, "v op= v", { let mut x = va; x $opa vb; x.to_array() }, &e);
                                vop!($name, "v op= &v", { let mut x = va; x $opa &vb; x.to_array() }, &e);
                            }
                            let e = oracle::<FAST, _>((0..N).any(|i| pp(a[i], s)), validate, || { let mut e = [0 as T; N]; for i in 0..N { e[i] = a[i] $op s; } e });
                            vop!($name, "v,s", (va $op s).to_array(), &e);
                            if full {
                                vop!($name, "v,&s", (va $op &s).to_array(), &e);
                                vop!($name, "&v,s", (&va $op s).to_array(), &e);
                                vop!($name, "&v,&s", (&va $op &s).to_array(), &e);
                                vop!($name, "v op= s", { let mut x = va; x $opa s; x.to_array() }, &e);
                                vop!($name, "v op= &s", { let mut x = va; x $opa &s; x.to_array() }, &e);
                            }
                            let e = oracle::<FAST, _>((0..N).any(|i| pp(s, a[i])), validate, || { let mut e = [0 as T; N]; for i in 0..N { e[i] = s $op a[i]; } e });
                            vop!($name, "s,v", (s $op va).to_array(), &e);
                            if full {
                                vop!($name, "s,&v", (s $op &va).to_array(), &e);
                                vop!($name, "&s,v", (&s $op va).to_array(), &e);
                                vop!($name, "&s,&v", (&s $op &va).to_array(), &e);
                            }
                        }
                    }};
                }
                arith!("add", +, +=, checked_add, false);
                arith!("sub", -, -=, checked_sub, false);
                arith!("mul", *, *=, checked_mul, false);
                arith!("div", /, /=, checked_div, true);
                arith!("rem", %, %=, checked_rem, true);

                // ---- bit operations (by value only: that is all the API has)
                macro_rules! bitop {
                    ($name:expr, $op:tt) => {{
                        let mut e = [0 as T; N];
                        for i in 0..N { e[i] = a[i] $op b[i]; }
                        vop!($name, "v,v", (va $op vb).to_array(), &Ok(e));
                        for i in 0..N { e[i] = a[i] $op s; }
                        vop!($name, "v,s", (va $op s).to_array(), &Ok(e));
                    }};
                }
                bitop!("bitand", &);
                bitop!("bitor", |);
                bitop!("bitxor", ^);
                if unary {
                    let mut e = [0 as T; N];
                    for i in 0..N {
                        e[i] = !a[i];
                    }
                    vop!("not", "", (!va).to_array(), &Ok(e));
                }

                // ---- lane-wise methods with a Self operand
                macro_rules! lw {
                    ($name:expr, $meth:ident, $rv:expr, $ra:expr, $pp:expr) => {{
                        let e = oracle::<FAST, _>((0..N).any(|i| ($pp)(a[i], $ra[i])), validate, || { let mut e = [0 as T; N]; for i in 0..N { e[i] = a[i].$meth($ra[i]); } e });
                        vop!($name, "", va.$meth($rv).to_array(), &e);
                    }};
                }
                macro_rules! chk {
                    ($name:expr, $meth:ident, $rv:expr, $ra:expr) => {{
                        let e: Result<Option<[T; N]>, String> = oracle::<FAST, _>(false, validate, || {
                            let mut e = [0 as T; N];
                            for i in 0..N {
                                match a[i].$meth($ra[i]) { Some(v) => e[i] = v, None => return None }
                            }
                            Some(e)
                        });
                        vop!($name, "", va.$meth($rv).map(|v| v.to_array()), &e);
                    }};
                }
                {
                    let mut e = [0 as T; N];
                    for i in 0..N { e[i] = Ord::min(a[i], b[i]); }
                    vop!("min", "", va.min(vb).to_array(), &Ok(e));
                    for i in 0..N { e[i] = Ord::max(a[i], b[i]); }
                    vop!("max", "", va.max(vb).to_array(), &Ok(e));
                    // clamp: bounds sorted per lane (min <= max is the documented precondition)
                    let mut lo = b;
                    let mut hi = c;
                    for i in 0..N {
                        lo[i] = Ord::min(b[i], c[i]);
                        hi[i] = Ord::max(b[i], c[i]);
                        e[i] = Ord::clamp(a[i], lo[i], hi[i]);
                    }
                    vop!("clamp", "", va.clamp(V::from_array(lo), V::from_array(hi)).to_array(), &Ok(e));
                }
                chk!("checked_add", checked_add, vb, b);
                chk!("checked_sub", checked_sub, vb, b);
                chk!("checked_mul", checked_mul, vb, b);
                chk!("checked_div", checked_div, vb, b);
                lw!("wrapping_add", wrapping_add, vb, b, |_: T, _: T| false);
                lw!("wrapping_sub", wrapping_sub, vb, b, |_: T, _: T| false);
                lw!("wrapping_mul", wrapping_mul, vb, b, |_: T, _: T| false);
                lw!("wrapping_div", wrapping_div, vb, b, |_: T, y: T| y == 0);
                lw!("saturating_add", saturating_add, vb, b, |_: T, _: T| false);
                lw!("saturating_sub", saturating_sub, vb, b, |_: T, _: T| false);
                lw!("saturating_mul", saturating_mul, vb, b, |_: T, _: T| false);
                lw!("saturating_div", saturating_div, vb, b, |_: T, y: T| y == 0);
                sel_mix_s! { $sg, $mx;
                    let vm = <$MV>::from_array(m);
                    chk!("checked_add_unsigned", checked_add_unsigned, vm, m);
                    chk!("checked_sub_unsigned", checked_sub_unsigned, vm, m);
                    lw!("wrapping_add_unsigned", wrapping_add_unsigned, vm, m, |_: T, _: MT| false);
                    lw!("wrapping_sub_unsigned", wrapping_sub_unsigned, vm, m, |_: T, _: MT| false);
                    lw!("saturating_add_unsigned", saturating_add_unsigned, vm, m, |_: T, _: MT| false);
                    lw!("saturating_sub_unsigned", saturating_sub_unsigned, vm, m, |_: T, _: MT| false);
                }
                sel_mix_u! { $sg, $mx;
                    let vm = <$MV>::from_array(m);
                    chk!("checked_add_signed", checked_add_signed, vm, m);
                    lw!("wrapping_add_signed", wrapping_add_signed, vm, m, |_: T, _: MT| false);
                    lw!("saturating_add_signed", saturating_add_signed, vm, m, |_: T, _: MT| false);
                }
                sel_s! { $sg;
                    lw!("div_euclid", div_euclid, vb, b, |x: T, y: T| x.checked_div_euclid(y).is_none());
                    lw!("rem_euclid", rem_euclid, vb, b, |x: T, y: T| x.checked_rem_euclid(y).is_none());
                    if unary {
                        let e = oracle::<FAST, _>(false, validate, || { let mut e = [0 as T; N]; for i in 0..N { e[i] = a[i].signum(); } e });
                        vop!("signum", "", va.signum().to_array(), &e);
                        let mut mask = 0u32;
                        for i in 0..N { if a[i].is_negative() { mask |= 1 << i; } }
                        vop!("is_negative_bitmask", "", va.is_negative_bitmask(), &Ok(mask));
                    }
                    if !skip_ovf && unary {
                        let e = oracle::<FAST, _>(ovf() && (0..N).any(|i| a[i].checked_neg().is_none()), validate, || { let mut e = [0 as T; N]; for i in 0..N { e[i] = -a[i]; } e });
                        vop!("neg", "v", (-va).to_array(), &e);
                        if full {
                            vop!("neg", "&v", (-&va).to_array(), &e);
                        }
                        let e = oracle::<FAST, _>(ovf() && (0..N).any(|i| a[i].checked_abs().is_none()), validate, || { let mut e = [0 as T; N]; for i in 0..N { e[i] = a[i].abs(); } e });
                        vop!("abs", "", va.abs().to_array(), &e);
                    }
                }

                // ---- comparisons (the mask types themselves belong to C15/C17)
                macro_rules! cmp {
                    ($name:expr, $meth:ident, $op:tt) => {{
                        let mut mask = 0u32;
                        for i in 0..N { if a[i] $op b[i] { mask |= 1 << i; } }
                        vop!($name, "", va.$meth(vb).bitmask(), &Ok(mask));
                    }};
                }
                cmp!("cmpeq", cmpeq, ==);
                cmp!("cmpne", cmpne, !=);
                cmp!("cmplt", cmplt, <);
                cmp!("cmple", cmple, <=);
                cmp!("cmpgt", cmpgt, >);
                cmp!("cmpge", cmpge, >=);
                {
                    let eq = (0..N).all(|i| a[i] == b[i]);
                    vop!("eq", "==", va == vb, &Ok(eq));
                    vop!("eq", "!=", va != vb, &Ok(!eq));
                }

                // ---- horizontal operations that cannot overflow
                {
                    let mut mn = a[0];
                    let mut mx = a[0];
                    for i in 1..N {
                        mn = Ord::min(mn, a[i]);
                        mx = Ord::max(mx, a[i]);
                    }
                    if unary {
                        vop!("min_element", "", va.min_element(), &Ok(mn));
                        vop!("max_element", "", va.max_element(), &Ok(mx));
                        let pmin = (0..N).find(|&i| a[i] == mn).unwrap();
                        let pmax = (0..N).find(|&i| a[i] == mx).unwrap();
                        vop!("min_position", "", va.min_position(), &Ok(pmin));
                        vop!("max_position", "", va.max_position(), &Ok(pmax));
                    }
                    // distances: abs_diff per lane
                    let mut d = [0 as U; N];
                    for i in 0..N {
                        d[i] = a[i].abs_diff(b[i]);
                    }
                    let mut ch = d[0];
                    let mut tot: u128 = 0;
                    for i in 0..N {
                        ch = Ord::max(ch, d[i]);
                        tot += d[i] as u128;
                    }
                    vop!("chebyshev_distance", "", va.chebyshev_distance(vb), &Ok(ch));
                    let cm: Option<U> = if tot <= U::MAX as u128 { Some(tot as U) } else { None };
                    vop!("checked_manhattan_distance", "", va.checked_manhattan_distance(vb), &Ok(cm));
                    if !skip_ovf {
                        let leaves: [Option<i128>; N] = std::array::from_fn(|i| Some(d[i] as i128));
                        let val = d.iter().fold(0 as U, |x, y| x.wrapping_add(*y));
                        let v = verdict(&leaves, false, 0, U::MAX as i128, val);
                        if let (Verdict::Ambig(_), Some(t)) = (&v, t.as_deref_mut()) { t.class("outcome:order-ambiguous"); }
                        judge_red(TY, "manhattan_distance", cat::<FAST, _>(|| va.manhattan_distance(vb)), &v, &ctx)?;
                    }
                }

                // ---- reductions whose overflow may depend on the association order
                if !skip_ovf {
                    macro_rules! red {
                        ($name:expr, $g:expr, $leaves:expr, $mul:expr, $val:expr) => {{
                            let v = verdict(&$leaves, $mul, LO, HI, $val);
                            if let Some(t) = t.as_deref_mut() {
                                match &v {
                                    Verdict::Ambig(_) => t.class("outcome:order-ambiguous"),
                                    Verdict::Panic => t.class("outcome:reduction-must-panic"),
                                    _ => {}
                                }
                            }
                            judge_red(TY, $name, cat::<FAST, _>(|| $g), &v, &ctx)?;
                        }};
                    }
                    let la: [Option<i128>; N] = std::array::from_fn(|i| Some(a[i] as i128));
                    if unary {
                    {
                        let amb = matches!(verdict(&la, false, LO, HI, 0u8), Verdict::Ambig(_)) || matches!(verdict(&la, true, LO, HI, 0u8), Verdict::Ambig(_));
                        if let (true, Some(t)) = (amb, t.as_deref_mut()) { t.class("outcome:left-fold-decides-the-panic"); }
                        let vs = verdict_left(&la, false, LO, HI, a.iter().fold(0 as T, |x, y| x.wrapping_add(*y)));
                        judge_red(TY, "element_sum", cat::<FAST, _>(|| va.element_sum()), &vs, &ctx)?;
                        let vp = verdict_left(&la, true, LO, HI, a.iter().fold(1 as T, |x, y| x.wrapping_mul(*y)));
                        judge_red(TY, "element_product", cat::<FAST, _>(|| va.element_product()), &vp, &ctx)?;
                    }
                    }
                    let prod = |x: T, y: T| -> Option<i128> { x.checked_mul(y).map(|p| p as i128) };
                    let ld: [Option<i128>; N] = std::array::from_fn(|i| prod(a[i], b[i]));
                    let dv = (0..N).fold(0 as T, |acc, i| acc.wrapping_add(a[i].wrapping_mul(b[i])));
                    red!("dot", va.dot(vb), ld, false, dv);
                    red!("dot_into_vec", va.dot_into_vec(vb).to_array(), ld, false, [dv; N]);
                    let ll: [Option<i128>; N] = std::array::from_fn(|i| prod(a[i], a[i]));
                    if unary {
                    red!("length_squared", va.length_squared(), ll, false, (0..N).fold(0 as T, |acc, i| acc.wrapping_add(a[i].wrapping_mul(a[i]))));
                    }
                    sel_s! { $sg;
                        let lq: [Option<i128>; N] = std::array::from_fn(|i| a[i].checked_sub(b[i]).and_then(|d| prod(d, d)));
                        let qv = (0..N).fold(0 as T, |acc, i| { let d = a[i].wrapping_sub(b[i]); acc.wrapping_add(d.wrapping_mul(d)) });
                        red!("distance_squared", va.distance_squared(vb), lq, false, qv);
                    }
                }

                // ---- small geometric helpers of the signed types: fixed expressions of lane primitives
                if !skip_ovf {
                    sel_s! { $sg;
                        sel_dim2! { $N;
                            if unary {
                                let e = cat::<FAST, _>(|| [-a[1], a[0]]);
                                vop!("perp", "", va.perp().to_array(), &e);
                            }
                            let e = cat::<FAST, _>(|| (a[0] * b[1]) - (a[1] * b[0]));
                            vop!("perp_dot", "", va.perp_dot(vb), &e);
                            let e = cat::<FAST, _>(|| [a[0] * b[0] - a[1] * b[1], a[1] * b[0] + a[0] * b[1]]);
                            vop!("rotate", "", va.rotate(vb).to_array(), &e);
                        }
                    }
                    sel_dim3! { $N;
                        let e = cat::<FAST, _>(|| [a[1] * b[2] - b[1] * a[2], a[2] * b[0] - b[2] * a[0], a[0] * b[1] - b[0] * a[1]]);
                        vop!("cross", "", va.cross(vb).to_array(), &e);
                    }
                }
                Ok(())
            }

            pub fn check(w: &[u64], t: &mut Tally) -> Result<(), Fail> {
                check_impl::<false>(w, Some(t))
            }
            pub fn check_quiet(w: &[u64], _t: &mut Tally) -> Result<(), Fail> {
                check_impl::<false>(w, None)
            }
            /// same verdicts as `check_quiet`: straight-line evaluation under one catch, and the slow path
            /// again if anything panicked (division by zero lanes)
            pub fn check_fast(w: &[u64], _t: &mut Tally) -> Result<(), Fail> {
                match catch(|| check_impl::<true>(w, None)) {
                    Ok(r) => r,
                    Err(_) => check_impl::<false>(w, None),
                }
            }

            /// words: a[N], cs (i64 count, cast to every scalar count type), cv[N] (per-lane counts, cast to i32 / u32)
            pub fn check_shift_impl(w: &[u64], t: Option<&mut Tally>) -> Result<(), Fail> {
                let a = arr(&w[0..N]);
                let cs = w[N] as i64;
                let mut ci = [0i32; N];
                let mut cu = [0u32; N];
                for i in 0..N {
                    ci[i] = w[N + 1 + i] as i32;
                    cu[i] = w[N + 1 + i] as u32;
                }
                if let Some(t) = t {
                    t.eval(1);
                    let cl = |c: i64| {
                        if c < 0 { "count:negative" } else if c < BITS as i64 { "count:in-range" } else if c == BITS as i64 { "count:==width" } else { "count:>width" }
                    };
                    t.class(cl(cs));
                    let mut nt = cs < 0 || cs >= BITS as i64 - 1 || cs == 0;
                    for i in 0..N {
                        t.class(cl(ci[i] as i64));
                        t.class(lane_class(BITS, SIGNED, w[i]));
                        nt |= ci[i] < 0 || ci[i] as i64 >= BITS as i64 - 1 || is_boundary(BITS, SIGNED, w[i]);
                    }
                    if nt {
                        t.nontrivial(mix(hash_str(TY), mix(hash_str(VARIANT), fnv(&w[..2 * N + 1]))));
                        if t.want_sample() {
                            t.sample(json!({"type": TY, "profile": if ovf() {"overflow-checks"} else {"wrapping"}, "a": format!("{:?}", a), "count": cs, "lane_counts": format!("{:?}", ci), "words": hexwords(&w[..2 * N + 1])}));
                        }
                    }
                }
                let va = V::from_array(a);
                let ctx = || format!("a={:?} count={} lane_counts(i32)={:?} (u32)={:?}", a, cs, ci, cu);
                let validate = ovf_or_div_sample(w[0], w[N], w[N + 1]);
                macro_rules! sh {
                    ($C:ty, $shl:expr, $shr:expr) => {{
                        let c = cs as $C;
                        // the primitive shift panics iff overflow-checks are on and the count is outside 0..width
                        let pred = ovf() && ((c as i128) < 0 || (c as i128) >= BITS as i128);
                        let e = oracle::<false, _>(pred, validate, || { let mut e = [0 as T; N]; for i in 0..N { e[i] = a[i] << c; } e });
                        judge(TY, $shl, "", catch(|| (va << c).to_array()), &e, &|| format!("count as {} = {}; {}", stringify!($C), c, ctx()))?;
                        let e = oracle::<false, _>(pred, validate, || { let mut e = [0 as T; N]; for i in 0..N { e[i] = a[i] >> c; } e });
                        judge(TY, $shr, "", catch(|| (va >> c).to_array()), &e, &|| format!("count as {} = {}; {}", stringify!($C), c, ctx()))?;
                    }};
                }
                sh!(i8, "shl<i8>", "shr<i8>");
                sh!(i16, "shl<i16>", "shr<i16>");
                sh!(i32, "shl<i32>", "shr<i32>");
                sh!(i64, "shl<i64>", "shr<i64>");
                sh!(u8, "shl<u8>", "shr<u8>");
                sh!(u16, "shl<u16>", "shr<u16>");
                sh!(u32, "shl<u32>", "shr<u32>");
                sh!(u64, "shl<u64>", "shr<u64>");
                {
                    let pi = ovf() && ci.iter().any(|c| *c < 0 || *c as i64 >= BITS as i64);
                    let pu = ovf() && cu.iter().any(|c| *c as i64 >= BITS as i64);
                    let e = oracle::<false, _>(pi, validate, || { let mut e = [0 as T; N]; for i in 0..N { e[i] = a[i] << ci[i]; } e });
                    judge(TY, "shl<IVec>", "", catch(|| (va << <$IV>::from_array(ci)).to_array()), &e, &ctx)?;
                    let e = oracle::<false, _>(pi, validate, || { let mut e = [0 as T; N]; for i in 0..N { e[i] = a[i] >> ci[i]; } e });
                    judge(TY, "shr<IVec>", "", catch(|| (va >> <$IV>::from_array(ci)).to_array()), &e, &ctx)?;
                    let e = oracle::<false, _>(pu, validate, || { let mut e = [0 as T; N]; for i in 0..N { e[i] = a[i] << cu[i]; } e });
                    judge(TY, "shl<UVec>", "", catch(|| (va << <$UV>::from_array(cu)).to_array()), &e, &ctx)?;
                    let e = oracle::<false, _>(pu, validate, || { let mut e = [0 as T; N]; for i in 0..N { e[i] = a[i] >> cu[i]; } e });
                    judge(TY, "shr<UVec>", "", catch(|| (va >> <$UV>::from_array(cu)).to_array()), &e, &ctx)?;
                }
                Ok(())
            }
            pub fn check_shift(w: &[u64], t: &mut Tally) -> Result<(), Fail> {
                check_shift_impl(w, Some(t))
            }
            pub fn check_shift_quiet(w: &[u64], _t: &mut Tally) -> Result<(), Fail> {
                check_shift_impl(w, None)
            }

            /// words: k, then k*N lanes. Sum / Product of the primitives are left folds from 0 / 1.
            pub fn check_fold(w: &[u64], t: &mut Tally) -> Result<(), Fail> {
                let k = w[0] as usize;
                t.eval(1);
                let mut vs: Vec<V> = vec![];
                let mut arrs: Vec<[T; N]> = vec![];
                for j in 0..k {
                    let a = arr(&w[1 + j * N..1 + (j + 1) * N]);
                    arrs.push(a);
                    vs.push(V::from_array(a));
                }
                t.class(&format!("fold-len-{k}"));
                let es = catch(|| {
                    let mut acc = [0 as T; N];
                    for it in &arrs { for i in 0..N { acc[i] = acc[i] + it[i]; } }
                    acc
                });
                let ep = catch(|| {
                    let mut acc = [1 as T; N];
                    for it in &arrs { for i in 0..N { acc[i] = acc[i] * it[i]; } }
                    acc
                });
                // the same through the primitive's own Sum / Product (lane 0), as a cross-check of the fold model
                if let Ok(e) = &es { assert_eq!(Ok(e[0]), catch(|| arrs.iter().map(|x| x[0]).sum::<T>())); }
                if let Ok(e) = &ep { assert_eq!(Ok(e[0]), catch(|| arrs.iter().map(|x| x[0]).product::<T>())); }
                // does some lane's running sum / product leave the type's range?
                let (mut sum_ovf, mut prod_ovf) = (false, false);
                {
                    let mut ws = [0 as T; N];
                    let mut wp = [1 as T; N];
                    for it in &arrs {
                        for i in 0..N {
                            sum_ovf |= ws[i].checked_add(it[i]).is_none();
                            prod_ovf |= wp[i].checked_mul(it[i]).is_none();
                            ws[i] = ws[i].wrapping_add(it[i]);
                            wp[i] = wp[i].wrapping_mul(it[i]);
                        }
                    }
                }
                if sum_ovf { t.class("fold:sum-overflows"); }
                if prod_ovf { t.class("fold:product-overflows"); }
                if es.is_err() { t.class("fold:sum-panics"); }
                if ep.is_err() { t.class("fold:product-panics"); }
                let boundary = w[1..1 + k * N].iter().any(|x| is_boundary(BITS, SIGNED, *x));
                if k >= 2 && (boundary || sum_ovf || prod_ovf) {
                    t.nontrivial(mix(hash_str(TY), mix(hash_str(VARIANT), fnv(&w[..1 + k * N]))));
                    if t.want_sample() {
                        t.sample(json!({"type": TY, "profile": if ovf() {"overflow-checks"} else {"wrapping"}, "fold_of": format!("{:?}", arrs)}));
                    }
                }
                let ctx = || format!("items={:?}", arrs);
                judge(TY, "sum", "by value", catch(|| vs.iter().copied().sum::<V>().to_array()), &es, &ctx)?;
                judge(TY, "sum", "by ref", catch(|| vs.iter().sum::<V>().to_array()), &es, &ctx)?;
                judge(TY, "product", "by value", catch(|| vs.iter().copied().product::<V>().to_array()), &ep, &ctx)?;
                judge(TY, "product", "by ref", catch(|| vs.iter().product::<V>().to_array()), &ep, &ctx)?;
                Ok(())
            }

            /// lanewise operands: every lane tame / one wild lane (panics attributable) / all lanes wild
            pub fn strat() -> BoxedStrategy<Vec<u64>> {
                (
                    (0u8..10, 0usize..N),
                    proptest::collection::vec(rel_pair(BITS, SIGNED), N),
                    proptest::collection::vec((tame(BITS, SIGNED), tame(BITS, SIGNED)), N),
                    proptest::collection::vec(lattice::lat_int(BITS, SIGNED), N),
                    proptest::collection::vec(lattice::lat_int(BITS, !SIGNED), N),
                    (lattice::lat_int(BITS, SIGNED), tame(BITS, SIGNED)),
                )
                    .prop_map(|((kind, p), wild, tm, c, m, (sw, st))| {
                        let mut w = vec![0u64; W];
                        for i in 0..N {
                            let use_wild = kind >= 6 || (kind >= 3 && i == p);
                            let (x, y) = if use_wild { wild[i] } else { tm[i] };
                            w[1 + i] = x;
                            w[1 + N + i] = y;
                            w[1 + 2 * N + i] = c[i];
                            w[1 + 3 * N + i] = m[i];
                        }
                        w[1 + 4 * N] = if kind < 5 { st } else { sw };
                        w
                    })
                    .boxed()
            }
            pub fn strat_shift() -> BoxedStrategy<Vec<u64>> {
                (proptest::collection::vec(lattice::lat_int(BITS, SIGNED), N), count_strat(BITS), proptest::collection::vec(count_strat(BITS), N), 0u8..4, 0usize..N)
                    .prop_map(|(mut a, cs, cv, kind, p)| {
                        a.push(cs);
                        // kind 0: only lane p has an arbitrary count, the others stay inside the width (attributable panic)
                        for (i, c) in cv.iter().enumerate() {
                            let c = if kind == 0 && i != p { (*c as i64).rem_euclid(BITS as i64) as u64 } else { *c };
                            a.push(c);
                        }
                        a
                    })
                    .boxed()
            }
            pub fn strat_fold() -> BoxedStrategy<Vec<u64>> {
                let item = prop_oneof![
                    5 => (-3i128..=3).prop_map(|v| mk(BITS, if SIGNED { v } else { v.abs() })),
                    2 => (0i128..16).prop_map(|v| mk(BITS, v)),
                    2 => lattice::lat_int(BITS, SIGNED),
                ]
                .boxed();
                (0usize..=8)
                    .prop_flat_map(move |k| {
                        proptest::collection::vec(item.clone(), k * N).prop_map(move |v| {
                            let mut w = vec![k as u64];
                            w.extend(v);
                            w
                        })
                    })
                    .boxed()
            }

            /// one case of a pair sweep: the pair (x, y) in lane `p` and 1 elsewhere (p < N), or in all lanes
            /// shifted by a lane-dependent offset (p == N) so that every lane meets every pair
            #[inline]
            pub fn pair_words(mode: u64, p: usize, x: u64, y: u64) -> [u64; W] {
                let mask: u64 = if BITS == 64 { u64::MAX } else { (1u64 << BITS) - 1 };
                let mut w = [1u64; W];
                w[0] = mode;
                if p < N {
                    w[1 + p] = x;
                    w[1 + N + p] = y;
                    w[1 + 3 * N + p] = y;
                } else {
                    for j in 0..N {
                        let xj = x.wrapping_add(0x29 * j as u64).wrapping_add((0x1d01 * j as u64) & !0xff) & mask;
                        let yj = y.wrapping_add(0x59 * j as u64).wrapping_add((0x3b00 * j as u64) & !0xff) & mask;
                        w[1 + j] = xj;
                        w[1 + N + j] = yj;
                        w[1 + 3 * N + j] = yj;
                    }
                }
                // clamp's third operand: a cheap hash of the pair per lane
                for j in 0..N {
                    w[1 + 2 * N + j] = (w[1 + j].wrapping_mul(0x9E37_79B9_7F4A_7C15) ^ w[1 + N + j].rotate_left(17)).wrapping_mul(0xff51_afd7_ed55_8ccd) >> 7 & mask;
                }
                w[1 + 4 * N] = if p < N { y } else { w[1 + N] };
                w
            }

            pub fn subs<'a>(out: &mut Vec<SubCheck<'a>>) {
                out.push(SubCheck::new(
                    format!("lanewise/{}/{}", TY, VARIANT),
                    2,
                    |env: &mut Env| {
                        let q = if BITS <= 16 { 15_000 } else { 40_000 };
                        let n = env.cases(q, 30);
                        env.prop("lanewise", n, strat(), &check);
                    },
                    check,
                ));
                out.push(SubCheck::new(
                    format!("boundary-pairs/{}/{}", TY, VARIANT),
                    4,
                    |env: &mut Env| {
                        // every pair of boundary values in every lane position (and in all lanes at once), all operator forms
                        let bs = boundaries(BITS, SIGNED, env.args.tier == Tier::Thorough);
                        let l = bs.len() as u64;
                        let mut ev = 0u64;
                        for idx in env.my_range((N as u64 + 1) * l * l) {
                            let (p, x, y) = ((idx / (l * l)) as usize, bs[(idx / l % l) as usize], bs[(idx % l) as usize]);
                            let w = pair_words(0, p, x, y);
                            ev += 1;
                            if !env.direct(&w, &check_quiet) {
                                break;
                            }
                        }
                        env.tally.eval(ev);
                        env.tally.nontrivial_enum(ev);
                        env.tally.exhaustive = false;
                        env.tally.notes.insert("boundary_values".into(), json!(l));
                    },
                    check_quiet,
                ));
                out.push(SubCheck::new(
                    format!("shift/{}/{}", TY, VARIANT),
                    1,
                    |env: &mut Env| {
                        let n = env.cases(20_000, 30);
                        env.prop("shift", n, strat_shift(), &check_shift);
                    },
                    check_shift,
                ));
                out.push(SubCheck::new(
                    format!("shift-sweep/{}/{}", TY, VARIANT),
                    4,
                    |env: &mut Env| {
                        // boundary values (all values of the 8-bit types) x every count in -(width+2)..=width+2,
                        // in one lane at a time; the other lanes hold 1 and count 0
                        let vals: Vec<u64> = if BITS == 8 { (0..256).collect() } else { boundaries(BITS, SIGNED, env.args.tier == Tier::Thorough) };
                        let lim = BITS as i64 + 2;
                        let nc = (2 * lim + 1) as u64;
                        let l = vals.len() as u64;
                        let mut ev = 0u64;
                        for idx in env.my_range(N as u64 * l * nc) {
                            let (p, v, c) = ((idx / (l * nc)) as usize, vals[(idx / nc % l) as usize], (idx % nc) as i64 - lim);
                            let mut w = [0u64; 2 * N + 1];
                            for i in 0..N { w[i] = 1; }
                            w[p] = v;
                            w[N] = c as u64;
                            w[N + 1 + p] = c as u64;
                            ev += 1;
                            if !env.direct(&w, &check_shift_quiet) {
                                break;
                            }
                        }
                        env.tally.eval(ev);
                        env.tally.nontrivial_enum(ev);
                        env.tally.exhaustive = BITS == 8;
                        env.tally.notes.insert("values".into(), json!(l));
                    },
                    check_shift_quiet,
                ));
                out.push(SubCheck::new(
                    format!("fold/{}/{}", TY, VARIANT),
                    1,
                    |env: &mut Env| {
                        let n = env.cases(8_000, 30);
                        env.prop("fold", n, strat_fold(), &check_fold);
                    },
                    check_fold,
                ));
            }

            /// all 65 536 operand pairs of an 8-bit type, in every lane position and in all lanes at once
            pub fn sub_pairs8<'a>(out: &mut Vec<SubCheck<'a>>) {
                out.push(SubCheck::new(
                    format!("pairs8/{}/{}", TY, VARIANT),
                    8,
                    |env: &mut Env| {
                        let total = (N as u64 + 1) << 16;
                        let mut ev = 0u64;
                        let mut nt = 0u64;
                        for idx in env.my_range(total) {
                            let p = (idx >> 16) as usize;
                            let w = pair_words(1, p, (idx >> 8) & 0xff, idx & 0xff);
                            ev += 1;
                            nt += nontrivial(&arr(&w[1..1 + N]), &arr(&w[1 + N..1 + 2 * N])) as u64;
                            if !env.direct(&w, &check_quiet) {
                                break;
                            }
                        }
                        env.tally.eval(ev);
                        env.tally.nontrivial_enum(nt);
                        env.tally.exhaustive = true;
                    },
                    check_quiet,
                ));
            }

            /// operand pairs of a 16-bit type: strided in quick, all 2^32 in thorough (every lane meets every pair)
            pub fn sub_pairs16<'a>(out: &mut Vec<SubCheck<'a>>) {
                out.push(SubCheck::new(
                    format!("pairs16/{}/{}", TY, VARIANT),
                    16,
                    |env: &mut Env| {
                        // complete in the thorough tier at full scale, strided otherwise
                        let stride: u64 = if env.args.tier != Tier::Thorough { 4099 } else if env.args.scale >= 1.0 { 1 } else { 16 };
                        let total: u64 = (1u64 << 32) / stride;
                        let offset = mix(env.args.seed, 1613) % stride;
                        let mut ev = 0u64;
                        let mut nt = 0u64;
                        for idx in env.my_range(total) {
                            let pr = idx * stride + offset;
                            // complete sweep: the operations of `a` alone only on every 64th pair
                            let mode = if stride == 1 && idx & 63 != 0 { 3 } else { 2 };
                            let w = pair_words(mode, N, (pr >> 16) & 0xffff, pr & 0xffff);
                            ev += 1;
                            nt += nontrivial(&arr(&w[1..1 + N]), &arr(&w[1 + N..1 + 2 * N])) as u64;
                            if !env.direct(&w, &check_fast) {
                                break;
                            }
                        }
                        env.tally.eval(ev);
                        env.tally.nontrivial_enum(nt);
                        env.tally.exhaustive = stride == 1;
                        env.tally.notes.insert("stride".into(), json!(stride));
                        env.tally.notes.insert("overflow_panicking_ops_skipped".into(), json!(ovf()));
                    },
                    check_quiet,
                ));
            }
        }
    };
}

//        module    vector     lane  N  sign unsigned-result  has-mixed  counterpart vector/lane  shift-count vectors
int_type!(i8vec2, I8Vec2, i8, 2, s, u8, y, U8Vec2, u8, IVec2, UVec2);
int_type!(i8vec3, I8Vec3, i8, 3, s, u8, y, U8Vec3, u8, IVec3, UVec3);
int_type!(i8vec4, I8Vec4, i8, 4, s, u8, y, U8Vec4, u8, IVec4, UVec4);
int_type!(u8vec2, U8Vec2, u8, 2, u, u8, y, I8Vec2, i8, IVec2, UVec2);
int_type!(u8vec3, U8Vec3, u8, 3, u, u8, y, I8Vec3, i8, IVec3, UVec3);
int_type!(u8vec4, U8Vec4, u8, 4, u, u8, y, I8Vec4, i8, IVec4, UVec4);
int_type!(i16vec2, I16Vec2, i16, 2, s, u16, y, U16Vec2, u16, IVec2, UVec2);
int_type!(i16vec3, I16Vec3, i16, 3, s, u16, y, U16Vec3, u16, IVec3, UVec3);
int_type!(i16vec4, I16Vec4, i16, 4, s, u16, y, U16Vec4, u16, IVec4, UVec4);
int_type!(u16vec2, U16Vec2, u16, 2, u, u16, y, I16Vec2, i16, IVec2, UVec2);
int_type!(u16vec3, U16Vec3, u16, 3, u, u16, y, I16Vec3, i16, IVec3, UVec3);
int_type!(u16vec4, U16Vec4, u16, 4, u, u16, y, I16Vec4, i16, IVec4, UVec4);
int_type!(ivec2, IVec2, i32, 2, s, u32, y, UVec2, u32, IVec2, UVec2);
int_type!(ivec3, IVec3, i32, 3, s, u32, y, UVec3, u32, IVec3, UVec3);
int_type!(ivec4, IVec4, i32, 4, s, u32, y, UVec4, u32, IVec4, UVec4);
int_type!(uvec2, UVec2, u32, 2, u, u32, y, IVec2, i32, IVec2, UVec2);
int_type!(uvec3, UVec3, u32, 3, u, u32, y, IVec3, i32, IVec3, UVec3);
int_type!(uvec4, UVec4, u32, 4, u, u32, y, IVec4, i32, IVec4, UVec4);
int_type!(i64vec2, I64Vec2, i64, 2, s, u64, y, U64Vec2, u64, IVec2, UVec2);
int_type!(i64vec3, I64Vec3, i64, 3, s, u64, y, U64Vec3, u64, IVec3, UVec3);
int_type!(i64vec4, I64Vec4, i64, 4, s, u64, y, U64Vec4, u64, IVec4, UVec4);
int_type!(u64vec2, U64Vec2, u64, 2, u, u64, y, I64Vec2, i64, IVec2, UVec2);
int_type!(u64vec3, U64Vec3, u64, 3, u, u64, y, I64Vec3, i64, IVec3, UVec3);
int_type!(u64vec4, U64Vec4, u64, 4, u, u64, y, I64Vec4, i64, IVec4, UVec4);
int_type!(usizevec2, USizeVec2, usize, 2, u, usize, n, USizeVec2, usize, IVec2, UVec2);
int_type!(usizevec3, USizeVec3, usize, 3, u, usize, n, USizeVec3, usize, IVec3, UVec3);
int_type!(usizevec4, USizeVec4, usize, 4, u, usize, n, USizeVec4, usize, IVec4, UVec4);

pub fn subs<'a>(args: &Args) -> Vec<SubCheck<'a>> {
    let mut out = vec![];
    // the heavy enumerations first so that they overlap with everything else
    i16vec2::sub_pairs16(&mut out);
    i16vec3::sub_pairs16(&mut out);
    i16vec4::sub_pairs16(&mut out);
    u16vec2::sub_pairs16(&mut out);
    u16vec3::sub_pairs16(&mut out);
    u16vec4::sub_pairs16(&mut out);
    i8vec2::sub_pairs8(&mut out);
    i8vec3::sub_pairs8(&mut out);
    i8vec4::sub_pairs8(&mut out);
    u8vec2::sub_pairs8(&mut out);
    u8vec3::sub_pairs8(&mut out);
    u8vec4::sub_pairs8(&mut out);
    i8vec2::subs(&mut out);
    i8vec3::subs(&mut out);
    i8vec4::subs(&mut out);
    u8vec2::subs(&mut out);
    u8vec3::subs(&mut out);
    u8vec4::subs(&mut out);
    i16vec2::subs(&mut out);
    i16vec3::subs(&mut out);
    i16vec4::subs(&mut out);
    u16vec2::subs(&mut out);
    u16vec3::subs(&mut out);
    u16vec4::subs(&mut out);
    ivec2::subs(&mut out);
    ivec3::subs(&mut out);
    ivec4::subs(&mut out);
    uvec2::subs(&mut out);
    uvec3::subs(&mut out);
    uvec4::subs(&mut out);
    i64vec2::subs(&mut out);
    i64vec3::subs(&mut out);
    i64vec4::subs(&mut out);
    u64vec2::subs(&mut out);
    u64vec3::subs(&mut out);
    u64vec4::subs(&mut out);
    usizevec2::subs(&mut out);
    usizevec3::subs(&mut out);
    usizevec4::subs(&mut out);
    // what the build is, and what was deliberately left to other properties
    let build = args.build.clone();
    out.push(SubCheck::new(
        format!("profile/{}", VARIANT),
        1,
        move |env: &mut Env| {
            env.tally.eval(1);
            env.tally.notes.insert("build".into(), json!(build));
            env.tally.notes.insert("harness_overflow_checks".into(), json!(ovf()));
            env.tally.notes.insert("glam_overflow_checks".into(), json!(glam_ovf()));
            env.tally.notes.insert("debug_assertions".into(), json!(cfg!(debug_assertions)));
            env.tally.notes.insert(
                "api_skipped".into(),
                json!("not part of C13: new/consts/map/select/from_slice/write_to_slice/extend/truncate/with_*/Index/AsRef/AsMut/Display/Debug/Default (moves and formatting), \
                       as_* casts and From/TryFrom (C14), select and the mask types behind cmp* (C15/C17; the cmp* bitmasks and ==/!= are compared here), swizzles (C16). \
                       Covered beyond the statement's list: cross, perp, perp_dot, rotate, dot_into_vec, is_negative_bitmask"),
            );
        },
        |_w: &[u64], _t: &mut Tally| Ok(()),
    ));
    out
}
