// Included once per glam variant (`glam` is aliased by the including module).
#[allow(unused_imports)]
use super::refm::{self, dd, M3, Q};
#[allow(unused_imports)]
use super::Fl;
#[allow(unused_imports)]
use glam::{
    Affine2, Affine3A, DAffine2, DAffine3, DMat2, DMat3, DMat4, DQuat, DVec2, DVec3, EulerRot, Mat2, Mat3, Mat3A, Mat4, Quat, Vec2, Vec3,
};
use proptest::prelude::*;
use serde_json::json;
use vcore::*;

/// a glam 3x3 block as exact f64 values, row-major
type G3 = [[f64; 3]; 3];
type G2 = [[f64; 2]; 2];

fn fail(ty: &str, op: &str, msg: String) -> Fail {
    Fail::new(format!("C09/{}/{}/{}", VARIANT, ty, op), op.to_string(), msg)
}

/// The names ARE the specification: `refm::order` parses the axis letters and the `Ex` suffix.
macro_rules! orders {
    ($($n:ident),*) => { pub const ORDERS: [(&str, EulerRot); 24] = [$((stringify!($n), EulerRot::$n)),*]; };
}
orders!(
    ZYX, ZXY, YXZ, YZX, XYZ, XZY, ZYZ, ZXZ, YXY, YZY, XYX, XZX, ZYXEx, ZXYEx, YXZEx, YZXEx, XYZEx, XZYEx, ZYZEx, ZXZEx, YXYEx, YZYEx,
    XYXEx, XZXEx
);

#[inline]
fn fin(w: u64) -> f64 {
    let x = f64::from_bits(w);
    if x.is_finite() {
        x
    } else {
        0.0
    }
}

fn g3_from_cols9<T: Fl>(a: &[T; 9]) -> G3 {
    let mut g = [[0.0; 3]; 3];
    for c in 0..3 {
        for r in 0..3 {
            g[r][c] = a[c * 3 + r].to_f64();
        }
    }
    g
}
/// 4x4 homogeneous: the upper-left block; last row and column must be exactly (0,0,0,1)
fn g3_from_cols16<T: Fl>(a: &[T; 16], ty: &str, op: &str) -> Result<G3, Fail> {
    let mut g = [[0.0; 3]; 3];
    for c in 0..4 {
        for r in 0..4 {
            let v = a[c * 4 + r].to_f64();
            if r < 3 && c < 3 {
                g[r][c] = v;
            } else {
                let e = if r == 3 && c == 3 { 1.0 } else { 0.0 };
                if v != e {
                    return Err(fail(ty, op, format!("homogeneous border entry (row {r}, col {c}) is {v:e}, expected {e}")));
                }
            }
        }
    }
    Ok(g)
}
/// 3x4 affine: matrix3 then translation, which must be exactly zero
fn g3_from_cols12<T: Fl>(a: &[T; 12], ty: &str, op: &str) -> Result<G3, Fail> {
    let mut g = [[0.0; 3]; 3];
    for c in 0..3 {
        for r in 0..3 {
            g[r][c] = a[c * 3 + r].to_f64();
        }
    }
    for r in 0..3 {
        if a[9 + r].to_f64() != 0.0 {
            return Err(fail(ty, op, format!("translation[{r}] of a pure rotation is {:e}", a[9 + r].to_f64())));
        }
    }
    Ok(g)
}
fn g2_from_cols4<T: Fl>(a: &[T; 4]) -> G2 {
    [[a[0].to_f64(), a[2].to_f64()], [a[1].to_f64(), a[3].to_f64()]]
}
/// 3x3 homogeneous 2D transform: last row and column must be exactly (0,0,1)
fn g2_from_h9<T: Fl>(a: &[T; 9], ty: &str, op: &str) -> Result<G2, Fail> {
    let mut g = [[0.0; 2]; 2];
    for c in 0..3 {
        for r in 0..3 {
            let v = a[c * 3 + r].to_f64();
            if r < 2 && c < 2 {
                g[r][c] = v;
            } else {
                let e = if r == 2 && c == 2 { 1.0 } else { 0.0 };
                if v != e {
                    return Err(fail(ty, op, format!("homogeneous border entry (row {r}, col {c}) is {v:e}, expected {e}")));
                }
            }
        }
    }
    Ok(g)
}
fn g2_from_cols6<T: Fl>(a: &[T; 6], ty: &str, op: &str) -> Result<G2, Fail> {
    for r in 0..2 {
        if a[4 + r].to_f64() != 0.0 {
            return Err(fail(ty, op, format!("translation[{r}] of a pure rotation is {:e}", a[4 + r].to_f64())));
        }
    }
    Ok([[a[0].to_f64(), a[2].to_f64()], [a[1].to_f64(), a[3].to_f64()]])
}
fn m3_of(g: &G3) -> M3 {
    let mut m = [[refm::Z; 3]; 3];
    for r in 0..3 {
        for c in 0..3 {
            m[r][c] = dd(g[r][c]);
        }
    }
    m
}
fn q_of(a: &[f64; 4]) -> Q {
    [dd(a[0]), dd(a[1]), dd(a[2]), dd(a[3])]
}

/// |got - ref| <= ku * S + extra for every entry (S = 1 when no term-sum matrix is given)
fn cmp3(t: &mut Tally, key: &str, ty: &str, op: &str, got: &G3, exp: &M3, s: Option<&M3>, ku: f64, extra: f64, ctx: &dyn Fn() -> String) -> Result<(), Fail> {
    let mut worst = 0.0f64;
    for r in 0..3 {
        for c in 0..3 {
            let err = dd(got[r][c]).sub(exp[r][c]).abs().f();
            let tol = ku * s.map_or(1.0, |s| s[r][c].f()) + extra;
            if !(err <= tol) {
                return Err(fail(ty, op, format!("entry (row {r}, col {c}) = {:e}, reference {:e}, |diff| {:.3e} > tolerance {:.3e}; {}", got[r][c], exp[r][c].f(), err, tol, ctx())));
            }
            if tol > 0.0 {
                worst = worst.max(err / tol);
            }
        }
    }
    t.ratio(key, worst);
    Ok(())
}

fn cmp2(t: &mut Tally, key: &str, ty: &str, op: &str, got: &G2, s: (vcore::num::DD, vcore::num::DD), ku: f64, ctx: &dyn Fn() -> String) -> Result<(), Fail> {
    // reference [[c, -s], [s, c]], each entry a single trigonometric value: tolerance ku * |value|
    let (sn, cs) = s;
    let exp = [[cs, sn.neg()], [sn, cs]];
    let mut worst = 0.0f64;
    for r in 0..2 {
        for c in 0..2 {
            let err = dd(got[r][c]).sub(exp[r][c]).abs().f();
            let tol = ku * exp[r][c].abs().f();
            if !(err <= tol) {
                return Err(fail(ty, op, format!("entry (row {r}, col {c}) = {:e}, reference {:e}, |diff| {:.3e} > tolerance {:.3e}; {}", got[r][c], exp[r][c].f(), err, tol, ctx())));
            }
            if tol > 0.0 {
                worst = worst.max(err / tol);
            }
        }
    }
    t.ratio(key, worst);
    Ok(())
}

/// quaternion equal to the reference up to the common sign: |(+-got) - ref| <= ku * S + extra per component
fn cmpq(t: &mut Tally, key: &str, ty: &str, op: &str, got: &[f64; 4], exp: &Q, s: Option<&Q>, ku: f64, extra: f64, ctx: &dyn Fn() -> String) -> Result<(), Fail> {
    // per sign: (worst err/tol ratio, first failing component or 9, its err, its tol)
    let mut res = [(0.0f64, 9usize, 0.0f64, 0.0f64); 2];
    for (si, sign) in [1.0f64, -1.0].iter().enumerate() {
        for i in 0..4 {
            let err = dd(sign * got[i]).sub(exp[i]).abs().f();
            let tol = ku * s.map_or(1.0, |s| s[i].f()) + extra;
            let ok = err <= tol;
            let r = if ok { if tol > 0.0 { err / tol } else { 0.0 } } else { f64::INFINITY };
            if !ok && res[si].1 == 9 {
                res[si] = (f64::INFINITY, i, err, tol);
            }
            if r > res[si].0 {
                res[si].0 = r;
            }
        }
    }
    // the better of the two signs; when both fail report the one whose first failing component is closer
    let pick = if res[0].0 < res[1].0 {
        0
    } else if res[1].0 < res[0].0 {
        1
    } else if res[0].2 <= res[1].2 {
        0
    } else {
        1
    };
    let (worst, bi, err, tol) = res[pick];
    if bi != 9 {
        return Err(fail(ty, op, format!("quaternion [x,y,z,w] = {:?}, reference +-{:?}, component {bi}: |diff| {:.3e} > tolerance {:.3e}; {}", got, [exp[0].f(), exp[1].f(), exp[2].f(), exp[3].f()], err, tol, ctx())));
    }
    t.ratio(key, worst);
    Ok(())
}

/// orthonormal columns and determinant +1, relative to what the reference itself deviates by
fn proper(t: &mut Tally, key_o: &str, key_d: &str, ty: &str, op: &str, g: &G3, ref_dev: (f64, f64), tol: f64, ctx: &dyn Fn() -> String) -> Result<(), Fail> {
    let (o, d) = refm::proper_dev(&m3_of(g));
    let (to, td) = (tol + ref_dev.0, tol + ref_dev.1);
    if !(o <= to) {
        return Err(fail(ty, op, format!("not orthonormal: max |M^T M - I| = {:.3e} > {:.3e}; {}", o, to, ctx())));
    }
    if !(d <= td) {
        return Err(fail(ty, op, format!("determinant deviates from +1 by {:.3e} > {:.3e}; {}", d, td, ctx())));
    }
    t.ratio(key_o, o / to);
    t.ratio(key_d, d / td);
    Ok(())
}

const DECADES: [&str; 18] = [
    "d>=1e-1", "d~1e-2", "d~1e-3", "d~1e-4", "d~1e-5", "d~1e-6", "d~1e-7", "d~1e-8", "d~1e-9", "d~1e-10", "d~1e-11", "d~1e-12", "d~1e-13", "d~1e-14",
    "d~1e-15", "d~1e-16", "d~1e-17", "d<1e-17",
];
fn decade(d: f64) -> &'static str {
    if !(d > 0.0) {
        return DECADES[17];
    }
    let i = (-d.log10()).floor();
    DECADES[(i.max(0.0) as usize).min(17)]
}

fn angle_class(th: f64) -> &'static str {
    let a = th.abs();
    if a == 0.0 {
        "angle:zero"
    } else if a < 1e-3 {
        "angle:tiny(<1e-3)"
    } else if a <= 4.0 * std::f64::consts::PI + 1e-6 {
        let q = a / std::f64::consts::FRAC_PI_2;
        if (q - q.round()).abs() < 2e-3 {
            "angle:near-multiple-of-pi/2"
        } else {
            "angle:dense[-4pi,4pi]"
        }
    } else if a < 1e2 {
        "angle:huge<1e2"
    } else if a < 1e4 {
        "angle:huge<1e4"
    } else {
        "angle:huge<=1e6"
    }
}

/// angles: dense in [-4pi, 4pi], multiples of pi/2 (exact and nearby), huge up to 1e6, tiny, zero
fn angle_strat() -> BoxedStrategy<f64> {
    let pi = std::f64::consts::PI;
    prop_oneof![
        8 => -4.0 * pi..4.0 * pi,
        1 => (-8i32..=8, -1e-3f64..1e-3).prop_map(|(m, e)| m as f64 * std::f64::consts::FRAC_PI_2 + e),
        1 => (-8i32..=8).prop_map(|m| m as f64 * std::f64::consts::FRAC_PI_2),
        2 => (any::<bool>(), 1.1f64..6.0).prop_map(|(n, e)| if n { -(10f64.powf(e)) } else { 10f64.powf(e) }),
        1 => (any::<bool>(), -8.0f64..-3.0).prop_map(|(n, e)| if n { -(10f64.powf(e)) } else { 10f64.powf(e) }),
        1 => Just(0.0f64),
    ]
    .boxed()
}

/// middle Euler angle: dense, or at a singular value of either family (+-pi/2; 0, +-pi) +- an offset of
/// exactly 0, 10^-k (k = 2..kmax) or log-uniform in between
fn mid_strat(kmax: i32, family: Option<bool>) -> BoxedStrategy<f64> {
    let pi = std::f64::consts::PI;
    let base = match family {
        None => prop_oneof![Just(pi / 2.0), Just(-pi / 2.0), Just(0.0), Just(pi), Just(-pi)].boxed(),
        Some(false) => prop_oneof![Just(pi / 2.0), Just(-pi / 2.0)].boxed(),
        Some(true) => prop_oneof![Just(0.0), Just(pi), Just(-pi)].boxed(),
    };
    let off = prop_oneof![
        1 => Just(0.0f64),
        3 => (2i32..=kmax, any::<bool>()).prop_map(|(k, n)| if n { -(10f64.powi(-k)) } else { 10f64.powi(-k) }),
        3 => (-(kmax as f64) - 0.5..-2.0f64, any::<bool>()).prop_map(|(e, n)| if n { -(10f64.powf(e)) } else { 10f64.powf(e) }),
    ];
    prop_oneof![
        2 => -pi..pi,
        5 => (base, off).prop_map(|(b, o)| b + o),
    ]
    .boxed()
}

macro_rules! family {
    ($m:ident, $T:ident, $Q:ident, $V3:ident, $V2:ident, $M2:ident, $M3:ident, $M3A:ident, $M4:ident, $A2:ident, $A3:ident, $has3a:expr, $kmax:expr) => {
        pub mod $m {
            use super::*;
            pub type T = $T;
            pub const FAM: &str = <T as Fl>::FAM;
            pub const U: f64 = <T as Fl>::U;
            /// smallest positive normal value and smallest subnormal of the scalar type
            pub const MIN_POS: f64 = if <T as Fl>::U > 1e-10 { 1.1754943508222875e-38 } else { 2.2250738585072014e-308 };
            pub const TINY_ABS: f64 = if <T as Fl>::U > 1e-10 { 1.401298464324817e-45 } else { 5e-324 };
            pub const HAS3A: bool = $has3a;
            pub const KMAX: i32 = $kmax;
            const TQ: &str = stringify!($Q);
            const TM2: &str = stringify!($M2);
            const TM3: &str = stringify!($M3);
            const TM3A: &str = stringify!($M3A);
            const TM4: &str = stringify!($M4);
            const TA2: &str = stringify!($A2);
            const TA3: &str = stringify!($A3);
            const TV2: &str = stringify!($V2);

            // Tolerance constants (DESIGN.md section 4: k = operations on the longest path + 2, times u, times the
            // sum of the absolute values of the terms; sin/cos are counted as one operation with <= 1 ulp = 2u error).
            /// Rodrigues entry a_i a_j (1 - cos) + a_k sin, relative to S = |a_i a_j| (1 + |cos|) + |a_k sin|: cos (1 ulp = 2u),
            /// 1 - cos (u), a_i a_j (u), their product (u), the sine term (2u + u), the sum (u) -> <= 6u S; twice that
            /// (first calibration with k = 8 showed headroom 0.42 over 8 seeds, too close to the limit for a 6u bound)
            const K_AA: f64 = 12.0;
            /// axis-angle quaternion component a_i * sin(angle/2): sin (<= 1 ulp = 2u) + product (u) = 3u, + 2 -> 5, rounded up
            const K_AAQ: f64 = 6.0;
            /// literal single-axis patterns: one trigonometric value per entry (1 ulp = 2u) + 2
            const K_EL: f64 = 4.0;
            /// Vec2::rotate of Vec2::from_angle: trigonometric value (2u) + product (u) per term, difference (u) -> <= 4u S; twice that
            const K_V2: f64 = 8.0;
            /// Euler matrix / quaternion entries are sums of monomials of up to three trigonometric factors: three factors
            /// (<= 1 ulp = 2u each) + two products + one sum = 9u relative to the sum of |monomials|, + 2 -> 11, rounded up
            /// (first calibration with "sin_cos = one operation", k = 8, gave headroom 0.56: the derivation was revisited)
            const K_EU: f64 = 12.0;
            /// Euler extraction round trip from a MATRIX, multiplies u * (1 + 1/d) (DESIGN calibration: worst observed 2.3)
            const K_RT: f64 = 8.0;
            /// ... from a QUATERNION q: to_euler first forms Mat3::from_quat(q). Near the singularity the two entry pairs the
            /// outer angles are read from are O(d) and come out of cancellations: the diagonal 1 - (xx + yy) carries <= 2u
            /// of rounding plus nu = | |q|^2 - 1 | (from_quat assumes a unit quaternion; quaternions made by from_euler are
            /// unit only to ~3u), the off-diagonal yz - wx <= 0.5u. Each outer angle atan2(d sin, d cos) turns that into
            /// (2.1u + nu)/d, both add up in the rebuilt matrix: (4.2u + 2 nu)/d, on top of the matrix extraction itself.
            /// Tolerance: ((K_RT + 8) u + 4 nu) (1 + 1/d)  (twice the bound; nu is computed exactly per case).
            /// (First calibration with a flat k = 24 reached headroom 0.50 on self-produced quaternions: revisited.)
            const K_RT_Q: f64 = K_RT + 8.0;
            /// to_axis_angle rebuild in quaternion space: half angle atan2(|v|, w) <= pi carries 1 ulp (2*pi*u) + the 2.5u of
            /// |v| (1.25u), the axis v/|v| 3.5u -> <= 11u; the tolerance is twice that bound, rounded up
            const K_X: f64 = 24.0;

            fn q_arr(q: $Q) -> [f64; 4] {
                let a = q.to_array();
                [a[0].to_f64(), a[1].to_f64(), a[2].to_f64(), a[3].to_f64()]
            }

            // ------------------------------------------------------------------ (1) constructors
            /// words: axis kind (0 general, 1..6 = +X,-X,+Y,-Y,+Z,-Z), z, phi, angle, vx, vy   (f64 bit patterns)
            pub fn check_ctor(w: &[u64], t: &mut Tally) -> Result<(), Fail> {
                let kind = w[0].min(6) as usize;
                let a64 = if kind == 0 {
                    refm::sphere_point(fin(w[1]), fin(w[2]))
                } else {
                    let mut a = [0.0; 3];
                    a[(kind - 1) / 2] = if kind % 2 == 1 { 1.0 } else { -1.0 };
                    a
                };
                // the axis is normalised in the precision of the type, as a caller would do it (unit to ~1.5u)
                let at: [T; 3] = if kind == 0 { T::normalize3([T::from_f64(a64[0]), T::from_f64(a64[1]), T::from_f64(a64[2])]) } else { [T::from_f64(a64[0]), T::from_f64(a64[1]), T::from_f64(a64[2])] };
                let angle: T = T::from_f64(fin(w[3]));
                let vv: [T; 2] = [T::from_f64(fin(w[4])), T::from_f64(fin(w[5]))];
                let a = [at[0].to_f64(), at[1].to_f64(), at[2].to_f64()];
                let th = angle.to_f64();
                t.eval(1);
                let acl = angle_class(th);
                t.class(acl);
                t.class(["axis:general", "axis:+X", "axis:-X", "axis:+Y", "axis:-Y", "axis:+Z", "axis:-Z"][kind]);
                let huge = acl.starts_with("angle:huge");
                let q4 = th / std::f64::consts::FRAC_PI_2;
                if kind == 0 && (q4 - q4.round()).abs() > 1e-6 {
                    t.nontrivial(mix(hash_str(FAM), mix(hash_str(VARIANT), fnv(&[at[0].bits(), at[1].bits(), at[2].bits(), angle.bits()]))));
                    if t.want_sample() {
                        t.sample(json!({"sub": "rot-ctor", "family": FAM, "variant": VARIANT, "axis": format!("{:?}", at), "angle": format!("{:?}", angle), "words": hexwords(w)}));
                    }
                }
                // ---- reference: Rodrigues formula from the stored axis and angle
                let (s, c) = refm::sincos(dd(th));
                let (sh, ch) = refm::sincos(dd(th * 0.5));
                let (rm, rs) = refm::rodrigues(a, s, c);
                let rdev = refm::proper_dev(&rm);
                let an = dd(a[0]).mul(dd(a[0])).add(dd(a[1]).mul(dd(a[1]))).add(dd(a[2]).mul(dd(a[2]))).sqrt();
                let delta = an.sub(refm::ONE).abs().f();
                let ctx = || format!("axis={:?} angle={:?} ({:e})", at, angle, th);
                let ax = $V3::new(at[0], at[1], at[2]);

                // ---- from_axis_angle, matrix forms
                let mut forms: Vec<(&'static str, G3)> = Vec::with_capacity(4);
                forms.push((TM3, g3_from_cols9(&$M3::from_axis_angle(ax, angle).to_cols_array())));
                if HAS3A {
                    forms.push((TM3A, g3_from_cols9(&$M3A::from_axis_angle(ax, angle).to_cols_array())));
                }
                forms.push((TM4, g3_from_cols16(&$M4::from_axis_angle(ax, angle).to_cols_array(), TM4, "from_axis_angle")?));
                forms.push((TA3, g3_from_cols12(&$A3::from_axis_angle(ax, angle).to_cols_array(), TA3, "from_axis_angle")?));
                for (ty, g) in &forms {
                    cmp3(t, if huge { "ctor/axis-angle-mat@huge" } else { "ctor/axis-angle-mat" }, ty, "from_axis_angle", g, &rm, Some(&rs), K_AA * U, 0.0, &ctx)?;
                    // |d(M^T M)| <= 2*sqrt(3)*max|dM|, |d det| <= 3*max|dM|(1+..): 4 * (K_AA*u*3) covers both (S <= 3)
                    proper(t, "ctor/orthonormal", "ctor/det", ty, "from_axis_angle", g, rdev, 12.0 * K_AA * U, &ctx)?;
                }
                // all forms agree with each other (implied by the above up to 2x; checked explicitly)
                for i in 1..forms.len() {
                    cmp3(t, "ctor/forms-agree", forms[i].0, "from_axis_angle(vs Mat3)", &forms[i].1, &m3_of(&forms[0].1), Some(&rs), 2.0 * K_AA * U, 0.0, &ctx)?;
                }
                // ---- from_axis_angle, quaternion: (axis * sin(angle/2), cos(angle/2)) up to the common sign
                let qref: Q = [dd(a[0]).mul(sh), dd(a[1]).mul(sh), dd(a[2]).mul(sh), ch];
                let qs = refm::qabs(&qref);
                let q = q_arr($Q::from_axis_angle(ax, angle));
                cmpq(t, if huge { "ctor/axis-angle-quat@huge" } else { "ctor/axis-angle-quat" }, TQ, "from_axis_angle", &q, &qref, Some(&qs), K_AAQ * U, 0.0, &ctx)?;
                {
                    let n = refm::qnorm(&q_of(&q)).sub(refm::ONE).abs().f();
                    let tol = 2.0 * K_AAQ * U + delta;
                    if !(n <= tol) {
                        return Err(fail(TQ, "from_axis_angle", format!("not a unit quaternion: | |q| - 1 | = {:.3e} > {:.3e}; {}", n, tol, ctx())));
                    }
                    t.ratio("ctor/unit-quat", n / tol);
                    // through its action: the rotation of q equals the Rodrigues matrix (dR <= 4 |dq|, non-unit axis adds <= 4 delta)
                    let qm = refm::q_to_m3(&q_of(&q));
                    let e = refm::max_abs_diff(&qm, &rm);
                    let tol = 4.0 * K_AAQ * U + 4.0 * delta;
                    if !(e <= tol) {
                        return Err(fail(TQ, "from_axis_angle", format!("rotation of the quaternion differs from the Rodrigues matrix by {:.3e} > {:.3e}; q={:?}; {}", e, tol, q, ctx())));
                    }
                    t.ratio("ctor/quat-action", e / tol);
                }
                // ---- from_scaled_axis(axis * angle): reference from the STORED product vector v: angle |v| about v/|v|.
                // |v| computed in the type (3 squares, 2 sums, sqrt) carries <= 2.5u relative error, i.e. 1.25u|v| in the half
                // angle (observed 1.03u|v|); v/|v| carries 3.5u: tolerance (8 + 2.5|v|) u.
                {
                    let v: [T; 3] = [at[0].mul(angle), at[1].mul(angle), at[2].mul(angle)];
                    let vd = [dd(v[0].to_f64()), dd(v[1].to_f64()), dd(v[2].to_f64())];
                    let len = vd[0].mul(vd[0]).add(vd[1].mul(vd[1])).add(vd[2].mul(vd[2])).sqrt();
                    let q = q_arr($Q::from_scaled_axis($V3::new(v[0], v[1], v[2])));
                    let qref: Q = if len.f() == 0.0 {
                        [refm::Z, refm::Z, refm::Z, refm::ONE]
                    } else {
                        let (sh, ch) = refm::sincos(refm::scale2(len, 0.5));
                        [vd[0].div(len).mul(sh), vd[1].div(len).mul(sh), vd[2].div(len).mul(sh), ch]
                    };
                    let tol = if len.f() == 0.0 { 0.0 } else { (8.0 + 2.5 * len.f()) * U };
                    cmpq(t, if huge { "ctor/scaled-axis@huge" } else { "ctor/scaled-axis" }, TQ, "from_scaled_axis", &q, &qref, None, 0.0, tol, &|| format!("v={:?}; {}", v, ctx()))?;
                }
                // ---- from_rotation_x / y / z: the literal single-axis patterns, every form
                let fq: [fn(T) -> $Q; 3] = [$Q::from_rotation_x, $Q::from_rotation_y, $Q::from_rotation_z];
                let fm3: [fn(T) -> $M3; 3] = [$M3::from_rotation_x, $M3::from_rotation_y, $M3::from_rotation_z];
                let fm3a: [fn(T) -> $M3A; 3] = [$M3A::from_rotation_x, $M3A::from_rotation_y, $M3A::from_rotation_z];
                let fm4: [fn(T) -> $M4; 3] = [$M4::from_rotation_x, $M4::from_rotation_y, $M4::from_rotation_z];
                let fa3: [fn(T) -> $A3; 3] = [$A3::from_rotation_x, $A3::from_rotation_y, $A3::from_rotation_z];
                const OPS: [&str; 3] = ["from_rotation_x", "from_rotation_y", "from_rotation_z"];
                for k in 0..3 {
                    let e = refm::elementary(k, s, c);
                    let es = refm::abs3(&e);
                    let edev = refm::proper_dev(&e);
                    let key = if huge { "ctor/rotation-xyz-mat@huge" } else { "ctor/rotation-xyz-mat" };
                    let mut fs: Vec<(&'static str, G3)> = Vec::with_capacity(4);
                    fs.push((TM3, g3_from_cols9(&fm3[k](angle).to_cols_array())));
                    if HAS3A {
                        fs.push((TM3A, g3_from_cols9(&fm3a[k](angle).to_cols_array())));
                    }
                    fs.push((TM4, g3_from_cols16(&fm4[k](angle).to_cols_array(), TM4, OPS[k])?));
                    fs.push((TA3, g3_from_cols12(&fa3[k](angle).to_cols_array(), TA3, OPS[k])?));
                    for (ty, g) in &fs {
                        cmp3(t, key, ty, OPS[k], g, &e, Some(&es), K_EL * U, 0.0, &ctx)?;
                        proper(t, "ctor/orthonormal", "ctor/det", ty, OPS[k], g, edev, 4.0 * K_EL * U, &ctx)?;
                    }
                    let qe = refm::q_elementary(k, sh, ch);
                    let q = q_arr(fq[k](angle));
                    cmpq(t, if huge { "ctor/rotation-xyz-quat@huge" } else { "ctor/rotation-xyz-quat" }, TQ, OPS[k], &q, &qe, Some(&refm::qabs(&qe)), K_EL * U, 0.0, &ctx)?;
                }
                // ---- 2D: from_angle on Mat2, Mat3 (homogeneous), Mat3A, Affine2; Vec2::from_angle + rotate
                {
                    let key = if huge { "ctor/2d@huge" } else { "ctor/2d" };
                    cmp2(t, key, TM2, "from_angle", &g2_from_cols4(&$M2::from_angle(angle).to_cols_array()), (s, c), K_EL * U, &ctx)?;
                    cmp2(t, key, TM3, "from_angle", &g2_from_h9(&$M3::from_angle(angle).to_cols_array(), TM3, "from_angle")?, (s, c), K_EL * U, &ctx)?;
                    if HAS3A {
                        cmp2(t, key, TM3A, "from_angle", &g2_from_h9(&$M3A::from_angle(angle).to_cols_array(), TM3A, "from_angle")?, (s, c), K_EL * U, &ctx)?;
                    }
                    cmp2(t, key, TA2, "from_angle", &g2_from_cols6(&$A2::from_angle(angle).to_cols_array(), TA2, "from_angle")?, (s, c), K_EL * U, &ctx)?;
                    let r = $V2::from_angle(angle);
                    let ra = r.to_array();
                    let (ec, es) = (dd(ra[0].to_f64()).sub(c).abs().f(), dd(ra[1].to_f64()).sub(s).abs().f());
                    let (tc, ts) = (K_EL * U * c.abs().f(), K_EL * U * s.abs().f());
                    if !(ec <= tc && es <= ts) {
                        return Err(fail(TV2, "from_angle", format!("got {:?}, reference (cos, sin) = ({:e}, {:e}); {}", ra, c.f(), s.f(), ctx())));
                    }
                    if tc > 0.0 {
                        t.ratio(key, ec / tc);
                    }
                    if ts > 0.0 {
                        t.ratio(key, es / ts);
                    }
                    // from_angle(a).rotate(v) == R(a) v
                    let got = r.rotate($V2::new(vv[0], vv[1])).to_array();
                    let (vx, vy) = (dd(vv[0].to_f64()), dd(vv[1].to_f64()));
                    let ex = [c.mul(vx).sub(s.mul(vy)), s.mul(vx).add(c.mul(vy))];
                    let sx = [c.mul(vx).abs().add(s.mul(vy).abs()), s.mul(vx).abs().add(c.mul(vy).abs())];
                    for i in 0..2 {
                        let err = dd(got[i].to_f64()).sub(ex[i]).abs().f();
                        let tol = K_V2 * U * sx[i].f();
                        if !(err <= tol) {
                            return Err(fail(TV2, "from_angle.rotate", format!("component {i}: got {:e}, reference {:e}, |diff| {:.3e} > {:.3e}; v={:?}; {}", got[i].to_f64(), ex[i].f(), err, tol, vv, ctx())));
                        }
                        if tol > 0.0 {
                            t.ratio(if huge { "ctor/vec2-rotate@huge" } else { "ctor/vec2-rotate" }, err / tol);
                        }
                    }
                }
                Ok(())
            }

            pub fn strat_ctor() -> BoxedStrategy<Vec<u64>> {
                (prop_oneof![3 => Just(0u64), 1 => 1u64..=6], -1.0f64..1.0, 0.0f64..std::f64::consts::TAU, angle_strat(), -1.0f64..1.0, -1.0f64..1.0)
                    .prop_map(|(k, z, p, a, x, y)| vec![k, z.to_bits(), p.to_bits(), a.to_bits(), x.to_bits(), y.to_bits()])
                    .boxed()
            }

            // ------------------------------------------------------------------ (2) from_euler
            /// words: order index, a, b, c (f64 bit patterns)
            pub fn check_from_euler(w: &[u64], t: &mut Tally) -> Result<(), Fail> {
                let oi = (w[0] as usize).min(23);
                let (name, er) = ORDERS[oi];
                let o = refm::order(name);
                let ang: [T; 3] = [T::from_f64(fin(w[1])), T::from_f64(fin(w[2])), T::from_f64(fin(w[3]))];
                let e = refm::euler(&o, [dd(ang[0].to_f64()), dd(ang[1].to_f64()), dd(ang[2].to_f64())]);
                t.eval(1);
                t.class(&format!("order:{}", name));
                let d = refm::sing_distance(&o, &e.m);
                t.class(&format!("from-euler:{}:{}", if o.proper { "proper" } else { "tait-bryan" }, decade(d)));
                t.class(angle_class(ang[0].to_f64()));
                let huge = ang.iter().any(|x| x.to_f64().abs() > 13.0);
                if ang.iter().all(|x| x.to_f64() != 0.0) {
                    t.nontrivial(mix(hash_str(FAM), mix(hash_str(VARIANT), fnv(&[oi as u64, ang[0].bits(), ang[1].bits(), ang[2].bits()]))));
                    if t.want_sample() {
                        t.sample(json!({"sub": "from-euler", "family": FAM, "variant": VARIANT, "order": name, "angles": format!("{:?}", ang), "singularity_distance": d, "words": hexwords(w)}));
                    }
                }
                let ctx = || format!("order={} angles={:?}", name, ang);
                let key = if huge { "from-euler/mat@huge" } else { "from-euler/mat" };
                let edev = refm::proper_dev(&e.m);
                let mut fs: Vec<(&'static str, G3)> = Vec::with_capacity(3);
                fs.push((TM3, g3_from_cols9(&$M3::from_euler(er, ang[0], ang[1], ang[2]).to_cols_array())));
                if HAS3A {
                    fs.push((TM3A, g3_from_cols9(&$M3A::from_euler(er, ang[0], ang[1], ang[2]).to_cols_array())));
                }
                fs.push((TM4, g3_from_cols16(&$M4::from_euler(er, ang[0], ang[1], ang[2]).to_cols_array(), TM4, "from_euler")?));
                for (ty, g) in &fs {
                    cmp3(t, key, ty, "from_euler", g, &e.m, Some(&e.s), K_EU * U, 0.0, &ctx)?;
                    proper(t, "from-euler/orthonormal", "from-euler/det", ty, "from_euler", g, edev, 12.0 * K_EU * U, &ctx)?;
                }
                let q = q_arr($Q::from_euler(er, ang[0], ang[1], ang[2]));
                cmpq(t, if huge { "from-euler/quat@huge" } else { "from-euler/quat" }, TQ, "from_euler", &q, &e.q, Some(&e.qs), K_EU * U, 0.0, &ctx)?;
                let n = refm::qnorm(&q_of(&q)).sub(refm::ONE).abs().f();
                let tol = 2.0 * K_EU * U;
                if !(n <= tol) {
                    return Err(fail(TQ, "from_euler", format!("not a unit quaternion: | |q| - 1 | = {:.3e} > {:.3e}; {}", n, tol, ctx())));
                }
                t.ratio("from-euler/unit-quat", n / tol);
                // identically for the quaternion and the matrices: same rotation through the action
                let e2 = refm::max_abs_diff(&refm::q_to_m3(&q_of(&q)), &e.m);
                let tol = 4.0 * K_EU * U;
                if !(e2 <= tol) {
                    return Err(fail(TQ, "from_euler", format!("rotation of the quaternion differs from the product of elementary rotations by {:.3e} > {:.3e}; q={:?}; {}", e2, tol, q, ctx())));
                }
                t.ratio("from-euler/quat-action", e2 / tol);
                Ok(())
            }

            pub fn strat_from_euler() -> BoxedStrategy<Vec<u64>> {
                (0u64..24, angle_strat(), prop_oneof![1 => angle_strat(), 1 => mid_strat(KMAX, None)], angle_strat())
                    .prop_map(|(o, a, b, c)| vec![o, a.to_bits(), b.to_bits(), c.to_bits()])
                    .boxed()
            }

            // ------------------------------------------------------------------ (3) extraction round trip
            /// `tol(d)`: k*u*(1 + 1/d) outside the gimbal branch; inside it (d below the documented `16 EPSILON`
            /// threshold, minus a band for the rounding of the deciding quantity) glam sets the third angle to zero,
            /// which is exact at d = 0 and off by <= 2d otherwise: k*u + 4d.
            /// Inside the branch the returned first angle can be near +-pi and carries 1 ulp of that (4u), the middle one
            /// likewise: (k + 8) u instead of k u.
            fn rt_tol(d: f64, k: f64, nu: f64) -> (f64, bool) {
                let d0 = 16.0 * <T as Fl>::EPS;
                let band = 8.0 * U + 1e-3 * d0;
                if d < d0 - band {
                    ((k + 8.0) * U + 4.0 * nu + 4.0 * d, true)
                } else {
                    ((k * U + 4.0 * nu) * (1.0 + 1.0 / d), false)
                }
            }

            fn rt_eval(t: &mut Tally, ty: &'static str, o: &refm::Order, er: EulerRot, src: &str, truth: &M3, nu: f64, got: (T, T, T), rebuilt_by_glam: &G3, ctx: &dyn Fn() -> String) -> Result<(), Fail> {
                let d = refm::sing_distance(o, truth);
                let (tol, gimbal) = rt_tol(d, if ty == TQ { K_RT_Q } else { K_RT }, nu);
                let fam = if o.proper { "proper" } else { "tait-bryan" };
                let dec = if gimbal { "gimbal-branch" } else { decade(d) };
                let (a, b, c) = (got.0.to_f64(), got.1.to_f64(), got.2.to_f64());
                let _ = er;
                if !(a.is_finite() && b.is_finite() && c.is_finite()) {
                    return Err(fail(ty, "to_euler", format!("non-finite angle ({a:e}, {b:e}, {c:e}); {}", ctx())));
                }
                // (a) the returned angles rebuild the rotation through the REFERENCE product of elementary rotations
                let r = refm::euler(o, [dd(a), dd(b), dd(c)]);
                let e1 = refm::max_abs_diff(&r.m, truth);
                if !(e1 <= tol) {
                    return Err(fail(ty, "to_euler", format!("order {}: angles ({a:e}, {b:e}, {c:e}) rebuild a rotation that differs by {:.3e} > {:.3e} (distance from singularity d = {:.3e}, {}); {}", o.name, e1, tol, d, dec, ctx())));
                }
                t.ratio(&format!("roundtrip{}/{fam}/{dec}/{src}", if ty == TQ { "-quat" } else { "" }), e1 / tol);
                // (b) and through glam's own from_euler of the same type
                let e2 = refm::max_abs_diff(&m3_of(rebuilt_by_glam), truth);
                let tol2 = tol + 4.0 * K_EU * U;
                if !(e2 <= tol2) {
                    return Err(fail(ty, "from_euler(to_euler)", format!("order {}: from_euler(to_euler(R)) differs from R by {:.3e} > {:.3e} (d = {:.3e}, {}); angles ({a:e}, {b:e}, {c:e}); {}", o.name, e2, tol2, d, dec, ctx())));
                }
                t.ratio(&format!("roundtrip-glam{}/{fam}/{dec}/{src}", if ty == TQ { "-quat" } else { "" }), e2 / tol2);
                if src == "self-produced" && ty != TQ {
                    // reported, not enforced: matrices produced by from_euler carry relative entry errors and round-trip
                    // with an absolute error that does not grow towards the singularity (DESIGN calibration <= ~54u)
                    t.ratio(&format!("info:self-produced-abs-error/(128u)/{fam}/{dec}"), e1 / (128.0 * U));
                }
                t.class(&format!("roundtrip:{fam}:{dec}"));
                Ok(())
            }

            /// words: order index, source kind (0 uniform quaternion from u1,u2,u3; 1 reference Euler product of the
            /// triple, rounded into the type; 2 glam's own from_euler of the triple), x0, x1, x2
            pub fn check_roundtrip(w: &[u64], t: &mut Tally) -> Result<(), Fail> {
                let oi = (w[0] as usize).min(23);
                let (name, er) = ORDERS[oi];
                let o = refm::order(name);
                let kind = w[1].min(2);
                let x = [fin(w[2]), fin(w[3]), fin(w[4])];
                t.eval(1);
                t.class(&format!("order:{}", name));
                let src = ["uniform-quaternion", "reference-euler-rounded", "self-produced"][kind as usize];
                t.class(&format!("source:{}", src));
                let ang: [T; 3] = [T::from_f64(x[0]), T::from_f64(x[1]), T::from_f64(x[2])];
                if kind == 0 || ang.iter().all(|a| a.to_f64() != 0.0) {
                    t.nontrivial(mix(hash_str(FAM), mix(hash_str(VARIANT), fnv(&[oi as u64, kind, w[2], w[3], w[4]]))));
                    if t.want_sample() {
                        t.sample(json!({"sub": "euler-roundtrip", "family": FAM, "variant": VARIANT, "order": name, "source": src, "x": format!("{:?}", x), "words": hexwords(w)}));
                    }
                }
                // the rotation to extract from, as an exact quaternion / matrix in f64, before rounding into the type
                let (q64, m64): ([f64; 4], G3) = match kind {
                    0 => {
                        let q = refm::uniform_quat(x[0], x[1], x[2]);
                        let m = refm::q_to_m3(&q_of(&q));
                        let mut g = [[0.0; 3]; 3];
                        for r in 0..3 {
                            for c in 0..3 {
                                g[r][c] = m[r][c].f();
                            }
                        }
                        (q, g)
                    }
                    _ => {
                        let e = refm::euler(&o, [dd(ang[0].to_f64()), dd(ang[1].to_f64()), dd(ang[2].to_f64())]);
                        let mut g = [[0.0; 3]; 3];
                        for r in 0..3 {
                            for c in 0..3 {
                                g[r][c] = e.m[r][c].f();
                            }
                        }
                        ([e.q[0].f(), e.q[1].f(), e.q[2].f(), e.q[3].f()], g)
                    }
                };
                let ctx = || format!("source={} x={:?}", src, x);
                let mut c9 = [T::from_f64(0.0); 9];
                let mut c16 = [T::from_f64(0.0); 16];
                for c in 0..3 {
                    for r in 0..3 {
                        c9[c * 3 + r] = T::from_f64(m64[r][c]);
                        c16[c * 4 + r] = T::from_f64(m64[r][c]);
                    }
                }
                c16[15] = T::from_f64(1.0);
                // Quat
                {
                    let q = if kind == 2 { $Q::from_euler(er, ang[0], ang[1], ang[2]) } else { $Q::from_xyzw(T::from_f64(q64[0]), T::from_f64(q64[1]), T::from_f64(q64[2]), T::from_f64(q64[3])) };
                    let qd = q_of(&q_arr(q));
                    let truth = refm::q_to_m3(&qd);
                    let nu = qd[0].mul(qd[0]).add(qd[1].mul(qd[1])).add(qd[2].mul(qd[2])).add(qd[3].mul(qd[3])).sub(refm::ONE).abs().f();
                    t.ratio("info:roundtrip-quat-norm-deviation nu/(16u)", nu / (16.0 * U));
                    let got = q.to_euler(er);
                    let back = refm::q_to_m3(&q_of(&q_arr($Q::from_euler(er, got.0, got.1, got.2))));
                    let mut bg = [[0.0; 3]; 3];
                    for r in 0..3 {
                        for c in 0..3 {
                            bg[r][c] = back[r][c].f();
                        }
                    }
                    rt_eval(t, TQ, &o, er, src, &truth, nu, got, &bg, &|| format!("q={:?}; {}", q, ctx()))?;
                }
                // Mat3
                {
                    let m = if kind == 2 { $M3::from_euler(er, ang[0], ang[1], ang[2]) } else { $M3::from_cols_array(&c9) };
                    let truth = m3_of(&g3_from_cols9(&m.to_cols_array()));
                    let got = m.to_euler(er);
                    let back = g3_from_cols9(&$M3::from_euler(er, got.0, got.1, got.2).to_cols_array());
                    rt_eval(t, TM3, &o, er, src, &truth, 0.0, got, &back, &|| format!("m={:?}; {}", m, ctx()))?;
                }
                if HAS3A {
                    let m = if kind == 2 { $M3A::from_euler(er, ang[0], ang[1], ang[2]) } else { $M3A::from_cols_array(&c9) };
                    let truth = m3_of(&g3_from_cols9(&m.to_cols_array()));
                    let got = m.to_euler(er);
                    let back = g3_from_cols9(&$M3A::from_euler(er, got.0, got.1, got.2).to_cols_array());
                    rt_eval(t, TM3A, &o, er, src, &truth, 0.0, got, &back, &|| format!("m={:?}; {}", m, ctx()))?;
                }
                {
                    let m = if kind == 2 { $M4::from_euler(er, ang[0], ang[1], ang[2]) } else { $M4::from_cols_array(&c16) };
                    let truth = m3_of(&g3_from_cols16(&m.to_cols_array(), TM4, "from_euler")?);
                    let got = m.to_euler(er);
                    let back = g3_from_cols16(&$M4::from_euler(er, got.0, got.1, got.2).to_cols_array(), TM4, "from_euler")?;
                    rt_eval(t, TM4, &o, er, src, &truth, 0.0, got, &back, &|| format!("m={:?}; {}", m, ctx()))?;
                }
                Ok(())
            }

            pub fn strat_roundtrip() -> BoxedStrategy<Vec<u64>> {
                (0u64..24, 0u64..3)
                    .prop_flat_map(|(o, kind)| {
                        let proper = refm::order(ORDERS[o as usize].0).proper;
                        let xs = if kind == 0 {
                            (0.0f64..1.0, 0.0f64..1.0, 0.0f64..1.0).boxed()
                        } else {
                            (angle_strat(), prop_oneof![1 => (-std::f64::consts::PI..std::f64::consts::PI).boxed(), 3 => mid_strat(KMAX, Some(proper))], angle_strat()).boxed()
                        };
                        xs.prop_map(move |(a, b, c)| vec![o, kind, a.to_bits(), b.to_bits(), c.to_bits()])
                    })
                    .boxed()
            }

            // ------------------------------------------------------------------ (4) to_axis_angle / to_scaled_axis
            /// words: kind (0 uniform on S^3; 1 near identity |v| = 10^e; 2 near a half turn w = +-10^e; 3 single axis), u1, u2, u3, e
            pub fn check_extract(w: &[u64], t: &mut Tally) -> Result<(), Fail> {
                let kind = w[0].min(3);
                let (u1, u2, u3) = (fin(w[1]).clamp(0.0, 1.0), fin(w[2]).clamp(0.0, 1.0), fin(w[3]).clamp(0.0, 1.0));
                let mag = 10f64.powf(fin(w[4]).clamp(-30.0, -0.5));
                let q64: [f64; 4] = match kind {
                    0 => refm::uniform_quat(u1, u2, u3),
                    1 => {
                        let a = refm::sphere_point(2.0 * u2 - 1.0, std::f64::consts::TAU * u3);
                        let wq = (1.0 - mag * mag).sqrt() * if u1 >= 0.5 { -1.0 } else { 1.0 };
                        [a[0] * mag, a[1] * mag, a[2] * mag, wq]
                    }
                    2 => {
                        let a = refm::sphere_point(2.0 * u2 - 1.0, std::f64::consts::TAU * u3);
                        let wq = mag * if u1 >= 0.5 { -1.0 } else { 1.0 };
                        let s = (1.0 - wq * wq).sqrt();
                        [a[0] * s, a[1] * s, a[2] * s, wq]
                    }
                    _ => {
                        let k = ((u2 * 3.0) as usize).min(2);
                        let half = (2.0 * u3 - 1.0) * std::f64::consts::PI;
                        let mut q = [0.0; 4];
                        q[k] = half.sin();
                        q[3] = half.cos();
                        q
                    }
                };
                let qt: [T; 4] = [T::from_f64(q64[0]), T::from_f64(q64[1]), T::from_f64(q64[2]), T::from_f64(q64[3])];
                let q = $Q::from_xyzw(qt[0], qt[1], qt[2], qt[3]);
                let qa = q_arr(q);
                let qd = q_of(&qa);
                let qn = refm::qnormalize(&qd);
                let vlen = qd[0].mul(qd[0]).add(qd[1].mul(qd[1])).add(qd[2].mul(qd[2])).sqrt().f();
                t.eval(1);
                t.class(["extract:uniform-S3", "extract:near-identity", "extract:near-half-turn", "extract:single-axis"][kind as usize]);
                t.class(&format!("extract:|v|:{}", decade(vlen)));
                if kind != 3 {
                    t.nontrivial(mix(hash_str(FAM), mix(hash_str(VARIANT), fnv(&[qt[0].bits(), qt[1].bits(), qt[2].bits(), qt[3].bits()]))));
                    if t.want_sample() {
                        t.sample(json!({"sub": "axis-angle-extract", "family": FAM, "variant": VARIANT, "q": format!("{:?}", qt), "words": hexwords(w)}));
                    }
                }
                let ctx = || format!("q={:?} (|v| = {:.3e})", qt, vlen);
                let (axis, angle) = q.to_axis_angle();
                let ax = axis.to_array();
                let (axd, th) = ([ax[0].to_f64(), ax[1].to_f64(), ax[2].to_f64()], angle.to_f64());
                // The singularity of this extraction is the zero rotation; distance from it = the rotation angle theta.
                // glam guards it (`length >= EPSILON` else the documented fallback (X, 0) / ZERO). The fallback rebuilds the
                // identity, i.e. is off by theta itself, which the statement allows while theta <= k*u/theta (k = 8):
                // theta^2 <= 8u. Anything else must rebuild +-q to K_X*u. (For f32 the guard 1e-8 is far below sqrt(8u);
                // for f64 theta < 2e-8 gives theta^2/(8u) <= 0.45. A guard raised to 1e-6 would fail: 4e-12 > 8.9e-16.)
                let theta = 2.0 * vlen.atan2(qa[3].abs());
                let fallback_tol = K_RT * U;
                let is_x0 = axd == [1.0, 0.0, 0.0] && th == 0.0;
                let two_pi = std::f64::consts::TAU * (1.0 + 2.0 * U);
                if !(th >= 0.0 && th <= two_pi) {
                    return Err(fail(TQ, "to_axis_angle", format!("angle {:e} outside [0, 2pi]; {}", th, ctx())));
                }
                if is_x0 {
                    t.class("extract:tiny-branch(X,0)");
                    if !(theta * theta <= fallback_tol) {
                        return Err(fail(TQ, "to_axis_angle(tiny branch)", format!("returned the fallback (X, 0) for a rotation by theta = {:.3e}: theta^2 = {:.3e} > 8u = {:.3e}; {}", theta, theta * theta, fallback_tol, ctx())));
                    }
                    t.ratio("extract/tiny-branch:theta^2/(8u)", theta * theta / fallback_tol);
                } else {
                    let n = dd(axd[0]).mul(dd(axd[0])).add(dd(axd[1]).mul(dd(axd[1]))).add(dd(axd[2]).mul(dd(axd[2]))).sqrt().sub(refm::ONE).abs().f();
                    let tol = 8.0 * U; // v/|v|: |v| 2.5u + division u = 3.5u per component, twice that rounded up
                    if !(n <= tol) {
                        return Err(fail(TQ, "to_axis_angle", format!("axis {:?} is not unit: | |axis| - 1 | = {:.3e} > {:.3e}; {}", ax, n, tol, ctx())));
                    }
                    t.ratio("extract/axis-unit", n / tol);
                    // rebuild +-q from (axis, angle) with the reference
                    let (sh, ch) = refm::sincos(dd(th * 0.5));
                    let rb: Q = [dd(axd[0]).mul(sh), dd(axd[1]).mul(sh), dd(axd[2]).mul(sh), ch];
                    let got = [rb[0].f(), rb[1].f(), rb[2].f(), rb[3].f()];
                    cmpq(t, "extract/rebuild", TQ, "to_axis_angle", &got, &qn, None, 0.0, K_X * U, &|| format!("(axis, angle) = ({:?}, {:e}) rebuilds the quaternion shown as 'quaternion', reference is q normalised; {}", ax, th, ctx()))?;
                }
                // to_scaled_axis: angle |v| about v/|v|; consistent with to_axis_angle (axis * angle, lane by lane)
                {
                    let sv = q.to_scaled_axis().to_array();
                    for i in 0..3 {
                        let e = ax[i].mul(angle);
                        if sv[i].bits() != e.bits() && !(sv[i].to_f64() == 0.0 && e.to_f64() == 0.0) {
                            return Err(fail(TQ, "to_scaled_axis", format!("component {i} = {:?} is not axis * angle = {:?} of to_axis_angle; {}", sv[i], e, ctx())));
                        }
                    }
                    let vd = [dd(sv[0].to_f64()), dd(sv[1].to_f64()), dd(sv[2].to_f64())];
                    let len = vd[0].mul(vd[0]).add(vd[1].mul(vd[1])).add(vd[2].mul(vd[2])).sqrt();
                    if len.f() == 0.0 {
                        if !(theta * theta <= fallback_tol) {
                            return Err(fail(TQ, "to_scaled_axis(tiny branch)", format!("returned ZERO for a rotation by theta = {:.3e}: theta^2 = {:.3e} > 8u = {:.3e}; {}", theta, theta * theta, fallback_tol, ctx())));
                        }
                        t.ratio("extract/tiny-branch:theta^2/(8u)", theta * theta / fallback_tol);
                    } else {
                        let (sh, ch) = refm::sincos(refm::scale2(len, 0.5));
                        let rb: Q = [vd[0].div(len).mul(sh), vd[1].div(len).mul(sh), vd[2].div(len).mul(sh), ch];
                        let got = [rb[0].f(), rb[1].f(), rb[2].f(), rb[3].f()];
                        cmpq(t, "extract/scaled-axis", TQ, "to_scaled_axis", &got, &qn, None, 0.0, (K_X + len.f()) * U, &|| format!("scaled axis {:?} rebuilds the quaternion shown as 'quaternion', reference is q normalised; {}", sv, ctx()))?;
                    }
                }
                Ok(())
            }

            pub fn strat_extract() -> BoxedStrategy<Vec<u64>> {
                (prop_oneof![4 => Just(0u64), 3 => Just(1u64), 2 => Just(2u64), 1 => Just(3u64)], 0.0f64..1.0, 0.0f64..1.0, 0.0f64..1.0, -(KMAX as f64) - 5.0..-0.5f64)
                    .prop_map(|(k, a, b, c, e)| vec![k, a.to_bits(), b.to_bits(), c.to_bits(), e.to_bits()])
                    .boxed()
            }

            // ------------------------------------------------------------------ (5) from_scaled_axis of tiny rotation vectors
            /// words: three f64 bit patterns, the components of a rotation vector whose length is far below sqrt(MIN_POSITIVE)
            /// up to 1e-6. Every finite rotation vector is a valid argument: the result is the unit quaternion (v/2, 1)
            /// to first order, whatever happens to |v|^2 on the way (it underflows to zero or to a subnormal)
            pub fn check_tiny_scaled_axis(w: &[u64], t: &mut Tally) -> Result<(), Fail> {
                let v: [T; 3] = [T::from_f64(fin(w[0])), T::from_f64(fin(w[1])), T::from_f64(fin(w[2]))];
                t.eval(1);
                let vf = [v[0].to_f64(), v[1].to_f64(), v[2].to_f64()];
                let len = (vf[0] * vf[0] + vf[1] * vf[1] + vf[2] * vf[2]).sqrt();
                let l2t = (v[0] * v[0] + v[1] * v[1] + v[2] * v[2]).to_f64();
                t.class(if len == 0.0 { "tiny:zero vector" } else if l2t == 0.0 { "tiny:|v|^2 underflows to 0" } else if l2t < MIN_POS { "tiny:|v|^2 subnormal" } else { "tiny:|v|^2 normal" });
                if len > 0.0 && l2t < MIN_POS {
                    t.nontrivial(mix(hash_str(FAM), mix(hash_str(VARIANT), fnv(&w[..3]))));
                    if t.want_sample() {
                        t.sample(json!({"family": FAM, "variant": VARIANT, "v": format!("{:?}", vf), "len": len}));
                    }
                }
                let q = q_arr($Q::from_scaled_axis($V3::new(v[0], v[1], v[2])));
                let ctx = || format!("v={:?} |v|={:e} (|v|^2 in the type: {:e}) -> q={:?}", vf, len, l2t, q);
                if !q.iter().all(|x| x.is_finite()) {
                    return Err(fail(TQ, "from_scaled_axis(tiny)", format!("not finite; {}", ctx())));
                }
                let n2 = q[0] * q[0] + q[1] * q[1] + q[2] * q[2] + q[3] * q[3];
                if !((n2 - 1.0).abs() <= 8.0 * U) {
                    return Err(fail(TQ, "from_scaled_axis(tiny)", format!("|q|^2 - 1 = {:e}; {}", n2 - 1.0, ctx())));
                }
                for i in 0..3 {
                    // x = v_i / 2 to first order; as a component of a unit quaternion (w = 1) it is held to a few u absolutely:
                    // when |v|^2 underflows to zero the documented result is IDENTITY, which is that close
                    let want = 0.5 * vf[i];
                    let tol = 8.0 * U + 2.0 * TINY_ABS;
                    if !((q[i] - want).abs() <= tol) {
                        return Err(fail(TQ, "from_scaled_axis(tiny)", format!("component {i} = {:e}, want v/2 = {:e} within {:e}; {}", q[i], want, tol, ctx())));
                    }
                }
                Ok(())
            }
            pub fn strat_tiny() -> BoxedStrategy<Vec<u64>> {
                let lo: f64 = if U > 1e-10 { -44.0 } else { -322.0 };
                let comp = move || prop_oneof![
                    6 => (any::<bool>(), lo..-6.0).prop_map(|(n, e)| if n { -(10f64.powf(e)) } else { 10f64.powf(e) }),
                    1 => Just(0.0f64),
                    1 => Just(-0.0f64),
                ];
                // components of similar magnitude (so that the length is not just the largest one) or independent
                (comp(), comp(), comp(), any::<bool>(), 0.1f64..1.0, 0.1f64..1.0)
                    .prop_map(|(a, b, c, similar, f1, f2)| if similar { vec![a.to_bits(), (a * f1).to_bits(), (-a * f2).to_bits()] } else { vec![a.to_bits(), b.to_bits(), c.to_bits()] })
                    .boxed()
            }

            pub fn subs<'a>(out: &mut Vec<SubCheck<'a>>) {
                out.push(SubCheck::new(
                    format!("scaled-axis-tiny/{}/{}", FAM, VARIANT),
                    1,
                    |env: &mut Env| {
                        let n = env.cases(40_000, 20);
                        env.prop("tiny", n, strat_tiny(), &check_tiny_scaled_axis);
                    },
                    check_tiny_scaled_axis,
                ));
                out.push(SubCheck::new(
                    format!("rot-ctor/{}/{}", FAM, VARIANT),
                    4,
                    |env: &mut Env| {
                        let n = env.cases(100_000, 20);
                        env.prop("ctor", n, strat_ctor(), &check_ctor);
                    },
                    check_ctor,
                ));
                out.push(SubCheck::new(
                    format!("from-euler/{}/{}", FAM, VARIANT),
                    4,
                    |env: &mut Env| {
                        let n = env.cases(24 * 8_000, 20);
                        env.prop("from-euler", n, strat_from_euler(), &check_from_euler);
                    },
                    check_from_euler,
                ));
                out.push(SubCheck::new(
                    format!("euler-roundtrip/{}/{}", FAM, VARIANT),
                    8,
                    |env: &mut Env| {
                        let n = env.cases(24 * 8_000, 20);
                        env.prop("roundtrip", n, strat_roundtrip(), &check_roundtrip);
                    },
                    check_roundtrip,
                ));
                out.push(SubCheck::new(
                    format!("axis-angle-extract/{}/{}", FAM, VARIANT),
                    2,
                    |env: &mut Env| {
                        let n = env.cases(100_000, 20);
                        env.prop("extract", n, strat_extract(), &check_extract);
                    },
                    check_extract,
                ));
            }
        }
    };
}

family!(f32fam, f32, Quat, Vec3, Vec2, Mat2, Mat3, Mat3A, Mat4, Affine2, Affine3A, true, 7);
family!(f64fam, f64, DQuat, DVec3, DVec2, DMat2, DMat3, DMat3, DMat4, DAffine2, DAffine3, false, 15);

pub fn subs<'a>(_args: &Args) -> Vec<SubCheck<'a>> {
    let mut out = vec![];
    f32fam::subs(&mut out);
    f64fam::subs(&mut out);
    out
}
