//! C09 — not implemented yet.
fn main() {
    eprintln!("c09: not implemented");
    std::process::exit(2);
}
