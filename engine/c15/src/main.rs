//! C15 — comparison masks, select and the mask algebra behave as lane-wise booleans.
use vcore::*;

/// One lane of a numeric vector type; words carry the float bit pattern / the two's complement
/// pattern truncated to the lane width.
pub trait Prim: Copy + PartialOrd + PartialEq + std::fmt::Debug + 'static {
    const BITS: u32;
    const FLOAT: bool;
    const SIGNED: bool;
    fn fw(w: u64) -> Self;
    fn tb(self) -> u64;
    /// NaN, zero or infinite (floats only)
    fn special(self) -> bool;
    fn cls(self) -> &'static str;
}
impl Prim for f32 {
    const BITS: u32 = 32;
    const FLOAT: bool = true;
    const SIGNED: bool = true;
    #[inline]
    fn fw(w: u64) -> f32 {
        f32::from_bits(w as u32)
    }
    #[inline]
    fn tb(self) -> u64 {
        self.to_bits() as u64
    }
    #[inline]
    fn special(self) -> bool {
        self.is_nan() || self == 0.0 || self.is_infinite()
    }
    fn cls(self) -> &'static str {
        lattice::class_f32(self.to_bits())
    }
}
impl Prim for f64 {
    const BITS: u32 = 64;
    const FLOAT: bool = true;
    const SIGNED: bool = true;
    #[inline]
    fn fw(w: u64) -> f64 {
        f64::from_bits(w)
    }
    #[inline]
    fn tb(self) -> u64 {
        self.to_bits()
    }
    #[inline]
    fn special(self) -> bool {
        self.is_nan() || self == 0.0 || self.is_infinite()
    }
    fn cls(self) -> &'static str {
        lattice::class_f64(self.to_bits())
    }
}
macro_rules! int_prim {
    ($t:ty, $u:ty, $bits:expr, $signed:expr) => {
        impl Prim for $t {
            const BITS: u32 = $bits;
            const FLOAT: bool = false;
            const SIGNED: bool = $signed;
            #[inline]
            fn fw(w: u64) -> $t {
                w as $u as $t
            }
            #[inline]
            fn tb(self) -> u64 {
                self as $u as u64
            }
            #[inline]
            fn special(self) -> bool {
                false
            }
            fn cls(self) -> &'static str {
                if self == <$t>::MIN {
                    "int:MIN"
                } else if self == <$t>::MAX {
                    "int:MAX"
                } else if self == 0 {
                    "int:zero"
                } else if (self as $u) >> ($bits - 1) != 0 {
                    "int:top-bit-set"
                } else {
                    "int:other"
                }
            }
        }
    };
}
int_prim!(i8, u8, 8, true);
int_prim!(u8, u8, 8, false);
int_prim!(i16, u16, 16, true);
int_prim!(u16, u16, 16, false);
int_prim!(i32, u32, 32, true);
int_prim!(u32, u32, 32, false);
int_prim!(i64, u64, 64, true);
int_prim!(u64, u64, 64, false);
int_prim!(usize, u64, 64, false);

/// Everything that can be observed of a mask value through the public API.
#[derive(Clone, PartialEq, Debug)]
pub struct Obs {
    pub bitmask: u32,
    pub any: bool,
    pub all: bool,
    pub tests: Vec<bool>,
    pub bools: Vec<bool>,
    pub u32s: Vec<u32>,
    pub dbg: String,
    pub dbg_alt: String,
    pub disp: String,
    pub disp_w: String,
}

pub fn std_hash<T: std::hash::Hash + ?Sized>(t: &T) -> u64 {
    use std::hash::Hasher;
    let mut h = std::collections::hash_map::DefaultHasher::new();
    t.hash(&mut h);
    h.finish()
}

pub fn pick<T: Copy, const N: usize>(b: [bool; N], t: T, f: T) -> [T; N] {
    let mut a = [f; N];
    for i in 0..N {
        if b[i] {
            a[i] = t;
        }
    }
    a
}

#[cfg(not(feature = "core"))]
mod simd {
    pub const VARIANT: &str = "simd";
    use ::glam_simd as glam;
    /// raw register lanes of the SIMD-backed masks (only used to tally what the generator reached)
    pub fn raw3a(m: glam::BVec3A) -> Option<[u32; 4]> {
        Some(unsafe { std::mem::transmute::<glam::BVec3A, [u32; 4]>(m) })
    }
    pub fn raw4a(m: glam::BVec4A) -> Option<[u32; 4]> {
        Some(unsafe { std::mem::transmute::<glam::BVec4A, [u32; 4]>(m) })
    }
    /// Vec4's mask type in this build, and the comparison routes into BVec4A
    #[allow(unused_imports)]
    use self::mbvec4a as mvec4;
    pub const A4_CMP_ROUTES: u64 = 7;
    pub fn a4(m: glam::BVec4A) -> glam::BVec4A {
        m
    }
    include!("suite.rs");
}
/// the same checks with `glam-assert` compiled in: none of these operations has a documented precondition, so a
/// panic there is a failure
#[cfg(not(feature = "core"))]
mod asserting {
    pub const VARIANT: &str = "simd+glam-assert";
    use ::glam_assert as glam;
    /// raw register lanes of the SIMD-backed masks (only used to tally what the generator reached)
    pub fn raw3a(m: glam::BVec3A) -> Option<[u32; 4]> {
        Some(unsafe { std::mem::transmute::<glam::BVec3A, [u32; 4]>(m) })
    }
    pub fn raw4a(m: glam::BVec4A) -> Option<[u32; 4]> {
        Some(unsafe { std::mem::transmute::<glam::BVec4A, [u32; 4]>(m) })
    }
    /// Vec4's mask type in this build, and the comparison routes into BVec4A
    #[allow(unused_imports)]
    use self::mbvec4a as mvec4;
    pub const A4_CMP_ROUTES: u64 = 7;
    pub fn a4(m: glam::BVec4A) -> glam::BVec4A {
        m
    }
    include!("suite.rs");
}
#[cfg(not(feature = "core"))]
mod scalar {
    pub const VARIANT: &str = "scalar";
    use ::glam_scalar as glam;
    pub fn raw3a(m: glam::BVec3A) -> Option<[u32; 4]> {
        Some([m.x, m.y, m.z, 0])
    }
    pub fn raw4a(m: glam::BVec4A) -> Option<[u32; 4]> {
        Some([m.x, m.y, m.z, m.w])
    }
    /// with scalar-math Vec4 compares into / selects by BVec4; BVec4A is only reachable through its constructors
    #[allow(unused_imports)]
    use self::mbvec4 as mvec4;
    pub const A4_CMP_ROUTES: u64 = 0;
    pub fn a4(_m: glam::BVec4) -> glam::BVec4A {
        unreachable!()
    }
    include!("suite.rs");
}
/// scalar-math with `glam-assert`: the second pass for the scalar copies (a quarter of the volume)
#[cfg(not(feature = "core"))]
mod scalar_asserting {
    pub const VARIANT: &str = "scalar+glam-assert";
    use ::glam_scalar_assert as glam;
    pub fn raw3a(m: glam::BVec3A) -> Option<[u32; 4]> {
        Some([m.x, m.y, m.z, 0])
    }
    pub fn raw4a(m: glam::BVec4A) -> Option<[u32; 4]> {
        Some([m.x, m.y, m.z, m.w])
    }
    /// with scalar-math Vec4 compares into / selects by BVec4; BVec4A is only reachable through its constructors
    #[allow(unused_imports)]
    use self::mbvec4 as mvec4;
    pub const A4_CMP_ROUTES: u64 = 0;
    pub fn a4(_m: glam::BVec4) -> glam::BVec4A {
        unreachable!()
    }
    include!("suite.rs");
}
#[cfg(feature = "core")]
mod core_simd {
    pub const VARIANT: &str = "core";
    use ::glam_core as glam;
    pub fn raw3a(m: glam::BVec3A) -> Option<[u32; 4]> {
        Some(unsafe { std::mem::transmute::<glam::BVec3A, [u32; 4]>(m) })
    }
    pub fn raw4a(m: glam::BVec4A) -> Option<[u32; 4]> {
        Some(unsafe { std::mem::transmute::<glam::BVec4A, [u32; 4]>(m) })
    }
    /// Vec4's mask type in this build, and the comparison routes into BVec4A
    #[allow(unused_imports)]
    use self::mbvec4a as mvec4;
    pub const A4_CMP_ROUTES: u64 = 7;
    pub fn a4(m: glam::BVec4A) -> glam::BVec4A {
        m
    }
    include!("suite.rs");
}
/// core-simd with `glam-assert`: the second pass for the portable-simd copies (a quarter of the volume)
#[cfg(feature = "core")]
mod core_asserting {
    pub const VARIANT: &str = "core+glam-assert";
    use ::glam_core_assert as glam;
    pub fn raw3a(m: glam::BVec3A) -> Option<[u32; 4]> {
        Some(unsafe { std::mem::transmute::<glam::BVec3A, [u32; 4]>(m) })
    }
    pub fn raw4a(m: glam::BVec4A) -> Option<[u32; 4]> {
        Some(unsafe { std::mem::transmute::<glam::BVec4A, [u32; 4]>(m) })
    }
    /// Vec4's mask type in this build, and the comparison routes into BVec4A
    #[allow(unused_imports)]
    use self::mbvec4a as mvec4;
    pub const A4_CMP_ROUTES: u64 = 7;
    pub fn a4(m: glam::BVec4A) -> glam::BVec4A {
        m
    }
    include!("suite.rs");
}

fn main() {
    let args = Args::parse();
    let mut subs = vec![];
    #[cfg(not(feature = "core"))]
    {
        subs.extend(simd::subs(&args));
        subs.extend(scalar::subs(&args));
        subs.extend(asserting::subs(&args));
        subs.extend(scalar_asserting::subs(&args).into_iter().map(|s| s.with_div(4)));
    }
    #[cfg(feature = "core")]
    {
        subs.extend(core_simd::subs(&args));
        subs.extend(core_asserting::subs(&args).into_iter().map(|s| s.with_div(4)));
    }
    let code = main_with("C15", "see MANIFEST / evidence rule", &args, subs);
    std::process::exit(code);
}
