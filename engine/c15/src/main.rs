//! C15 — not implemented yet.
fn main() {
    eprintln!("c15: not implemented");
    std::process::exit(2);
}
