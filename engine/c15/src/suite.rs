// Included once per glam variant (`glam` is aliased by the including module).
#[allow(unused_imports)]
use super::{pick, std_hash, Obs, Prim};
#[allow(unused_imports)]
use glam::{
    bvec2, bvec3, bvec3a, bvec4, bvec4a, BVec2, BVec3, BVec3A, BVec4, BVec4A, DVec2, DVec3, DVec4, I16Vec2, I16Vec3, I16Vec4, I64Vec2,
    I64Vec3, I64Vec4, I8Vec2, I8Vec3, I8Vec4, IVec2, IVec3, IVec4, U16Vec2, U16Vec3, U16Vec4, U64Vec2, U64Vec3, U64Vec4, U8Vec2, U8Vec3,
    U8Vec4, USizeVec2, USizeVec3, USizeVec4, UVec2, UVec3, UVec4, Vec2, Vec3, Vec3A, Vec4,
};
use proptest::prelude::*;
use serde_json::json;
use vcore::lattice;
use vcore::*;

fn fail(ty: &str, op: &str, form: &str, msg: String) -> Fail {
    Fail::new(format!("C15/{}/{}/{}", VARIANT, ty, op), format!("{op}[{form}]"), msg)
}

// ------------------------------------------------------------------------------------------------
// Masks produced by comparisons / predicates of numeric vectors, so that lanes arrive in the
// backend's native representation (all-ones registers). `k` selects the producer, `b` the lanes.
// ------------------------------------------------------------------------------------------------

macro_rules! plain_cmp_routes {
    ($name:ident, $M:ident, $N:expr, $F:ident, $ft:ident, $I:ident, $D:ident, $U8:ident) => {
        pub fn $name(k: u64, b: [bool; $N]) -> $M {
            match k {
                0 => $F::splat(1.0).cmpeq($F::from_array(pick(b, 1.0, 2.0))),
                1 => $F::splat(1.0).cmpne($F::from_array(pick(b, 2.0, 1.0))),
                2 => $I::ZERO.cmplt($I::from_array(pick(b, 1, 0))),
                3 => $D::from_array(pick(b, f64::NAN, 0.0)).is_nan_mask(),
                4 => $U8::from_array(pick(b, 255, 0)).cmpge($U8::splat(128)),
                _ => $F::from_array(pick(b, -0.0, $ft::NAN)).cmple($F::splat(0.0)),
            }
        }
    };
}
const PLAIN_CMP_ROUTES: u64 = 6;
const PLAIN_CMP_NAMES: [&str; 6] = ["f cmpeq", "f cmpne", "i32 cmplt", "f64 is_nan_mask", "u8 cmpge", "f cmple, false lanes NaN"];
const A4_CMP_NAMES: [&str; 7] = ["Vec4 cmpeq", "Vec4 cmpne", "Vec4 cmplt, false lanes NaN", "Vec4 is_nan_mask", "Vec4 cmpge inf", "Vec4 cmple, false lanes NaN", "Vec4 is_finite_mask"];
const A3_CMP_NAMES: [&str; 10] = [
    "Vec3A cmpeq, hidden lane false",
    "Vec3A cmpeq, hidden lane true",
    "Vec3A cmplt, false lanes and hidden lane NaN",
    "Vec3A is_nan_mask, hidden lane NaN",
    "Vec3A cmpne, hidden lane false",
    "Vec3A cmpne, hidden lane NaN (true)",
    "Vec3A cmpge inf, hidden lane false",
    "Vec3A cmpge inf, hidden lane true",
    "Vec3A is_finite_mask, hidden lane NaN",
    "Vec3A cmple, false lanes NaN, hidden lane true",
];
plain_cmp_routes!(cmp_bvec2, BVec2, 2, Vec2, f32, IVec2, DVec2, U8Vec2);
plain_cmp_routes!(cmp_bvec3, BVec3, 3, Vec3, f32, IVec3, DVec3, U8Vec3);
plain_cmp_routes!(cmp_bvec4, BVec4, 4, DVec4, f64, IVec4, DVec4, U8Vec4);

/// BVec4A through Vec4 operations. In the scalar-math build Vec4's mask type is BVec4, so BVec4A has
/// no comparison route there (A4_CMP_ROUTES = 0 and `a4` is never called).
pub fn cmp_bvec4a(k: u64, b: [bool; 4]) -> BVec4A {
    a4(match k {
        0 => Vec4::splat(1.0).cmpeq(Vec4::from_array(pick(b, 1.0, 2.0))),
        1 => Vec4::splat(1.0).cmpne(Vec4::from_array(pick(b, 2.0, 1.0))),
        2 => Vec4::from_array(pick(b, 0.0, f32::NAN)).cmplt(Vec4::splat(1.0)),
        3 => Vec4::from_array(pick(b, f32::NAN, 0.0)).is_nan_mask(),
        4 => Vec4::from_array(pick(b, f32::INFINITY, f32::MAX)).cmpge(Vec4::splat(f32::INFINITY)),
        5 => Vec4::from_array(pick(b, -0.0, f32::NAN)).cmple(Vec4::splat(0.0)),
        _ => Vec4::from_array(pick(b, 1.0, f32::NEG_INFINITY)).is_finite_mask(),
    })
}

fn v3a(a: [f32; 3], h: f32) -> Vec3A {
    Vec3A::from_vec4(Vec4::new(a[0], a[1], a[2], h))
}
/// BVec3A through Vec3A operations; the operands are built with `from_vec4` so that the hidden
/// fourth lane of the result register is false (even k) resp. true (odd k) in the SIMD backends.
const A3_CMP_ROUTES: u64 = 10;
pub fn cmp_bvec3a(k: u64, b: [bool; 3]) -> BVec3A {
    let nan = f32::NAN;
    match k {
        0 => v3a([1.0; 3], 1.0).cmpeq(v3a(pick(b, 1.0, 2.0), 2.0)),
        1 => v3a([1.0; 3], 1.0).cmpeq(v3a(pick(b, 1.0, 2.0), 1.0)),
        2 => v3a(pick(b, 0.0, nan), nan).cmplt(v3a([1.0; 3], 1.0)),
        3 => v3a(pick(b, nan, 0.0), nan).is_nan_mask(),
        4 => v3a([1.0; 3], 1.0).cmpne(v3a(pick(b, 2.0, 1.0), 1.0)),
        5 => v3a([1.0; 3], nan).cmpne(v3a(pick(b, 2.0, 1.0), 1.0)),
        6 => v3a(pick(b, f32::INFINITY, f32::MAX), 0.0).cmpge(v3a([f32::INFINITY; 3], f32::INFINITY)),
        7 => v3a(pick(b, f32::INFINITY, f32::MAX), f32::INFINITY).cmpge(v3a([f32::INFINITY; 3], f32::INFINITY)),
        8 => v3a(pick(b, 1.0, f32::NEG_INFINITY), nan).is_finite_mask(),
        _ => v3a(pick(b, -0.0, nan), -0.0).cmple(v3a([0.0; 3], 0.0)),
    }
}

fn raw_none<M>(_m: M) -> Option<[u32; 4]> {
    None
}

/// index arguments: every valid one, N..N+2, and values that only differ from a valid index in the
/// high bits (a truncating cast would make them look valid), up to usize::MAX.
const INDEXES: [u64; 20] = [
    0,
    1,
    2,
    3,
    4,
    5,
    6,
    7,
    8,
    16,
    0x100,
    0x101,
    0x1_0000,
    0x8000_0000,
    0x1_0000_0000,
    0x1_0000_0001,
    0x8000_0000_0000_0000,
    0x8000_0000_0000_0002,
    0xffff_ffff_ffff_fffe,
    0xffff_ffff_ffff_ffff,
];

macro_rules! observe {
    ($x:expr, $N:expr) => {
        observe!($x, $N, true)
    };
    ($x:expr, $N:expr, $strings:expr) => {{
        let x = $x;
        let strings: bool = $strings;
        let bools: [bool; $N] = x.into();
        let u32s: [u32; $N] = x.into();
        Obs {
            bitmask: x.bitmask(),
            any: x.any(),
            all: x.all(),
            tests: (0..$N).map(|i| x.test(i)).collect(),
            bools: bools.to_vec(),
            u32s: u32s.to_vec(),
            dbg: if strings { format!("{:?}", x) } else { String::new() },
            dbg_alt: if strings { format!("{:#?}", x) } else { String::new() },
            disp: if strings { format!("{}", x) } else { String::new() },
            disp_w: if strings { format!("{:>40}", x) } else { String::new() },
        }
    }};
}

macro_rules! mask_type {
    ($m:ident, $M:ident, $P:ident, $N:expr, $ctor:ident, ($($i:expr),*), $cmp:ident, $KC:expr, $names:ident, $raw:ident) => {
        pub mod $m {
            use super::*;
            pub type M = $M;
            pub type P = $P;
            pub const N: usize = $N;
            pub const TY: &str = stringify!($M);
            pub const PTY: &str = stringify!($P);
            pub const FULL: u32 = (1 << N) - 1;
            pub const BASE_ROUTES: u64 = 13;
            pub const ROUTES: u64 = BASE_ROUTES + $KC;

            #[inline]
            pub fn lanes(bits: u32) -> [bool; N] {
                let mut a = [false; N];
                for i in 0..N {
                    a[i] = (bits >> i) & 1 != 0;
                }
                a
            }
            #[inline]
            pub fn from_bits(bits: u32) -> M {
                let b = lanes(bits);
                M::new($(b[$i]),*)
            }
            #[inline]
            pub fn plain(bits: u32) -> P {
                let b = lanes(bits);
                P::new($(b[$i]),*)
            }

            pub fn route_name(r: u64) -> String {
                match r {
                    0 => "new".into(),
                    1 => "splat+set".into(),
                    2 => "from_array".into(),
                    3 => "From<[bool;N]>".into(),
                    4 => "Into".into(),
                    5 => "ctor-fn".into(),
                    6 => "FALSE+set".into(),
                    7 => "TRUE+set".into(),
                    8 => "default+set-all".into(),
                    9 => "not(new(!bits))".into(),
                    10 => "((new|FALSE)&TRUE)^FALSE".into(),
                    11 => "!new(!bits)|new(bits)".into(),
                    12 => "new^!FALSE^TRUE".into(),
                    k => format!("compare#{}: {}", k - BASE_ROUTES, $names.get((k - BASE_ROUTES) as usize).copied().unwrap_or("?")),
                }
            }

            /// a mask with lanes `bits`, built by route `r`
            pub fn build(r: u64, bits: u32) -> M {
                let bits = bits & FULL;
                let b = lanes(bits);
                match r {
                    0 => M::new($(b[$i]),*),
                    1 => {
                        let mut m = M::splat(b[0]);
                        for i in 1..N {
                            if b[i] != b[0] {
                                m.set(i, b[i]);
                            }
                        }
                        m
                    }
                    2 => M::from_array(b),
                    3 => M::from(b),
                    4 => b.into(),
                    5 => $ctor($(b[$i]),*),
                    6 => {
                        let mut m = M::FALSE;
                        for i in 0..N {
                            if b[i] {
                                m.set(i, true);
                            }
                        }
                        m
                    }
                    7 => {
                        let mut m = M::TRUE;
                        for i in 0..N {
                            if !b[i] {
                                m.set(i, false);
                            }
                        }
                        m
                    }
                    8 => {
                        let mut m = M::default();
                        for i in (0..N).rev() {
                            m.set(i, !b[i]);
                        }
                        for i in (0..N).rev() {
                            m.set(i, b[i]);
                        }
                        m
                    }
                    9 => !from_bits(!bits & FULL),
                    10 => ((from_bits(bits) | M::FALSE) & M::TRUE) ^ M::FALSE,
                    11 => !from_bits(!bits & FULL) | from_bits(bits),
                    12 => (from_bits(bits) ^ !M::FALSE) ^ M::TRUE,
                    k => $cmp(k - BASE_ROUTES, b),
                }
            }

            pub fn model(bits: u32) -> Obs {
                let b = lanes(bits);
                let hex: Vec<&str> = b.iter().map(|&x| if x { "0xffffffff" } else { "0x0" }).collect();
                let tf: Vec<&str> = b.iter().map(|&x| if x { "true" } else { "false" }).collect();
                Obs {
                    bitmask: bits,
                    any: bits != 0,
                    all: bits == FULL,
                    tests: b.to_vec(),
                    bools: b.to_vec(),
                    u32s: b.iter().map(|&x| if x { u32::MAX } else { 0 }).collect(),
                    dbg: format!("{}({})", TY, hex.join(", ")),
                    dbg_alt: String::new(),
                    disp: format!("[{}]", tf.join(", ")),
                    disp_w: String::new(),
                }
            }

            /// compare the observations of `m` with the boolean-array model of `bits`
            pub fn expect(op: &str, form: &str, m: M, bits: u32, ctx: &dyn Fn() -> String) -> Result<Obs, Fail> {
                let o = observe!(m, $N);
                let e = model(bits);
                macro_rules! fld {
                    ($f:ident, $what:expr) => {
                        if o.$f != e.$f {
                            return Err(fail(TY, op, form, format!("{} of the result: got {:?} expected {:?} (lanes {:?}); {}", $what, o.$f, e.$f, lanes(bits), ctx())));
                        }
                    };
                }
                fld!(bitmask, "bitmask()");
                fld!(any, "any()");
                fld!(all, "all()");
                fld!(tests, "test(i)");
                fld!(bools, "Into<[bool; N]>");
                fld!(u32s, "Into<[u32; N]>");
                fld!(dbg, "Debug");
                fld!(disp, "Display");
                Ok(o)
            }

            /// the non-textual observations only (used per comparison result in the vector checks; the
            /// textual ones of comparison-produced masks are covered by mask-obs)
            #[inline]
            #[allow(dead_code)]
            pub fn expect_light(m: M, bits: u32) -> Result<(), String> {
                let b = lanes(bits);
                let bools: [bool; N] = m.into();
                let u32s: [u32; N] = m.into();
                if m.bitmask() != bits {
                    return Err(format!("bitmask() of the result: got {:#b} expected {:#b}", m.bitmask(), bits));
                }
                if m.any() != (bits != 0) || m.all() != (bits == FULL) {
                    return Err(format!("any()/all() of the result: got {}/{} for lanes {:?}", m.any(), m.all(), b));
                }
                if bools != b {
                    return Err(format!("Into<[bool; N]> of the result: got {:?} expected {:?}", bools, b));
                }
                for i in 0..N {
                    if m.test(i) != b[i] {
                        return Err(format!("test({i}) of the result: got {} expected {}", m.test(i), b[i]));
                    }
                    if u32s[i] != if b[i] { u32::MAX } else { 0 } {
                        return Err(format!("Into<[u32; N]> of the result: got {:x?} for lanes {:?}", u32s, b));
                    }
                }
                Ok(())
            }

            fn tally_raw(m: M, t: &mut Tally) {
                if let Some(r) = $raw(m) {
                    let mut ones = true;
                    for i in 0..N {
                        ones &= r[i] == 0 || r[i] == u32::MAX;
                    }
                    t.class(if ones { "raw-lanes:0/0xffffffff" } else { "raw-lanes:other" });
                    if N == 3 && VARIANT != "scalar" {
                        t.class(if r[3] == 0 { "hidden-lane:0" } else if r[3] == u32::MAX { "hidden-lane:0xffffffff" } else { "hidden-lane:other" });
                    }
                }
            }

            /// words: route, bits. Every observation of one mask value built by one route.
            pub fn check_obs(w: &[u64], t: &mut Tally) -> Result<(), Fail> {
                let (r, bits) = (w[0], w[1] as u32 & FULL);
                t.eval(1);
                t.class(&format!("route:{}", route_name(r)));
                let ctx = || format!("mask lanes {:?} built by route {} ({})", lanes(bits), r, route_name(r));
                let m = build(r, bits);
                tally_raw(m, t);
                if t.want_sample() && bits != 0 && bits != FULL && r >= 9 {
                    t.sample(json!({"type": TY, "variant": VARIANT, "lanes": format!("{:?}", lanes(bits)), "route": route_name(r), "debug": format!("{:?}", m), "words": hexwords(w)}));
                }
                let o = expect("observe", "", m, bits, &ctx)?;
                // function of the lanes only: identical to the same lanes built by `new`
                let o0 = observe!(from_bits(bits), $N);
                if o != o0 {
                    return Err(fail(TY, "observe", "route-independence", format!("got {:?}, the same lanes built by new give {:?}; {}", o, o0, ctx())));
                }
                // BVec3A/BVec4A are BVec3/BVec4 up to the printed type name
                let mut op = observe!(plain(bits), $N);
                op.dbg = op.dbg.replacen(PTY, TY, 1);
                op.dbg_alt = op.dbg_alt.replacen(PTY, TY, 1);
                if o != op {
                    return Err(fail(TY, "observe", "vs-plain", format!("got {:?}, {} with the same lanes gives {:?} (type name substituted); {}", o, PTY, op, ctx())));
                }
                // Hash of arrays, slices and vectors of masks goes through `Hash::hash_slice`, which a type may override:
                // still a function of the lanes only
                {
                    let m0 = from_bits(bits);
                    if std_hash(&[m, m0]) != std_hash(&[m0, m0]) || std_hash(&[m, m][..]) != std_hash(&[m0, m0][..]) || std_hash(&vec![m0, m, m]) != std_hash(&vec![m0, m0, m0]) {
                        return Err(fail(TY, "hash", "slice", format!("an array / slice / Vec holding this mask hashes differently from one holding the equal mask built by new; {}", ctx())));
                    }
                }
                // ==, !=, Hash against every other value built by `new`
                let h = std_hash(&m);
                for other in 0..=FULL {
                    let mo = from_bits(other);
                    let eq = other == bits;
                    if (m == mo) != eq || (mo == m) != eq || (m != mo) == eq || m.eq(&mo) != eq || m.ne(&mo) == eq {
                        return Err(fail(TY, "eq", "", format!("== / != against new{:?} inconsistent with lane equality ({}); {}", lanes(other), eq, ctx())));
                    }
                    if eq && std_hash(&mo) != h {
                        return Err(fail(TY, "hash", "", format!("hash {:#x} differs from the hash {:#x} of an equal mask built by new; {}", h, std_hash(&mo), ctx())));
                    }
                }
                // Not, Clone, Copy, Default
                expect("not", "", !m, !bits & FULL, &ctx)?;
                expect("not", "!!", !!m, bits, &ctx)?;
                expect("clone", "", Clone::clone(&m), bits, &ctx)?;
                if r == 0 && bits == 0 {
                    expect("default", "", M::default(), 0, &ctx)?;
                    expect("FALSE", "", M::FALSE, 0, &ctx)?;
                    expect("TRUE", "", M::TRUE, FULL, &ctx)?;
                    expect("splat", "false", M::splat(false), 0, &ctx)?;
                    expect("splat", "true", M::splat(true), FULL, &ctx)?;
                }
                // set on every valid index, both values: only that lane changes
                for i in 0..N {
                    for v in [false, true] {
                        let mut x = m;
                        x.set(i, v);
                        let e = (bits & !(1 << i)) | ((v as u32) << i);
                        let ctx2 = || format!("set({i}, {v}) on {}", ctx());
                        expect("set", "", x, e, &ctx2)?;
                        if std_hash(&x) != std_hash(&from_bits(e)) || x != from_bits(e) {
                            return Err(fail(TY, "set", "eq/hash", format!("result differs in ==/hash from new{:?}; {}", lanes(e), ctx2())));
                        }
                        // and back
                        x.set(i, (bits >> i) & 1 != 0);
                        expect("set", "restore", x, bits, &ctx2)?;
                    }
                }
                Ok(())
            }

            /// words: route, bits, index, mode (0/1: set(index, false/true); 2: test(index)). Valid indexes must
            /// work, invalid ones must panic.
            pub fn check_index(w: &[u64], t: &mut Tally) -> Result<(), Fail> {
                let (r, bits, idx, mode) = (w[0], w[1] as u32 & FULL, w[2] as usize, w[3].min(2));
                t.eval(1);
                let valid = w[2] < N as u64;
                t.class(if valid { "index:valid" } else { "index:invalid" });
                t.class(if mode == 2 { "op:test" } else { "op:set" });
                let ctx = || format!("index {} (0x{:x}) on mask lanes {:?} built by route {} ({})", idx, idx, lanes(bits), r, route_name(r));
                // index == N gets its own signature: in the SIMD backends that is the hidden lane of BVec3A
                let which = if w[2] == N as u64 { "index-N-no-panic" } else { "invalid-index-no-panic" };
                let m = build(r, bits);
                if mode == 2 {
                    match (catch(|| m.test(idx)), valid) {
                        (Ok(g), true) if g == ((bits >> idx) & 1 != 0) => {}
                        (Ok(g), true) => return Err(fail(TY, "test", "valid", format!("got {g}; {}", ctx()))),
                        (Err(p), true) => return Err(fail(TY, "test", "valid", format!("panicked ({p}) on a valid index; {}", ctx()))),
                        (Ok(g), false) => return Err(fail(TY, &format!("test-{which}"), "invalid-index", format!("test returned {g} instead of panicking; {}", ctx()))),
                        (Err(_), false) => {}
                    }
                } else {
                    let v = mode == 1;
                    let mut x = m;
                    match (catch(|| x.set(idx, v)), valid) {
                        (Ok(()), true) => {
                            let e = (bits & !(1 << idx)) | ((v as u32) << idx);
                            expect("set", "valid", x, e, &ctx)?;
                        }
                        (Err(p), true) => return Err(fail(TY, "set", "valid", format!("panicked ({p}) on a valid index; {}", ctx()))),
                        (Ok(()), false) => {
                            return Err(fail(TY, &format!("set-{which}"), "invalid-index", format!("set(.., {v}) returned instead of panicking (mask afterwards {:?}); {}", x, ctx())))
                        }
                        (Err(_), false) => {}
                    }
                }
                Ok(())
            }

            /// words: route a, bits a, route b, bits b. & | ^ in value and assign form, ==, !=, Hash.
            pub fn check_binop(w: &[u64], t: &mut Tally) -> Result<(), Fail> {
                let (ra, ba, rb, bb) = (w[0], w[1] as u32 & FULL, w[2], w[3] as u32 & FULL);
                t.eval(1);
                let ctx = || format!("a = lanes {:?} by route {} ({}), b = lanes {:?} by route {} ({})", lanes(ba), ra, route_name(ra), lanes(bb), rb, route_name(rb));
                let (a, b) = (build(ra, ba), build(rb, bb));
                if t.want_sample() && ba != 0 && ba != FULL && bb != 0 && bb != FULL && ba != bb && ra >= 9 && rb != ra {
                    t.sample(json!({"type": TY, "variant": VARIANT, "a": format!("{:?}", lanes(ba)), "route_a": route_name(ra), "b": format!("{:?}", lanes(bb)), "route_b": route_name(rb), "words": hexwords(w)}));
                }
                expect("bitand", "a & b", a & b, ba & bb, &ctx)?;
                expect("bitor", "a | b", a | b, ba | bb, &ctx)?;
                expect("bitxor", "a ^ b", a ^ b, ba ^ bb, &ctx)?;
                let mut x = a;
                x &= b;
                expect("bitand", "a &= b", x, ba & bb, &ctx)?;
                let mut x = a;
                x |= b;
                expect("bitor", "a |= b", x, ba | bb, &ctx)?;
                let mut x = a;
                x ^= b;
                expect("bitxor", "a ^= b", x, ba ^ bb, &ctx)?;
                // compound expressions keep being lane-wise (hidden lanes of intermediate results are arbitrary)
                expect("not", "!(a & b)", !(a & b), !(ba & bb) & FULL, &ctx)?;
                expect("not", "!a | !b", !a | !b, (!ba | !bb) & FULL, &ctx)?;
                expect("bitxor", "!a ^ b", !a ^ b, (!ba ^ bb) & FULL, &ctx)?;
                let eq = ba == bb;
                if (a == b) != eq || (a != b) == eq {
                    return Err(fail(TY, "eq", "a == b", format!("a == b gives {}, a != b gives {}, lanes equal: {}; {}", a == b, a != b, eq, ctx())));
                }
                if eq && std_hash(&a) != std_hash(&b) {
                    return Err(fail(TY, "hash", "equal lanes", format!("hashes {:#x} and {:#x} of equal masks differ; {}", std_hash(&a), std_hash(&b), ctx())));
                }
                let x = !a;
                let y = !b;
                if (x == y) != eq || (eq && std_hash(&x) != std_hash(&y)) {
                    return Err(fail(TY, "eq", "!a == !b", format!("!a == !b gives {}, lanes equal: {}, hashes {:#x} {:#x}; {}", x == y, eq, std_hash(&x), std_hash(&y), ctx())));
                }
                Ok(())
            }

            pub fn subs<'a>(out: &mut Vec<SubCheck<'a>>) {
                out.push(SubCheck::new(
                    format!("mask-obs/{}/{}", TY, VARIANT),
                    1,
                    |env: &mut Env| {
                        env.tally.exhaustive = true;
                        for r in 0..ROUTES {
                            for bits in 0..=FULL {
                                if bits != 0 && bits != FULL {
                                    env.tally.nontrivial_enum(1);
                                }
                                if !env.direct(&[r, bits as u64], &check_obs) {
                                    return;
                                }
                            }
                        }
                        env.tally.notes.insert("routes".into(), json!((0..ROUTES).map(route_name).collect::<Vec<_>>()));
                    },
                    check_obs,
                ));
                out.push(SubCheck::new(
                    format!("mask-index/{}/{}", TY, VARIANT),
                    1,
                    |env: &mut Env| {
                        env.tally.exhaustive = true;
                        for r in 0..ROUTES {
                            for bits in 0..=FULL {
                                for idx in INDEXES {
                                    for v in 0..3u64 {
                                        if bits != 0 && bits != FULL {
                                            env.tally.nontrivial_enum(1);
                                        }
                                        if !env.direct(&[r, bits as u64, idx, v], &check_index) {
                                            return;
                                        }
                                    }
                                }
                            }
                        }
                        env.tally.notes.insert("indexes".into(), json!(hexwords(&INDEXES)));
                    },
                    check_index,
                ));
                out.push(SubCheck::new(
                    format!("mask-binop/{}/{}", TY, VARIANT),
                    1,
                    |env: &mut Env| {
                        env.tally.exhaustive = true;
                        for ra in 0..ROUTES {
                            for ba in 0..=FULL {
                                for rb in 0..ROUTES {
                                    for bb in 0..=FULL {
                                        let mixed = |b: u32| b != 0 && b != FULL;
                                        if mixed(ba) || mixed(bb) {
                                            env.tally.nontrivial_enum(1);
                                        }
                                        if !env.direct(&[ra, ba as u64, rb, bb as u64], &check_binop) {
                                            return;
                                        }
                                    }
                                }
                            }
                        }
                    },
                    check_binop,
                ));
            }
        }
    };
}

mask_type!(mbvec2, BVec2, BVec2, 2, bvec2, (0, 1), cmp_bvec2, PLAIN_CMP_ROUTES, PLAIN_CMP_NAMES, raw_none);
mask_type!(mbvec3, BVec3, BVec3, 3, bvec3, (0, 1, 2), cmp_bvec3, PLAIN_CMP_ROUTES, PLAIN_CMP_NAMES, raw_none);
mask_type!(mbvec4, BVec4, BVec4, 4, bvec4, (0, 1, 2, 3), cmp_bvec4, PLAIN_CMP_ROUTES, PLAIN_CMP_NAMES, raw_none);
mask_type!(mbvec3a, BVec3A, BVec3, 3, bvec3a, (0, 1, 2), cmp_bvec3a, A3_CMP_ROUTES, A3_CMP_NAMES, raw3a);
mask_type!(mbvec4a, BVec4A, BVec4, 4, bvec4a, (0, 1, 2, 3), cmp_bvec4a, A4_CMP_ROUTES, A4_CMP_NAMES, raw4a);

// ------------------------------------------------------------------------------------------------
// comparisons and select on the numeric vector types
// ------------------------------------------------------------------------------------------------

/// lane pairs of an integer type: independent, equal, off by one, differing in the top bit only
/// (a signed/unsigned mix-up), complemented, negated.
fn int_pair(bits: u32, signed: bool) -> BoxedStrategy<(u64, u64)> {
    let mask: u64 = if bits == 64 { u64::MAX } else { (1u64 << bits) - 1 };
    (lattice::lat_int(bits, signed), lattice::lat_int(bits, signed), 0u8..14)
        .prop_map(move |(a, b, k)| {
            let y = match k {
                0 | 1 => a,
                2 => a.wrapping_add(1),
                3 => a.wrapping_sub(1),
                4 => a ^ (1u64 << (bits - 1)),
                5 => !a,
                6 => (!a).wrapping_add(1),
                _ => b,
            };
            (a, y & mask)
        })
        .boxed()
}

fn int_specials(bits: u32) -> Vec<u64> {
    let mask: u64 = if bits == 64 { u64::MAX } else { (1u64 << bits) - 1 };
    if bits == 8 {
        return (0..256).collect();
    }
    let mut v: Vec<u64> = vec![0, 1, 2, 3, 7, 10, 100, 255, 256, 1000];
    for k in 0..bits {
        let p = 1u64 << k;
        v.extend_from_slice(&[p, p.wrapping_add(1), p.wrapping_sub(1)]);
    }
    let neg: Vec<u64> = v.iter().map(|x| (!x).wrapping_add(1)).collect();
    v.extend(neg);
    for x in v.iter_mut() {
        *x &= mask;
    }
    v.sort_unstable();
    v.dedup();
    v
}

macro_rules! vec_type {
    ($m:ident, $V:ident, $T:ident, $N:expr, $mm:ident, $mk:expr) => {
        pub mod $m {
            use super::*;
            pub const N: usize = $N;
            pub type V = $V;
            pub type T = $T;
            pub type M = $mm::M;
            pub const TY: &str = stringify!($V);
            pub const BITS: u32 = <T as Prim>::BITS;
            pub const FULL: u32 = (1 << N) - 1;
            #[inline]
            pub fn hidden() -> bool {
                TY == "Vec3A"
            }

            #[inline]
            pub fn arr(w: &[u64]) -> [T; N] {
                let mut a = [T::fw(0); N];
                for i in 0..N {
                    a[i] = T::fw(w[i]);
                }
                a
            }
            #[inline]
            fn mk(a: [T; N], h: u64) -> V {
                ($mk)(a, h)
            }
            fn bits_of(a: [T; N]) -> Vec<String> {
                a.iter().map(|x| format!("0x{:x}", x.tb())).collect()
            }

            /// the property's N rule on the operands: some comparison mask is mixed, or a NaN/zero/inf takes part
            pub fn is_nontrivial(w: &[u64]) -> bool {
                let a = arr(&w[0..N]);
                let b = arr(&w[N..2 * N]);
                let mut nt = false;
                let (mut lt, mut eq) = (0u32, 0u32);
                for i in 0..N {
                    nt |= a[i].special() || b[i].special();
                    lt |= ((a[i] < b[i]) as u32) << i;
                    eq |= ((a[i] == b[i]) as u32) << i;
                }
                nt || (lt != 0 && lt != FULL) || (eq != 0 && eq != FULL)
            }

            /// words: a[N] b[N] ha hb (ha/hb: content of the hidden lane, Vec3A only)
            pub fn check_inner(w: &[u64], t: &mut Tally, count: bool) -> Result<(), Fail> {
                let a = arr(&w[0..N]);
                let b = arr(&w[N..2 * N]);
                let (ha, hb) = (w[2 * N], w[2 * N + 1]);
                t.eval(1);
                for i in 0..N {
                    t.class(a[i].cls());
                    t.class(b[i].cls());
                    if a[i] == b[i] {
                        t.class("pair:equal");
                    } else if a[i] < b[i] {
                        t.class("pair:less");
                    } else if a[i] > b[i] {
                        t.class("pair:greater");
                    } else {
                        t.class("pair:unordered");
                    }
                }
                if hidden() {
                    let (x, y) = (f32::from_bits(ha as u32), f32::from_bits(hb as u32));
                    t.class(if x == y { "hidden-pair:equal" } else if x < y { "hidden-pair:less" } else if x > y { "hidden-pair:greater" } else { "hidden-pair:unordered" });
                }
                if count && is_nontrivial(w) {
                    t.nontrivial(mix(hash_str(TY), mix(hash_str(VARIANT), fnv(&w[..2 * N + 2]))));
                    if t.want_sample() {
                        t.sample(json!({"type": TY, "variant": VARIANT, "a": format!("{:?}", a), "b": format!("{:?}", b), "words": hexwords(w)}));
                    }
                }
                let (va, vb) = (mk(a, ha), mk(b, hb));
                let ctx = || format!("a={:?} {:?} b={:?} {:?} hidden lanes (Vec3A only) 0x{:x} 0x{:x}", a, bits_of(a), b, bits_of(b), ha, hb);
                let sel_ok = |op: &str, form: &str, got: V, mbits: u32| -> Result<(), Fail> {
                    let g = got.to_array();
                    for i in 0..N {
                        let e = if (mbits >> i) & 1 != 0 { a[i] } else { b[i] };
                        if g[i].tb() != e.tb() {
                            return Err(fail(
                                TY,
                                op,
                                form,
                                format!("lane {i}: got {:?} (0x{:x}) expected {:?} (0x{:x}) for mask lanes {:?}; {}", g[i], g[i].tb(), e, e.tb(), $mm::lanes(mbits), ctx()),
                            ));
                        }
                    }
                    Ok(())
                };
                macro_rules! cmp {
                    ($name:expr, $meth:ident, $p:expr) => {{
                        let mut e = 0u32;
                        for i in 0..N {
                            if $p(a[i], b[i]) {
                                e |= 1 << i;
                            }
                        }
                        let m: M = va.$meth(vb);
                        $mm::expect_light(m, e).map_err(|s| fail(TY, $name, "", format!("{s}; {}", ctx())))?;
                        if m != $mm::from_bits(e) || std_hash(&m) != std_hash(&$mm::from_bits(e)) {
                            return Err(fail(TY, $name, "eq/hash", format!("result {:?} is not ==/hash-equal to new{:?}; {}", m, $mm::lanes(e), ctx())));
                        }
                        if e != 0 && e != FULL {
                            t.class(concat!("mixed-mask:", $name));
                        }
                        // select driven by the comparison's own mask and by its complement
                        sel_ok("select", concat!("mask from ", $name), V::select(m, va, vb), e)?;
                        sel_ok("select", concat!("mask from !", $name), V::select(!m, va, vb), !e & FULL)?;
                    }};
                }
                cmp!("cmpeq", cmpeq, |x: T, y: T| x == y);
                cmp!("cmpne", cmpne, |x: T, y: T| x != y);
                cmp!("cmplt", cmplt, |x: T, y: T| x < y);
                cmp!("cmple", cmple, |x: T, y: T| x <= y);
                cmp!("cmpgt", cmpgt, |x: T, y: T| x > y);
                cmp!("cmpge", cmpge, |x: T, y: T| x >= y);
                // reflexive comparison (NaN lanes are the only false ones)
                {
                    let mut e = 0u32;
                    for i in 0..N {
                        if !(a[i] != a[i]) {
                            e |= 1 << i;
                        }
                    }
                    let m: M = va.cmpeq(va);
                    $mm::expect_light(m, e).map_err(|s| fail(TY, "cmpeq", "a,a", format!("{s}; {}", ctx())))?;
                    let m: M = va.cmpne(va);
                    $mm::expect_light(m, !e & FULL).map_err(|s| fail(TY, "cmpne", "a,a", format!("{s}; {}", ctx())))?;
                }
                // every mask value, built by `new` and by a comparison-style route
                for mbits in 0..=FULL {
                    sel_ok("select", "mask from new", V::select($mm::from_bits(mbits), va, vb), mbits)?;
                    // select(m, b, a) is select(!m, a, b)
                    sel_ok("select", "select(new(!lanes shown), b, a)", V::select($mm::from_bits(mbits), vb, va), !mbits & FULL)?;
                    let r = $mm::BASE_ROUTES + (mbits as u64 + ha) % ($mm::ROUTES - $mm::BASE_ROUTES);
                    sel_ok("select", "mask from a comparison route", V::select($mm::build(r, mbits), va, vb), mbits)?;
                    sel_ok("select", "mask from not(new)", V::select(!$mm::from_bits(!mbits & FULL), va, vb), mbits)?;
                }
                Ok(())
            }
            pub fn check(w: &[u64], t: &mut Tally) -> Result<(), Fail> {
                check_inner(w, t, true)
            }
            pub fn check_enum(w: &[u64], t: &mut Tally) -> Result<(), Fail> {
                check_inner(w, t, false)
            }

            pub fn strat() -> BoxedStrategy<Vec<u64>> {
                if <T as Prim>::FLOAT {
                    (lattice::lane_pairs(BITS, N), lattice::related(BITS))
                        .prop_map(|(mut ab, h)| {
                            ab.push(h.0);
                            ab.push(h.1);
                            ab
                        })
                        .boxed()
                } else {
                    proptest::collection::vec(int_pair(BITS, <T as Prim>::SIGNED), N)
                        .prop_map(|v| {
                            let mut out: Vec<u64> = v.iter().map(|p| p.0).collect();
                            out.extend(v.iter().map(|p| p.1));
                            out.push(0);
                            out.push(0);
                            out
                        })
                        .boxed()
                }
            }

            pub fn specials() -> Vec<u64> {
                if <T as Prim>::FLOAT {
                    if BITS == 32 {
                        lattice::f32_specials().into_iter().map(|x| x as u64).collect()
                    } else {
                        lattice::f64_specials()
                    }
                } else {
                    int_specials(BITS)
                }
            }

            pub fn subs<'a>(out: &mut Vec<SubCheck<'a>>) {
                out.push(SubCheck::new(
                    format!("cmp-select/{}/{}", TY, VARIANT),
                    2,
                    |env: &mut Env| {
                        env.tally.exhaustive = false;
                        let n = env.cases(60_000, 30);
                        env.prop("cmp-select", n, strat(), &check);
                    },
                    check,
                ));
                // every pair of lattice points (all 256 x 256 pairs for the 8-bit types), in every lane position
                out.push(SubCheck::new(
                    format!("cmp-lattice/{}/{}", TY, VARIANT),
                    2,
                    |env: &mut Env| {
                        env.tally.exhaustive = true;
                        let sp = specials();
                        let n = sp.len();
                        env.tally.notes.insert("lattice_points".into(), json!(n));
                        env.tally.notes.insert("pairs".into(), json!(n * n));
                        let quick = env.args.tier != Tier::Thorough;
                        for i in env.my_range(n as u64) {
                            let i = i as usize;
                            for j in 0..n {
                                // quick: one lane position per pair (rotating); thorough: the pair in every lane position
                                for l in 0..N {
                                    if quick && l != (i + j) % N {
                                        continue;
                                    }
                                    let mut w = [0u64; 2 * N + 2];
                                    for q in 0..N {
                                        w[q] = sp[(i * 7 + 3 + q) % n];
                                        w[N + q] = sp[(j * 5 + 1 + 2 * q) % n];
                                    }
                                    w[l] = sp[i];
                                    w[N + l] = sp[j];
                                    w[2 * N] = sp[j];
                                    w[2 * N + 1] = sp[if (i + j) % 2 == 0 { j } else { i }];
                                    if is_nontrivial(&w) {
                                        env.tally.nontrivial_enum(1);
                                    }
                                    if !env.direct(&w, &check_enum) {
                                        return;
                                    }
                                }
                            }
                        }
                        env.tally.notes.insert("lane_positions".into(), json!(if quick { "one per pair, rotating" } else { "all" }));
                    },
                    check_enum,
                ));
            }
        }
    };
}

macro_rules! plain_vec {
    ($m:ident, $V:ident, $T:ident, $N:expr, $mm:ident) => {
        vec_type!($m, $V, $T, $N, $mm, |a: [$T; $N], _h: u64| $V::from_array(a));
    };
}

plain_vec!(vec2, Vec2, f32, 2, mbvec2);
plain_vec!(vec3, Vec3, f32, 3, mbvec3);
vec_type!(vec3a, Vec3A, f32, 3, mbvec3a, |a: [f32; 3], h: u64| Vec3A::from_vec4(Vec4::new(a[0], a[1], a[2], f32::from_bits(h as u32))));
plain_vec!(vec4, Vec4, f32, 4, mvec4);
plain_vec!(dvec2, DVec2, f64, 2, mbvec2);
plain_vec!(dvec3, DVec3, f64, 3, mbvec3);
plain_vec!(dvec4, DVec4, f64, 4, mbvec4);
plain_vec!(i8vec2, I8Vec2, i8, 2, mbvec2);
plain_vec!(i8vec3, I8Vec3, i8, 3, mbvec3);
plain_vec!(i8vec4, I8Vec4, i8, 4, mbvec4);
plain_vec!(u8vec2, U8Vec2, u8, 2, mbvec2);
plain_vec!(u8vec3, U8Vec3, u8, 3, mbvec3);
plain_vec!(u8vec4, U8Vec4, u8, 4, mbvec4);
plain_vec!(i16vec2, I16Vec2, i16, 2, mbvec2);
plain_vec!(i16vec3, I16Vec3, i16, 3, mbvec3);
plain_vec!(i16vec4, I16Vec4, i16, 4, mbvec4);
plain_vec!(u16vec2, U16Vec2, u16, 2, mbvec2);
plain_vec!(u16vec3, U16Vec3, u16, 3, mbvec3);
plain_vec!(u16vec4, U16Vec4, u16, 4, mbvec4);
plain_vec!(ivec2, IVec2, i32, 2, mbvec2);
plain_vec!(ivec3, IVec3, i32, 3, mbvec3);
plain_vec!(ivec4, IVec4, i32, 4, mbvec4);
plain_vec!(uvec2, UVec2, u32, 2, mbvec2);
plain_vec!(uvec3, UVec3, u32, 3, mbvec3);
plain_vec!(uvec4, UVec4, u32, 4, mbvec4);
plain_vec!(i64vec2, I64Vec2, i64, 2, mbvec2);
plain_vec!(i64vec3, I64Vec3, i64, 3, mbvec3);
plain_vec!(i64vec4, I64Vec4, i64, 4, mbvec4);
plain_vec!(u64vec2, U64Vec2, u64, 2, mbvec2);
plain_vec!(u64vec3, U64Vec3, u64, 3, mbvec3);
plain_vec!(u64vec4, U64Vec4, u64, 4, mbvec4);
plain_vec!(usizevec2, USizeVec2, usize, 2, mbvec2);
plain_vec!(usizevec3, USizeVec3, usize, 3, mbvec3);
plain_vec!(usizevec4, USizeVec4, usize, 4, mbvec4);

pub fn subs<'a>(_args: &Args) -> Vec<SubCheck<'a>> {
    let mut out = vec![];
    mbvec2::subs(&mut out);
    mbvec3::subs(&mut out);
    mbvec4::subs(&mut out);
    mbvec3a::subs(&mut out);
    mbvec4a::subs(&mut out);
    vec2::subs(&mut out);
    vec3::subs(&mut out);
    vec3a::subs(&mut out);
    vec4::subs(&mut out);
    dvec2::subs(&mut out);
    dvec3::subs(&mut out);
    dvec4::subs(&mut out);
    i8vec2::subs(&mut out);
    i8vec3::subs(&mut out);
    i8vec4::subs(&mut out);
    u8vec2::subs(&mut out);
    u8vec3::subs(&mut out);
    u8vec4::subs(&mut out);
    i16vec2::subs(&mut out);
    i16vec3::subs(&mut out);
    i16vec4::subs(&mut out);
    u16vec2::subs(&mut out);
    u16vec3::subs(&mut out);
    u16vec4::subs(&mut out);
    ivec2::subs(&mut out);
    ivec3::subs(&mut out);
    ivec4::subs(&mut out);
    uvec2::subs(&mut out);
    uvec3::subs(&mut out);
    uvec4::subs(&mut out);
    i64vec2::subs(&mut out);
    i64vec3::subs(&mut out);
    i64vec4::subs(&mut out);
    u64vec2::subs(&mut out);
    u64vec3::subs(&mut out);
    u64vec4::subs(&mut out);
    usizevec2::subs(&mut out);
    usizevec3::subs(&mut out);
    usizevec4::subs(&mut out);
    out
}
