// Included once per glam variant (`glam` is aliased by the including module).
use super::gen;
use super::refq::{self, Num};
use super::Fl;
#[allow(unused_imports)]
use glam::{DQuat, DVec3, Quat, Vec3, Vec3A};
use proptest::prelude::*;
use serde_json::json;
use vcore::lattice;
use vcore::*;

type Forms<X> = Vec<(&'static str, X)>;

pub trait QuatT: Copy + 'static {
    type T: Fl;
    const TY: &'static str;
    fn mk(a: [Self::T; 4]) -> Self;
    fn arr(&self) -> [Self::T; 4];
    fn mul_forms(q: &Self, p: &Self) -> Forms<Self>;
    fn sum_forms(q: &Self, p: &Self) -> Forms<Self>;
    fn empty_folds() -> Forms<Self>;
    fn single_folds(q: &Self) -> Forms<Self>;
    fn add(q: &Self, p: &Self) -> Self;
    fn sub(q: &Self, p: &Self) -> Self;
    fn scal(q: &Self, s: Self::T) -> Self;
    fn divs(q: &Self, s: Self::T) -> Self;
    fn negate(q: &Self) -> Self;
    fn conj(q: &Self) -> Self;
    fn inv(q: &Self) -> Self;
    fn dot(q: &Self, p: &Self) -> Self::T;
    fn len(q: &Self) -> Self::T;
    fn len2(q: &Self) -> Self::T;
    fn lenrecip(q: &Self) -> Self::T;
    fn norm(q: &Self) -> Self;
    /// (name, quaternion form, the 4-vector operation of the same build on the same components): scalars, then normalize
    fn like_vec4(q: &Self, p: &Self) -> (Vec<(&'static str, Self::T, Self::T)>, [Self::T; 4], [Self::T; 4]);
    /// every way of writing q*v; the first entry is the Vec3 operator form
    fn rot_forms(q: &Self, v: [Self::T; 3]) -> Forms<[Self::T; 3]>;
}

macro_rules! quat_impl {
    ($Q:ident, $T:ident, $V:ident, $V4:ident, |$q:ident, $v:ident, $o:ident| $extra:block) => {
        impl QuatT for $Q {
            type T = $T;
            const TY: &'static str = stringify!($Q);
            fn mk(a: [$T; 4]) -> Self {
                $Q::from_xyzw(a[0], a[1], a[2], a[3])
            }
            fn arr(&self) -> [$T; 4] {
                self.to_array()
            }
            fn mul_forms(q: &Self, p: &Self) -> Forms<Self> {
                let mut x = *q;
                x *= *p;
                let l = [*q, *p];
                vec![("q*p", *q * *p), ("mul_quat", q.mul_quat(*p)), ("q*=p", x), ("Product by value", l.iter().copied().product()), ("Product by ref", l.iter().product())]
            }
            fn sum_forms(q: &Self, p: &Self) -> Forms<Self> {
                let l = [*q, *p];
                vec![("q+p", *q + *p), ("Sum by value", l.iter().copied().sum()), ("Sum by ref", l.iter().sum())]
            }
            fn empty_folds() -> Forms<Self> {
                let e: [Self; 0] = [];
                vec![("Sum by value of nothing", e.iter().copied().sum()), ("Sum by ref of nothing", e.iter().sum()), ("Product by value of nothing", e.iter().copied().product()), ("Product by ref of nothing", e.iter().product())]
            }
            fn single_folds(q: &Self) -> Forms<Self> {
                let e = [*q];
                vec![("Sum by value of one", e.iter().copied().sum()), ("Sum by ref of one", e.iter().sum()), ("Product by value of one", e.iter().copied().product()), ("Product by ref of one", e.iter().product())]
            }
            fn add(q: &Self, p: &Self) -> Self {
                *q + *p
            }
            fn sub(q: &Self, p: &Self) -> Self {
                *q - *p
            }
            fn scal(q: &Self, s: $T) -> Self {
                *q * s
            }
            fn divs(q: &Self, s: $T) -> Self {
                *q / s
            }
            fn negate(q: &Self) -> Self {
                -*q
            }
            fn conj(q: &Self) -> Self {
                q.conjugate()
            }
            fn inv(q: &Self) -> Self {
                q.inverse()
            }
            fn dot(q: &Self, p: &Self) -> $T {
                q.dot(*p)
            }
            fn len(q: &Self) -> $T {
                q.length()
            }
            fn len2(q: &Self) -> $T {
                q.length_squared()
            }
            fn lenrecip(q: &Self) -> $T {
                q.length_recip()
            }
            fn norm(q: &Self) -> Self {
                q.normalize()
            }
            fn like_vec4(q: &Self, p: &Self) -> (Vec<(&'static str, $T, $T)>, [$T; 4], [$T; 4]) {
                let (a, b) = (glam::$V4::from_array(q.to_array()), glam::$V4::from_array(p.to_array()));
                (
                    vec![("dot", q.dot(*p), a.dot(b)), ("length_squared", q.length_squared(), a.length_squared()), ("length", q.length(), a.length()), ("length_recip", q.length_recip(), a.length_recip())],
                    q.normalize().to_array(),
                    a.normalize().to_array(),
                )
            }
            fn rot_forms($q: &Self, $v: [$T; 3]) -> Forms<[$T; 3]> {
                let vv = $V::from_array($v);
                let mut $o: Forms<[$T; 3]> = vec![("q*v", (*$q * vv).to_array()), ("mul_vec3", $q.mul_vec3(vv).to_array())];
                $extra
                $o
            }
        }
    };
}
quat_impl!(Quat, f32, Vec3, Vec4, |q, v, o| {
    let va = Vec3A::from_array(v);
    o.push(("q*Vec3A", (*q * va).to_array()));
    o.push(("mul_vec3a", q.mul_vec3a(va).to_array()));
    // the same Vec3A values with junk (finite, infinite, NaN) in the padding lane
    for (name, h) in [("q*Vec3A [padding 7e29]", 0x7149_f2cau32), ("q*Vec3A [padding +inf]", 0x7f80_0000), ("q*Vec3A [padding NaN]", 0x7fc0_0000), ("q*Vec3A [padding -0.0]", 0x8000_0000)] {
        let vj = Vec3A::from_vec4(glam::Vec4::new(v[0], v[1], v[2], f32::from_bits(h)));
        o.push((name, (*q * vj).to_array()));
        o.push((name, q.mul_vec3a(vj).to_array()));
    }
});
quat_impl!(DQuat, f64, DVec3, DVec4, |_q, _v, _o| {});

fn fail<Q: QuatT>(op: &str, form: &str, msg: String) -> Fail {
    Fail::new(format!("C04/{}/{}/{}", VARIANT, Q::TY, op), format!("{op}[{form}]"), msg)
}
fn dec4<T: Fl>(w: &[u64]) -> [T; 4] {
    [T::fb(w[0]), T::fb(w[1]), T::fb(w[2]), T::fb(w[3])]
}
fn dec3<T: Fl>(w: &[u64]) -> [T; 3] {
    [T::fb(w[0]), T::fb(w[1]), T::fb(w[2])]
}
fn r4<T: Fl>(a: &[T; 4]) -> [T::R; 4] {
    [a[0].r(), a[1].r(), a[2].r(), a[3].r()]
}
fn r3<T: Fl>(a: &[T; 3]) -> [T::R; 3] {
    [a[0].r(), a[1].r(), a[2].r()]
}
fn f4<T: Fl>(a: &[T; 4]) -> [f64; 4] {
    [a[0].to64(), a[1].to64(), a[2].to64(), a[3].to64()]
}
fn f3<T: Fl>(a: &[T; 3]) -> [f64; 3] {
    [a[0].to64(), a[1].to64(), a[2].to64()]
}
fn nonzero4<T: Fl>(a: &[T; 4]) -> usize {
    a.iter().filter(|x| x.to64() != 0.0).count()
}
fn norm3(a: &[f64; 3]) -> f64 {
    (a[0] * a[0] + a[1] * a[1] + a[2] * a[2]).sqrt()
}
fn norm4(a: &[f64; 4]) -> f64 {
    (a[0] * a[0] + a[1] * a[1] + a[2] * a[2] + a[3] * a[3]).sqrt()
}

/// words: q[4] p[4] s — integers (|component| <= 64, |s| <= 8) as two's complement
fn check_int<Q: QuatT>(w: &[u64], t: &mut Tally) -> Result<(), Fail> {
    let qi: Vec<i64> = w[0..4].iter().map(|x| *x as i64).collect();
    let pi: Vec<i64> = w[4..8].iter().map(|x| *x as i64).collect();
    let s = w[8] as i64;
    t.eval(1);
    let tq = |a: &[i64]| -> [Q::T; 4] { [<Q::T as Fl>::of64(a[0] as f64), <Q::T as Fl>::of64(a[1] as f64), <Q::T as Fl>::of64(a[2] as f64), <Q::T as Fl>::of64(a[3] as f64)] };
    let (qa, pa) = (tq(&qi), tq(&pi));
    let (q, p) = (Q::mk(qa), Q::mk(pa));
    let (nq, np) = (nonzero4(&qa), nonzero4(&pa));
    t.class(&format!("int:nonzero-components q={} p={}", nq, np));
    if nq >= 3 && np >= 3 {
        t.nontrivial(mix(hash_str(Q::TY), mix(hash_str(VARIANT), fnv(w))));
        if t.want_sample() {
            t.sample(json!({"type": Q::TY, "variant": VARIANT, "kind": "integer", "q_xyzw": qi, "p_xyzw": pi, "s": s}));
        }
    }
    let ctx = || format!("q(xyzw)={:?} p(xyzw)={:?} s={}", qi, pi, s);
    let exact = |op: &str, form: &str, got: [Q::T; 4], exp: [i64; 4]| -> Result<(), Fail> {
        for i in 0..4 {
            if !(got[i].to64() == exp[i] as f64) {
                return Err(fail::<Q>(op, form, format!("component {} (xyzw order): got {:?} expected exactly {}; {}", i, got[i], exp[i], ctx())));
            }
        }
        Ok(())
    };
    // the 16-term Hamilton product in i64, (x, y, z, w) storage order
    let (qx, qy, qz, qw) = (qi[0], qi[1], qi[2], qi[3]);
    let (px, py, pz, pw) = (pi[0], pi[1], pi[2], pi[3]);
    let h = [
        qw * px + qx * pw + qy * pz - qz * py,
        qw * py - qx * pz + qy * pw + qz * px,
        qw * pz + qx * py - qy * px + qz * pw,
        qw * pw - qx * px - qy * py - qz * pz,
    ];
    for (form, g) in Q::mul_forms(&q, &p) {
        exact("mul_quat", form, g.arr(), h)?;
    }
    for (form, g) in Q::sum_forms(&q, &p) {
        exact("add", form, g.arr(), [qx + px, qy + py, qz + pz, qw + pw])?;
    }
    // folds over nothing and over one element: Sum starts from the zero 4-vector (+ is component-wise), Product from the identity
    for (form, g) in Q::empty_folds() {
        exact("sum/product", form, g.arr(), if form.starts_with("Sum") { [0, 0, 0, 0] } else { [0, 0, 0, 1] })?;
    }
    for (form, g) in Q::single_folds(&q) {
        exact("sum/product", form, g.arr(), [qx, qy, qz, qw])?;
    }
    exact("sub", "q-p", Q::sub(&q, &p).arr(), [qx - px, qy - py, qz - pz, qw - pw])?;
    exact("mul_scalar", "q*s", Q::scal(&q, <Q::T as Fl>::of64(s as f64)).arr(), [qx * s, qy * s, qz * s, qw * s])?;
    exact("neg", "-q", Q::negate(&q).arr(), [-qx, -qy, -qz, -qw])?;
    exact("conjugate", "", Q::conj(&q).arr(), [-qx, -qy, -qz, qw])?;
    let d = Q::dot(&q, &p);
    if !(d.to64() == (qx * px + qy * py + qz * pz + qw * pw) as f64) {
        return Err(fail::<Q>("dot", "", format!("got {:?} expected exactly {}; {}", d, qx * px + qy * py + qz * pz + qw * pw, ctx())));
    }
    let l2 = Q::len2(&q);
    if !(l2.to64() == (qx * qx + qy * qy + qz * qz + qw * qw) as f64) {
        return Err(fail::<Q>("length_squared", "", format!("got {:?} expected exactly {}; {}", l2, qx * qx + qy * qy + qz * qz + qw * qw, ctx())));
    }
    Ok(())
}

/// words: q[4] p[4] s as float bits, finite and well scaled: product, dot, length, normalize to k·u·S
fn check_real<Q: QuatT>(w: &[u64], t: &mut Tally) -> Result<(), Fail> {
    let u = <Q::T as Fl>::U;
    let tiny = <Q::T as Fl>::TINY;
    let qa: [Q::T; 4] = dec4(&w[0..4]);
    let pa: [Q::T; 4] = dec4(&w[4..8]);
    t.eval(1);
    let (q, p) = (Q::mk(qa), Q::mk(pa));
    let (nq, np) = (nonzero4(&qa), nonzero4(&pa));
    t.class(&format!("real:nonzero-components q={} p={}", nq, np));
    let ln = norm4(&f4(&qa));
    t.class(if (ln - 1.0).abs() < 1e-5 { "real:q unit" } else { "real:q non-unit" });
    if nq >= 3 && np >= 3 {
        t.nontrivial(mix(hash_str(Q::TY), mix(hash_str(VARIANT), fnv(w))));
        if t.want_sample() {
            t.sample(json!({"type": Q::TY, "variant": VARIANT, "kind": "real", "q_xyzw": f4(&qa).to_vec(), "p_xyzw": f4(&pa).to_vec(), "words": hexwords(w)}));
        }
    }
    let ctx = || format!("q(xyzw)={:?} p(xyzw)={:?}", qa, pa);
    let (rq, rp) = (r4(&qa), r4(&pa));
    let aq = [rq[0].nabs(), rq[1].nabs(), rq[2].nabs(), rq[3].nabs()];
    let ap = [rp[0].nabs(), rp[1].nabs(), rp[2].nabs(), rp[3].nabs()];
    // Hamilton product: 1 multiplication + 3 additions on the longest path, +2
    let h = refq::ham(&rq, &rp, true);
    let sh = refq::ham(&aq, &ap, false);
    for (form, g) in Q::mul_forms(&q, &p) {
        let ga = g.arr();
        for i in 0..4 {
            let err = h[i].nsub(ga[i].r()).nabs().f();
            let tol = 6.0 * (u * sh[i].f() + tiny);
            if !(err <= tol) {
                return Err(fail::<Q>("mul_quat", form, format!("component {i} (xyzw order): got {:?} reference {:e}, |diff|={:e} > tol={:e} (6·u·Σ|terms|); {}", ga[i], h[i].f(), err, tol, ctx())));
            }
            if tol > 0.0 {
                t.ratio("mul_quat", err / tol);
            }
        }
    }
    // dot: same shape
    let mut d = <<Q::T as Fl>::R as Num>::zero();
    let mut sd = <<Q::T as Fl>::R as Num>::zero();
    for i in 0..4 {
        d = d.nadd(rq[i].nmul(rp[i]));
        sd = sd.nadd(aq[i].nmul(ap[i]));
    }
    let g = Q::dot(&q, &p);
    let err = d.nsub(g.r()).nabs().f();
    let tol = 6.0 * (u * sd.f() + tiny);
    if !(err <= tol) {
        return Err(fail::<Q>("dot", "", format!("got {:?} reference {:e}, |diff|={:e} > tol={:e}; {}", g, d.f(), err, tol, ctx())));
    }
    if tol > 0.0 {
        t.ratio("dot", err / tol);
    }
    // length_squared (4 ops + 2), length (+ sqrt: half the relative error of the sum, + 1), length_recip (+1), normalize (+1 more)
    let n2 = refq::norm2(&rq);
    if n2.f() > 0.0 {
        let l = n2.nsqrt();
        let rel = |got: Q::T, exp: <Q::T as Fl>::R| -> f64 { exp.nsub(got.r()).nabs().f() / exp.nabs().f() };
        let chk = |name: &str, got: Q::T, exp: <Q::T as Fl>::R, k: f64, t: &mut Tally| -> Result<(), Fail> {
            let e = rel(got, exp);
            if !(e <= k * u) {
                return Err(fail::<Q>(name, "", format!("got {:?} reference {:e}, relative error {:e} > {}·u; {}", got, exp.f(), e, k, ctx())));
            }
            t.ratio(name, e / (k * u));
            Ok(())
        };
        chk("length_squared", Q::len2(&q), n2, 6.0, t)?;
        chk("length", Q::len(&q), l, 5.0, t)?;
        let one = <<Q::T as Fl>::R as Num>::of(1.0);
        chk("length_recip", Q::lenrecip(&q), one.ndiv(l), 6.0, t)?;
        let nn = Q::norm(&q).arr();
        for i in 0..4 {
            let exp = rq[i].ndiv(l);
            let err = exp.nsub(nn[i].r()).nabs().f();
            let tol = 7.0 * u * exp.nabs().f();
            if !(err <= tol) {
                return Err(fail::<Q>("normalize", "", format!("component {i}: got {:?} reference {:e}, |diff|={:e} > 7·u·|ref|={:e}; {}", nn[i], exp.f(), err, tol, ctx())));
            }
            if tol > 0.0 {
                t.ratio("normalize", err / tol);
            }
        }
    }
    Ok(())
}

/// words: q[4] p[4] s as arbitrary bit patterns: conjugate and the 4-vector lane operations
fn check_lanes<Q: QuatT>(w: &[u64], t: &mut Tally) -> Result<(), Fail> {
    let qa: [Q::T; 4] = dec4(&w[0..4]);
    let pa: [Q::T; 4] = dec4(&w[4..8]);
    let s = <Q::T as Fl>::fb(w[8]);
    t.eval(1);
    let mut special = false;
    for i in 0..9 {
        let cl = lattice::class(<Q::T as Fl>::BITS, w[i]);
        t.class(cl);
        special |= !(cl == "ordinary" || cl == "integer");
    }
    if special {
        t.nontrivial(mix(hash_str(Q::TY), mix(hash_str(VARIANT), fnv(w))));
        if t.want_sample() {
            t.sample(json!({"type": Q::TY, "variant": VARIANT, "kind": "bit patterns", "q": format!("{:?}", qa), "p": format!("{:?}", pa), "s": format!("{:?}", s), "words": hexwords(w)}));
        }
    }
    let (q, p) = (Q::mk(qa), Q::mk(pa));
    let ctx = || format!("q(xyzw)={:?} p(xyzw)={:?} s={:?} words={:?}", qa, pa, s, hexwords(w));
    let lanes = |op: &str, got: [Q::T; 4], exp: [Q::T; 4]| -> Result<(), Fail> {
        for i in 0..4 {
            if !<Q::T as Fl>::ieq(got[i], exp[i]) {
                return Err(fail::<Q>(op, "", format!("component {i} (xyzw order): got {:?} (0x{:x}) expected {:?} (0x{:x}); {}", got[i], got[i].tb(), exp[i], exp[i].tb(), ctx())));
            }
        }
        Ok(())
    };
    // storage order round trip
    lanes("to_array", q.arr(), qa)?;
    lanes("conjugate", Q::conj(&q).arr(), [qa[0].fneg(), qa[1].fneg(), qa[2].fneg(), qa[3]])?;
    // conjugate must not touch w: bit-identical unless w is NaN (a NaN may come back with another payload)
    let cw = Q::conj(&q).arr()[3];
    if qa[3].to64() == qa[3].to64() && cw.tb() != qa[3].tb() {
        return Err(fail::<Q>("conjugate", "w bits", format!("w changed from 0x{:x} to 0x{:x}; {}", qa[3].tb(), cw.tb(), ctx())));
    }
    let m = |f: &dyn Fn(Q::T, Q::T) -> Q::T| -> [Q::T; 4] { [f(qa[0], pa[0]), f(qa[1], pa[1]), f(qa[2], pa[2]), f(qa[3], pa[3])] };
    lanes("add", Q::add(&q, &p).arr(), m(&|x, y| x.fadd(y)))?;
    lanes("sub", Q::sub(&q, &p).arr(), m(&|x, y| x.fsub(y)))?;
    lanes("mul_scalar", Q::scal(&q, s).arr(), m(&|x, _| x.fmul(s)))?;
    lanes("div_scalar", Q::divs(&q, s).arr(), m(&|x, _| x.fdiv(s)))?;
    lanes("neg", Q::negate(&q).arr(), m(&|x, _| x.fneg()))?;
    // negation and conjugation only flip sign bits: bit for bit, including the sign of zero (NaNs identified)
    let bits = |op: &str, got: [Q::T; 4], exp: [Q::T; 4]| -> Result<(), Fail> {
        for i in 0..4 {
            let nan = got[i].to64() != got[i].to64() && exp[i].to64() != exp[i].to64();
            if got[i].tb() != exp[i].tb() && !nan {
                return Err(fail::<Q>(op, "bits", format!("component {i} (xyzw order): got {:?} (0x{:x}) expected {:?} (0x{:x}) bit for bit; {}", got[i], got[i].tb(), exp[i], exp[i].tb(), ctx())));
            }
        }
        Ok(())
    };
    bits("neg", Q::negate(&q).arr(), m(&|x, _| x.fneg()))?;
    bits("conjugate", Q::conj(&q).arr(), [qa[0].fneg(), qa[1].fneg(), qa[2].fneg(), qa[3]])?;
    // dot, length, length_squared, length_recip and normalize "act like the 4-vector operations": the same value
    // as the Vec4 / DVec4 operation of this build on the same components (NaNs identified)
    if VARIANT.contains("glam-assert") {
        // normalize / length_recip of a zero or overflowing quaternion is a documented glam-assert panic
        return Ok(());
    }
    let (scalars, nq, nv) = Q::like_vec4(&q, &p);
    for (name, got, exp) in scalars {
        if !<Q::T as Fl>::ieq(got, exp) {
            return Err(fail::<Q>(name, "vs 4-vector", format!("quaternion {name} = {:?} (0x{:x}) but the 4-vector {name} of the same components = {:?} (0x{:x}); {}", got, got.tb(), exp, exp.tb(), ctx())));
        }
    }
    lanes("normalize (vs 4-vector normalize)", nq, nv)?;
    Ok(())
}

/// componentwise bound 9·u·Σ|monomials| of glam's evaluation of v(w²−b·b) + 2b(v·b) + 2w(b×v) (7 operations on the
/// longest path + 2), as a vector and as its 2-norm
fn rot_tol<T: Fl>(q: &[T; 4], v: &[T; 3]) -> ([f64; 3], f64) {
    let s = refq::sandwich_abs(&f4(q), &f3(v));
    let tv = [9.0 * (T::U * s[0] + T::TINY), 9.0 * (T::U * s[1] + T::TINY), 9.0 * (T::U * s[2] + T::TINY)];
    (tv, norm3(&tv))
}

/// words: q[4] p[4] v[3] as float bits; q, p unit quaternions (to rounding), v well scaled
fn check_rot<Q: QuatT>(w: &[u64], t: &mut Tally) -> Result<(), Fail> {
    let u = <Q::T as Fl>::U;
    let qa: [Q::T; 4] = dec4(&w[0..4]);
    let pa: [Q::T; 4] = dec4(&w[4..8]);
    let va: [Q::T; 3] = dec3(&w[8..11]);
    t.eval(1);
    let (q, p) = (Q::mk(qa), Q::mk(pa));
    let qf = f4(&qa);
    let small = qf[0..3].iter().filter(|x| x.abs() < 1e-3).count();
    let cls = if small >= 2 {
        "rot:q axis-aligned or identity (within 1e-3)"
    } else if qf[3].abs() < 1e-3 {
        "rot:q half-turn (|w| < 1e-3)"
    } else if qf[3].abs() > 1.0 - 1e-6 {
        "rot:q tiny angle (|w| > 1 - 1e-6)"
    } else {
        "rot:q generic"
    };
    t.class(cls);
    let vf = f3(&va);
    let vn = norm3(&vf);
    t.class(if vf.iter().filter(|x| **x != 0.0).count() == 3 { "rot:v dense" } else { "rot:v has zero component" });
    if small < 2 && vn > 0.0 {
        t.nontrivial(mix(hash_str(Q::TY), mix(hash_str(VARIANT), fnv(w))));
        if t.want_sample() {
            t.sample(json!({"type": Q::TY, "variant": VARIANT, "kind": "rotation", "q_xyzw": qf.to_vec(), "p_xyzw": f4(&pa).to_vec(), "v": vf.to_vec(), "words": hexwords(w)}));
        }
    }
    let ctx = || format!("q(xyzw)={:?} p(xyzw)={:?} v={:?}", qa, pa, va);
    let (rq, rp, rv) = (r4(&qa), r4(&pa), r3(&va));
    let nq = refq::norm2(&rq).f();
    let np = refq::norm2(&rp).f();
    if !((nq - 1.0).abs() <= 8.0 * u && (np - 1.0).abs() <= 8.0 * u) {
        // the generators only produce unit quaternions; the clause is about unit q
        t.class("rot:skipped (not unit)");
        return Ok(());
    }
    // (1) q*v against the vector part of q v q* (exact polynomial in the stored components), every form
    let sand = refq::sandwich(&rq, &rv);
    let (tq, tqn) = rot_tol::<Q::T>(&qa, &va);
    let forms = Q::rot_forms(&q, va);
    for (form, g) in &forms {
        for i in 0..3 {
            let err = sand[i].nsub(g[i].r()).nabs().f();
            if !(err <= tq[i]) {
                return Err(fail::<Q>("mul_vec3", form, format!("component {i}: got {:?}, vector part of q v q* = {:e}, |diff|={:e} > tol={:e} (9·u·Σ|monomials|); {}", g[i], sand[i].f(), err, tq[i], ctx())));
            }
            if tq[i] > 0.0 {
                t.ratio("rotation-vs-sandwich", err / tq[i]);
            }
        }
        // the statement's form: rotated vector q v q⁻¹ within a few u·|v| (recorded against DESIGN's k = 12)
        if vn > 0.0 {
            let mut e2 = 0.0;
            for i in 0..3 {
                let r = sand[i].f() / nq;
                e2 += (g[i].to64() - r) * (g[i].to64() - r);
            }
            t.ratio("rotation-vs-qvq^-1 / (12·u·|v|)", e2.sqrt() / (12.0 * u * vn));
        }
    }
    let a = forms[0].1;
    let af = f3(&a);
    // (2) all forms agree (Vec3 / Vec3A, operator / method)
    for (form, g) in &forms[1..] {
        let d = norm3(&[g[0].to64() - af[0], g[1].to64() - af[1], g[2].to64() - af[2]]);
        if !(d <= 2.0 * tqn) {
            return Err(fail::<Q>("mul_vec3", "forms-agree", format!("{form} = {:?} but q*Vec3 = {:?}; |diff|={:e} > {:e}; {}", g, a, d, 2.0 * tqn, ctx())));
        }
        if tqn > 0.0 {
            t.ratio("law:Vec3A-form = Vec3-form", d / (2.0 * tqn));
        }
    }
    // (3) |q*v| = |v|
    let d = (norm3(&af) - vn).abs();
    let tol = tqn + (nq - 1.0).abs() * vn + 2.0 * u * vn;
    if !(d <= tol) {
        return Err(fail::<Q>("mul_vec3", "length-preserved", format!("|q*v|={:e} |v|={:e}, diff {:e} > {:e}; {}", norm3(&af), vn, d, tol, ctx())));
    }
    if tol > 0.0 {
        t.ratio("law:|q*v| = |v|", d / tol);
    }
    // (4) (-q)*v = q*v
    let nqv = Q::rot_forms(&Q::negate(&q), va)[0].1;
    let d = norm3(&[nqv[0].to64() - af[0], nqv[1].to64() - af[1], nqv[2].to64() - af[2]]);
    if !(d <= 2.0 * tqn) {
        return Err(fail::<Q>("mul_vec3", "(-q)*v", format!("(-q)*v = {:?} but q*v = {:?}; |diff|={:e} > {:e}; {}", nqv, a, d, 2.0 * tqn, ctx())));
    }
    if tqn > 0.0 {
        t.ratio("law:(-q)*v = q*v", d / (2.0 * tqn));
    }
    // (5) q.inverse()*(q*v) = v
    let qi = Q::inv(&q);
    let back = Q::rot_forms(&qi, a)[0].1;
    let (_, tb) = rot_tol::<Q::T>(&qi.arr(), &a);
    let d = norm3(&[back[0].to64() - vf[0], back[1].to64() - vf[1], back[2].to64() - vf[2]]);
    let tol = tb + nq * tqn + (nq * nq - 1.0).abs() * vn + 2.0 * u * vn;
    if !(d <= tol) {
        return Err(fail::<Q>("mul_vec3", "inverse-undoes", format!("q.inverse()*(q*v) = {:?} but v = {:?}; |diff|={:e} > {:e}; {}", back, va, d, tol, ctx())));
    }
    if tol > 0.0 {
        t.ratio("law:q.inverse()*(q*v) = v", d / tol);
    }
    // (6) (q*p)*v = q*(p*v)
    let r = Q::mul_forms(&q, &p)[0].1;
    let ra = r.arr();
    let aq = [rq[0].nabs(), rq[1].nabs(), rq[2].nabs(), rq[3].nabs()];
    let ap = [rp[0].nabs(), rp[1].nabs(), rp[2].nabs(), rp[3].nabs()];
    let sh = refq::ham(&aq, &ap, false);
    let dr = 6.0 * u * norm4(&[sh[0].f(), sh[1].f(), sh[2].f(), sh[3].f()]); // |δr| of the rounded product
    let lhs = Q::rot_forms(&r, va)[0].1;
    let (_, t_r) = rot_tol::<Q::T>(&ra, &va);
    let b = Q::rot_forms(&p, va)[0].1;
    let (_, t_p) = rot_tol::<Q::T>(&pa, &va);
    let c = Q::rot_forms(&q, b)[0].1;
    let (_, t_qb) = rot_tol::<Q::T>(&qa, &b);
    let d = norm3(&[lhs[0].to64() - c[0].to64(), lhs[1].to64() - c[1].to64(), lhs[2].to64() - c[2].to64()]);
    let tol = t_r + 2.0 * dr * (nq * np).sqrt() * vn + dr * dr * vn + t_qb + nq * t_p + 2.0 * u * vn;
    if !(d <= tol) {
        return Err(fail::<Q>("mul_vec3", "(q*p)*v = q*(p*v)", format!("(q*p)*v = {:?}, q*(p*v) = {:?}; |diff|={:e} > {:e}; q*p = {:?}; {}", lhs, c, d, tol, ra, ctx())));
    }
    if tol > 0.0 {
        t.ratio("law:(q*p)*v = q*(p*v)", d / tol);
    }
    // and against the exact composite
    let comp = refq::sandwich(&rq, &refq::sandwich(&rp, &rv));
    let dl = norm3(&[comp[0].nsub(lhs[0].r()).f(), comp[1].nsub(lhs[1].r()).f(), comp[2].nsub(lhs[2].r()).f()]);
    let tl = t_r + 2.0 * dr * (nq * np).sqrt() * vn + dr * dr * vn + 2.0 * u * vn;
    if !(dl <= tl) {
        return Err(fail::<Q>("mul_vec3", "(q*p)*v vs reference", format!("(q*p)*v = {:?}, reference {:?}; |diff|={:e} > {:e}; {}", lhs, [comp[0].f(), comp[1].f(), comp[2].f()], dl, tl, ctx())));
    }
    if tl > 0.0 {
        t.ratio("composite-vs-reference", dl / tl);
    }
    Ok(())
}

fn bits4<T: Fl>(q: &[f64; 4]) -> Vec<u64> {
    q.iter().map(|x| T::of64(*x).tb()).collect()
}

fn strat_int() -> BoxedStrategy<Vec<u64>> {
    (gen::int_quat(), gen::int_quat(), -8i64..=8)
        .prop_map(|(q, p, s)| q.iter().chain(p.iter()).chain([s].iter()).map(|x| *x as u64).collect::<Vec<u64>>())
        .boxed()
}
fn strat_real<Q: QuatT>() -> BoxedStrategy<Vec<u64>> {
    let smax = if <Q::T as Fl>::BITS == 32 { 20 } else { 200 };
    (gen::any_quat(smax), gen::any_quat(smax))
        .prop_map(|(q, p)| {
            let mut w = bits4::<Q::T>(&q);
            w.extend(bits4::<Q::T>(&p));
            w.push(0);
            w
        })
        .boxed()
}
fn strat_lanes<Q: QuatT>() -> BoxedStrategy<Vec<u64>> {
    let bits = <Q::T as Fl>::BITS;
    (lattice::lane_pairs(bits, 4), lattice::lat(bits))
        .prop_map(|(mut qp, s)| {
            qp.push(s);
            qp
        })
        .boxed()
}
fn strat_rot<Q: QuatT>() -> BoxedStrategy<Vec<u64>> {
    let smax = if <Q::T as Fl>::BITS == 32 { 90 } else { 300 }; // f32: |v|^2 leaves the normal range beyond 2^+-63; nothing in q v q* squares v
    (gen::unit_quat(), gen::unit_quat(), gen::vec3(smax))
        .prop_map(|(q, p, v)| {
            let mut w = bits4::<Q::T>(&q);
            w.extend(bits4::<Q::T>(&p));
            w.extend(v.iter().map(|x| <Q::T as Fl>::of64(*x).tb()));
            w
        })
        .boxed()
}

fn push_subs<'a, Q: QuatT>(out: &mut Vec<SubCheck<'a>>) {
    out.push(SubCheck::new(
        format!("hamilton-int/{}/{}", Q::TY, VARIANT),
        4,
        |env: &mut Env| {
            let n = env.cases(100_000, 50);
            env.prop("int", n, strat_int(), &check_int::<Q>);
        },
        check_int::<Q>,
    ));
    out.push(SubCheck::new(
        format!("hamilton-real/{}/{}", Q::TY, VARIANT),
        4,
        |env: &mut Env| {
            let n = env.cases(100_000, 50);
            env.prop("real", n, strat_real::<Q>(), &check_real::<Q>);
        },
        check_real::<Q>,
    ));
    out.push(SubCheck::new(
        format!("lanes/{}/{}", Q::TY, VARIANT),
        2,
        |env: &mut Env| {
            let n = env.cases(40_000, 50);
            env.prop("lanes", n, strat_lanes::<Q>(), &check_lanes::<Q>);
        },
        check_lanes::<Q>,
    ));
    out.push(SubCheck::new(
        format!("rotation/{}/{}", Q::TY, VARIANT),
        8,
        |env: &mut Env| {
            let n = env.cases(200_000, 50);
            env.prop("rot", n, strat_rot::<Q>(), &check_rot::<Q>);
        },
        check_rot::<Q>,
    ));
}

pub fn subs<'a>(_args: &Args) -> Vec<SubCheck<'a>> {
    let mut out = vec![];
    push_subs::<Quat>(&mut out);
    push_subs::<DQuat>(&mut out);
    out
}
