//! C04 — quaternion algebra: Hamilton product, conjugate, 4-vector lane operations, rotation of vectors.
//!
//! glam-independent part: the reference number types (f64 for Quat, double-double for DQuat), the
//! reference Hamilton product / sandwich product, and the generators.
use vcore::num::DD;
use vcore::*;

pub mod refq {
    use super::DD;

    pub trait Num: Copy + std::fmt::Debug + PartialEq {
        fn zero() -> Self;
        fn nadd(self, o: Self) -> Self;
        fn nsub(self, o: Self) -> Self;
        fn nmul(self, o: Self) -> Self;
        fn ndiv(self, o: Self) -> Self;
        fn nsqrt(self) -> Self;
        fn nneg(self) -> Self;
        fn nabs(self) -> Self;
        fn f(self) -> f64;
        fn of(x: f64) -> Self;
    }
    impl Num for f64 {
        fn zero() -> f64 { 0.0 }
        fn nadd(self, o: f64) -> f64 { self + o }
        fn nsub(self, o: f64) -> f64 { self - o }
        fn nmul(self, o: f64) -> f64 { self * o }
        fn ndiv(self, o: f64) -> f64 { self / o }
        fn nsqrt(self) -> f64 { self.sqrt() }
        fn nneg(self) -> f64 { -self }
        fn nabs(self) -> f64 { self.abs() }
        fn f(self) -> f64 { self }
        fn of(x: f64) -> f64 { x }
    }
    impl Num for DD {
        fn zero() -> DD { DD::ZERO }
        fn nadd(self, o: DD) -> DD { self.add(o) }
        fn nsub(self, o: DD) -> DD { self.sub(o) }
        fn nmul(self, o: DD) -> DD { self.mul(o) }
        fn ndiv(self, o: DD) -> DD { self.div(o) }
        fn nsqrt(self) -> DD { self.sqrt() }
        fn nneg(self) -> DD { self.neg() }
        fn nabs(self) -> DD { self.abs() }
        fn f(self) -> f64 { self.hi + self.lo }
        fn of(x: f64) -> DD { DD::new(x) }
    }

    /// Hamilton product in (x, y, z, w) storage order. `signed == false` adds all 16 terms
    /// (on absolute values this is Σ|terms| per component).
    pub fn ham<X: Num>(q: &[X; 4], p: &[X; 4], signed: bool) -> [X; 4] {
        let (qx, qy, qz, qw) = (q[0], q[1], q[2], q[3]);
        let (px, py, pz, pw) = (p[0], p[1], p[2], p[3]);
        let s = |a: X, b: X| if signed { a.nsub(b) } else { a.nadd(b) };
        [
            // x = qw px + qx pw + qy pz - qz py
            s(qw.nmul(px).nadd(qx.nmul(pw)).nadd(qy.nmul(pz)), qz.nmul(py)),
            // y = qw py - qx pz + qy pw + qz px
            s(qw.nmul(py).nadd(qy.nmul(pw)).nadd(qz.nmul(px)), qx.nmul(pz)),
            // z = qw pz + qx py - qy px + qz pw
            s(qw.nmul(pz).nadd(qx.nmul(py)).nadd(qz.nmul(pw)), qy.nmul(px)),
            // w = qw pw - qx px - qy py - qz pz
            s(s(s(qw.nmul(pw), qx.nmul(px)), qy.nmul(py)), qz.nmul(pz)),
        ]
    }
    pub fn conj<X: Num>(q: &[X; 4]) -> [X; 4] {
        [q[0].nneg(), q[1].nneg(), q[2].nneg(), q[3]]
    }
    pub fn norm2<X: Num>(q: &[X; 4]) -> X {
        q[0].nmul(q[0]).nadd(q[1].nmul(q[1])).nadd(q[2].nmul(q[2])).nadd(q[3].nmul(q[3]))
    }
    /// vector part of q (v, 0) q* — for a unit q the rotated vector, in general |q|² times it
    pub fn sandwich<X: Num>(q: &[X; 4], v: &[X; 3]) -> [X; 3] {
        let pv = [v[0], v[1], v[2], X::zero()];
        let t = ham(&ham(q, &pv, true), &conj(q), true);
        [t[0], t[1], t[2]]
    }
    /// Σ|monomials| per component of v(w² − b·b) + 2 b (v·b) + 2 w (b × v), in f64
    pub fn sandwich_abs(q: &[f64; 4], v: &[f64; 3]) -> [f64; 3] {
        let b = [q[0].abs(), q[1].abs(), q[2].abs()];
        let w = q[3].abs();
        let va = [v[0].abs(), v[1].abs(), v[2].abs()];
        let b2 = b[0] * b[0] + b[1] * b[1] + b[2] * b[2];
        let vb = va[0] * b[0] + va[1] * b[1] + va[2] * b[2];
        let mut out = [0.0; 3];
        for i in 0..3 {
            let (j, k) = ((i + 1) % 3, (i + 2) % 3);
            out[i] = va[i] * (w * w + b2) + 2.0 * b[i] * vb + 2.0 * w * (b[j] * va[k] + b[k] * va[j]);
        }
        out
    }
}

pub trait Fl: Copy + PartialOrd + std::fmt::Debug + Default + 'static {
    type R: refq::Num;
    const BITS: u32;
    const U: f64;
    const TINY: f64;
    fn fb(w: u64) -> Self;
    fn tb(self) -> u64;
    fn r(self) -> Self::R;
    fn to64(self) -> f64;
    fn of64(x: f64) -> Self;
    fn ieq(a: Self, b: Self) -> bool;
    fn fadd(self, o: Self) -> Self;
    fn fsub(self, o: Self) -> Self;
    fn fmul(self, o: Self) -> Self;
    fn fdiv(self, o: Self) -> Self;
    fn fneg(self) -> Self;
}
impl Fl for f32 {
    type R = f64;
    const BITS: u32 = 32;
    const U: f64 = vcore::num::U32;
    const TINY: f64 = 1.5e-45;
    #[inline] fn fb(w: u64) -> f32 { f32::from_bits(w as u32) }
    #[inline] fn tb(self) -> u64 { self.to_bits() as u64 }
    #[inline] fn r(self) -> f64 { self as f64 }
    #[inline] fn to64(self) -> f64 { self as f64 }
    #[inline] fn of64(x: f64) -> f32 { x as f32 }
    #[inline] fn ieq(a: f32, b: f32) -> bool { (a.is_nan() && b.is_nan()) || a == b }
    #[inline] fn fadd(self, o: f32) -> f32 { self + o }
    #[inline] fn fsub(self, o: f32) -> f32 { self - o }
    #[inline] fn fmul(self, o: f32) -> f32 { self * o }
    #[inline] fn fdiv(self, o: f32) -> f32 { self / o }
    #[inline] fn fneg(self) -> f32 { -self }
}
impl Fl for f64 {
    type R = DD;
    const BITS: u32 = 64;
    const U: f64 = vcore::num::U64;
    const TINY: f64 = 5e-324;
    #[inline] fn fb(w: u64) -> f64 { f64::from_bits(w) }
    #[inline] fn tb(self) -> u64 { self.to_bits() }
    #[inline] fn r(self) -> DD { DD::new(self) }
    #[inline] fn to64(self) -> f64 { self }
    #[inline] fn of64(x: f64) -> f64 { x }
    #[inline] fn ieq(a: f64, b: f64) -> bool { (a.is_nan() && b.is_nan()) || a == b }
    #[inline] fn fadd(self, o: f64) -> f64 { self + o }
    #[inline] fn fsub(self, o: f64) -> f64 { self - o }
    #[inline] fn fmul(self, o: f64) -> f64 { self * o }
    #[inline] fn fdiv(self, o: f64) -> f64 { self / o }
    #[inline] fn fneg(self) -> f64 { -self }
}

/// Generators (glam-independent); all values are f64 and get rounded to the scalar type by the caller.
pub mod gen {
    use proptest::prelude::*;
    use proptest::strategy::BoxedStrategy;
    use std::f64::consts::PI;

    fn normalize4(q: [f64; 4]) -> [f64; 4] {
        let n = (q[0] * q[0] + q[1] * q[1] + q[2] * q[2] + q[3] * q[3]).sqrt();
        [q[0] / n, q[1] / n, q[2] / n, q[3] / n]
    }
    /// uniform direction from two uniforms
    fn axis(z01: f64, phi01: f64) -> [f64; 3] {
        let z = 2.0 * z01 - 1.0;
        let r = (1.0 - z * z).max(0.0).sqrt();
        let phi = 2.0 * PI * phi01;
        [r * phi.cos(), r * phi.sin(), z]
    }

    /// Unit quaternions: uniform on S³ (Shoemake's rejection-free construction), axis-angle with the angle
    /// within 1e-3..1e-16 of 0 or π (so that w rounds to exactly ±1 or the half-turn's w to ~0 while the vector part is still non-zero), w within 1e-3..1e-10 of 0 (or exactly 0), single-axis rotations.
    pub fn unit_quat() -> BoxedStrategy<[f64; 4]> {
        let uni = (0.0f64..1.0, 0.0f64..1.0, 0.0f64..1.0)
            .prop_map(|(u1, u2, u3)| {
                let (a, b) = ((1.0 - u1).sqrt(), u1.sqrt());
                normalize4([a * (2.0 * PI * u2).sin(), a * (2.0 * PI * u2).cos(), b * (2.0 * PI * u3).sin(), b * (2.0 * PI * u3).cos()])
            })
            .boxed();
        let near = (0.0f64..1.0, 0.0f64..1.0, prop_oneof![2 => 3.0f64..7.0, 1 => 7.0f64..16.0], any::<bool>(), any::<bool>())
            .prop_map(|(z, phi, k, at_pi, neg)| {
                let ax = axis(z, phi);
                let d = 10f64.powf(-k);
                let ang = if at_pi { PI - d } else { d };
                let (s, c) = (ang / 2.0).sin_cos();
                let sg = if neg { -1.0 } else { 1.0 };
                normalize4([sg * ax[0] * s, sg * ax[1] * s, sg * ax[2] * s, sg * c])
            })
            .boxed();
        let w0 = (0.0f64..1.0, 0.0f64..1.0, 3.0f64..10.0, 0u8..4)
            .prop_map(|(z, phi, k, mode)| {
                let ax = axis(z, phi);
                let w = match mode {
                    0 => 0.0,
                    1 => -(10f64.powf(-k)),
                    _ => 10f64.powf(-k),
                };
                let s = (1.0 - w * w).sqrt();
                normalize4([ax[0] * s, ax[1] * s, ax[2] * s, w])
            })
            .boxed();
        let single = (0usize..3, prop_oneof![3 => -2.0 * PI..2.0 * PI, 1 => proptest::sample::select(vec![0.0, PI / 2.0, PI, -PI / 2.0, 2.0 * PI])])
            .prop_map(|(a, ang)| {
                let (s, c) = (ang / 2.0f64).sin_cos();
                let mut q = [0.0, 0.0, 0.0, c];
                q[a] = s;
                normalize4(q)
            })
            .boxed();
        prop_oneof![55 => uni, 15 => near, 15 => w0, 15 => single].boxed()
    }

    /// Non-unit quaternions: a unit one times 2^s, or independent log-uniform components (some zero).
    pub fn any_quat(smax: i32) -> BoxedStrategy<[f64; 4]> {
        let scaled = (unit_quat(), -smax..=smax, 1.0f64..2.0).prop_map(|(q, s, m)| {
            let f = m * 2f64.powi(s);
            [q[0] * f, q[1] * f, q[2] * f, q[3] * f]
        });
        let indep = proptest::collection::vec((any::<bool>(), -8.0f64..8.0, 0u8..10), 4).prop_map(|v| {
            let mut q = [0.0; 4];
            for i in 0..4 {
                let (s, e, z) = v[i];
                q[i] = if z == 0 { 0.0 } else { 2f64.powf(e) * if s { -1.0 } else { 1.0 } };
            }
            q
        });
        prop_oneof![25 => unit_quat(), 40 => scaled, 35 => indep].boxed()
    }

    /// Well-scaled vectors: dense, single-axis, with zero components; overall scale 2^±smax.
    pub fn vec3(smax: i32) -> BoxedStrategy<[f64; 3]> {
        (proptest::collection::vec((-1.0f64..1.0, 0u8..8), 3), -smax..=smax, 0u8..6, 0usize..3)
            .prop_map(|(c, s, mode, ax)| {
                let f = 2f64.powi(s);
                let mut v = [0.0; 3];
                for i in 0..3 {
                    v[i] = if c[i].1 == 0 { 0.0 } else { c[i].0 * f };
                }
                if mode == 0 {
                    // single axis
                    let x = if v[ax] == 0.0 { f } else { v[ax] };
                    v = [0.0; 3];
                    v[ax] = x;
                }
                v
            })
            .boxed()
    }

    /// Integer quaternion with |component| <= 64: mostly dense, some zeros, single-axis.
    pub fn int_quat() -> BoxedStrategy<[i64; 4]> {
        let dense = proptest::collection::vec(prop_oneof![1i64..=64, -64i64..=-1], 4).prop_map(|v| [v[0], v[1], v[2], v[3]]);
        let any = proptest::collection::vec(-64i64..=64, 4).prop_map(|v| [v[0], v[1], v[2], v[3]]);
        let small = proptest::collection::vec(-3i64..=3, 4).prop_map(|v| [v[0], v[1], v[2], v[3]]);
        let single = (0usize..3, -64i64..=64, -64i64..=64).prop_map(|(a, x, w)| {
            let mut q = [0, 0, 0, w];
            q[a] = x;
            q
        });
        prop_oneof![50 => dense, 25 => any, 15 => small, 10 => single].boxed()
    }
}

mod simd {
    pub const VARIANT: &str = "simd";
    use ::glam_simd as glam;
    include!("suite.rs");
}
mod scalar {
    pub const VARIANT: &str = "scalar";
    use ::glam_scalar as glam;
    include!("suite.rs");
}
/// scalar-math with `glam-assert`: the second pass for the scalar copies (a quarter of the volume)
#[cfg(not(feature = "core"))]
mod scalar_asserting {
    pub const VARIANT: &str = "scalar+glam-assert";
    use ::glam_scalar_assert as glam;
    include!("suite.rs");
}
/// the same algebra with `glam-assert` compiled in: the Hamilton product, conjugate and the 4-vector operations are stated
/// for every finite quaternion, so none of them may start rejecting (panicking on) non-unit operands there
#[cfg(not(feature = "core"))]
mod asserting {
    pub const VARIANT: &str = "simd+glam-assert";
    use ::glam_assert as glam;
    include!("suite.rs");
}
#[cfg(feature = "core")]
mod core_simd {
    pub const VARIANT: &str = "core";
    use ::glam_core as glam;
    include!("suite.rs");
}
/// core-simd with `glam-assert`: the second pass for the portable-simd copies (a quarter of the volume)
#[cfg(feature = "core")]
mod core_asserting {
    pub const VARIANT: &str = "core+glam-assert";
    use ::glam_core_assert as glam;
    include!("suite.rs");
}

fn main() {
    let args = Args::parse();
    let mut subs = vec![];
    #[cfg(not(feature = "core"))]
    {
        subs.extend(simd::subs(&args));
        subs.extend(scalar::subs(&args));
        subs.extend(asserting::subs(&args).into_iter().filter(|s| s.name.starts_with("hamilton-int/") || s.name.starts_with("hamilton-real/") || s.name.starts_with("lanes/")));
        subs.extend(scalar_asserting::subs(&args).into_iter().filter(|s| s.name.starts_with("hamilton-int/") || s.name.starts_with("hamilton-real/") || s.name.starts_with("lanes/")).map(|s| s.with_div(4)));
    }
    #[cfg(feature = "core")]
    {
        subs.extend(core_simd::subs(&args));
        subs.extend(core_asserting::subs(&args).into_iter().filter(|s| s.name.starts_with("hamilton-int/") || s.name.starts_with("hamilton-real/") || s.name.starts_with("lanes/")).map(|s| s.with_div(4)));
    }
    let code = main_with("C04", "see MANIFEST / evidence rule", &args, subs);
    std::process::exit(code);
}
