//! C04 — not implemented yet.
fn main() {
    eprintln!("c04: not implemented");
    std::process::exit(2);
}
