//! C08 fuzz target (libFuzzer + ASan): bytes -> two hidden-lane worlds and a program of up to 4 API-table calls
//! on Vec3A / Mat3A / Affine3A / BVec3A (SSE2 build), interpreted by the same metamorphic check the proptest
//! sub-check `program/simd` uses: every observation must be bit-identical in both worlds.
#![no_main]
#![allow(deprecated, dead_code, unused_imports, unused_braces)]
use libfuzzer_sys::fuzz_target;

#[path = "../../c08/src/main.rs"]
mod c08;

const HIDDEN: [u64; 16] = [
    0, 0x8000_0000, 0x3f80_0000, 0xbf80_0000, 0x7f80_0000, 0xff80_0000, 0x7fc0_0000, 0xffc0_0000, 0x7f80_0001, 0xffff_ffff, 1, 0x007f_ffff, 0x7f7f_ffff,
    0xff7f_ffff, 0x4b00_0000, 0xcb00_0000,
];
const VISIBLE: [u32; 24] = [
    0, 0x8000_0000, 0x3f80_0000, 0xbf80_0000, 0x4000_0000, 0x3f00_0000, 0x4040_0000, 0xc0a0_0000, 0x7f80_0000, 0xff80_0000, 0x7fc0_0000, 1, 0x007f_ffff,
    0x7f7f_ffff, 0x3eaa_aaab, 0x4049_0fdb, 0x3400_0000, 0x4b00_0000, 0x1e3c_e508, 0x6050_7c7a, 0x41c8_0000, 0xc2c8_0000, 0x3dcc_cccd, 0x447a_0000,
];

fuzz_target!(|data: &[u8]| {
    use c08::simd::{MAXSTEPS, NH, NW};
    let mut p = 0usize;
    let mut byte = |p: &mut usize| -> u8 {
        let b = data.get(*p).copied().unwrap_or(0);
        *p += 1;
        b
    };
    if data.len() < 2 * NH + 2 {
        return;
    }
    let mut words: Vec<u64> = vec![];
    for _ in 0..2 * NH {
        words.push(HIDDEN[byte(&mut p) as usize % HIDDEN.len()]);
    }
    let nsteps = (byte(&mut p) as usize % (MAXSTEPS + 1)) as u64;
    words.push(nsteps);
    for _ in 0..MAXSTEPS {
        let sel = ((byte(&mut p) as u64) << 8) | byte(&mut p) as u64;
        words.push(sel);
        for _ in 0..NW {
            let s = byte(&mut p);
            let v = if s < 224 {
                VISIBLE[s as usize % VISIBLE.len()]
            } else {
                let mut x = 0u32;
                for _ in 0..4 {
                    x = (x << 8) | byte(&mut p) as u32;
                }
                x
            };
            words.push(v as u64);
        }
    }
    let mut t = vcore::Tally::default();
    if let Err(f) = c08::simd::program_check(&words, &mut t) {
        panic!("C08 violation: {} | {} | {}", f.sig, f.op, f.msg);
    }
});
