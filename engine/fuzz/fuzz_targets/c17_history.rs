//! C17 fuzz target (libFuzzer + ASan): bytes -> a history of constructions, lane writes and read-rebuild steps
//! through different access paths of one vector / quaternion type (SSE2 build), interpreted by the same
//! check function the proptest sub-check `history/<Type>/simd` uses (model = [bits; N], all read paths compared
//! after every step). A model mismatch panics, which libFuzzer reports with the input as artifact.
#![no_main]
#![allow(deprecated, dead_code, unused_imports)]
use libfuzzer_sys::fuzz_target;

#[path = "../../c17/src/main.rs"]
mod c17;

const SPECIALS: [u64; 24] = [
    0, 1, 2, 3, 0x7f, 0x80, 0xff, 0x7fff, 0x8000, 0xffff, 0x3f80_0000, 0xbf80_0000, 0x8000_0000, 0x7fc0_0001, 0xffc0_0000, 0x7f80_0001,
    0x7fff_ffff, 0xffff_ffff, 0x3ff0_0000_0000_0000, 0x8000_0000_0000_0000, 0x7ff8_0000_0000_0001, 0x7ff0_0000_0000_0001, 0x7fff_ffff_ffff_ffff, u64::MAX,
];

fuzz_target!(|data: &[u8]| {
    if data.is_empty() {
        return;
    }
    let checks = c17::simd::history_checks();
    let (_, check) = checks[data[0] as usize % checks.len()];
    let mut p = 1usize;
    let mut byte = |p: &mut usize| -> Option<u8> {
        let b = data.get(*p).copied();
        *p += 1;
        b
    };
    let mut words: Vec<u64> = vec![];
    'ops: for _ in 0..32 {
        let (Some(code), Some(path), Some(k)) = (byte(&mut p), byte(&mut p), byte(&mut p)) else { break };
        let mut rec = vec![(code % 3) as u64, path as u64 % 16, k as u64 % 16];
        for _ in 0..4 {
            let Some(sel) = byte(&mut p) else { break 'ops };
            let v = if sel < 192 {
                SPECIALS[sel as usize % SPECIALS.len()]
            } else {
                let mut x = 0u64;
                for _ in 0..8 {
                    x = (x << 8) | byte(&mut p).unwrap_or(0) as u64;
                }
                x
            };
            rec.push(v);
        }
        words.extend(rec);
    }
    let mut t = vcore::Tally::default();
    if let Err(f) = check(&words, &mut t) {
        panic!("C17 violation: {} | {} | {}", f.sig, f.op, f.msg);
    }
});
