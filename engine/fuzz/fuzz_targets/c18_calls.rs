//! C18 fuzz target (libFuzzer + AddressSanitizer): bytes -> a sequence of calls into the SSE2 build's
//! API table with lattice-biased arguments; later calls can be fed the raw results of earlier ones.
//! Any panic (libfuzzer-sys aborts on panic) or sanitizer report is the finding: with valid indices and
//! long-enough slices no public float function may panic for any argument.
#![no_main]
#![allow(deprecated, unused_braces, dead_code)]
use libfuzzer_sys::fuzz_target;

mod simd {
    use ::glam_simd as glam;
    include!(concat!(env!("CARGO_MANIFEST_DIR"), "/../apisupport/api_support.rs"));
    include!(concat!(env!("CARGO_MANIFEST_DIR"), "/../gen/api_table_sse2.rs"));
}
use simd::*;

const SPECIALS32: [u32; 32] = [
    0, 0x8000_0000, 0x3f80_0000, 0xbf80_0000, 0x7f80_0000, 0xff80_0000, 0x7fc0_0000, 0xffc0_0000, 0x7f80_0001, 0xffff_ffff, 1, 0x007f_ffff, 0x0080_0000,
    0x7f7f_ffff, 0xff7f_ffff, 0x0da2_4260, 0x1e3c_e508, 0x6050_7c7a, 0x7e96_7699, 0x3400_0000, 0x3f00_0000, 0x4000_0000, 0x4049_0fdb, 0x3fc9_0fdb,
    0x4b00_0000, 0x4b80_0000, 0x4f00_0000, 0x5f00_0000, 0x3f7f_ffff, 0x3f80_0001, 0xc049_0fdb, 0x3eaa_aaab,
];

fuzz_target!(|data: &[u8]| {
    let mut p = 0usize;
    let mut byte = |p: &mut usize| -> Option<u8> {
        let b = data.get(*p).copied();
        *p += 1;
        b
    };
    let mut pool = Pool::default();
    let mut o = Obs::new();
    o.keep = true;
    for _ in 0..8 {
        let (Some(a), Some(b)) = (byte(&mut p), byte(&mut p)) else { return };
        let id = (((a as u32) << 8) | b as u32) % API.len() as u32;
        let e = &API[id as usize];
        if !e.present {
            continue;
        }
        let mut words = [0u64; 48];
        for w in words.iter_mut() {
            let Some(sel) = byte(&mut p) else { break };
            let v32: u32 = if sel < 224 {
                SPECIALS32[(sel % 32) as usize]
            } else {
                let mut x = 0u32;
                for _ in 0..4 {
                    x = (x << 8) | byte(&mut p).unwrap_or(0) as u32;
                }
                x
            };
            // f64 entries read whole words: widen the f32 special exactly (keeps zero/inf/NaN/subnormal classes)
            *w = if e.width == 64 { (f32::from_bits(v32) as f64).to_bits() ^ ((sel as u64 & 1) << 62) * ((sel >= 200) as u64) } else { v32 as u64 };
        }
        let mut s = Src::new(&words);
        s.pool = Some(&pool);
        o.clear();
        call(id, &mut s, &mut o);
        let np = o.pool.clone();
        pool.v3a.extend(np.v3a);
        pool.m3a.extend(np.m3a);
        pool.a3a.extend(np.a3a);
        pool.b3a.extend(np.b3a);
    }
});
