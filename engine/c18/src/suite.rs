use proptest::prelude::*;
use serde_json::json;
use vcore::lattice;
use vcore::*;

pub const NWORDS: usize = 48;

/// words heavily biased to the degenerate values the statement lists
fn extreme(bits: u32) -> BoxedStrategy<u64> {
    let list32: Vec<u64> = [
        0.0f32, -0.0, 1.0, -1.0, 0.5, 2.0, 3.0, 1e-45, 1e-40, f32::MIN_POSITIVE, 1e-30, 1e-25, 1e-20, 1e-10, 1e10, 1e20, 3e38, f32::MAX, f32::MIN,
        f32::INFINITY, f32::NEG_INFINITY, f32::NAN, f32::EPSILON, core::f32::consts::PI, 0.99999994, 1.0000001, -0.99999994,
    ]
    .iter()
    .map(|x| x.to_bits() as u64)
    .chain([0xffc0_0000u64, 0x7f80_0001].into_iter())
    .collect();
    let list64: Vec<u64> = [
        0.0f64, -0.0, 1.0, -1.0, 0.5, 2.0, 3.0, 5e-324, 1e-310, f64::MIN_POSITIVE, 1e-300, 1e-200, 1e-160, 1e-20, 1e20, 1e160, 1e300, f64::MAX, f64::MIN,
        f64::INFINITY, f64::NEG_INFINITY, f64::NAN, f64::EPSILON, core::f64::consts::PI, 0.9999999999999999, 1.0000000000000002,
    ]
    .iter()
    .map(|x| x.to_bits())
    .chain([0xfff8_0000_0000_0000u64, 0x7ff0_0000_0000_0001].into_iter())
    .collect();
    let l = if bits == 32 { list32 } else { list64 };
    prop_oneof![
        55 => proptest::sample::select(l),
        45 => lattice::lat(bits),
    ]
    .boxed()
}

pub fn words_strategy(bits: u32) -> BoxedStrategy<Vec<u64>> {
    // besides per-word extremes: whole operand sets that are small (products and squares underflow while sums and
    // differences do not) or large (products overflow), with ordinary mantissas and signs
    let (small, large): (BoxedStrategy<u64>, BoxedStrategy<u64>) = if bits == 32 {
        (
            (40u32..=110, 0u32..(1 << 23), any::<bool>()).prop_map(|(e, m, s)| (((s as u32) << 31) | (e << 23) | m) as u64).boxed(),
            (170u32..=253, 0u32..(1 << 23), any::<bool>()).prop_map(|(e, m, s)| (((s as u32) << 31) | (e << 23) | m) as u64).boxed(),
        )
    } else {
        (
            (200u64..=900, 0u64..(1 << 52), any::<bool>()).prop_map(|(e, m, s)| ((s as u64) << 63) | (e << 52) | m).boxed(),
            (1300u64..=2045, 0u64..(1 << 52), any::<bool>()).prop_map(|(e, m, s)| ((s as u64) << 63) | (e << 52) | m).boxed(),
        )
    };
    let vecs = prop_oneof![
        88 => proptest::collection::vec(extreme(bits), NWORDS),
        6 => proptest::collection::vec(small, NWORDS),
        6 => proptest::collection::vec(large, NWORDS),
    ]
    .boxed();
    lattice::with_related_operands(vecs, bits)
}

fn special(bits: u32, w: u64) -> bool {
    let c = lattice::class(bits, w);
    if c == "nan" || c == "inf" || c == "zero" || c == "subnormal" {
        return true;
    }
    let m = if bits == 32 { f32::from_bits(w as u32).abs() as f64 } else { f64::from_bits(w).abs() };
    if bits == 32 {
        m < 1e-19 || m > 1e19
    } else {
        m < 1e-154 || m > 1e154
    }
}

/// Engine 1: every callable of one type on lattice arguments must return without panicking.
fn totality_check(ty: &'static str) -> impl Fn(&[u64], &mut Tally) -> Result<(), Fail> + Sync {
    move |w: &[u64], t: &mut Tally| {
        let mut o = Obs::new();
        for e in API.iter().filter(|e| e.present && e.ty == ty) {
            // f64 entries read whole words, f32 entries the low half; the words were drawn for this type's width
            // padded operands (Vec3A, Mat3A, Affine3A, BVec3A) are built with the last argument words in their padding
            // lanes in three cases out of four (as `from_vec4` and comparisons leave them), otherwise through `new`
            let hid: Vec<u32> = w.iter().rev().take(8).map(|x| *x as u32).collect();
            let mut s = if w[w.len() - 1] % 4 != 0 { Src::with_hidden(w, &hid) } else { Src::new(w) };
            o.clear();
            t.eval(1);
            let r = vcore::catch(|| call(e.id, &mut s, &mut o));
            let used = s.pos.min(w.len());
            let bits = e.width as u32;
            if w[..used].iter().any(|&x| special(bits, x)) {
                t.nontrivial(mix(hash_str(VARIANT), mix(e.id as u64, fnv(&w[..used]))));
                if t.want_sample() && e.id % 7 == 0 {
                    t.sample(json!({"variant": VARIANT, "call": format!("{} :: {}", e.ty, e.sig), "words": hexwords(&w[..used])}));
                }
            }
            if let Err(msg) = r {
                return Err(Fail::new(
                    format!("C18/{}/{}/{}", VARIANT, e.ty, e.name),
                    e.sig,
                    format!("panicked: {msg}; call #{} {} :: {}; argument words {:?}", e.id, e.ty, e.sig, hexwords(&w[..used])),
                ));
            }
        }
        Ok(())
    }
}


// ---------------------------------------------------------------------------------------------
// Engine 2: documented panics, exactly. Slice functions over all lengths 0..N+4 (window into a
// canary-filled buffer, and exact-size heap allocations for the sanitizer build); index functions
// over 0..N+2, usize::MAX, 2^32 and the indices that a wrapping stride multiplication maps back into range.

pub trait Fbits: Copy + PartialEq + std::fmt::Debug + 'static {
    fn fb(w: u64) -> Self;
    fn tb(self) -> u64;
    const CANARY: u64;
    const W: u32;
}
impl Fbits for f32 {
    fn fb(w: u64) -> f32 { f32::from_bits(w as u32) }
    fn tb(self) -> u64 { self.to_bits() as u64 }
    const CANARY: u64 = CANARY32 as u64;
    const W: u32 = 32;
}
impl Fbits for f64 {
    fn fb(w: u64) -> f64 { f64::from_bits(w) }
    fn tb(self) -> u64 { self.to_bits() }
    const CANARY: u64 = CANARY64;
    const W: u32 = 64;
}

const GUARD: usize = 8;

/// words: [len, mode, v0 .. v(N+4)]; mode 0/1 = read/write through a window of a canary buffer,
/// 2/3 = read/write an exact-size heap allocation.
fn slice_check<V: Copy, T: Fbits, const N: usize>(
    ty: &'static str,
    from_slice: fn(&[T]) -> V,
    write_slice: fn(V, &mut [T]),
    to_arr: fn(&V) -> [T; N],
    from_arr: fn(&[T; N]) -> V,
) -> impl Fn(&[u64], &mut Tally) -> Result<(), Fail> + Sync {
    move |w: &[u64], t: &mut Tally| {
        let len = w[0] as usize;
        // window start offset in elements (0..3): slices that do NOT start on a 16-byte boundary, as sub-slices of
        // interleaved buffers do (an aligned whole-register load / store is only legal for aligned pointers)
        let off = (w[1] / 4) as usize % 4;
        let mode = w[1] % 4;
        let vals: Vec<T> = (0..N + 5).map(|i| T::fb(w[2 + i])).collect();
        t.eval(1);
        t.class(if len < N { "len<N (must panic)" } else if len == N { "len==N" } else { "len>N" });
        let fname = if mode % 2 == 0 { "from_slice" } else { "write_to_slice" };
        let sig = format!("C18/{}/{}/{}", VARIANT, ty, fname);
        let mk = |msg: String| Fail::new(sig.clone(), format!("{fname} len={len} mode={mode}"), msg);
        let mut arr = [T::fb(0); N];
        for i in 0..N {
            arr[i] = vals[i];
        }
        match mode {
            0 | 2 => {
                // source buffer
                let res = if mode == 0 {
                    let g = GUARD + off;
                    let mut buf: Vec<T> = vec![T::fb(T::CANARY); len + 2 * GUARD + off];
                    for i in 0..len {
                        buf[g + i] = vals[i % vals.len()];
                    }
                    vcore::catch(|| to_arr(&from_slice(&buf[g..g + len])))
                } else {
                    // exact-size allocation; with off > 0 the slice is the tail of an allocation that ends exactly at its end
                    let b: Box<[T]> = (0..len + off).map(|i| vals[(i + vals.len() - off) % vals.len()]).collect::<Vec<T>>().into_boxed_slice();
                    vcore::catch(|| to_arr(&from_slice(&b[off..])))
                };
                match res {
                    Err(m) => {
                        if len >= N {
                            return Err(mk(format!("panicked on a slice of sufficient length {len} >= {N}: {m}")));
                        }
                    }
                    Ok(got) => {
                        if len < N {
                            return Err(mk(format!("did not panic on a slice of length {len} < {N}; returned {:?}", got)));
                        }
                        for i in 0..N {
                            if got[i].tb() != vals[i].tb() {
                                return Err(mk(format!("element {i}: got bits 0x{:x}, slice holds 0x{:x}", got[i].tb(), vals[i].tb())));
                            }
                        }
                    }
                }
            }
            _ => {
                let v = from_arr(&arr);
                if mode == 1 {
                    let g = GUARD + off;
                    let mut buf: Vec<T> = vec![T::fb(T::CANARY); len + 2 * GUARD + off];
                    let res = vcore::catch(|| write_slice(v, &mut buf[g..g + len]));
                    // whatever happened, nothing outside the slice may change
                    for i in (0..g).chain(g + len..len + 2 * GUARD + off) {
                        if buf[i].tb() != T::CANARY {
                            return Err(mk(format!("wrote outside the slice at offset {} (slice is {}..{})", i, g, g + len)));
                        }
                    }
                    match res {
                        Err(m) => {
                            if len >= N {
                                return Err(mk(format!("panicked on a slice of sufficient length {len} >= {N}: {m}")));
                            }
                            // "raised before any memory is touched": the short destination must still hold the canary everywhere
                            if let Some(i) = (0..len).find(|&i| buf[g + i].tb() != T::CANARY) {
                                return Err(mk(format!("the slice of length {len} < {N} was partially overwritten (element {i}) before the documented panic was raised")));
                            }
                        }
                        Ok(()) => {
                            if len < N {
                                return Err(mk(format!("did not panic on a slice of length {len} < {N}")));
                            }
                            for i in 0..N {
                                if buf[g + i].tb() != arr[i].tb() {
                                    return Err(mk(format!("element {i}: wrote 0x{:x}, value holds 0x{:x}", buf[g + i].tb(), arr[i].tb())));
                                }
                            }
                            for i in N..len {
                                if buf[g + i].tb() != T::CANARY {
                                    return Err(mk(format!("element {i} beyond the first {N} was overwritten")));
                                }
                            }
                        }
                    }
                } else {
                    let mut bb: Box<[T]> = vec![T::fb(T::CANARY); len + off].into_boxed_slice();
                    let res = vcore::catch(|| write_slice(v, &mut bb[off..]));
                    let b = &bb[off..];
                    match res {
                        Err(m) => {
                            if len >= N {
                                return Err(mk(format!("panicked on a slice of sufficient length {len} >= {N}: {m}")));
                            }
                            if let Some(i) = (0..len).find(|&i| b[i].tb() != T::CANARY) {
                                return Err(mk(format!("the slice of length {len} < {N} was partially overwritten (element {i}) before the documented panic was raised")));
                            }
                        }
                        Ok(()) => {
                            if len < N {
                                return Err(mk(format!("did not panic on a slice of length {len} < {N}")));
                            }
                            for i in 0..len {
                                let exp = if i < N { arr[i].tb() } else { T::CANARY };
                                if b[i].tb() != exp {
                                    return Err(mk(format!("element {i}: found 0x{:x}, expected 0x{:x}", b[i].tb(), exp)));
                                }
                            }
                        }
                    }
                }
            }
        }
        Ok(())
    }
}

fn slice_run<const N: usize>(bits: u32, check: impl Fn(&[u64], &mut Tally) -> Result<(), Fail> + Sync) -> impl Fn(&mut Env) + Sync {
    move |env: &mut Env| {
        let sp: Vec<u64> = if bits == 32 { lattice::f32_specials().iter().map(|x| *x as u64).collect() } else { lattice::f64_specials() };
        let sets = if env.args.tier == Tier::Thorough { 32 } else { 4 };
        let mut n = 0u64;
        for len in 0..=N + 4 {
            for mode in 0..16u64 {
                for k in 0..sets {
                    let mut w = vec![len as u64, mode];
                    for i in 0..N + 5 {
                        // distinct values per element so any reordering is visible
                        w.push(sp[(k * 31 + i * 7 + (mix(env.args.seed, k as u64) as usize % 5)) % sp.len()] ^ if k % 2 == 1 { (i as u64) << 3 } else { 0 });
                    }
                    n += 1;
                    if !env.direct(&w, &check) {
                        return;
                    }
                }
            }
        }
        env.tally.nontrivial_enum(n);
        env.tally.exhaustive = true;
    }
}

macro_rules! slice_sub {
    ($out:expr, $V:ident, $T:ident, $N:expr, $from:ident, $write:ident, $toarr:expr, $fromarr:expr) => {{
        let c1 = slice_check::<$V, $T, $N>(stringify!($V), |s| $V::$from(s), |v, s| v.$write(s), $toarr, $fromarr);
        let c2 = slice_check::<$V, $T, $N>(stringify!($V), |s| $V::$from(s), |v, s| v.$write(s), $toarr, $fromarr);
        $out.push(SubCheck::new(format!("slices/{}/{}", stringify!($V), VARIANT), 1, slice_run::<$N>(<$T as Fbits>::W, c1), c2));
    }};
}

/// Out-of-range indices that come back into range when an implementation multiplies them by an element or byte stride in
/// wrapping arithmetic (release profile): ceil(j * 2^64 / m) + k for the strides m a column, row or lane offset can carry.
#[allow(dead_code)]
fn wrap_indices() -> Vec<u64> {
    let mut v: Vec<u64> = vec![];
    for m in [2u128, 3, 4, 6, 8, 9, 12, 16, 24, 32, 36, 48, 64] {
        for j in 1..m {
            let base = (j << 64).div_ceil(m);
            for k in 0..4u128 {
                if base + k < (1u128 << 64) {
                    v.push((base + k) as u64);
                }
            }
        }
    }
    v.sort();
    v.dedup();
    v
}

/// words: [idx, v0..v15]; every index 0..N+2 and usize::MAX: valid ones return the lane, invalid ones panic.
macro_rules! index_vec_sub {
    ($out:expr, $V:ident, $T:ident, $N:expr) => {{
        let chk = |w: &[u64], t: &mut Tally| -> Result<(), Fail> {
            let idx = w[0] as usize;
            let mut arr = [<$T as Fbits>::fb(0); $N];
            for i in 0..$N { arr[i] = <$T as Fbits>::fb(w[1 + i]); }
            let v = $V::from_array(arr);
            t.eval(1);
            let sig = format!("C18/{}/{}/index", VARIANT, stringify!($V));
            let r = vcore::catch(|| v[idx]);
            let mut m = v;
            let newv = <$T as Fbits>::fb(w[1 + $N]);
            let r2 = vcore::catch(move || { m[idx] = newv; m.to_array() });
            if idx < $N {
                t.class("valid index");
                match r { Ok(x) if x.tb() == arr[idx].tb() => {}, other => return Err(Fail::new(sig, "Index", format!("v[{idx}] gave {:?}, lanes {:?}", other, arr))) }
                match r2 {
                    Ok(a) => { for i in 0..$N { let e = if i == idx { newv } else { arr[i] }; if a[i].tb() != e.tb() { return Err(Fail::new(sig, "IndexMut", format!("after v[{idx}] = {:?}: lanes {:?}, before {:?}", newv, a, arr))); } } }
                    Err(p) => return Err(Fail::new(sig, "IndexMut", format!("valid index {idx} panicked: {p}"))),
                }
            } else {
                t.class("invalid index (must panic)");
                if r.is_ok() { return Err(Fail::new(sig, "Index", format!("index {idx} out of range did not panic"))); }
                if r2.is_ok() { return Err(Fail::new(sig, "IndexMut", format!("index {idx} out of range did not panic"))); }
            }
            Ok(())
        };
        $out.push(SubCheck::new(format!("indices/{}/{}", stringify!($V), VARIANT), 1, move |env: &mut Env| {
            let sp: Vec<u64> = if <$T as Fbits>::W == 32 { lattice::f32_specials().iter().map(|x| *x as u64).collect() } else { lattice::f64_specials() };
            let mut n = 0;
            for (idx, reps) in (0..$N + 3).map(|i| (i as u64, 16usize)).chain([(usize::MAX as u64, 16), (1u64 << 32, 16)]).chain(wrap_indices().into_iter().map(|i| (i, 1))) {
                for k in 0..reps {
                    let mut w = vec![idx];
                    for i in 0..$N + 1 { w.push(sp[(k * 13 + i * 5) % sp.len()]); }
                    n += 1;
                    if !env.direct(&w, &chk) { return; }
                }
            }
            env.tally.nontrivial_enum(n);
            env.tally.exhaustive = true;
        }, chk));
    }};
}

/// matrices: col / col_mut / row over all indices; words [idx, e0..e15]
macro_rules! index_mat_sub {
    ($out:expr, $M:ident, $T:ident, $D:expr) => {{
        let chk = |w: &[u64], t: &mut Tally| -> Result<(), Fail> {
            let idx = w[0] as usize;
            let mut a = [<$T as Fbits>::fb(0); $D * $D];
            for i in 0..$D * $D { a[i] = <$T as Fbits>::fb(w[1 + i]); }
            let m = $M::from_cols_array(&a);
            t.eval(1);
            let sig = format!("C18/{}/{}/col-row", VARIANT, stringify!($M));
            let c = vcore::catch(|| m.col(idx).to_array());
            let r = vcore::catch(|| m.row(idx).to_array());
            let mut mm = m;
            let cm = vcore::catch(move || mm.col_mut(idx).to_array());
            if idx < $D {
                t.class("valid index");
                let (c, r, cm) = match (c, r, cm) { (Ok(c), Ok(r), Ok(cm)) => (c, r, cm), other => return Err(Fail::new(sig, "col/row/col_mut", format!("valid index {idx} panicked: {:?}", other))) };
                for k in 0..$D {
                    if c[k].tb() != a[idx * $D + k].tb() || cm[k].tb() != a[idx * $D + k].tb() { return Err(Fail::new(sig, "col", format!("col({idx}) = {:?} / col_mut {:?}, entries {:?}", c, cm, a))); }
                    if r[k].tb() != a[k * $D + idx].tb() { return Err(Fail::new(sig, "row", format!("row({idx}) = {:?}, entries {:?}", r, a))); }
                }
            } else {
                t.class("invalid index (must panic)");
                if c.is_ok() || r.is_ok() || cm.is_ok() { return Err(Fail::new(sig, "col/row/col_mut", format!("index {idx} out of range did not panic (col {:?} row {:?} col_mut {:?})", c.is_ok(), r.is_ok(), cm.is_ok()))); }
            }
            Ok(())
        };
        $out.push(SubCheck::new(format!("indices/{}/{}", stringify!($M), VARIANT), 1, move |env: &mut Env| {
            let sp: Vec<u64> = if <$T as Fbits>::W == 32 { lattice::f32_specials().iter().map(|x| *x as u64).collect() } else { lattice::f64_specials() };
            let mut n = 0;
            for (idx, reps) in (0..$D + 3).map(|i| (i as u64, 16usize)).chain([(usize::MAX as u64, 16), (1u64 << 32, 16)]).chain(wrap_indices().into_iter().map(|i| (i, 1))) {
                for k in 0..reps {
                    let mut w = vec![idx];
                    for i in 0..16 { w.push(sp[(k * 13 + i * 5) % sp.len()] ^ ((i as u64) << 2)); }
                    n += 1;
                    if !env.direct(&w, &chk) { return; }
                }
            }
            env.tally.nontrivial_enum(n);
            env.tally.exhaustive = true;
        }, chk));
    }};
}

/// minors: from_*_minor(m, i, j) over all (i, j) in (0..D+2 and usize::MAX)^2; words [i, j, e0..e15]
macro_rules! minor_sub {
    ($out:expr, $Small:ident, $f:ident, $Big:ident, $T:ident, $D:expr) => {{
        let chk = |w: &[u64], t: &mut Tally| -> Result<(), Fail> {
            let (i, j) = (w[0] as usize, w[1] as usize);
            let mut a = [<$T as Fbits>::fb(0); $D * $D];
            for k in 0..$D * $D { a[k] = <$T as Fbits>::fb(w[2 + k]); }
            let m = $Big::from_cols_array(&a);
            t.eval(1);
            let sig = format!("C18/{}/{}/{}", VARIANT, stringify!($Small), stringify!($f));
            let r = vcore::catch(|| $Small::$f(m, i, j).to_cols_array());
            if i < $D && j < $D {
                t.class("valid index");
                let got = match r { Ok(g) => g, Err(p) => return Err(Fail::new(sig, stringify!($f), format!("valid (i, j) = ({i}, {j}) panicked: {p}"))) };
                // drop column i and row j
                let mut k = 0;
                for c in 0..$D { if c == i { continue; } for rr in 0..$D { if rr == j { continue; }
                    if got[k].tb() != a[c * $D + rr].tb() { return Err(Fail::new(sig, stringify!($f), format!("minor({i},{j}) element {k}: got {:?}, expected entry (row {rr}, col {c}) = {:?}", got[k], a[c * $D + rr]))); }
                    k += 1;
                } }
            } else {
                t.class("invalid index (must panic)");
                if r.is_ok() { return Err(Fail::new(sig, stringify!($f), format!("(i, j) = ({i}, {j}) out of range did not panic"))); }
            }
            Ok(())
        };
        $out.push(SubCheck::new(format!("minors/{}::{}/{}", stringify!($Small), stringify!($f), VARIANT), 1, move |env: &mut Env| {
            let sp: Vec<u64> = if <$T as Fbits>::W == 32 { lattice::f32_specials().iter().map(|x| *x as u64).collect() } else { lattice::f64_specials() };
            let mut n = 0;
            let idxs: Vec<u64> = (0..$D + 2).map(|i| i as u64).chain([usize::MAX as u64]).collect();
            for &i in &idxs { for &j in &idxs { for k in 0..4usize {
                let mut w = vec![i, j];
                for e in 0..16 { w.push(sp[(k * 13 + e * 5) % sp.len()] ^ ((e as u64) << 2)); }
                n += 1;
                if !env.direct(&w, &chk) { return; }
            } } }
            env.tally.nontrivial_enum(n);
            env.tally.exhaustive = true;
        }, chk));
    }};
}

/// masks: test / set over all indices and all 2^N values; words [idx, bits, newval]
macro_rules! mask_sub {
    ($out:expr, $B:ident, $N:expr) => {{
        let chk = |w: &[u64], t: &mut Tally| -> Result<(), Fail> {
            let idx = w[0] as usize;
            let mut b = [false; $N];
            for i in 0..$N { b[i] = (w[1] >> i) & 1 == 1; }
            let nv = w[2] & 1 == 1;
            let m = $B::from_array(b);
            t.eval(1);
            let sig = format!("C18/{}/{}/test-set", VARIANT, stringify!($B));
            let r = vcore::catch(|| m.test(idx));
            let mut mm = m;
            let r2 = vcore::catch(move || { mm.set(idx, nv); let a: [bool; $N] = mm.into(); a });
            if idx < $N {
                t.class("valid index");
                if r != Ok(b[idx]) { return Err(Fail::new(sig, "test", format!("test({idx}) = {:?} on {:?}", r, b))); }
                let mut e = b; e[idx] = nv;
                if r2 != Ok(e) { return Err(Fail::new(sig, "set", format!("set({idx}, {nv}) on {:?} gave {:?}", b, r2))); }
            } else {
                t.class("invalid index (must panic)");
                if r.is_ok() || r2.is_ok() { return Err(Fail::new(sig, "test/set", format!("index {idx} out of range did not panic (test {:?}, set {:?})", r, r2))); }
            }
            Ok(())
        };
        $out.push(SubCheck::new(format!("indices/{}/{}", stringify!($B), VARIANT), 1, move |env: &mut Env| {
            let mut n = 0;
            for idx in (0..$N + 3).map(|i| i as u64).chain([usize::MAX as u64, 1u64 << 32]).chain(wrap_indices()) {
                for bits in 0..(1u64 << $N) { for nv in 0..2u64 {
                    n += 1;
                    if !env.direct(&[idx, bits, nv], &chk) { return; }
                } }
            }
            env.tally.nontrivial_enum(n);
            env.tally.exhaustive = true;
        }, chk));
    }};
}

pub fn engine2<'a>(out: &mut Vec<SubCheck<'a>>) {
    slice_sub!(out, Vec2, f32, 2, from_slice, write_to_slice, |v| v.to_array(), |a| Vec2::from_array(*a));
    slice_sub!(out, Vec3, f32, 3, from_slice, write_to_slice, |v| v.to_array(), |a| Vec3::from_array(*a));
    slice_sub!(out, Vec3A, f32, 3, from_slice, write_to_slice, |v| v.to_array(), |a| Vec3A::from_array(*a));
    slice_sub!(out, Vec4, f32, 4, from_slice, write_to_slice, |v| v.to_array(), |a| Vec4::from_array(*a));
    slice_sub!(out, Quat, f32, 4, from_slice, write_to_slice, |v| v.to_array(), |a| Quat::from_array(*a));
    slice_sub!(out, DVec2, f64, 2, from_slice, write_to_slice, |v| v.to_array(), |a| DVec2::from_array(*a));
    slice_sub!(out, DVec3, f64, 3, from_slice, write_to_slice, |v| v.to_array(), |a| DVec3::from_array(*a));
    slice_sub!(out, DVec4, f64, 4, from_slice, write_to_slice, |v| v.to_array(), |a| DVec4::from_array(*a));
    slice_sub!(out, DQuat, f64, 4, from_slice, write_to_slice, |v| v.to_array(), |a| DQuat::from_array(*a));
    slice_sub!(out, Mat2, f32, 4, from_cols_slice, write_cols_to_slice, |v| v.to_cols_array(), |a| Mat2::from_cols_array(a));
    slice_sub!(out, Mat3, f32, 9, from_cols_slice, write_cols_to_slice, |v| v.to_cols_array(), |a| Mat3::from_cols_array(a));
    slice_sub!(out, Mat3A, f32, 9, from_cols_slice, write_cols_to_slice, |v| v.to_cols_array(), |a| Mat3A::from_cols_array(a));
    slice_sub!(out, Mat4, f32, 16, from_cols_slice, write_cols_to_slice, |v| v.to_cols_array(), |a| Mat4::from_cols_array(a));
    slice_sub!(out, Affine2, f32, 6, from_cols_slice, write_cols_to_slice, |v| v.to_cols_array(), |a| Affine2::from_cols_array(a));
    slice_sub!(out, Affine3A, f32, 12, from_cols_slice, write_cols_to_slice, |v| v.to_cols_array(), |a| Affine3A::from_cols_array(a));
    slice_sub!(out, DMat2, f64, 4, from_cols_slice, write_cols_to_slice, |v| v.to_cols_array(), |a| DMat2::from_cols_array(a));
    slice_sub!(out, DMat3, f64, 9, from_cols_slice, write_cols_to_slice, |v| v.to_cols_array(), |a| DMat3::from_cols_array(a));
    slice_sub!(out, DMat4, f64, 16, from_cols_slice, write_cols_to_slice, |v| v.to_cols_array(), |a| DMat4::from_cols_array(a));
    slice_sub!(out, DAffine2, f64, 6, from_cols_slice, write_cols_to_slice, |v| v.to_cols_array(), |a| DAffine2::from_cols_array(a));
    slice_sub!(out, DAffine3, f64, 12, from_cols_slice, write_cols_to_slice, |v| v.to_cols_array(), |a| DAffine3::from_cols_array(a));
    index_vec_sub!(out, Vec2, f32, 2);
    index_vec_sub!(out, Vec3, f32, 3);
    index_vec_sub!(out, Vec3A, f32, 3);
    index_vec_sub!(out, Vec4, f32, 4);
    index_vec_sub!(out, DVec2, f64, 2);
    index_vec_sub!(out, DVec3, f64, 3);
    index_vec_sub!(out, DVec4, f64, 4);
    index_mat_sub!(out, Mat2, f32, 2);
    index_mat_sub!(out, Mat3, f32, 3);
    index_mat_sub!(out, Mat3A, f32, 3);
    index_mat_sub!(out, Mat4, f32, 4);
    index_mat_sub!(out, DMat2, f64, 2);
    index_mat_sub!(out, DMat3, f64, 3);
    index_mat_sub!(out, DMat4, f64, 4);
    minor_sub!(out, Mat2, from_mat3_minor, Mat3, f32, 3);
    minor_sub!(out, Mat2, from_mat3a_minor, Mat3A, f32, 3);
    minor_sub!(out, Mat3, from_mat4_minor, Mat4, f32, 4);
    minor_sub!(out, Mat3A, from_mat4_minor, Mat4, f32, 4);
    minor_sub!(out, DMat2, from_mat3_minor, DMat3, f64, 3);
    minor_sub!(out, DMat3, from_mat4_minor, DMat4, f64, 4);
    mask_sub!(out, BVec2, 2);
    mask_sub!(out, BVec3, 3);
    mask_sub!(out, BVec4, 4);
    mask_sub!(out, BVec3A, 3);
    mask_sub!(out, BVec4A, 4);
}

pub fn subs<'a>(_args: &Args) -> Vec<SubCheck<'a>> {
    let mut out = vec![];
    engine2(&mut out);
    let mut types: Vec<&'static str> = API.iter().filter(|e| e.present).map(|e| e.ty).collect();
    types.sort();
    types.dedup();
    for ty in types {
        let bits: u32 = API.iter().find(|e| e.ty == ty && e.present).map(|e| e.width as u32).unwrap_or(32);
        let n_entries = API.iter().filter(|e| e.present && e.ty == ty).count() as u64;
        out.push(SubCheck::new(
            format!("totality/{}/{}", if ty.is_empty() { "free-fns" } else { ty }, VARIANT),
            2,
            move |env: &mut Env| {
                let n = env.cases(3000 / VOLUME_DIV as u64, 30);
                env.tally.notes.insert("api_entries".into(), json!(n_entries));
                env.prop("totality", n, words_strategy(bits), &totality_check(ty));
            },
            totality_check(ty),
        ));
    }
    out
}
