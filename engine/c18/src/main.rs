//! C18 — not implemented yet.
fn main() {
    eprintln!("c18: not implemented");
    std::process::exit(2);
}
