//! C18 — only documented panics occur and no access goes out of bounds.
#![allow(deprecated, unused_braces)]
use vcore::*;

mod simd {
    pub const VARIANT: &str = "simd";
    use ::glam_simd as glam;
    include!(concat!(env!("CARGO_MANIFEST_DIR"), "/../apisupport/api_support.rs"));
    include!(concat!(env!("CARGO_MANIFEST_DIR"), "/../gen/api_table_sse2.rs"));
    include!("suite.rs");
}
#[cfg(not(feature = "core"))]
mod scalar {
    pub const VARIANT: &str = "scalar";
    use ::glam_scalar as glam;
    include!(concat!(env!("CARGO_MANIFEST_DIR"), "/../apisupport/api_support.rs"));
    include!(concat!(env!("CARGO_MANIFEST_DIR"), "/../gen/api_table_scalar.rs"));
    include!("suite.rs");
}
#[cfg(feature = "core")]
mod core_simd {
    pub const VARIANT: &str = "core";
    use ::glam_core as glam;
    include!(concat!(env!("CARGO_MANIFEST_DIR"), "/../apisupport/api_support.rs"));
    include!(concat!(env!("CARGO_MANIFEST_DIR"), "/../gen/api_table_coresimd.rs"));
    include!("suite.rs");
}

fn main() {
    let args = Args::parse();
    let mut subs = vec![];
    subs.extend(simd::subs(&args));
    #[cfg(not(feature = "core"))]
    subs.extend(scalar::subs(&args));
    #[cfg(feature = "core")]
    subs.extend(core_simd::subs(&args));
    std::process::exit(main_with("C18", "", &args, subs));
}
