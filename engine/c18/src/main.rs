//! C18 — only documented panics occur and no access goes out of bounds.
#![allow(deprecated, unused_braces)]
use vcore::*;

mod simd {
    pub const VARIANT: &str = "simd";
    pub const VOLUME_DIV: u32 = 1;
    use ::glam_simd as glam;
    include!(concat!(env!("CARGO_MANIFEST_DIR"), "/../apisupport/api_support.rs"));
    include!(concat!(env!("CARGO_MANIFEST_DIR"), "/../gen/api_table_sse2.rs"));
    include!("suite.rs");
}
#[cfg(not(feature = "core"))]
mod scalar {
    pub const VARIANT: &str = "scalar";
    pub const VOLUME_DIV: u32 = 1;
    use ::glam_scalar as glam;
    include!(concat!(env!("CARGO_MANIFEST_DIR"), "/../apisupport/api_support.rs"));
    include!(concat!(env!("CARGO_MANIFEST_DIR"), "/../gen/api_table_scalar.rs"));
    include!("suite.rs");
}
/// the `libm` feature swaps the math shims (powf, exp, sin_cos, acos, rounding …) for their own code: a quarter of the volume
#[cfg(not(feature = "core"))]
mod libmv {
    pub const VARIANT: &str = "libm";
    pub const VOLUME_DIV: u32 = 4;
    use ::glam_libm as glam;
    include!(concat!(env!("CARGO_MANIFEST_DIR"), "/../apisupport/api_support.rs"));
    include!(concat!(env!("CARGO_MANIFEST_DIR"), "/../gen/api_table_sse2.rs"));
    include!("suite.rs");
}
/// `debug-glam-assert` without debug assertions is documented as a build without assertions: the same totality
/// rule applies (an eighth of the volume; left out of the profiles that do enable debug assertions)
#[cfg(not(feature = "core"))]
mod dbg {
    pub const VARIANT: &str = "simd+debug-glam-assert(no debug assertions)";
    pub const VOLUME_DIV: u32 = 8;
    use ::glam_dbgassert as glam;
    include!(concat!(env!("CARGO_MANIFEST_DIR"), "/../apisupport/api_support.rs"));
    include!(concat!(env!("CARGO_MANIFEST_DIR"), "/../gen/api_table_sse2.rs"));
    include!("suite.rs");
}
#[cfg(feature = "core")]
mod core_simd {
    pub const VARIANT: &str = "core";
    pub const VOLUME_DIV: u32 = 1;
    use ::glam_core as glam;
    include!(concat!(env!("CARGO_MANIFEST_DIR"), "/../apisupport/api_support.rs"));
    include!(concat!(env!("CARGO_MANIFEST_DIR"), "/../gen/api_table_coresimd.rs"));
    include!("suite.rs");
}

fn main() {
    let args = Args::parse();
    let mut subs = vec![];
    subs.extend(simd::subs(&args));
    #[cfg(not(feature = "core"))]
    subs.extend(scalar::subs(&args));
    #[cfg(not(feature = "core"))]
    subs.extend(libmv::subs(&args).into_iter().filter(|s| s.name.starts_with("totality/")));
    #[cfg(not(feature = "core"))]
    if !cfg!(debug_assertions) {
        subs.extend(dbg::subs(&args));
    }
    #[cfg(feature = "core")]
    subs.extend(core_simd::subs(&args));
    std::process::exit(main_with("C18", "", &args, subs));
}
