//! Special-value lattices and proptest strategies over float bit patterns and integers.
use proptest::prelude::*;
use proptest::strategy::BoxedStrategy;

/// The f32 lattice of DESIGN.md 3.1 (as values; NaNs appended as bit patterns).
pub fn f32_specials() -> Vec<u32> {
    let mut v: Vec<f32> = vec![
        0.0, 1.0, 2.0, 3.0, 0.5, 1.5, 2.5, 3.5, 4.5, 0.25, 0.75, 7.0, 10.0, 100.0, 0.1, 1e-3, 1.0e10, 123456.79,
        f32::from_bits(1),          // smallest subnormal
        f32::from_bits(0x007f_ffff), // largest subnormal
        f32::MIN_POSITIVE,
        1e-30, 1e-25, 1e-20, 1e-10,
        f32::EPSILON,
        0.49999997, 0.50000006, 0.99999994, 1.0000001,
        8388607.5, 8388606.5, 4194303.5, 4194304.5, 2097151.5, 1000000.5, 1023.5, 1024.5,
        8388607.0, 8388608.0, 8388609.0, 16777216.0, 16777215.0, 16777218.0,
        2147483520.0, 2147483648.0, 4294967296.0, 4294967040.0, 9.223372e18, 1.8446744e19, 65535.0, 65536.0, 32767.0, 32768.0,
        127.0, 128.0, 255.0, 256.0, 127.5, 255.5, 32767.5, 65535.5, 128.5,
        1e20, 3e38, f32::MAX, f32::INFINITY,
        core::f32::consts::PI, core::f32::consts::FRAC_PI_2, core::f32::consts::TAU, core::f32::consts::E,
        core::f32::consts::LN_2, 88.72284, 88.0, 89.0, 103.0, 104.0,
    ];
    // neighbours of multiples of pi/2
    for k in 1..5 {
        let x = core::f32::consts::FRAC_PI_2 * k as f32;
        v.push(f32::from_bits(x.to_bits() + 1));
        v.push(f32::from_bits(x.to_bits() - 1));
    }
    let mut out: Vec<u32> = vec![];
    for x in v {
        out.push(x.to_bits());
        out.push((-x).to_bits());
    }
    // NaNs: quiet / signalling, distinct payloads, both signs
    out.extend_from_slice(&[0x7fc0_0000, 0xffc0_0000, 0x7fc0_0001, 0x7f80_0001, 0xff80_0001, 0x7fa5_5aa5, 0xffff_ffff, 0x7fff_ffff]);
    out
}

pub fn f64_specials() -> Vec<u64> {
    let mut v: Vec<f64> = vec![
        0.0, 1.0, 2.0, 3.0, 0.5, 1.5, 2.5, 3.5, 4.5, 0.25, 0.75, 7.0, 10.0, 100.0, 0.1, 1e-3, 1.0e10, 123456.789,
        f64::from_bits(1),
        f64::from_bits(0x000f_ffff_ffff_ffff),
        f64::MIN_POSITIVE,
        1e-300, 1e-200, 1e-160, 1e-155, 1e-30, 1e-20,
        f64::EPSILON,
        0.49999999999999994, 0.5000000000000001, 0.9999999999999999, 1.0000000000000002,
        4503599627370495.5, 4503599627370494.5, 2251799813685247.5, 1000000.5, 1023.5, 1024.5,
        4503599627370495.0, 4503599627370496.0, 4503599627370497.0, 9007199254740992.0, 9007199254740991.0, 9007199254740994.0,
        2147483647.0, 2147483648.0, 2147483647.5, 4294967295.0, 4294967296.0, 4294967295.5, 9.223372036854775807e18, 9223372036854774784.0,
        1.8446744073709552e19, 18446744073709549568.0, 65535.0, 65536.0, 32767.0, 32768.0, 127.0, 128.0, 255.0, 256.0, 127.5, 255.5,
        8388607.5, 8388608.0, 16777216.0, 16777217.0,
        3.4028234663852886e38, 3.4028235677973366e38, 3.402823466385289e38, 1e39, 1e-46, 1.401298464324817e-45, 7.006492321624085e-46,
        1e160, 1e200, 1e300, f64::MAX, f64::INFINITY,
        core::f64::consts::PI, core::f64::consts::FRAC_PI_2, core::f64::consts::TAU, core::f64::consts::E,
        709.782712893384, 709.0, 710.0, 745.0, 746.0,
    ];
    for k in 1..5 {
        let x = core::f64::consts::FRAC_PI_2 * k as f64;
        v.push(f64::from_bits(x.to_bits() + 1));
        v.push(f64::from_bits(x.to_bits() - 1));
    }
    let mut out: Vec<u64> = vec![];
    for x in v {
        out.push(x.to_bits());
        out.push((-x).to_bits());
    }
    out.extend_from_slice(&[
        0x7ff8_0000_0000_0000, 0xfff8_0000_0000_0000, 0x7ff8_0000_0000_0001, 0x7ff0_0000_0000_0001, 0xfff0_0000_0000_0001,
        0x7ff5_5aa5_5aa5_5aa5, 0xffff_ffff_ffff_ffff, 0x7fff_ffff_ffff_ffff,
    ]);
    out
}

/// One f32 lane as bits (returned in a u64 word).
pub fn lat_f32() -> BoxedStrategy<u64> {
    let sp = f32_specials();
    prop_oneof![
        30 => proptest::sample::select(sp).prop_map(|b| b as u64),
        // small integers and halves, both signs
        12 => (-40i32..=40, 0u8..4).prop_map(|(k, h)| ((k as f32) + [0.0f32, 0.5, 0.25, 0.0][h as usize]).to_bits() as u64),
        // log-uniform magnitude, random mantissa, random sign (includes subnormals at exponent 0)
        22 => (0u32..=254, 0u32..(1 << 23), any::<bool>()).prop_map(|(e, m, s)| (((s as u32) << 31) | (e << 23) | m) as u64),
        // moderate magnitudes 2^-8..2^8 (the usual arithmetic regime)
        14 => (119u32..=135, 0u32..(1 << 23), any::<bool>()).prop_map(|(e, m, s)| (((s as u32) << 31) | (e << 23) | m) as u64),
        // integer + fraction around the rounding-mask boundaries 2^20..2^25
        10 => (147u32..=152, 0u32..(1 << 23), any::<bool>()).prop_map(|(e, m, s)| (((s as u32) << 31) | (e << 23) | m) as u64),
        // k + 0.5 ties for larger k
        6 => (0i32..(1 << 22), any::<bool>()).prop_map(|(k, s)| { let x = k as f32 + 0.5; (if s { -x } else { x }).to_bits() as u64 }),
        // any bit pattern (NaN payloads, everything)
        6 => any::<u32>().prop_map(|b| b as u64),
    ]
    .boxed()
}

pub fn lat_f64() -> BoxedStrategy<u64> {
    let sp = f64_specials();
    prop_oneof![
        30 => proptest::sample::select(sp),
        12 => (-40i32..=40, 0u8..4).prop_map(|(k, h)| ((k as f64) + [0.0f64, 0.5, 0.25, 0.0][h as usize]).to_bits()),
        22 => (0u64..=2046, 0u64..(1 << 52), any::<bool>()).prop_map(|(e, m, s)| ((s as u64) << 63) | (e << 52) | m),
        14 => (1015u64..=1031, 0u64..(1 << 52), any::<bool>()).prop_map(|(e, m, s)| ((s as u64) << 63) | (e << 52) | m),
        10 => (1072u64..=1077, 0u64..(1 << 52), any::<bool>()).prop_map(|(e, m, s)| ((s as u64) << 63) | (e << 52) | m),
        6 => (0i64..(1 << 51), any::<bool>()).prop_map(|(k, s)| { let x = k as f64 + 0.5; (if s { -x } else { x }).to_bits() }),
        6 => any::<u64>(),
    ]
    .boxed()
}

/// Lane strategy by float width (32 or 64).
pub fn lat(bits: u32) -> BoxedStrategy<u64> {
    if bits == 32 {
        lat_f32()
    } else {
        lat_f64()
    }
}

/// A related partner for `a` (binary operations): independent, equal, negated, 1ulp apart,
/// huge quotient, exact tie quotient, zero divisor.
pub fn related(bits: u32) -> BoxedStrategy<(u64, u64)> {
    let l = lat(bits);
    let l2 = lat(bits);
    (l, l2, 0u8..20, 1u32..64)
        .prop_map(move |(a, b, k, m)| {
            if bits == 32 {
                let x = f32::from_bits(a as u32);
                let y: f32 = match k {
                    0 => x,
                    1 => -x,
                    2 => f32::from_bits((a as u32).wrapping_add(1)),
                    3 => f32::from_bits((a as u32).wrapping_sub(1)),
                    4 => x * m as f32,
                    5 => x / m as f32,
                    6 => x * (m as f32 + 0.5),
                    7 => x / (m as f32 + 0.5),
                    8 => x * 2.0f32.powi(m as i32),
                    9 => x * 2.0f32.powi(-(m as i32)),
                    10 => 0.0,
                    11 => -0.0,
                    _ => f32::from_bits(b as u32),
                };
                (a, y.to_bits() as u64)
            } else {
                let x = f64::from_bits(a);
                let y: f64 = match k {
                    0 => x,
                    1 => -x,
                    2 => f64::from_bits(a.wrapping_add(1)),
                    3 => f64::from_bits(a.wrapping_sub(1)),
                    4 => x * m as f64,
                    5 => x / m as f64,
                    6 => x * (m as f64 + 0.5),
                    7 => x / (m as f64 + 0.5),
                    8 => x * 2.0f64.powi(m as i32 * 8),
                    9 => x * 2.0f64.powi(-(m as i32) * 8),
                    10 => 0.0,
                    11 => -0.0,
                    _ => f64::from_bits(b),
                };
                (a, y.to_bits())
            }
        })
        .boxed()
}

/// `n` lanes, independent.
pub fn lanes(bits: u32, n: usize) -> BoxedStrategy<Vec<u64>> {
    proptest::collection::vec(lat(bits), n).boxed()
}

/// Two n-lane operands, each lane pair drawn from `related`, flattened a.., b..
pub fn lane_pairs(bits: u32, n: usize) -> BoxedStrategy<Vec<u64>> {
    proptest::collection::vec(related(bits), n)
        .prop_map(|v| {
            let mut out: Vec<u64> = v.iter().map(|p| p.0).collect();
            out.extend(v.iter().map(|p| p.1));
            out
        })
        .boxed()
}

/// Word vectors in which later operands are *related* to the first one: with probability 1/4 the vector is made
/// periodic with a period equal to the word count of some operand type (2, 3, 4, 6, 9, 12, 16 …), so that a call
/// `f(a, b)` whose operands consume that many words each receives b = a (aliasing), b = a with the sign of its
/// zeros flipped, b = -a, or b = a with one word changed. `bits` is the float width the words carry (32 / 64).
pub fn with_related_operands(base: BoxedStrategy<Vec<u64>>, bits: u32) -> BoxedStrategy<Vec<u64>> {
    (base, 0u8..16, 0usize..9, 0u8..4, any::<u16>())
        .prop_map(move |(mut w, gate, pi, mode, pick)| {
            if gate >= 4 || w.len() < 2 {
                return w;
            }
            let p = [1usize, 2, 3, 4, 6, 8, 9, 12, 16][pi].min(w.len() - 1).max(1);
            let sign: u64 = if bits == 32 { 0x8000_0000 } else { 0x8000_0000_0000_0000 };
            let mag: u64 = sign - 1;
            let n = w.len();
            for i in p..n {
                let src = w[i % p];
                w[i] = match mode {
                    0 => src,
                    1 => if src & mag == 0 { src ^ sign } else { src },
                    2 => src ^ sign,
                    _ => src,
                };
            }
            if mode == 3 {
                // one word of the second operand differs (next representable value)
                let k = p + (pick as usize) % p.min(n - p).max(1);
                if k < n {
                    w[k] = w[k].wrapping_add(1);
                }
            }
            w
        })
        .boxed()
}

/// classification of an f32 lane
pub fn class_f32(b: u32) -> &'static str {
    let x = f32::from_bits(b);
    if x.is_nan() {
        "nan"
    } else if x.is_infinite() {
        "inf"
    } else if x == 0.0 {
        "zero"
    } else if !x.is_normal() {
        "subnormal"
    } else if x.abs() >= 8388608.0 {
        "ge2^23"
    } else if (x * 2.0).fract() == 0.0 && x.fract() != 0.0 {
        "tie"
    } else if x.fract() == 0.0 {
        "integer"
    } else {
        "ordinary"
    }
}

pub fn class_f64(b: u64) -> &'static str {
    let x = f64::from_bits(b);
    if x.is_nan() {
        "nan"
    } else if x.is_infinite() {
        "inf"
    } else if x == 0.0 {
        "zero"
    } else if !x.is_normal() {
        "subnormal"
    } else if x.abs() >= 4503599627370496.0 {
        "ge2^52"
    } else if (x * 2.0).fract() == 0.0 && x.fract() != 0.0 {
        "tie"
    } else if x.fract() == 0.0 {
        "integer"
    } else {
        "ordinary"
    }
}

pub fn class(bits: u32, w: u64) -> &'static str {
    if bits == 32 {
        class_f32(w as u32)
    } else {
        class_f64(w)
    }
}

/// Boundary-biased integers of a given width/signedness, as sign-extended i128 in two words? No:
/// returned as the raw two's-complement bit pattern truncated to `bits`, in a u64.
pub fn lat_int(bits: u32, signed: bool) -> BoxedStrategy<u64> {
    let mask: u64 = if bits == 64 { u64::MAX } else { (1u64 << bits) - 1 };
    let (min, max): (u64, u64) = if signed { (1u64 << (bits - 1), (1u64 << (bits - 1)) - 1) } else { (0, mask) };
    let specials: Vec<u64> = {
        let mut v = vec![0u64, 1, 2, 3, mask, mask.wrapping_sub(1) & mask, min, (min + 1) & mask, max, max.wrapping_sub(1) & mask, 10, 100, 7];
        if signed {
            v.extend_from_slice(&[(!2u64 + 1) & mask, (!3u64 + 1) & mask, (!7u64 + 1) & mask]);
        }
        v
    };
    prop_oneof![
        30 => proptest::sample::select(specials),
        20 => (0u32..bits, 0u8..3, any::<bool>()).prop_map(move |(k, d, neg)| {
            let p = 1u64 << k;
            let x = match d { 0 => p, 1 => p.wrapping_add(1), _ => p.wrapping_sub(1) };
            (if neg { (!x).wrapping_add(1) } else { x }) & mask
        }),
        15 => (0u64..256).prop_map(move |x| x & mask),
        10 => (0u64..256).prop_map(move |x| ((!x).wrapping_add(1)) & mask),
        25 => any::<u64>().prop_map(move |x| x & mask),
    ]
    .boxed()
}
